//go:build verif

package vdr

// C18 correspondence harness, part 2 (injected with `go test -overlay`): the REAL vdr.Module — DIDResolverRouter,
// did:web chain [own SQL store, web], didsubject.Resolver on SQLite, did:nuts store, did:jwk and did:key resolvers —
// configured through Module.Configure. Outbound traffic goes through the real strict HTTP client and a recording
// fake transport. Writes ops.jsonl / impl.out like part 1.

import (
	"bufio"
	"crypto"
	"crypto/ecdsa"
	"crypto/ed25519"
	"crypto/elliptic"
	"crypto/x509"
	"encoding/asn1"
	"encoding/binary"
	"math/big"
	"encoding/base64"
	"encoding/hex"
	"encoding/json"
	"errors"
	"fmt"
	"io"
	"math/rand"
	"mime"
	"net/http"
	"os"
	"path/filepath"
	"sort"
	"strconv"
	"strings"
	"sync"
	"testing"
	"time"

	"github.com/lestrrat-go/jwx/v2/jwk"
	"github.com/mr-tron/base58"
	"github.com/nuts-foundation/go-did/did"
	"github.com/nuts-foundation/nuts-node/core"
	"github.com/nuts-foundation/nuts-node/crypto/hash"
	"github.com/nuts-foundation/nuts-node/http/client"
	"github.com/nuts-foundation/nuts-node/pki"
	"github.com/nuts-foundation/nuts-node/storage"
	"github.com/nuts-foundation/nuts-node/storage/orm"
	"github.com/nuts-foundation/nuts-node/vdr/didnuts/didstore"
	"github.com/nuts-foundation/nuts-node/vdr/didsubject"
	"github.com/nuts-foundation/nuts-node/vdr/resolver"
	"go.uber.org/mock/gomock"
	"gorm.io/gorm"
)

type wResp struct {
	St   int     `json:"st"`
	Ct   string  `json:"ct"`
	Mt   *string `json:"mt,omitempty"`
	Loc  string  `json:"loc"`
	Body string  `json:"body"`
}

type wSib struct {
	DID  string   `json:"did"`
	Hist []string `json:"hist"`
}

type wReg struct {
	M   string `json:"m"`
	Out string `json:"out"`
}

type wOp struct {
	Outs    []string `json:"outs,omitempty"` // op chain: what each member resolver of a ChainedDIDResolver answers
	Regs    []wReg   `json:"regs,omitempty"` // op router: Register calls in order
	Vers    []wVer   `json:"vers,omitempty"` // op rtime: the versions of this DID in the node's store (active?, updated_at offset)
	At      *int64   `json:"at,omitempty"`   // op rtime: ResolveMetadata.ResolveTime (offset; absent = none)
	Op      string   `json:"op"`
	Methods []string `json:"methods,omitempty"` // node: config didmethods
	Strict  bool     `json:"strict,omitempty"`
	M       string   `json:"m,omitempty"`
	ID      string   `json:"id,omitempty"`
	Hist    []string `json:"hist,omitempty"`  // resolve: versions written to the node's own store for this DID, oldest first
	Local   string   `json:"local,omitempty"` // absent | active | deactivated: expectation for the oracle (the model recomputes it from hist)
	Allow   bool     `json:"allow,omitempty"`
	NonNil  bool     `json:"nonnil,omitempty"` // resolve without AllowDeactivated but with a non-nil (empty) ResolveMetadata
	KeyBound *bool   `json:"keybound,omitempty"` // oracle data: the document's key IS the key the identifier encodes (did:jwk / did:key)
	Digest  string   `json:"digest,omitempty"`   // oracle data: digest of the whole resolved document
	Fault   bool     `json:"fault,omitempty"` // resolve: the node's SQL connection has been closed (storage fault) before this resolution
	KeyOK   bool     `json:"keyok,omitempty"` // did:jwk / did:key: the library decoded the identifier into a supported public key
	Resps   []wResp  `json:"resps,omitempty"`
	Again   string   `json:"again,omitempty"` // outcome of a second, identical resolution
	MC      *string  `json:"mc,omitempty"`    // did:key: the bytes base58btc decodes the identifier (without its first character) to (absent = not base58): library verdict
	ECOK    bool     `json:"ecok,omitempty"`  // did:key: the bytes after the codec decompress to a point of the curve the codec names (library verdict)
	RSA     string   `json:"rsa,omitempty"`   // did:key: PKCS#1 verdict on the bytes after the codec: parse | small | ok
	Sib     []wSib   `json:"sib,omitempty"`   // did:web: the DIDs in this node's store that differ from the requested one only in letter case, with their histories
	Lib     *wJwkLib `json:"lib,omitempty"`   // op jwk: library verdicts on the decoded bytes (parser, private key, curve point, verification method)
	Tag     string   `json:"tag,omitempty"`
}

func whx(s string) string { return hex.EncodeToString([]byte(s)) }
func wunhx(s string) string {
	b, err := hex.DecodeString(s)
	if err != nil {
		panic("bad hex " + s)
	}
	return string(b)
}

type wRT struct {
	mu    sync.Mutex
	resps []wResp
	n     int
}

func (f *wRT) RoundTrip(r *http.Request) (*http.Response, error) {
	f.mu.Lock()
	defer f.mu.Unlock()
	hop := f.n
	f.n++
	if hop >= len(f.resps) || f.resps[hop].St == 0 {
		return nil, errors.New("verif: transport error")
	}
	rs := f.resps[hop]
	h := http.Header{}
	if rs.Ct != "" {
		h.Set("Content-Type", wunhx(rs.Ct))
	}
	if rs.Loc != "" {
		h.Set("Location", wunhx(rs.Loc))
	}
	data := ""
	if strings.HasPrefix(rs.Body, "doc:") {
		j, _ := json.Marshal(map[string]interface{}{"@context": "https://www.w3.org/ns/did/v1", "id": wunhx(rs.Body[4:])})
		data = string(j)
	} else if rs.Body == "badjson" {
		data = "{not json"
	}
	return &http.Response{StatusCode: rs.St, Status: strconv.Itoa(rs.St) + " X", Header: h, Body: io.NopCloser(strings.NewReader(data)),
		ContentLength: int64(len(data)), Proto: "HTTP/1.1", ProtoMajor: 1, ProtoMinor: 1, Request: r}, nil
}

type wNode struct {
	faulty bool
	sqlDB  interface{ Close() error }
	gdb    *gorm.DB
	m     *Module
	rt    *wRT
	db    *didsubject.SqlDIDDocumentManager
	store didstore.Store
	seen  map[string][]string // DID -> history written so far
	clock uint32
}

func wErr(err error) string {
	m := err.Error()
	switch {
	case strings.Contains(m, "database is closed") && !errors.Is(err, resolver.ErrNotFound) && !errors.Is(err, resolver.ErrDeactivated):
		return "db"
	case errors.Is(err, resolver.ErrDIDMethodNotSupported):
		return "method-not-supported"
	case errors.Is(err, resolver.ErrNotFound):
		return "not-found"
	case errors.Is(err, resolver.ErrDeactivated):
		return "deactivated"
	case strings.HasPrefix(m, "did:web HTTP error"):
		switch {
		case strings.Contains(m, "request is not over HTTPS"):
			return "http:strict"
		case strings.Contains(m, "stopped after 10 redirects"):
			return "http:too-many-redirects"
		case strings.Contains(m, "failed to parse Location header"):
			return "http:location"
		case strings.Contains(m, "redirect"):
			return "http:redirect-refused"
		case strings.Contains(m, "verif: transport error"):
			return "http:transport"
		}
		return "http:other:" + m
	case strings.HasPrefix(m, "did:web non-ok HTTP status"):
		return "status"
	case strings.HasPrefix(m, "did:web invalid content-type"):
		return "ct-invalid"
	case strings.HasPrefix(m, "did:web unsupported content-type"):
		return "ct-unsupported"
	case strings.HasPrefix(m, "did:web JSON unmarshal error"):
		return "json"
	case strings.HasPrefix(m, "did:web document ID mismatch"):
		return "id-mismatch"
	case strings.Contains(m, "invalid did:web") || strings.Contains(m, "parse \"https://"):
		return "d2u"
	}
	return "other:" + m
}

func wNewNode(t *testing.T, op wOp) *wNode {
	n := &wNode{rt: &wRT{}, seen: map[string][]string{}}
	client.DefaultCachingTransport = n.rt
	client.StrictMode = op.Strict
	eng := storage.NewTestStorageEngine(t)
	n.store = didstore.TestStore(t, eng)
	n.m = NewVDR(nil, nil, n.store, nil, eng, pki.NewMockValidator(gomock.NewController(t)))
	if err := n.m.Configure(core.ServerConfig{URL: "https://nuts.nl", DIDMethods: op.Methods, Strictmode: op.Strict}); err != nil {
		panic("configure: " + err.Error())
	}
	n.db = didsubject.NewDIDDocumentManager(eng.GetSQLDatabase())
	n.gdb = eng.GetSQLDatabase()
	if sqlDB, err := eng.GetSQLDatabase().DB(); err == nil {
		n.sqlDB = sqlDB
	}
	return n
}

// wApplyHistory writes the versions of op.Hist that this node has not seen yet for the DID
func (n *wNode) wApplyHistory(id did.DID, hist []string) {
	have := n.seen[id.String()]
	for i := len(have); i < len(hist); i++ {
		// a "+" suffix: the version was written by an instance whose clock is a few minutes ahead (updated_at in the future)
		ahead := strings.HasSuffix(hist[i], "+")
		active := strings.TrimSuffix(hist[i], "+") == "active"
		if id.Method == "nuts" {
			doc := did.Document{ID: id}
			if hist[i] == "controlled" || hist[i] == "orphaned" { // no capabilityInvocation of its own: active only through an active controller
				ctrl := did.MustParseDID("did:nuts:controllerOf" + id.ID)
				if hist[i] == "orphaned" {
					ctrl = did.MustParseDID("did:nuts:nobody" + id.ID)
				} else {
					n.wApplyHistory(ctrl, []string{"active"})
				}
				doc.Controller = []did.DID{ctrl}
			}
			if active {
				kid := did.DIDURL{DID: id, Fragment: "k"}
				doc.CapabilityInvocation = did.VerificationRelationships{{VerificationMethod: &did.VerificationMethod{ID: kid, Controller: id, Type: "JsonWebKey2020"}}}
				doc.VerificationMethod = did.VerificationMethods{doc.CapabilityInvocation[0].VerificationMethod}
			}
			raw, _ := json.Marshal(doc)
			n.clock++
			tx := didstore.Transaction{Clock: n.clock, SigningTime: time.Unix(1700000000+int64(n.clock), 0).UTC(),
				Ref: hash.SHA256Sum([]byte(fmt.Sprintf("ref-%s-%d", id.String(), i))), PayloadHash: hash.SHA256Sum(raw)}
			if i > 0 {
				tx.Previous = []hash.SHA256Hash{hash.SHA256Sum([]byte(fmt.Sprintf("ref-%s-%d", id.String(), i-1)))}
			}
			if err := n.store.Add(doc, tx); err != nil {
				panic("didstore add: " + err.Error())
			}
		} else {
			var vms []orm.VerificationMethod
			if active {
				vms = []orm.VerificationMethod{{ID: id.String() + "#k" + strconv.Itoa(i), KeyTypes: 31, Data: []byte("{}")}}
			}
			ver, err := n.db.CreateOrUpdate(orm.DID{ID: id.String(), Subject: "s-" + id.String()}, vms, nil)
			if err != nil {
				panic("sql create: " + err.Error())
			}
			if ahead {
				ts := time.Now().Unix() + 120 + int64(i)*7
				if err := n.gdb.Model(&orm.DidDocument{}).Where("id = ?", ver.ID).Update("updated_at", ts).Error; err != nil {
					panic("sql skew: " + err.Error())
				}
			}
		}
	}
	if len(hist) > len(have) {
		n.seen[id.String()] = hist
	}
}

var wLastDoc *did.Document
var wNonNil bool

func (n *wNode) resolveOnce(id did.DID, allow bool, resps []wResp) (string, int) {
	wLastDoc = nil
	n.rt.mu.Lock()
	n.rt.resps, n.rt.n = resps, 0
	n.rt.mu.Unlock()
	var md *resolver.ResolveMetadata
	if allow {
		md = &resolver.ResolveMetadata{AllowDeactivated: true}
	} else if wNonNil || id.Method == "x509" {
		md = &resolver.ResolveMetadata{}
	}
	doc, meta, err := n.m.Resolver().Resolve(id, md)
	if err != nil {
		if id.Method == "x509" {
			return "err:x509", n.rt.n
		}
		if id.Method == "key" {
			return "err:invalid-key:" + wKeyClass(err.Error()), n.rt.n
		}
		return "err:" + wErr(err), n.rt.n
	}
	wLastDoc = doc
	return fmt.Sprintf("ok:%s:%v", whx(doc.ID.String()), meta.Deactivated), n.rt.n
}

func wExec(t *testing.T, node **wNode, op *wOp) (line string) {
	defer func() {
		if r := recover(); r != nil {
			line = fmt.Sprintf("%s panic:%v", op.Op, r)
		}
	}()
	switch op.Op {
	case "node":
		*node = wNewNode(t, *op)
		return "node ok"
	case "jwk":
		return wExecJwk(op)
	case "rtime":
		return wExecRTime(*node, op)
	case "chain":
		return wExecChain(op)
	case "router":
		return wExecRouter(op)
	case "resolve":
		id := did.DID{Method: wunhx(op.M), ID: wunhx(op.ID)}
		n := *node
		if !n.faulty {
			n.wApplyHistory(id, op.Hist)
		}
		if id.Method == "web" {
			if !n.faulty { // a replayed op brings the case-variant siblings of its DID along
				for _, sb := range op.Sib {
					if sid, err := did.ParseDID(wunhx(sb.DID)); err == nil {
						n.wApplyHistory(*sid, sb.Hist)
					}
				}
			}
			op.Sib = nil
			var keys []string
			for k := range n.seen {
				if k != id.String() && strings.EqualFold(k, id.String()) {
					keys = append(keys, k)
				}
			}
			sort.Strings(keys)
			for _, k := range keys {
				op.Sib = append(op.Sib, wSib{DID: whx(k), Hist: n.seen[k]})
			}
		}
		if op.Fault && !n.faulty {
			// storage fault: from now on every SQL statement of this node fails ("sql: database is closed")
			n.sqlDB.Close()
			n.faulty = true
		}
		wNonNil = op.NonNil
		out, reqs := n.resolveOnce(id, op.Allow, op.Resps)
		if wLastDoc != nil {
			raw, _ := json.Marshal(wLastDoc)
			op.Digest = hash.SHA256Sum(raw).String()[:12]
			if id.Method == "jwk" || id.Method == "key" {
				b := wKeyBound(id, wLastDoc)
				op.KeyBound = &b
			}
		}
		// library verdict for the key methods (data for the model), and a second identical resolution
		if id.Method == "jwk" || id.Method == "key" {
			op.KeyOK = strings.HasPrefix(out, "ok:")
			if !op.KeyOK && id.Method == "jwk" {
				out = "err:invalid-key"
			}
		}
		if id.Method == "key" {
			wKeyVerdicts(op, id.ID)
		}
		again, _ := n.resolveOnce(id, op.Allow, op.Resps)
		if id.Method == "jwk" && !strings.HasPrefix(again, "ok:") {
			again = "err:invalid-key"
		}
		op.Again = again
		return fmt.Sprintf("resolve reqs=%d out=%s", reqs, out)
	}
	return "bad-op:" + op.Op
}

// wKeyBound: is every verification method of the document the key that the identifier itself encodes?
func wKeyBound(id did.DID, doc *did.Document) bool {
	if len(doc.VerificationMethod) == 0 {
		return false
	}
	var want []byte
	if id.Method == "jwk" {
		raw, err := base64.RawStdEncoding.DecodeString(id.ID)
		if err != nil {
			return false
		}
		k, err := jwk.ParseKey(raw)
		if err != nil {
			return false
		}
		want, _ = k.Thumbprint(crypto.SHA256)
	}
	for _, vm := range doc.VerificationMethod {
		pk, err := vm.PublicKey()
		if err != nil {
			return false
		}
		k, err := jwk.FromRaw(pk)
		if err != nil {
			return false
		}
		got, _ := k.Thumbprint(crypto.SHA256)
		if id.Method == "jwk" {
			if string(got) != string(want) {
				return false
			}
		} else if ed, ok := pk.(ed25519.PublicKey); ok {
			// the key bytes are what follows the multicodec varint (Go reads over-long encodings of the codec too)
			mc, err := base58.Decode(id.ID[1:])
			if err != nil {
				return false
			}
			_, n := binary.Uvarint(mc)
			if n <= 0 || len(mc)-n != 32 || string(mc[n:]) != string(ed) {
				return false
			}
		}
		if vm.Controller.String() != id.String() || vm.ID.DID.String() != id.String() {
			return false
		}
	}
	return true
}

// ---------- generator

func wJWK(r *rand.Rand, private bool) string {
	seed := make([]byte, 64)
	r.Read(seed)
	var raw interface{}
	if r.Intn(2) == 0 {
		k, _ := ecdsa.GenerateKey(elliptic.P256(), strings.NewReader(strings.Repeat(string(seed), 8)))
		raw = k
		if !private {
			raw = k.Public()
		}
	} else {
		k := ed25519.NewKeyFromSeed(seed[:32])
		raw = k
		if !private {
			raw = k.Public()
		}
	}
	key, err := jwk.FromRaw(raw)
	if err != nil {
		panic(err)
	}
	b, _ := json.Marshal(key)
	return base64.RawStdEncoding.EncodeToString(b)
}

var wKeyExamples = []string{
	"z6MkhaXgBZDvotDkL5257faiztiGiC2QtKLGpbnnEGta2doK", "z6MkiTBz1ymuepAQ4HEHYSF1H8quG5GLVVQR3djdX3mDooWp",
	"zDnaerDaTF5BXEavCrfRZEk316dpbLsfPDZ3WJ5hRTPFU2169", "z82Lm1MpAkeJcix9K8TMiLd5NMAhnwkjjCBeWHXyu3U4oT2MVJJKXkcVBgjGhnLBn2Kaau9",
	"zQ3shokFTS3brHcDQrn82RUDfCZESWL1ZdCEJwekUDPQiYBme", "zUC7K4ndUaGZgV7Cp2yJy6JtMoUHY6u7tkcSYUvPrEidqBmLCTLmi6d5WvwnUqejscAkERJ3bfjEiSYtdPkRSE8kSa11hFBr4sTgnbZ95SJj19PN2jdvJjyzpSZgxkyyxNnBNnY",
	"z6LSeu9HkTHSfLLeUs2nnzUSNedgDUevfNQgQjQC23ZCit6F", "z", "z6Mk", "x6MkhaXgBZDvotDkL5257faiztiGiC2QtKLGpbnnEGta2doK", "z0OIl", "zzzzzzzz",
}


// wKeyClass maps the error of didkey.Resolver to the refusal site
func wKeyClass(err string) string {
	switch {
	case strings.Contains(err, "does not start with 'z'"):
		return "noz"
	case strings.Contains(err, "invalid base58btc"):
		return "base58"
	case strings.Contains(err, "invalid multicodec value"):
		return "multicodec"
	case strings.Contains(err, "bls12381"):
		return "unsupported:Bls12_381G2Pub"
	case strings.Contains(err, "secp256k1"):
		return "unsupported:Secp256k1Pub"
	case strings.Contains(err, "invalid public key length"):
		return "len"
	case strings.Contains(err, "invalid PKCS#1"):
		return "rsa-parse"
	case strings.Contains(err, "RSA public key is too small"):
		return "rsa-small"
	case strings.Contains(err, "unsupported public key type"):
		return "type"
	}
	return "lib"
}

// wKeyVerdicts fills the library verdicts of a did:key identifier (independent of the resolver)
func wKeyVerdicts(op *wOp, id string) {
	op.MC, op.ECOK, op.RSA = nil, false, ""
	if len(id) == 0 {
		return
	}
	mc, err := base58.DecodeAlphabet(id[1:], base58.BTCAlphabet)
	if err != nil {
		return
	}
	h := hex.EncodeToString(mc)
	op.MC = &h
	code, n := binary.Uvarint(mc)
	if n <= 0 {
		return
	}
	key := mc[n:]
	var curve elliptic.Curve
	switch code {
	case 0x1200:
		curve = elliptic.P256()
	case 0x1201:
		curve = elliptic.P384()
	case 0x1202:
		curve = elliptic.P521()
	case 0x1205:
		k, err := x509.ParsePKCS1PublicKey(key)
		switch {
		case err != nil:
			op.RSA = "parse"
		case k.N.BitLen() <= 2040: // fewer than 2048 bits (in whole bytes)
			op.RSA = "small"
		default:
			op.RSA = "ok"
		}
	}
	if curve != nil {
		func() {
			defer func() { recover() }()
			x, _ := elliptic.UnmarshalCompressed(curve, key)
			op.ECOK = x != nil
		}()
	}
}

func wRSAKey(r *rand.Rand, bits int) []byte {
	n := make([]byte, bits/8)
	r.Read(n)
	n[0] |= 0x80
	n[len(n)-1] |= 1
	b, _ := asn1.Marshal(struct {
		N *big.Int
		E int
	}{new(big.Int).SetBytes(n), 65537})
	return b
}

var wKeyCodes = []uint64{0xeb, 0xec, 0xed, 0xe7, 0x1200, 0x1201, 0x1202, 0x1205, 0x1203, 0x1204, 0x00, 0x7f, 0x80, 0x12, 0xe8, 0xee, 0x11ff, 0xed01}

// wDidKeySystematic: every codec of the switch (and neighbours), canonical / over-long / truncated / overflowing
// varints, key lengths around the expected one, valid and invalid curve points, RSA keys of both sizes
func wDidKeySystematic(r *rand.Rand) string {
	code := wKeyCodes[r.Intn(len(wKeyCodes))]
	if r.Intn(4) != 0 {
		code = wKeyCodes[r.Intn(8)] // the codecs of the switch
	}
	pre := binary.AppendUvarint(nil, code)
	switch r.Intn(12) {
	case 0: // over-long (non-canonical) encoding of the same code
		pre[len(pre)-1] |= 0x80
		pre = append(pre, 0x00)
	case 1: // truncated: continuation bit on the last byte, nothing follows
		pre[len(pre)-1] |= 0x80
		return "z" + base58.Encode(pre)
	case 2: // ten or eleven continuation bytes
		pre = append(make([]byte, 0), 0xff, 0xff, 0xff, 0xff, 0xff, 0xff, 0xff, 0xff, 0xff)
		pre = append(pre, []byte{0x01, 0x02, 0x7f, 0x80}[r.Intn(4)])
		if r.Intn(2) == 0 {
			pre = append(pre, 0x01)
		}
	}
	var body []byte
	want := map[uint64]int{0xec: 32, 0xed: 32, 0x1200: 33, 0x1201: 49, 0x1202: 67}[code]
	switch code {
	case 0x1200, 0x1201, 0x1202:
		curve := map[uint64]elliptic.Curve{0x1200: elliptic.P256(), 0x1201: elliptic.P384(), 0x1202: elliptic.P521()}[code]
		if k, err := ecdsa.GenerateKey(curve, r); err == nil && r.Intn(3) != 0 {
			body = elliptic.MarshalCompressed(curve, k.X, k.Y)
			if r.Intn(5) == 0 {
				body[0] = byte(r.Intn(8)) // other / invalid prefix byte
			}
			if r.Intn(5) == 0 {
				body[1+r.Intn(len(body)-1)] ^= byte(1 + r.Intn(255)) // most probably no longer on the curve
			}
		}
	case 0x1205:
		switch r.Intn(4) {
		case 0:
			body = wRSAKey(r, 2048)
		case 1:
			body = wRSAKey(r, []int{512, 1024, 2040}[r.Intn(3)])
		case 2:
			body = wRSAKey(r, 2048)
			body = body[:len(body)-1-r.Intn(8)]
		}
	}
	if body == nil {
		n := want + []int{0, 0, 0, -1, 1, -want, 7}[r.Intn(7)]
		if want == 0 {
			n = r.Intn(40)
		}
		if n < 0 {
			n = 0
		}
		body = make([]byte, n)
		r.Read(body)
	}
	return "z" + base58.Encode(append(pre, body...))
}

func wDidKey(r *rand.Rand) string {
	if r.Intn(3) != 0 {
		return wDidKeySystematic(r)
	}
	switch r.Intn(4) {
	case 0:
		pub := make([]byte, 32)
		r.Read(pub)
		return "z" + base58.Encode(append([]byte{0xed, 0x01}, pub...))
	case 1: // wrong length / unknown codec
		pub := make([]byte, 1+r.Intn(40))
		r.Read(pub)
		return "z" + base58.Encode(append([]byte{byte(r.Intn(256)), 0x01}, pub...))
	}
	return wKeyExamples[r.Intn(len(wKeyExamples))]
}

func wGenerate(seed int64, thorough bool) []wOp {
	r := rand.New(rand.NewSource(seed*104729 + 1818))
	var ops []wOp
	nodes, per := 6, 250
	if thorough {
		nodes, per = 24, 1200
	}
	methodSets := [][]string{{"web", "nuts"}, {"web"}, {"web", "nuts"}, {"nuts"}, {"nuts", "web"}, {"web"}}
	hists := [][]string{nil, nil, nil, {"active"}, {"deactivated"}, {"active", "deactivated"}, {"active", "active"}, {"active", "deactivated", "active"}, {"active", "active", "deactivated"}, {"deactivated", "deactivated"}}
	for ni := 0; ni < nodes; ni++ {
		ops = append(ops, wOp{Op: "node", Methods: methodSets[(ni+int(seed))%len(methodSets)], Strict: r.Intn(4) != 0})
		// did:key: the whole decision table (codec x varint shape x key length x key validity), no store involved
		nk := 40
		if thorough {
			nk = 400
		}
		for k := 0; k < nk; k++ {
			ops = append(ops, wOp{Op: "resolve", M: whx("key"), ID: whx(wDidKeySystematic(r)), Tag: "key-systematic", Allow: r.Intn(4) == 0})
		}
		// did:jwk: the decision table of the resolver itself (encoding shape x key text), no store, no node state
		nj := 60
		if thorough {
			nj = 500
		}
		for k := 0; k < nj; k++ {
			ops = append(ops, wJwkSystematic(r))
		}
		ops = append(ops, wChainOps(r, nj)...)
		ops = append(ops, wRTimeOps(r, nj/3, ni)...)
		for k := 0; k < per; k++ {
			op := wOp{Op: "resolve", Allow: r.Intn(3) == 0}
			op.NonNil = !op.Allow && r.Intn(2) == 0
			switch x := r.Intn(10); {
			case x < 5: // did:web, local and/or remote
				host := fmt.Sprintf("h%d.example", r.Intn(40))
				id := host
				if r.Intn(2) == 0 {
					id += "%3A8443"
				}
				for s := r.Intn(3); s > 0; s-- {
					id += ":" + []string{"iam", "u1", "a%2Bb", "x"}[r.Intn(4)]
				}
				op.M, op.ID, op.Tag = whx("web"), whx(id), "web"
				op.Hist = hists[r.Intn(len(hists))]
				if r.Intn(4) == 0 {
					// wave 8: DIDs that differ only in letter case (host or path segment) are different DIDs with their own
					// histories (different lengths, one deactivated, one not managed at all)
					id = []string{"c%d.example:iam:tenant", "c%d.example:iam:Tenant", "c%d.example:IAM:tenant", "C%d.example:iam:tenant", "c%d.example:iam:TENANT"}[r.Intn(5)]
					id = fmt.Sprintf(id, r.Intn(3))
					op.ID, op.Tag = whx(id), "web-case-variant"
				}
				if r.Intn(4) == 0 {
					op.Hist = [][]string{{"active+"}, {"deactivated+"}, {"active", "deactivated+"}, {"active+", "deactivated+"}, {"active", "active+"}, {"deactivated", "active+"}, {"active+", "deactivated"}}[r.Intn(7)]
					op.Tag = "web-clock-skew"
				}
				didStr := "did:web:" + id
				var l []wResp
				for r.Intn(4) == 0 && len(l) < 3 {
					to := []string{"https://" + strings.Replace(strings.Split(id, ":")[0], "%3A", ":", 1), "https://evil.example", "http://127.0.0.1"}[r.Intn(3)]
					l = append(l, wResp{St: 302, Loc: whx(to + "/x/did.json"), Body: "empty"})
				}
				body := "doc:" + whx(didStr)
				if r.Intn(6) == 0 {
					body = "doc:" + whx("did:web:evil.example")
				}
				st := 200
				if r.Intn(8) == 0 {
					st = 404
				}
				ct := []string{"application/json", "application/did+json", "application/did+ld+json", "text/html", ""}[r.Intn(5)]
				l = append(l, wResp{St: st, Ct: whx(ct), Body: body})
				op.Resps = l
			case x < 7:
				id := fmt.Sprintf("%s%d", []string{"8Zr7", "Abc9", "B1xY"}[r.Intn(3)], r.Intn(30))
				op.M, op.ID, op.Tag = whx("nuts"), whx(id), "nuts"
				op.Hist = hists[r.Intn(len(hists))]
				if r.Intn(4) == 0 {
					op.Hist = [][]string{{"controlled"}, {"active", "controlled"}, {"controlled", "deactivated"}, {"controlled", "controlled"}, {"orphaned"}, {"active", "orphaned"}}[r.Intn(6)]
				}
			case x < 8:
				id := wJWK(r, r.Intn(5) == 0)
				if r.Intn(6) == 0 {
					id = []string{"e30", "bm90IGpzb24", "eyJrdHkiOiJvY3QiLCJrIjoiQUFBQSJ9", "AAAA", "%41", "e30="}[r.Intn(6)]
				}
				op.M, op.ID, op.Tag = whx("jwk"), whx(id), "jwk"
			case x < 9:
				op.M, op.ID, op.Tag = whx("key"), whx(wDidKey(r)), "key"
			default:
				if r.Intn(3) == 0 {
					op.M, op.ID, op.Tag = whx("x509"), whx("0:sha256:WE4P5dd8DnLHSkyHaIjhp4udlkF9LqoKwCvu9gl38jk::san:otherName:"+strconv.Itoa(r.Intn(100))), "x509-no-chain"
					break
				}
				op.M, op.ID, op.Tag = whx([]string{"example", "ion", "ethr", "peer", "x", "webs"}[r.Intn(6)]), whx("abc"), "other-method"
			}
			ops = append(ops, op)
		}
		// fault phase: the SQL connection is closed, then managed (active / deactivated), never-seen and remote DIDs are resolved
		var seenWeb []wOp
		for _, o := range ops[len(ops)-per:] {
			if o.Tag == "web" && len(o.Hist) > 0 {
				seenWeb = append(seenWeb, o)
			}
		}
		for k := 0; k < 12 && len(seenWeb) > 0; k++ {
			o := seenWeb[r.Intn(len(seenWeb))]
			o.Fault, o.Allow, o.Again, o.Tag = true, r.Intn(3) == 0, "", "web-dbfault"
			// the web server would happily serve an ACTIVE document for this DID
			o.Resps = []wResp{{St: 200, Ct: whx("application/did+json"), Body: "doc:" + whx("did:web:"+wunhx(o.ID))}}
			ops = append(ops, o)
		}
		for k := 0; k < 3; k++ {
			id := fmt.Sprintf("fresh%d.example", k)
			ops = append(ops, wOp{Op: "resolve", M: whx("web"), ID: whx(id), Fault: true, Tag: "web-dbfault",
				Resps: []wResp{{St: 200, Ct: whx("application/json"), Body: "doc:" + whx("did:web:"+id)}}})
		}
	}
	return ops
}

// ---------- entry point

func wReadOps(path string) []wOp {
	f, err := os.Open(path)
	if err != nil {
		panic(err)
	}
	defer f.Close()
	var ops []wOp
	sc := bufio.NewScanner(f)
	sc.Buffer(make([]byte, 1<<20), 1<<26)
	for sc.Scan() {
		t := strings.TrimSpace(sc.Text())
		if t == "" || strings.HasPrefix(t, "#") {
			continue
		}
		var op wOp
		if err := json.Unmarshal([]byte(t), &op); err != nil {
			panic(fmt.Sprintf("bad op line %q: %v", t, err))
		}
		ops = append(ops, op)
	}
	return ops
}

func TestVerifC18(t *testing.T) {
	out := os.Getenv("VERIF_OUT")
	if out == "" {
		t.Skip("VERIF_OUT not set")
	}
	seed, _ := strconv.ParseInt(os.Getenv("VERIF_SEED"), 10, 64)
	var ops []wOp
	if rp := os.Getenv("VERIF_REPLAY"); rp != "" {
		ops = wReadOps(rp)
	} else {
		if dir := os.Getenv("VERIF_CORPUS"); dir != "" {
			files, _ := filepath.Glob(filepath.Join(dir, "*.jsonl"))
			sort.Strings(files)
			for _, f := range files {
				ops = append(ops, wReadOps(f)...)
			}
		}
		ops = append(ops, wGenerate(seed, os.Getenv("VERIF_TIER") == "thorough")...)
	}
	oldT, oldS := client.DefaultCachingTransport, client.StrictMode
	defer func() { client.DefaultCachingTransport, client.StrictMode = oldT, oldS }()
	fo, _ := os.Create(filepath.Join(out, "ops.jsonl"))
	fi, _ := os.Create(filepath.Join(out, "impl.out"))
	wo, wi := bufio.NewWriter(fo), bufio.NewWriter(fi)
	var node *wNode
	for i := range ops {
		op := &ops[i]
		if node != nil && op.Op == "resolve" {
			// an earlier op may already have written versions for this DID on this node: the history continues
			if h := node.seen[(did.DID{Method: wunhx(op.M), ID: wunhx(op.ID)}).String()]; len(h) > 0 {
				if len(op.Hist) > len(h) {
					op.Hist = append(append([]string{}, h...), op.Hist[len(h):]...)
				} else {
					op.Hist = h
				}
			}
		}
		// for the oracle: what a reader of the property expects the node's own store to say about this DID
		op.Local = "absent"
		if len(op.Hist) > 0 {
			op.Local = strings.TrimSuffix(op.Hist[len(op.Hist)-1], "+")
			if op.Local == "controlled" {
				op.Local = "active"
			}
			if op.Local == "orphaned" {
				op.Local = "deactivated" // no active controller: does not resolve unless allowed
			}
			if wunhx(op.M) == "nuts" {
				for _, v := range op.Hist {
					if v == "deactivated" {
						op.Local = "deactivated" // did:nuts deactivation is permanent
					}
				}
			}
		}
		for k := range op.Resps {
			op.Resps[k].Mt = nil
			if mt, _, err := mime.ParseMediaType(wunhx(op.Resps[k].Ct)); err == nil {
				h := whx(mt)
				op.Resps[k].Mt = &h
			}
		}
		line := wExec(t, &node, op)
		b, _ := json.Marshal(op)
		wo.Write(b)
		wo.WriteByte('\n')
		wi.WriteString(line)
		wi.WriteByte('\n')
	}
	wo.Flush()
	wi.Flush()
	fo.Close()
	fi.Close()
}
