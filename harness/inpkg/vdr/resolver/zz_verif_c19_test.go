//go:build verif

// C19 correspondence + exploration harness for vdr/resolver: key.go (baseUrl, ResolveKeyByID) and service.go (Resolve/ResolveEx).
// Remote DID documents are mutated JSON; go-did's parser is explored (crash/timeout oracle only), the nuts-node code that
// runs on the parsed document is compared with the Lean model.
package resolver

import (
	"encoding/json"
	"errors"
	"fmt"
	mrand "math/rand"
	"os"
	"strings"
	"testing"

	ssi "github.com/nuts-foundation/go-did"
	"github.com/nuts-foundation/go-did/did"
)

type c19Resolver struct {
	docs  map[string]*did.Document
	calls int
}

func (r *c19Resolver) Resolve(id did.DID, _ *ResolveMetadata) (*did.Document, *DocumentMetadata, error) {
	r.calls++
	d, ok := r.docs[id.String()]
	if !ok || d == nil {
		return nil, nil, ErrNotFound
	}
	return d, &DocumentMetadata{}, nil
}

const c19ValidDoc = `{"@context":["https://www.w3.org/ns/did/v1",{"@base":"did:web:example.com"},"https://w3id.org/security/suites/jws-2020/v1"],
"id":"did:web:example.com",
"verificationMethod":[{"id":"#key-1","type":"JsonWebKey2020","controller":"did:web:example.com","publicKeyJwk":{"kty":"EC","crv":"P-256","x":"VovYU-43esqZaDLPBhbV44G6nvSYXHv0_pXFkLL5wWw","y":"kD-ev_48d7JSh-Ig2Rt0qDf_7OrGSPNbMbHxXsfgmVo"}},
{"id":"did:web:example.com#key-2","type":"JsonWebKey2020","controller":"did:web:example.com","publicKeyJwk":{"kty":"EC","crv":"P-256","x":"VovYU-43esqZaDLPBhbV44G6nvSYXHv0_pXFkLL5wWw","y":"kD-ev_48d7JSh-Ig2Rt0qDf_7OrGSPNbMbHxXsfgmVo"}}],
"authentication":["#key-1"],"assertionMethod":["#key-1","did:web:example.com#key-2"],"keyAgreement":["did:web:example.com#key-2"],
"capabilityInvocation":["#key-1"],"capabilityDelegation":["did:web:example.com#key-2"],
"service":[{"id":"did:web:example.com#s1","type":"node","serviceEndpoint":"https://example.com/x"},
{"id":"did:web:example.com#s2","type":"ref","serviceEndpoint":"did:web:other.example.com/serviceEndpoint?type=node"},
{"id":"did:web:example.com#s3","type":"compound","serviceEndpoint":{"a":"did:web:example.com/serviceEndpoint?type=node","b":"https://b"}}]}`

// c19CtxJSON renders the parsed @context entries as the JSON values the model takes
func c19CtxJSON(ctx []interface{}) []any {
	out := make([]any, 0, len(ctx))
	for _, c := range ctx {
		switch v := c.(type) {
		case map[string]interface{}:
			out = append(out, v)
		default:
			b, err := json.Marshal(v)
			var x any
			if err != nil || json.Unmarshal(b, &x) != nil {
				x = fmt.Sprintf("%v", v)
			}
			if _, isMap := x.(map[string]any); isMap { // a non-map Go value that marshals to an object: keep it a non-object for the model
				x = fmt.Sprintf("%v", v)
			}
			out = append(out, x)
		}
	}
	return out
}

func c19ErrKind(err error) string {
	switch {
	case errors.Is(err, ErrKeyNotFound):
		return "ErrKeyNotFound"
	case errors.Is(err, ErrNotFound):
		return "resolve"
	case errors.Is(err, ErrServiceReferenceToDeep):
		return "ErrServiceReferenceToDeep"
	case errors.Is(err, ErrServiceNotFound):
		return "ErrServiceNotFound"
	case errors.As(err, new(ServiceQueryError)):
		return "ValidateServiceReference"
	case strings.HasPrefix(err.Error(), "invalid key ID"):
		return "invalid key ID"
	case strings.HasPrefix(err.Error(), "unable to locate RelationType"):
		return "unable to locate RelationType"
	}
	return "other"
}

func c19Rels(doc *did.Document) []any {
	var out []any
	for _, rs := range []did.VerificationRelationships{doc.Authentication, doc.AssertionMethod, doc.KeyAgreement, doc.CapabilityInvocation, doc.CapabilityDelegation} {
		l := []any{}
		for _, r := range rs {
			id := "<nil-vm>"
			key := "panic"
			if r.VerificationMethod != nil {
				id = r.ID.String()
				rr := r
				// go-did is third-party: what PublicKey() does (ok / error / panic) is data for the model
				key = c19Class(c19Guard(func() string {
					if _, err := rr.PublicKey(); err != nil {
						return "err"
					}
					return "ok"
				}))
				if strings.HasPrefix(key, "panic") {
					key = "panic"
				}
			}
			l = append(l, map[string]any{"id": id, "key": key, "vmNil": r.VerificationMethod == nil})
		}
		out = append(out, l)
	}
	return out
}

func c19RunKey(o *c19Out, doc *did.Document, keyID string, rt RelationType, tag string) {
	res := &c19Resolver{docs: map[string]*did.Document{}}
	_, didErr := GetDIDFromURL(keyID)
	var docJSON any
	if doc != nil {
		if d, err := GetDIDFromURL(keyID); err == nil {
			res.docs[d.String()] = doc
		}
		docJSON = map[string]any{"ctx": c19CtxJSON(doc.Context), "rels": c19Rels(doc)}
	}
	if didErr == nil {
		if d, _ := GetDIDFromURL(keyID); res.docs[d.String()] == nil {
			docJSON = nil
		}
	}
	kr := DIDKeyResolver{Resolver: res}
	if doc != nil {
		b := c19Guard(func() string {
			p := kr.baseUrl(doc)
			if p == nil {
				return "ok:nil"
			}
			return "ok:" + c19Show(*p)
		})
		o.dist["baseurl:"+tag]++
		o.emit(map[string]any{"op": "baseurl", "ctx": c19CtxJSON(doc.Context)}, c19Class(b))
	}
	r := c19Guard(func() string {
		_, err := kr.ResolveKeyByID(keyID, nil, rt)
		if err != nil {
			k := c19ErrKind(err)
			if k == "other" {
				k = "PublicKey"
			}
			return "err:" + k
		}
		return "ok"
	})
	o.dist["keybyid:"+tag]++
	o.emit(map[string]any{"op": "keybyid", "keyID": keyID, "didOk": didErr == nil, "doc": docJSON, "rt": int(rt)}, c19Class(r))
	// ResolveKey (first key of the relation type)
	if didErr == nil {
		d, _ := GetDIDFromURL(keyID)
		r2 := c19Guard(func() string {
			_, _, err := kr.ResolveKey(d, nil, rt)
			if err != nil {
				k := c19ErrKind(err)
				if k == "other" {
					k = "PublicKey"
				}
				return "err:" + k
			}
			return "ok"
		})
		o.emit(map[string]any{"op": "key", "doc": docJSON, "rt": int(rt)}, c19Class(r2))
	}
}

// service graph: did -> services; endpoints may be strings (URLs or references) or other JSON
type c19Svc struct {
	Type string `json:"type"`
	Ep   any    `json:"ep"`
}

func c19RunSvc(o *c19Out, graph map[string][]c19Svc, query string, maxDepth int, tag string) {
	c19Mark(map[string]any{"op": "resolver.svc", "graph": graph, "query": query, "maxDepth": maxDepth})
	res := &c19Resolver{docs: map[string]*did.Document{}}
	urls := map[string]bool{query: true}
	docs := map[string]any{}
	for d, svcs := range graph {
		id, err := did.ParseDID(d)
		if err != nil {
			continue
		}
		doc := &did.Document{ID: *id}
		sj := []any{}
		for i, s := range svcs {
			svc := did.Service{ID: ssi.MustParseURI(fmt.Sprintf("%s#s%d", d, i)), Type: s.Type, ServiceEndpoint: s.Ep}
			doc.Service = append(doc.Service, svc)
			// go-did's UnmarshalServiceEndpoint(&string) is third-party: its result is data for the model (null = error)
			var es string
			var epStr any
			if svc.UnmarshalServiceEndpoint(&es) == nil {
				epStr = es
				if IsServiceReference(es) {
					urls[es] = true
				}
			}
			sj = append(sj, map[string]any{"type": s.Type, "ep": s.Ep, "epStr": epStr})
			if str, ok := s.Ep.(string); ok && IsServiceReference(str) {
				urls[str] = true
			}
		}
		res.docs[id.String()] = doc
		docs[id.String()] = sj
	}
	// what the other packages say about every URL that can be met
	didOf, qt, uriOk, refOk := map[string]any{}, map[string]any{}, map[string]any{}, map[string]any{}
	for u := range urls {
		if d, err := GetDIDFromURL(u); err == nil {
			didOf[u] = d.String()
		} else {
			didOf[u] = nil
		}
		if pu, err := ssi.ParseURI(u); err == nil {
			uriOk[u] = true
			qt[u] = pu.Query().Get(serviceTypeQueryParameter)
			refOk[u] = ValidateServiceReference(*pu) == nil
		} else {
			uriOk[u] = false
			qt[u] = ""
			refOk[u] = false
		}
	}
	q, err := ssi.ParseURI(query)
	if err != nil {
		return
	}
	r := c19Guard(func() string {
		svc, err := DIDServiceResolver{Resolver: res}.Resolve(*q, maxDepth)
		if err != nil {
			k := c19ErrKind(err)
			if k == "other" {
				k = "GetDIDFromURL|ParseURI"
			}
			return "err:" + k
		}
		b, _ := json.Marshal(svc.ServiceEndpoint)
		return "ok:" + svc.Type + "|" + c19Show(string(b))
	})
	o.dist["svc:"+tag]++
	o.emit(map[string]any{"op": "svc", "query": query, "maxDepth": maxDepth, "docs": docs, "didOf": didOf, "qt": qt, "uriOk": uriOk, "refOk": refOk}, c19Class(r))
}

func TestVerifC19(t *testing.T) {
	dir := os.Getenv("VERIF_OUT")
	if dir == "" {
		t.Skip("VERIF_OUT not set")
	}
	o := c19Open(dir)
	defer o.close(dir)
	r := mrand.New(mrand.NewSource(c19Seed()*104729 + 7))
	m := jmut{r}

	parse := func(b []byte, tag string) *did.Document {
		var doc *did.Document
		in := string(b)
		o.explore("did.ParseDocument", in, func() string {
			d, err := did.ParseDocument(in)
			if err != nil {
				return "err"
			}
			doc = d
			return "ok"
		})
		return doc
	}
	keyIDs := []string{"did:web:example.com#key-1", "did:web:example.com#key-2", "#key-1", "did:web:example.com", "did:web:example.com#nope", "", "not a did", "did:web:example.com#key-1#x", "did:web:other.example.com#key-1"}
	runDoc := func(b []byte, tag string) {
		doc := parse(b, tag)
		if doc == nil {
			o.dist["doc-rejected-by-go-did:"+strings.SplitN(tag, ":", 2)[0]]++
			return
		}
		c19RunKey(o, doc, keyIDs[r.Intn(2)], RelationType(r.Intn(5)), tag)
		if r.Intn(4) == 0 {
			c19RunKey(o, doc, keyIDs[r.Intn(len(keyIDs))], RelationType(r.Intn(7)), tag)
		}
	}

	replay, isReplay := c19ReadOps()
	for _, op := range replay {
		switch op["op"] {
		case "resolver.doc": // witness: a DID document + key id
			docS, _ := op["doc"].(string)
			keyID, _ := op["keyID"].(string)
			doc := parse([]byte(docS), "replay")
			if doc != nil {
				c19RunKey(o, doc, keyID, AssertionMethod, "replay")
			}
		case "resolver.svc":
			b, _ := json.Marshal(op["graph"])
			var g map[string][]c19Svc
			json.Unmarshal(b, &g)
			q, _ := op["query"].(string)
			md, _ := op["maxDepth"].(json.Number)
			n, _ := md.Int64()
			c19RunSvc(o, g, q, int(n), "replay")
		}
	}
	if isReplay {
		return
	}

	// ---- 1. key resolution: valid doc × key ids × relation types (incl. out-of-range relation types, nil document)
	valid := parse([]byte(c19ValidDoc), "valid")
	if valid == nil {
		t.Fatal("valid instance does not parse")
	}
	for _, k := range keyIDs {
		for rt := 0; rt < 7; rt++ {
			c19RunKey(o, valid, k, RelationType(rt), "valid-doc")
		}
		c19RunKey(o, nil, k, AssertionMethod, "unresolvable")
	}
	// ---- 2. @context variants: every JSON type as context entry and as @base value
	for _, cv := range jConfusions {
		if strings.Contains(cv, "$") {
			continue
		}
		for _, tmpl := range []string{`["https://www.w3.org/ns/did/v1",{"@base":%s}]`, `["https://www.w3.org/ns/did/v1",%s]`, `[{"@base":%s},{"@base":"did:web:example.com"}]`, `[{"x":1},{"@base":"did:web:example.com","@base":%s}]`, `%s`} {
			ctx := fmt.Sprintf(tmpl, cv)
			root, _ := jparse([]byte(c19ValidDoc))
			root.kids[0] = jraw(ctx)
			runDoc(root.bytes(), "context-variant")
		}
	}
	// ---- 3. systematic + random mutations of the whole document
	jsystematic([]byte(c19ValidDoc), func(b []byte, kind string) { runDoc(b, kind) })
	n := c19Env("VERIF_N", 400)
	for i := 0; i < n; i++ {
		b, kind := m.mutate([]byte(c19ValidDoc))
		runDoc(b, "rand:"+kind)
	}
	// ---- 4. service references: chains, cycles, depth limits, malformed references
	A, B, C := "did:web:a.example.com", "did:web:b.example.com", "did:web:c.example.com"
	ref := func(d, t string) string { return d + "/serviceEndpoint?type=" + t }
	graphs := []map[string][]c19Svc{
		{A: {{"x", "https://a/x"}}},
		{A: {{"x", ref(B, "y")}}, B: {{"y", "https://b/y"}}},
		{A: {{"x", ref(B, "y")}}, B: {{"y", ref(C, "z")}}, C: {{"z", map[string]any{"k": "v"}}}},
		{A: {{"x", ref(A, "x")}}},                                   // self reference
		{A: {{"x", ref(B, "y")}}, B: {{"y", ref(A, "x")}}},          // 2-cycle
		{A: {{"x", ref(B, "y")}}},                                   // dangling DID
		{A: {{"x", ref(B, "y")}}, B: {{"q", "https://b/q"}}},        // missing service
		{A: {{"x", A + "/serviceEndpoint"}}},                        // reference without type
		{A: {{"x", A + "/other?type=x"}}},                           // wrong path
		{A: {{"x", ref(A, "x") + "&type=y"}}},                       // two type params
		{A: {{"x", ref(A, "x") + "&z=1"}}},                          // other param
		{A: {{"x", "did:"}}},                                        // looks like a reference, is not a DID
		{A: {{"x", "did:web:%zz/serviceEndpoint?type=x"}}},          // unparsable
		{A: {{"x", "did:web:a.example.com/serviceEndpoint?type=x#f"}}},
		{A: {{"x", 5}}}, {A: {{"x", nil}}}, {A: {{"x", []any{"did:web:a.example.com/serviceEndpoint?type=x"}}}}, {A: {{"x", ""}}},
		{A: {{"x", ref(A, "x2")}, {"x2", ref(A, "x3")}, {"x3", ref(A, "x4")}, {"x4", ref(A, "x5")}, {"x5", ref(A, "x6")}, {"x6", "https://end"}}}, // chain of 6 in one doc
		{A: {{"x", "https://first"}, {"x", "https://second"}}},     // duplicate type: first wins
		{A: {}},
		// cycles INSIDE one document (the referenced DID is the document at hand): self, 2- and 3-cycles, and one that leaves and returns
		{A: {{"x", ref(A, "y")}, {"y", ref(A, "x")}}},
		{A: {{"x", ref(A, "y")}, {"y", ref(A, "z")}, {"z", ref(A, "x")}}},
		{A: {{"x", ref(A, "y")}, {"y", ref(B, "y")}}, B: {{"y", ref(B, "z")}, {"z", ref(B, "y")}}},
		{A: {{"x", ref(A, "y")}, {"y", ref(A, "z")}, {"z", "https://end"}}}, // chain of 3 inside one document that ends
	}
	for gi, g := range graphs {
		for _, md := range []int{-1, 0, 1, 2, 5, 6, 7, 1000} {
			for _, q := range []string{ref(A, "x"), ref(B, "y"), A, ref(A, ""), "did:web:a.example.com/serviceEndpoint?type=x&type=x"} {
				c19RunSvc(o, g, q, md, fmt.Sprintf("graph%d", gi))
			}
		}
	}
	// random graphs
	dids := []string{A, B, C}
	types := []string{"x", "y", "z"}
	for i := 0; i < n; i++ {
		g := map[string][]c19Svc{}
		for _, d := range dids {
			if r.Intn(5) == 0 {
				continue
			}
			ns := r.Intn(4)
			for k := 0; k < ns; k++ {
				var ep any
				switch r.Intn(6) {
				case 0:
					ep = "https://end/" + d
				case 1:
					ep = map[string]any{"a": 1}
				default:
					ep = ref(dids[r.Intn(3)], types[r.Intn(3)])
				}
				g[d] = append(g[d], c19Svc{types[r.Intn(3)], ep})
			}
		}
		c19RunSvc(o, g, ref(dids[r.Intn(3)], types[r.Intn(3)]), []int{0, 1, 2, 3, 5, 8}[r.Intn(6)], "random-graph")
	}
}
