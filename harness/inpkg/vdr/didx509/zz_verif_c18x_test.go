//go:build verif

// C18 deepening round 2: the did:x509 resolver (parseX509Did, validatePolicy, findValidationCertificate, Resolve) run on
// real certificate chains; the model gets the certificates' attributes as data, a hash reference is the token
// H<cert><alg> which this harness replaces by the real base64url hash right before the call.
package didx509

import (
	"bufio"
	"crypto/sha1"
	"crypto/sha256"
	"crypto/sha512"
	"crypto/tls"
	"crypto/x509"
	"encoding/base64"
	"encoding/hex"
	"encoding/json"
	"errors"
	"fmt"
	"math/rand"
	"net/url"
	"os"
	"path/filepath"
	"regexp"
	"sort"
	"strconv"
	"strings"
	"testing"

	"github.com/lestrrat-go/jwx/v2/cert"
	"github.com/nuts-foundation/go-did/did"
	"github.com/nuts-foundation/nuts-node/vdr/resolver"
)

type xCert struct {
	Other    []string `json:"other,omitempty"`
	OtherErr bool     `json:"otherErr,omitempty"`
	DNS      []string `json:"dns,omitempty"`
	Email    []string `json:"email,omitempty"`
	IP       []string `json:"ip,omitempty"`
	Serial   string   `json:"serial,omitempty"`
	CN       string   `json:"cn,omitempty"`
	L        []string `json:"L,omitempty"`
	C        []string `json:"C,omitempty"`
	ST       []string `json:"ST,omitempty"`
	STREET   []string `json:"STREET,omitempty"`
	O        []string `json:"O,omitempty"`
	OU       []string `json:"OU,omitempty"`
}

type xOp struct {
	Op    string  `json:"op"`
	Tag   string  `json:"tag,omitempty"`
	M     string  `json:"m"`
	ID    string  `json:"id"`
	Chain string  `json:"chain,omitempty"`
	Ids   []int   `json:"ids,omitempty"`
	X5t   string  `json:"x5t,omitempty"`
	X5tk  string  `json:"x5tk,omitempty"`
	X5s   string  `json:"x5s,omitempty"`
	X5sk  string  `json:"x5sk,omitempty"`
	Cert  int     `json:"cert,omitempty"`
	Crl   bool    `json:"crl,omitempty"`
	Certs []xCert `json:"certs,omitempty"`
}

var (
	xCertsAll []*x509.Certificate
	xPems     [][]byte
	xTokenRe  = regexp.MustCompile(`H[0-7]sha(1|256|384|512)`)
)

func xhx(s string) string { return hex.EncodeToString([]byte(s)) }
func xunhx(s string) string {
	b, _ := hex.DecodeString(s)
	return string(b)
}

func xSetup() {
	for _, ids := range [][]string{{"A_BIG_STRING", "A_SECOND_STRING"}, nil} {
		certs, chain, _, _, _, err := BuildCertChain(ids)
		if err != nil {
			panic(err)
		}
		for i := 0; i < 4; i++ {
			xCertsAll = append(xCertsAll, certs[i])
			p, _ := chain.Get(i)
			xPems = append(xPems, p)
		}
	}
}

func xDump(c *x509.Certificate) xCert {
	d := xCert{DNS: c.DNSNames, Email: c.EmailAddresses, Serial: c.Subject.SerialNumber, CN: c.Subject.CommonName,
		L: c.Subject.Locality, C: c.Subject.Country, ST: c.Subject.Province, STREET: c.Subject.StreetAddress,
		O: c.Subject.Organization, OU: c.Subject.OrganizationalUnit}
	for _, ip := range c.IPAddresses {
		d.IP = append(d.IP, ip.String())
	}
	on, err := findOtherNameValues(c)
	if err != nil {
		d.OtherErr = true
	} else {
		d.Other = on
	}
	return d
}

func xHash(k int, alg string) string {
	raw := xCertsAll[k].Raw
	var sum []byte
	switch alg {
	case "1":
		s := sha1.Sum(raw)
		sum = s[:]
	case "256":
		s := sha256.Sum256(raw)
		sum = s[:]
	case "384":
		s := sha512.Sum384(raw)
		sum = s[:]
	default:
		s := sha512.Sum512(raw)
		sum = s[:]
	}
	return base64.RawURLEncoding.EncodeToString(sum)
}

// xSubst replaces every hash token by the real hash
func xSubst(s string) string {
	return xTokenRe.ReplaceAllStringFunc(s, func(t string) string {
		k, _ := strconv.Atoi(t[1:2])
		return xHash(k, t[5:])
	})
}

type xValidator struct{ err error }

func (v xValidator) CheckCRL(chain []*x509.Certificate) error                 { return v.err }
func (v xValidator) CheckCRLStrict(chain []*x509.Certificate) error           { return v.err }
func (v xValidator) SetVerifyPeerCertificateFunc(config *tls.Config) error    { return nil }
func (v xValidator) AddTruststore(chain []*x509.Certificate) error            { return nil }
func (v xValidator) SubscribeDenied(f func())                                 {}

var xErrCRL = errors.New("verif: revoked")

func xClass(err error) string {
	var esc url.EscapeError
	switch {
	case err == nil:
		return "ok"
	case errors.Is(err, ErrDidMalformed):
		return "err:malformed"
	case errors.Is(err, ErrDidVersion):
		return "err:version"
	case errors.Is(err, ErrDidPolicyMalformed):
		return "err:policy-malformed"
	case errors.Is(err, ErrUnkPolicyType):
		return "err:unknown-policy"
	case errors.As(err, &esc):
		return "err:escape"
	case errors.Is(err, ErrX509ChainMissing):
		return "err:chain-missing"
	case errors.Is(err, ErrInvalidHash):
		return "err:invalid-hash"
	case errors.Is(err, ErrCertificateNotfound):
		return "err:cert-not-found"
	case errors.Is(err, ErrUnsupportedHashAlgorithm):
		return "err:unsupported-alg"
	case errors.Is(err, ErrNoCertsInHeaders):
		return "err:no-thumbprint"
	case errors.Is(err, ErrNoMatchingHeaderCredentials):
		return "err:thumbprints-differ"
	case errors.Is(err, ErrInvalidPemBlock):
		return "err:pem:invalid-block"
	case errors.Is(err, xErrCRL):
		return "err:crl"
	case strings.HasPrefix(err.Error(), "invalid PEM block type"):
		return "err:pem:type"
	case strings.HasPrefix(err.Error(), "unknown policy key"):
		return "err:unknown-key"
	case strings.Contains(err.Error(), "does not match the query"), strings.HasPrefix(err.Error(), "query does not match"):
		return "err:mismatch"
	case strings.HasPrefix(err.Error(), "unsupported DID method"):
		return "err:unsupported-method"
	case strings.HasPrefix(err.Error(), "x509:"), strings.HasPrefix(err.Error(), "asn1:"):
		return "err:pem:parse"
	}
	return "err:other:" + err.Error()
}

func xHeaders(op xOp, withChain bool) map[string]interface{} {
	h := map[string]interface{}{}
	switch op.X5tk {
	case "str":
		h[X509CertThumbprintHeader] = xSubst(op.X5t)
	case "int":
		h[X509CertThumbprintHeader] = 7
	}
	switch op.X5sk {
	case "str":
		h[X509CertThumbprintS256Header] = xSubst(op.X5s)
	case "int":
		h[X509CertThumbprintS256Header] = 7
	}
	if withChain {
		switch op.Chain {
		case "missing":
			if len(op.Ids) > 0 { // present, but not a *cert.Chain
				h[X509CertChainHeader] = "GARBAGE"
			}
		case "ids":
			ch := &cert.Chain{}
			for _, k := range op.Ids {
				_ = ch.Add(xPems[k])
			}
			h[X509CertChainHeader] = ch
		case "pem:invalid-block":
			ch := &cert.Chain{}
			_ = ch.Add(xPems[0])
			_ = ch.Add([]byte("no pem at all"))
			h[X509CertChainHeader] = ch
		case "pem:type":
			ch := &cert.Chain{}
			_ = ch.Add([]byte(strings.ReplaceAll(string(xPems[0]), "CERTIFICATE", "PRIVATE KEY")))
			h[X509CertChainHeader] = ch
		}
	}
	return h
}

func xExec(op xOp) (line string) {
	defer func() {
		if r := recover(); r != nil {
			msg := fmt.Sprint(r)
			if strings.Contains(msg, "nil pointer") && op.Chain == "nil" {
				line = op.Op + " panic:nil-metadata"
			} else {
				line = op.Op + " panic:" + msg
			}
		}
	}()
	id := did.DID{Method: xunhx(op.M), ID: xSubst(xunhx(op.ID))}
	id.DecodedID = id.ID
	switch op.Op {
	case "x5p":
		ref, err := parseX509Did(did.DID{Method: xunhx(op.M), ID: xunhx(op.ID)})
		if err != nil {
			return "x5p " + xClass(err)
		}
		var ps []string
		for _, p := range ref.Policies {
			ps = append(ps, xhx(string(p.Name))+":"+xhx(p.Value))
		}
		return fmt.Sprintf("x5p ok m=%s r=%s p=[%s]", xhx(string(ref.Method)), xhx(ref.RootCertRef), strings.Join(ps, ","))
	case "x5v":
		ref, err := parseX509Did(id)
		if err != nil {
			return "x5v err:parse:" + strings.TrimPrefix(xClass(err), "err:")
		}
		return "x5v " + xClass(validatePolicy(ref, xCertsAll[op.Cert]))
	case "x5f":
		var chain []*x509.Certificate
		for _, k := range op.Ids {
			chain = append(chain, xCertsAll[k])
		}
		md := &resolver.ResolveMetadata{JwtProtectedHeaders: xHeaders(op, false)}
		c, err := findValidationCertificate(md, chain)
		if err != nil {
			return "x5f " + xClass(err)
		}
		for k, x := range xCertsAll {
			if x.Equal(c) {
				return "x5f ok:" + strconv.Itoa(k)
			}
		}
		return "x5f ok:foreign"
	case "x5r":
		var v xValidator
		if !op.Crl {
			v.err = xErrCRL
		}
		var md *resolver.ResolveMetadata
		if op.Chain != "nil" {
			md = &resolver.ResolveMetadata{JwtProtectedHeaders: xHeaders(op, true)}
		}
		doc, _, err := NewResolver(v).Resolve(id, md)
		if err != nil {
			return "x5r " + xClass(err)
		}
		if doc.ID.String() == id.String() && len(doc.VerificationMethod) == 1 && doc.VerificationMethod[0].Controller.String() == id.String() {
			return "x5r ok:same"
		}
		return "x5r ok:diff:" + xhx(doc.ID.String())
	}
	return "bad-op"
}

func xNormalize(op *xOp) {
	switch op.Op {
	case "x5v":
		op.Certs = []xCert{xDump(xCertsAll[op.Cert])}
	case "x5r":
		op.Certs = nil
		for _, c := range xCertsAll {
			op.Certs = append(op.Certs, xDump(c))
		}
	}
}

var xAlgs = []string{"sha256", "sha256", "sha256", "sha1", "sha384", "sha512", "SHA256", "Sha512", "md5", ""}

// policies that hold for the signing certificate `k` (3 = otherName chain, 7 = dns/email/ip chain), raw (escaped) form
func xGoodPolicies(k int) []string {
	g := []string{"subject:CN:www.example.com", "subject:O:NUTS%20Foundation", "subject:O:NUTS+Foundation", "subject:L:Amsterdam",
		"subject:L:The%20Hague", "subject:C:NL", "subject:ST:Noord-Holland", "subject:STREET:Amsterdamseweg%20100",
		"subject:OU:The%20A-Team", "subject:serialNumber:32121323", "subject:L:Amsterdam:C:NL", "subject:C:%4EL:O:NUTS%20Foundation:CN:www.example.com"}
	if k == 3 {
		g = append(g, "san:otherName:A_BIG_STRING", "san:otherName:A_SECOND_STRING", "san:otherName:A_BIG_STRING:otherName:A_SECOND_STRING", "san:dns:testhost.example.com")
	} else {
		g = append(g, "san:dns:www.example.com", "san:dns:example.com", "san:email:info%40example.com", "san:email:no-reply@example.org",
			"san:ip:192.1.2.3", "san:ip:192.1.2.4", "san:dns:example.com:email:info@example.com:ip:192.1.2.4")
	}
	return g
}

var xBadPolicies = []string{"subject:CN:example.com", "subject:O:NUTS", "subject:L:Utrecht", "subject:C:nl", "subject:serialNumber:3212132",
	"san:dns:evil.example.com", "san:email:info@example.org", "san:ip:192.1.2.5", "san:otherName:A_BIG", "san:otherName:", "subject:L:Amsterdam:C:BE",
	"subject:CN", "subject:L:Amsterdam:C", "subject", "", "eku:1.2.3", "Subject:CN:www.example.com", "SAN:dns:example.com", "subject:cn:www.example.com",
	"subject:XX:1", "san:CN:www.example.com", "subject:dns:www.example.com", "subject:O:%zz", "subject:O:NUTS%2", "san:dns:www.example.com%",
	"subject:CN:", "subject::", "subject:CN:WWW.EXAMPLE.COM", "subject:O:nuts%20foundation", "san:dns:WWW.example.com", "subject:CN:www.example.com:O:NUTS", "san:otherName:A_BIG_STRING:otherName:NOPE", "san:ip:192.001.002.003", "subject:PostalCode:1011%20NL"}

func xGenID(r *rand.Rand, ids []int, sign int) (string, string) {
	version := "0"
	if r.Intn(12) == 0 {
		version = []string{"1", "", "00", "0 ", "o"}[r.Intn(5)]
	}
	alg := xAlgs[r.Intn(len(xAlgs))]
	la := strings.ToLower(alg)
	root := "AAAA"
	switch x := r.Intn(12); {
	case x < 7 && len(ids) > 0 && strings.HasPrefix(la, "sha"):
		root = "H" + strconv.Itoa(ids[0]) + la
	case x < 9 && strings.HasPrefix(la, "sha"):
		root = "H" + strconv.Itoa(r.Intn(8)) + la
	case x == 9:
		root = "H" + strconv.Itoa(r.Intn(8)) + []string{"sha1", "sha256", "sha384", "sha512"}[r.Intn(4)]
	case x == 10:
		root = []string{"", "A", "AAAAA", "AA=", "A*AA", "AAAA_-", "AA"}[r.Intn(7)]
	}
	s := version + ":" + alg + ":" + root
	if r.Intn(15) == 0 {
		s = []string{version + ":" + alg, version + ":" + alg + ":" + root + ":x", root, "", ":" + s}[r.Intn(5)]
	}
	tag := "nopolicy"
	good := xGoodPolicies(sign)
	n := []int{0, 1, 1, 1, 2, 2, 3}[r.Intn(7)]
	allGood := true
	for i := 0; i < n; i++ {
		if r.Intn(4) == 0 {
			s += "::" + xBadPolicies[r.Intn(len(xBadPolicies))]
			allGood = false
		} else {
			s += "::" + good[r.Intn(len(good))]
		}
	}
	if n > 0 {
		tag = "policies-good"
		if !allGood {
			tag = "policies-bad"
		}
	}
	if r.Intn(25) == 0 {
		s += []string{":", "::", ":::"}[r.Intn(3)]
	}
	return s, tag
}

func xGenHdr(r *rand.Rand, ids []int, sign int, alg string) (string, string) {
	switch x := r.Intn(14); {
	case x < 7:
		return "H" + strconv.Itoa(sign) + alg, "str"
	case x < 9:
		return "", "none"
	case x == 9 && len(ids) > 0:
		return "H" + strconv.Itoa(ids[r.Intn(len(ids))]) + alg, "str"
	case x == 10:
		return "H" + strconv.Itoa(r.Intn(8)) + []string{"sha1", "sha256", "sha384", "sha512"}[r.Intn(4)], "str"
	case x == 11:
		return []string{"", "A", "AAAA", "AA=", "!!"}[r.Intn(5)], "str"
	case x == 12:
		return "", "int"
	}
	return "H" + strconv.Itoa(sign) + alg, "str"
}

func xGenChain(r *rand.Rand) (string, []int, int) {
	base := 0
	if r.Intn(2) == 0 {
		base = 4
	}
	full := []int{base, base + 1, base + 2, base + 3}
	switch x := r.Intn(20); {
	case x < 11:
		return "ids", full, base + 3
	case x == 11:
		return "ids", []int{base + 3, base + 2, base + 1, base}, base + 3
	case x == 12:
		return "ids", []int{base + 3}, base + 3
	case x == 13:
		return "ids", nil, base + 3
	case x == 14:
		return "ids", []int{base, base + 1, base + 2}, base + 3
	case x == 15:
		return "missing", nil, base + 3
	case x == 16:
		return "missing", []int{1}, base + 3
	case x == 17:
		return []string{"pem:invalid-block", "pem:type"}[r.Intn(2)], nil, base + 3
	case x == 18 && r.Intn(3) == 0:
		return "nil", nil, base + 3
	}
	return "ids", append(append([]int{}, full...), (base+4)%8+3), base + 3
}


// xGenNear: a resolvable did:x509 with at most one thing wrong (so that every later check of Resolve is reached often)
func xGenNear(r *rand.Rand, mx string) xOp {
	base := 4 * r.Intn(2)
	sign := base + 3
	ids := []int{base, base + 1, base + 2, base + 3}
	alg := []string{"sha256", "sha256", "sha1", "sha384", "sha512", "SHA256", "Sha512"}[r.Intn(7)]
	rootCert := base
	if r.Intn(6) == 0 {
		rootCert = base + r.Intn(4)
	}
	good := xGoodPolicies(sign)
	var pols []string
	for n := r.Intn(4); n > 0; n-- {
		pols = append(pols, good[r.Intn(len(good))])
	}
	op := xOp{Op: "x5r", Tag: "resolve-near-valid", M: mx, Chain: "ids", Ids: ids, Crl: true,
		X5t: "H" + strconv.Itoa(sign) + "sha1", X5tk: "str", X5s: "H" + strconv.Itoa(sign) + "sha256", X5sk: "str"}
	switch r.Intn(3) {
	case 0:
		op.X5t, op.X5tk = "", "none"
	case 1:
		op.X5s, op.X5sk = "", "none"
	}
	other := (base + 4) % 8
	switch r.Intn(16) {
	case 0:
		op.Crl = false
		op.Tag = "resolve-near:revoked"
	case 1: // the policy holds for the OTHER chain's signing certificate only
		og := xGoodPolicies(other + 3)
		pols = append(pols, og[len(og)-1-r.Intn(4)])
		op.Tag = "resolve-near:policy-of-other-cert"
	case 2:
		pols = append(pols, xBadPolicies[r.Intn(len(xBadPolicies))])
		op.Tag = "resolve-near:bad-policy"
	case 3: // thumbprint names another certificate of the chain: the policy is then checked against THAT certificate
		k := base + r.Intn(3)
		if op.X5tk == "str" {
			op.X5t = "H" + strconv.Itoa(k) + "sha1"
		}
		if op.X5sk == "str" {
			op.X5s = "H" + strconv.Itoa(k) + "sha256"
		}
		op.Tag = "resolve-near:thumbprint-of-ca"
	case 4: // the two thumbprints name different certificates
		op.X5t, op.X5tk = "H"+strconv.Itoa(base+2)+"sha1", "str"
		op.X5s, op.X5sk = "H"+strconv.Itoa(sign)+"sha256", "str"
		op.Tag = "resolve-near:thumbprints-differ"
	case 5: // root reference = a certificate of the other chain
		rootCert = other + r.Intn(4)
		op.Tag = "resolve-near:foreign-root"
	case 6: // thumbprint of a certificate that is not in the chain
		op.X5t, op.X5tk = "H"+strconv.Itoa(other+3)+"sha1", "str"
		op.Tag = "resolve-near:foreign-thumbprint"
	case 7:
		op.X5s, op.X5sk = "H"+strconv.Itoa(other+3)+"sha256", "str"
		op.Tag = "resolve-near:foreign-thumbprint"
	case 8: // hash under another algorithm than the identifier names
		alg2 := []string{"sha1", "sha256", "sha384", "sha512"}[r.Intn(4)]
		op.ID = "x"
		s := "0:" + alg + ":H" + strconv.Itoa(rootCert) + alg2
		for _, p := range pols {
			s += "::" + p
		}
		op.ID = xhx(s)
		op.Tag = "resolve-near:root-hash-other-alg"
		return op
	case 9:
		op.Ids = ids[1:]
		op.Tag = "resolve-near:chain-without-root"
	case 10:
		op.X5t, op.X5tk, op.X5s, op.X5sk = "", "none", "", []string{"none", "int"}[r.Intn(2)]
		op.Tag = "resolve-near:no-thumbprint"
	}
	s := "0:" + alg + ":H" + strconv.Itoa(rootCert) + strings.ToLower(alg)
	for _, p := range pols {
		s += "::" + p
	}
	op.ID = xhx(s)
	return op
}

func xGenerate(seed int64, thorough bool) []xOp {
	r := rand.New(rand.NewSource(seed*7919 + 18))
	n := 1400
	if thorough {
		n = 20000
	}
	var ops []xOp
	mx := xhx("x509")
	alphabet := []string{":", ":", ":", "::", "0", "1", "a", "sha256", "san", "subject", "%3A", "x", ""}
	for i := 0; i < n; i++ {
		switch i % 7 {
		case 0: // parser on colon-dense texts
			var b strings.Builder
			for k := r.Intn(10); k >= 0; k-- {
				b.WriteString(alphabet[r.Intn(len(alphabet))])
			}
			s := b.String()
			if r.Intn(2) == 0 {
				s = "0:sha256:" + s
			}
			ops = append(ops, xOp{Op: "x5p", Tag: "parse-hostile", M: mx, ID: xhx(s)})
		case 1:
			sign := []int{3, 7}[r.Intn(2)]
			s, tag := xGenID(r, []int{sign - 3}, sign)
			ops = append(ops, xOp{Op: "x5p", Tag: "parse-" + tag, M: mx, ID: xhx(s)})
		case 2:
			sign := []int{3, 7}[r.Intn(2)]
			s, tag := xGenID(r, []int{sign - 3}, sign)
			c := sign
			if r.Intn(8) == 0 {
				c = r.Intn(8)
			}
			ops = append(ops, xOp{Op: "x5v", Tag: "validate-" + tag, M: mx, ID: xhx(s), Cert: c})
		case 3:
			_, ids, sign := xGenChain(r)
			op := xOp{Op: "x5f", Tag: "thumbprints", M: mx, Ids: ids}
			op.X5t, op.X5tk = xGenHdr(r, ids, sign, "sha1")
			op.X5s, op.X5sk = xGenHdr(r, ids, sign, "sha256")
			ops = append(ops, op)
		default:
			if r.Intn(5) < 3 {
				ops = append(ops, xGenNear(r, mx))
				continue
			}
			kind, ids, sign := xGenChain(r)
			s, tag := xGenID(r, ids, sign)
			op := xOp{Op: "x5r", Tag: "resolve-" + tag, M: mx, ID: xhx(s), Chain: kind, Ids: ids, Crl: r.Intn(10) != 0}
			if r.Intn(60) == 0 {
				op.M = xhx([]string{"web", "X509", ""}[r.Intn(3)])
			}
			op.X5t, op.X5tk = xGenHdr(r, ids, sign, "sha1")
			op.X5s, op.X5sk = xGenHdr(r, ids, sign, "sha256")
			if r.Intn(3) == 0 { // one header only is the common real-world shape
				if r.Intn(2) == 0 {
					op.X5t, op.X5tk = "", "none"
				} else {
					op.X5s, op.X5sk = "", "none"
				}
			}
			ops = append(ops, op)
		}
	}
	return ops
}

func xReadOps(path string) []xOp {
	f, err := os.Open(path)
	if err != nil {
		panic(err)
	}
	defer f.Close()
	var ops []xOp
	sc := bufio.NewScanner(f)
	sc.Buffer(make([]byte, 1<<20), 1<<26)
	for sc.Scan() {
		t := strings.TrimSpace(sc.Text())
		if t == "" || strings.HasPrefix(t, "#") {
			continue
		}
		var op xOp
		if err := json.Unmarshal([]byte(t), &op); err != nil {
			panic(fmt.Sprintf("bad op line %q: %v", t, err))
		}
		ops = append(ops, op)
	}
	return ops
}

func TestVerifC18(t *testing.T) {
	out := os.Getenv("VERIF_OUT")
	if out == "" {
		t.Skip("VERIF_OUT not set")
	}
	seed, _ := strconv.ParseInt(os.Getenv("VERIF_SEED"), 10, 64)
	thorough := os.Getenv("VERIF_TIER") == "thorough"
	xSetup()
	var ops []xOp
	if rp := os.Getenv("VERIF_REPLAY"); rp != "" {
		ops = xReadOps(rp)
	} else {
		if dir := os.Getenv("VERIF_CORPUS"); dir != "" {
			files, _ := filepath.Glob(filepath.Join(dir, "*.jsonl"))
			sort.Strings(files)
			for _, f := range files {
				ops = append(ops, xReadOps(f)...)
			}
		}
		ops = append(ops, xGenerate(seed, thorough)...)
	}
	fo, err := os.Create(filepath.Join(out, "ops.jsonl"))
	if err != nil {
		t.Fatal(err)
	}
	fi, err := os.Create(filepath.Join(out, "impl.out"))
	if err != nil {
		t.Fatal(err)
	}
	wo, wi := bufio.NewWriter(fo), bufio.NewWriter(fi)
	for _, op := range ops {
		xNormalize(&op)
		b, _ := json.Marshal(op)
		wo.Write(b)
		wo.WriteByte('\n')
		wi.WriteString(xExec(op))
		wi.WriteByte('\n')
	}
	wo.Flush()
	wi.Flush()
	fo.Close()
	fi.Close()
}
