//go:build verif

// C09 publishing path (deepening round 2026-09-28): the REAL Manager.Update on the node's store with a key store that holds
// a chosen set of key ids; the transaction template it hands to networkClient.CreateTransaction is captured (kid, additional
// prevs, payload). A published template is signed by the generator with that kid's key and delivered to the ambassador like
// any other received transaction.
package didnuts

import (
	"context"
	"encoding/base64"
	"encoding/json"
	"errors"
	"fmt"
	"sort"
	"strings"
	"sync"

	"github.com/nuts-foundation/go-did/did"
	"github.com/nuts-foundation/nuts-node/audit"
	nutsCrypto "github.com/nuts-foundation/nuts-node/crypto"
	"github.com/nuts-foundation/nuts-node/crypto/hash"
	"github.com/nuts-foundation/nuts-node/jsonld"
	"github.com/nuts-foundation/nuts-node/network"
	"github.com/nuts-foundation/nuts-node/network/dag"
	"github.com/nuts-foundation/nuts-node/storage/orm"
	"github.com/lestrrat-go/jwx/v2/jwk"
	"gorm.io/gorm"
	"github.com/nuts-foundation/nuts-node/vdr/resolver"
	"go.uber.org/mock/gomock"
)

// one call of Manager.Update, made right before the pair it is attached to is delivered
type vMgr struct {
	ID   string   `json:"id"`   // DID to update
	Has  []string `json:"has"`  // key ids the key store holds
	Next string   `json:"next"` // proposed document (JSON, base64)
	// deepening round 2: "" = Manager.Update; "updated" / "deactivated" / "created" / "bogus" = Manager.Commit with that change type
	// (onUpdate / Deactivate / onCreate / default branch); "new" = Manager.NewDocument with a key store handing out NewJWK, whose
	// SQL document then goes through Commit(created)
	// deepening round 3: "rmvm" = Manager.RemoveVerificationMethod(id, Rm) (Next is unused); "iscommitted" = Manager.IsCommitted for a
	// change whose raw document is Next
	Via    string `json:"via,omitempty"`
	NewJWK string `json:"newJwk,omitempty"`
	Rm     string `json:"rm,omitempty"`
	// round 3: on the replay node CreateTransaction answers the transaction the generator signed from the first run's template, so
	// that Manager.Update goes on to its OWN store.Add; the pair this call is attached to then reaches the ambassador as a duplicate
	Own bool `json:"own,omitempty"`
}

type vMgrOp struct {
	Op    string   `json:"op"`
	H     int      `json:"h"`
	I     int      `json:"i"`
	J     int      `json:"j"`
	ID    string   `json:"id"`
	Has   []string `json:"has"`
	Doc   *vNDoc   `json:"doc"`   // the document Manager.Update validates (after withJSONLDContext); nil: the proposal is not JSON for a did.Document
	SvcOk bool     `json:"svcOk"` // managedServiceValidator's verdict (contract; outside C09)
	Via   string   `json:"via,omitempty"`
	Key   string   `json:"key,omitempty"` // via=new: the generated key (RFC 7638 thumbprint, base64url - the model's key name)
	B58   string   `json:"b58,omitempty"` // via=new: the same thumbprint in base58, calculated by the harness's own code
	Rm    string   `json:"rm,omitempty"`  // via=rmvm: the key id to remove; Doc = view of the resolved document (contexts added)
	Hash  string   `json:"hash,omitempty"` // via=iscommitted: SHA-256 of the change's raw document
	Own   *vTxView `json:"own,omitempty"`  // the transaction CreateTransaction answered (Manager.Update then writes it to the store itself)
}

var errVerifStop = errors.New("verif-stop")

func (s *vNet) CreateTransaction(ctx context.Context, spec network.Template) (dag.Transaction, error) {
	if s.node.onCreate != nil {
		return s.node.onCreate(spec)
	}
	return s.MockTransactions.CreateTransaction(ctx, spec)
}

type vMgrResult struct {
	class   string
	kid     string
	prevs   []hash.SHA256Hash
	payload []byte // what was handed to the network
	view    *vNDoc
	svcOk   bool
	key     string // creation template: thumbprint (harness's own RFC 7638 code) of the attached public key
	newDoc  string // via=new: id | verificationMethod ids | number of entries per relationship of the document NewDocument made
	nothing bool   // Commit answered nil without publishing (onUpdate on a deactivated document)
	newKey, newB58 string
	shape     string // via=rmvm: verificationMethod ids and capabilityInvocation ids of the PUBLISHED payload
	committed string // via=iscommitted: "true" / "false"
	rawHash   string
	ownAdd    string // "" = CreateTransaction was stopped; "ok" / "err:…" = outcome of Manager.Update's own store.Add
}

func (r vMgrResult) line() string {
	if r.class != "ok" {
		return r.class
	}
	if r.nothing {
		return "ok nothing"
	}
	if r.committed != "" {
		return "ok committed=" + r.committed
	}
	var ps []string
	for _, p := range r.prevs {
		ps = append(ps, p.String()[:10])
	}
	out := fmt.Sprintf("ok kid=%s prevs=[%s]", r.kid, strings.Join(ps, ","))
	if r.key != "" {
		out += " key=" + r.key
	}
	if r.newDoc != "" {
		out += " new=" + r.newDoc
	}
	if r.shape != "" {
		out += " " + r.shape
	}
	if r.ownAdd != "" {
		out += " own-add=" + r.ownAdd
	}
	return out
}

var (
	vSQLOnce sync.Once
	vSQLDB   *gorm.DB
)

// thumbprint of a public key through the harness's own RFC 7638 code (JWK -> JSON map -> vThumb)
func vThumbOfPublic(pub interface{}) string {
	k, err := jwk.FromRaw(pub)
	if err != nil {
		return "?(" + err.Error() + ")"
	}
	b, _ := json.Marshal(k)
	m := map[string]interface{}{}
	_ = json.Unmarshal(b, &m)
	t, ok := vThumb(m)
	if !ok {
		return "?(not-ec)"
	}
	return base64.RawURLEncoding.EncodeToString(t)
}

func (n *vNode) runManager(m *vMgr) (res vMgrResult) {
	res.svcOk = true
	defer func() {
		if r := recover(); r != nil {
			site := vPanicSite(r)
			if strings.HasPrefix(site, "other(") && m.Via == "created" && strings.Contains(fmt.Sprint(r), "index out of range [0] with length 0") {
				site = "onCreate:VerificationMethod[0]"
			}
			res.class = "panic:" + site
		}
		n.onCreate = nil
		n.ownTx = nil
	}()
	raw, _ := base64.StdEncoding.DecodeString(m.Next)
	var next did.Document
	parseErr := json.Unmarshal(raw, &next)
	if parseErr != nil && m.Via == "" {
		res.class = "err:mgr:unparseable"
		return
	}
	id, err := did.ParseDID(m.ID)
	if err != nil && m.Via != "new" {
		res.class = "err:mgr:bad-did"
		return
	}
	has := map[string]bool{}
	for _, k := range m.Has {
		has[k] = true
	}
	ks := nutsCrypto.NewMockKeyStore(gomock.NewController(n.t))
	ks.EXPECT().Exists(gomock.Any(), gomock.Any()).AnyTimes().DoAndReturn(func(_ context.Context, kid string) (bool, error) { return has[kid], nil })
	var captured *network.Template
	n.onCreate = func(t network.Template) (dag.Transaction, error) {
		captured = &t
		if n.ownTx != nil {
			return n.ownTx, nil // Manager.Update goes on to m.store.Add(next, this transaction)
		}
		return nil, errVerifStop // nothing is written by the manager itself: every node sees the update through its ambassador
	}
	res2 := &Resolver{Store: n.store}
	mgr := Manager{keyStore: ks, networkClient: n.amb.networkClient, resolver: res2, serviceResolver: resolver.DIDServiceResolver{Resolver: res2}, store: n.store}
	var preErr error
	if id != nil {
		_, _, preErr = n.store.Resolve(*id, &resolver.ResolveMetadata{AllowDeactivated: true})
	}
	change := orm.DIDChangeLog{DIDDocumentVersion: orm.DidDocument{DID: orm.DID{ID: m.ID}, Raw: string(raw)}}
	switch m.Via {
	case "":
		// the document as Manager.Update validates and publishes it
		v := vView(withJSONLDContext(withJSONLDContext(next, did.DIDContextV1URI()), jsonld.JWS2020ContextV1URI()))
		res.view = &v
		err = mgr.Update(audit.TestContext(), *id, next)
	case "deactivated":
		empty := CreateDocument()
		empty.ID = *id
		v := vView(empty)
		res.view = &v
		change.Type = orm.DIDChangeDeactivated
		err = mgr.Commit(audit.TestContext(), change)
	case "updated", "created", "bogus":
		if parseErr == nil {
			v := vView(next)
			res.view = &v
		}
		change.Type = map[string]string{"updated": orm.DIDChangeUpdated, "created": orm.DIDChangeCreated, "bogus": "renamed"}[m.Via]
		if m.Via == "created" {
			vSQLOnce.Do(func() { vSQLDB = testDB(n.t) })
			mgr.db = vSQLDB
		}
		err = mgr.Commit(audit.TestContext(), change)
	case "rmvm":
		keyID, kerr := did.ParseDIDURL(m.Rm)
		if kerr != nil {
			res.class = "err:mgr:bad-kid"
			return
		}
		if cur, _, rerr := res2.Resolve(*id, &resolver.ResolveMetadata{AllowDeactivated: true}); rerr == nil {
			v := vView(withJSONLDContext(withJSONLDContext(*cur, did.DIDContextV1URI()), jsonld.JWS2020ContextV1URI()))
			res.view = &v
		}
		err = mgr.RemoveVerificationMethod(audit.TestContext(), *id, *keyID)
	case "iscommitted":
		res.rawHash = hash.SHA256Sum(raw).String()
		ok, cerr := mgr.IsCommitted(audit.TestContext(), change)
		if cerr != nil {
			res.class = "err:mgr:is-committed:" + vErrCause(cerr)
			return
		}
		res.class, res.committed = "ok", fmt.Sprint(ok)
		return
	case "new":
		// Manager.NewDocument with a key store that "generates" the given key and names it with the function NewDocument hands in
		key, perr := jwk.ParseKey([]byte(m.NewJWK))
		if perr != nil {
			res.class = "err:mgr:bad-new-key"
			return
		}
		var pub interface{}
		if perr = key.Raw(&pub); perr != nil {
			res.class = "err:mgr:bad-new-key"
			return
		}
		ks.EXPECT().New(gomock.Any(), gomock.Any()).AnyTimes().DoAndReturn(func(_ context.Context, naming nutsCrypto.KIDNamingFunc) (*orm.KeyReference, interface{}, error) {
			name, nerr := naming(pub)
			if nerr != nil {
				return nil, nil, nerr
			}
			return &orm.KeyReference{KID: name, KeyName: "verif", Version: "1"}, pub, nil
		})
		sqlDoc, nerr := mgr.NewDocument(audit.TestContext(), DefaultKeyFlags())
		if nerr != nil {
			res.class = "err:mgr:new-document:" + vErrCause(nerr)
			return
		}
		gen, gerr := sqlDoc.GenerateDIDDocument()
		if gerr != nil {
			res.class = "err:mgr:generate:" + vErrCause(gerr)
			return
		}
		v := vView(gen)
		res.view = &v
		var vmIDs []string
		for _, vm := range gen.VerificationMethod {
			vmIDs = append(vmIDs, vm.ID.String())
		}
		res.newDoc = fmt.Sprintf("%s|%s|%d,%d,%d,%d,%d|ctrl=%d|svc=%d", gen.ID.String(), strings.Join(vmIDs, ","), len(gen.Authentication), len(gen.AssertionMethod),
			len(gen.KeyAgreement), len(gen.CapabilityInvocation), len(gen.CapabilityDelegation), len(gen.Controller), len(gen.Service))
		// the harness's own naming of the key: RFC 7638 thumbprint in base64url (key id fragment) and base58 (DID)
		res.newKey = vThumbOfPublic(pub)
		if tb, derr := base64.RawURLEncoding.DecodeString(res.newKey); derr == nil {
			res.newB58 = vBase58(tb)
		}
		// the sub-key naming function for the same key under this DID (what AddVerificationMethod uses)
		if sub, serr := didSubKIDNamingFunc(gen.ID)(pub); serr == nil {
			res.newDoc += "|sub=" + sub
		} else {
			res.newDoc += "|sub=ERR"
		}
		vSQLOnce.Do(func() { vSQLDB = testDB(n.t) })
		mgr.db = vSQLDB
		change = orm.DIDChangeLog{Type: orm.DIDChangeCreated, DIDDocumentVersion: *sqlDoc} // Raw is empty: ToDIDDocument generates the document
		err = mgr.Commit(audit.TestContext(), change)
	default:
		res.class = "err:mgr:bad-via"
		return
	}
	if captured != nil {
		creation := m.Via == "created" || m.Via == "new"
		if captured.Type != DIDDocumentType || (captured.PublicKey != nil) != creation {
			res.class = "ok+TEMPLATE-MISMATCH"
		} else {
			res.class = "ok"
		}
		res.kid, res.prevs, res.payload = captured.KID, captured.AdditionalPrevs, captured.Payload
		if captured.PublicKey != nil {
			res.key = vThumbOfPublic(captured.PublicKey)
		}
		if n.ownTx != nil {
			if err == nil {
				res.ownAdd = "ok"
			} else {
				res.ownAdd = "err:mgr:store:" + vErrCause(err)
			}
		}
		if m.Via == "rmvm" {
			var pub did.Document
			if json.Unmarshal(captured.Payload, &pub) != nil {
				res.shape = "doc=UNPARSEABLE"
			} else {
				var vms, ci []string
				for _, vm := range pub.VerificationMethod {
					vms = append(vms, vm.ID.String())
				}
				for _, r := range pub.CapabilityInvocation {
					ci = append(ci, r.ID.String())
				}
				res.shape = "doc=vm[" + strings.Join(vms, ",") + "]ci[" + strings.Join(ci, ",") + "]"
			}
		}
		return
	}
	msg := ""
	if err != nil {
		msg = err.Error()
	}
	switch {
	case err == nil && (m.Via == "updated" || m.Via == "rmvm"): // nil and nothing handed to the network
		res.class, res.nothing = "ok", true
	case err == nil:
		res.class = "err:mgr:nothing-published"
	case strings.Contains(msg, "unknown event type"):
		res.class = "err:mgr:unknown-event-type"
	case m.Via == "created" && parseErr != nil:
		res.class = "err:mgr:unparseable"
	case m.Via == "created" || m.Via == "new":
		res.class = "err:mgr:create-key:" + vErrCause(err)
	case preErr != nil:
		res.class = "err:mgr:resolve:" + vErrCause(preErr)
	case errors.Is(err, resolver.ErrDeactivated) && !strings.Contains(msg, "controller") && m.Via != "updated": // onUpdate's own deactivation test answers nil
		res.class = "err:mgr:deactivated"
	case m.Via == "updated" && parseErr != nil:
		res.class = "err:mgr:unparseable"
	case strings.Contains(msg, "could not find any controllers for document"):
		res.class = "err:mgr:no-controllers"
	case strings.Contains(msg, "could not find capabilityInvocation key"):
		res.class = "err:mgr:no-key"
	case strings.Contains(msg, "error while finding controllers for document"):
		res.class = "err:mgr:controllers:" + vErrCause(err)
	case strings.Contains(msg, "invalid ") || strings.Contains(msg, "validation failed"):
		c := vValidateClass(msg)
		if strings.Contains(c, "other(") {
			c = "validate:managed-service"
			res.svcOk = false
		}
		res.class = "err:mgr:" + c
	default:
		res.class = "err:mgr:controller-meta:" + vErrCause(err)
	}
	return
}

// a Manager.Update attempt on the scratch node; when it publishes, the generator signs the template and returns the pair
func (g *vGen) mgrStep(n *vNode) *vPair {
	d := g.someDid(nil)
	if d == nil || d.latest() == nil {
		return nil
	}
	if g.rng.Intn(5) == 0 { // the creation side: NewDocument / Commit(created)
		return g.mgrCreateStep(n)
	}
	if g.rng.Intn(6) == 0 { // round 3: IsCommitted for the latest / an older / a foreign / no document, known and unknown DIDs
		g.mgrIsCommitted(d)
		return nil
	}
	spec := d.latest().spec.clone()
	via := []string{"", "", "", "updated", "updated", "deactivated", "bogus", "rmvm", "rmvm"}[g.rng.Intn(9)]
	switch g.rng.Intn(8) {
	case 0:
		vDeactivate(&spec)
	case 1:
		g.violate([]string{"svc-duplicate-type", "svc-duplicate-type-padded", "vm-thumbprint-mismatch", "vm-foreign-prefix", "svc-foreign-prefix", "no-did-context"}[g.rng.Intn(6)], &spec)
	default:
		g.randomEdit(&spec)
	}
	// the key ids this node "holds": every / no / a random part of the verification methods of all documents so far
	var all []string
	for _, id := range g.order {
		for _, ver := range g.dids[id].versions {
			for _, vm := range ver.spec.VMs {
				all = append(all, vm.ID)
			}
		}
	}
	sort.Strings(all)
	var has []string
	mode := g.rng.Intn(5)
	for i, k := range all {
		if i > 0 && all[i-1] == k {
			continue
		}
		if mode <= 1 || (mode <= 3 && g.rng.Intn(2) == 0) {
			has = append(has, k)
		}
	}
	if via == "deactivated" {
		spec = d.latest().spec.clone()
		vDeactivate(&spec) // what Deactivate proposes itself; the proposal of the change is ignored
	}
	rm := ""
	if via == "rmvm" {
		// RemoveVerificationMethod works on the STORED latest version: a listed method (first / last / any), a method of another
		// DID, an id nobody has, the id with another fragment case
		spec = d.latest().spec.clone()
		switch k := g.rng.Intn(8); {
		case k <= 4 && len(spec.VMs) > 0:
			rm = spec.VMs[[]int{0, len(spec.VMs) - 1, g.rng.Intn(len(spec.VMs))}[g.rng.Intn(3)]].ID
		case k == 5 && len(all) > 0:
			rm = all[g.rng.Intn(len(all))]
		case k == 6 && len(spec.VMs) > 0:
			rm = spec.VMs[0].ID + "x"
		default:
			rm = spec.ID + "#nobody"
		}
		vRemoveVM(&spec, rm)
	}
	payload := spec.payload()
	if via == "updated" && g.rng.Intn(12) == 0 {
		payload = []byte(`{"id": 7`) // the change log holds something that is no DID document
	}
	m := &vMgr{ID: spec.ID, Has: has, Next: base64.StdEncoding.EncodeToString(payload), Via: via, Rm: rm}
	if has == nil {
		m.Has = []string{}
	}
	res := n.runManager(m)
	if res.class != "ok" || res.nothing {
		g.preQueue = append(g.preQueue, m)
		return nil
	}
	var key *vKey
	for _, k := range g.keys {
		if strings.HasSuffix(res.kid, "#"+k.b64) {
			key = k
		}
	}
	if key == nil {
		g.preQueue = append(g.preQueue, m)
		return nil
	}
	var prevs []hash.SHA256Hash
	for _, p := range res.prevs { // the network layer adds each previous transaction once
		dup := false
		for _, q := range prevs {
			dup = dup || q.Equals(p)
		}
		if !dup {
			prevs = append(prevs, p)
		}
	}
	var pubSpec vDocSpec = spec
	target := d
	ownAdd := via != "updated" && g.rng.Intn(2) == 0
	p := g.emit("mgr:published", res.payload, vSignSpec{key: key, kid: res.kid, prevs: prevs, clock: g.clockFor(prevs)}, func(ok bool, tx dag.Transaction) {
		if ok {
			m.Own = ownAdd // only when the first run's ambassador accepted: both nodes then hold the same events
			target.versions = append(target.versions, vVersion{spec: pubSpec.clone(), ref: tx.Ref(), clock: tx.Clock(), time: tx.SigningTime().Unix()})
		}
	})
	p.Pre = append(p.Pre, m)
	return p
}

// what go-did's RemoveVerificationMethod does, on the generator's own bookkeeping (written independently: by id string)
func vRemoveVM(spec *vDocSpec, id string) {
	var vms []vVMSpec
	for _, vm := range spec.VMs {
		if vm.ID != id {
			vms = append(vms, vm)
		}
	}
	spec.VMs = vms
	for rel, items := range spec.Rels {
		var keep []interface{}
		for _, it := range items {
			switch t := it.(type) {
			case string:
				if t != id {
					keep = append(keep, it)
				}
			case vVMSpec:
				if t.ID != id {
					keep = append(keep, it)
				}
			default:
				keep = append(keep, it)
			}
		}
		spec.Rels[rel] = keep
	}
}

// an IsCommitted question, attached (like refused Update attempts) to the next pair
func (g *vGen) mgrIsCommitted(d *vDid) {
	id := d.latest().spec.ID
	var raw []byte
	switch g.rng.Intn(6) {
	case 0, 1, 2:
		raw = d.latest().spec.payload()
	case 3:
		raw = d.versions[g.rng.Intn(len(d.versions))].spec.payload()
	case 4:
		raw = []byte(`{"id": 7`)
	default:
		raw = d.latest().spec.payload()
		id = "did:nuts:" + vBase58([]byte(fmt.Sprintf("never-created-%d", g.rng.Intn(1000))))
	}
	g.preQueue = append(g.preQueue, &vMgr{ID: id, Has: []string{}, Next: base64.StdEncoding.EncodeToString(raw), Via: "iscommitted"})
}

// the creation side of the publishing path. Mostly the REAL NewDocument (key store hands out a generator key, named by the
// function NewDocument passes in) -> SQL document -> Commit(created) -> onCreate; sometimes Commit(created) on a document the
// change log holds whose first verification method is not the DID's key / has a made-up type / is missing.
// The captured creation template is signed with the attached key and delivered to the ambassador like any received creation.
func (g *vGen) mgrCreateStep(n *vNode) *vPair {
	k := g.freshKey()
	var m *vMgr
	spec := vBasicDoc(k)
	mode := g.rng.Intn(8)
	switch {
	case mode <= 3:
		jb, _ := json.Marshal(k.pubM)
		m = &vMgr{ID: k.did, Has: []string{}, Via: "new", NewJWK: string(jb)}
		// what NewDocument + GenerateDIDDocument make: the key under all five relationships
		id := k.did + "#" + k.b64
		spec.Rels = map[string][]interface{}{"authentication": {id}, "assertionMethod": {id}, "keyAgreement": {id}, "capabilityInvocation": {id}, "capabilityDelegation": {id}}
	case mode == 4: // first method is another key: onCreate attaches THAT key; the ambassador must refuse (DID != thumbprint)
		other := g.freshKey()
		spec = vBasicDoc(k, other)
		spec.VMs[0], spec.VMs[1] = spec.VMs[1], spec.VMs[0]
	case mode == 5: // no verification method at all
		spec.VMs = nil
		spec.Rels = map[string][]interface{}{}
	case mode == 6: // first method has a type go-did has no key decoding for
		spec.VMs[0].Type = "MadeUpVerificationKey2024"
	default: // a plain well-formed creation through Commit(created), sometimes not JSON
	}
	payload := spec.payload()
	if m == nil {
		if mode == 7 && g.rng.Intn(3) == 0 {
			payload = []byte(`{"id": 7`)
		}
		m = &vMgr{ID: spec.ID, Has: []string{}, Via: "created", Next: base64.StdEncoding.EncodeToString(payload)}
	}
	res := n.runManager(m)
	if res.class != "ok" {
		g.preQueue = append(g.preQueue, m)
		return nil
	}
	var key *vKey
	for _, c := range g.keys {
		if c.b64 == res.key {
			key = c
		}
	}
	if key == nil {
		g.preQueue = append(g.preQueue, m)
		return nil
	}
	kind := "mgr:created"
	if m.Via == "new" {
		kind = "mgr:new-created"
		var parsed did.Document
		if json.Unmarshal(res.payload, &parsed) == nil {
			spec.ID = parsed.ID.String()
		}
	}
	pubSpec := spec
	p := g.emit(kind, res.payload, vSignSpec{key: key, kid: res.kid, attach: key, prevs: res.prevs, clock: g.clockFor(res.prevs)}, func(ok bool, tx dag.Transaction) {
		if !ok {
			return
		}
		d := g.dids[pubSpec.ID]
		if d == nil {
			d = &vDid{key: key}
			g.dids[pubSpec.ID] = d
			g.order = append(g.order, pubSpec.ID)
		}
		d.versions = append(d.versions, vVersion{spec: pubSpec.clone(), ref: tx.Ref(), clock: tx.Clock(), time: tx.SigningTime().Unix()})
	})
	p.Pre = append(p.Pre, m)
	return p
}
