//go:build verif

// C09 publishing path (deepening round 2026-09-28): the REAL Manager.Update on the node's store with a key store that holds
// a chosen set of key ids; the transaction template it hands to networkClient.CreateTransaction is captured (kid, additional
// prevs, payload). A published template is signed by the generator with that kid's key and delivered to the ambassador like
// any other received transaction.
package didnuts

import (
	"context"
	"encoding/base64"
	"encoding/json"
	"errors"
	"fmt"
	"sort"
	"strings"

	"github.com/nuts-foundation/go-did/did"
	"github.com/nuts-foundation/nuts-node/audit"
	nutsCrypto "github.com/nuts-foundation/nuts-node/crypto"
	"github.com/nuts-foundation/nuts-node/crypto/hash"
	"github.com/nuts-foundation/nuts-node/jsonld"
	"github.com/nuts-foundation/nuts-node/network"
	"github.com/nuts-foundation/nuts-node/network/dag"
	"github.com/nuts-foundation/nuts-node/vdr/resolver"
	"go.uber.org/mock/gomock"
)

// one call of Manager.Update, made right before the pair it is attached to is delivered
type vMgr struct {
	ID   string   `json:"id"`   // DID to update
	Has  []string `json:"has"`  // key ids the key store holds
	Next string   `json:"next"` // proposed document (JSON, base64)
}

type vMgrOp struct {
	Op    string   `json:"op"`
	H     int      `json:"h"`
	I     int      `json:"i"`
	J     int      `json:"j"`
	ID    string   `json:"id"`
	Has   []string `json:"has"`
	Doc   *vNDoc   `json:"doc"`   // the document Manager.Update validates (after withJSONLDContext); nil: the proposal is not JSON for a did.Document
	SvcOk bool     `json:"svcOk"` // managedServiceValidator's verdict (contract; outside C09)
}

var errVerifStop = errors.New("verif-stop")

func (s *vNet) CreateTransaction(ctx context.Context, spec network.Template) (dag.Transaction, error) {
	if s.node.onCreate != nil {
		return s.node.onCreate(spec)
	}
	return s.MockTransactions.CreateTransaction(ctx, spec)
}

type vMgrResult struct {
	class   string
	kid     string
	prevs   []hash.SHA256Hash
	payload []byte // what was handed to the network
	view    *vNDoc
	svcOk   bool
}

func (r vMgrResult) line() string {
	if r.class != "ok" {
		return r.class
	}
	var ps []string
	for _, p := range r.prevs {
		ps = append(ps, p.String()[:10])
	}
	return fmt.Sprintf("ok kid=%s prevs=[%s]", r.kid, strings.Join(ps, ","))
}

func (n *vNode) runManager(m *vMgr) (res vMgrResult) {
	res.svcOk = true
	defer func() {
		if r := recover(); r != nil {
			res.class = "panic:" + vPanicSite(r)
		}
		n.onCreate = nil
	}()
	raw, _ := base64.StdEncoding.DecodeString(m.Next)
	var next did.Document
	if err := json.Unmarshal(raw, &next); err != nil {
		res.class = "err:mgr:unparseable"
		return
	}
	// the document as Manager.Update validates and publishes it
	shown := withJSONLDContext(withJSONLDContext(next, did.DIDContextV1URI()), jsonld.JWS2020ContextV1URI())
	v := vView(shown)
	res.view = &v
	has := map[string]bool{}
	for _, k := range m.Has {
		has[k] = true
	}
	ks := nutsCrypto.NewMockKeyStore(gomock.NewController(n.t))
	ks.EXPECT().Exists(gomock.Any(), gomock.Any()).AnyTimes().DoAndReturn(func(_ context.Context, kid string) (bool, error) { return has[kid], nil })
	var captured *network.Template
	n.onCreate = func(t network.Template) (dag.Transaction, error) {
		captured = &t
		return nil, errVerifStop // nothing is written by the manager itself: every node sees the update through its ambassador
	}
	res2 := &Resolver{Store: n.store}
	mgr := Manager{keyStore: ks, networkClient: n.amb.networkClient, resolver: res2, serviceResolver: resolver.DIDServiceResolver{Resolver: res2}, store: n.store}
	id, err := did.ParseDID(m.ID)
	if err != nil {
		res.class = "err:mgr:bad-did"
		return
	}
	_, _, preErr := n.store.Resolve(*id, &resolver.ResolveMetadata{AllowDeactivated: true})
	err = mgr.Update(audit.TestContext(), *id, next)
	if captured != nil {
		if captured.Type != DIDDocumentType || captured.PublicKey != nil {
			res.class = "ok+TEMPLATE-MISMATCH"
		} else {
			res.class = "ok"
		}
		res.kid, res.prevs, res.payload = captured.KID, captured.AdditionalPrevs, captured.Payload
		return
	}
	msg := ""
	if err != nil {
		msg = err.Error()
	}
	switch {
	case err == nil:
		res.class = "err:mgr:nothing-published"
	case preErr != nil:
		res.class = "err:mgr:resolve:" + vErrCause(preErr)
	case errors.Is(err, resolver.ErrDeactivated) && !strings.Contains(msg, "controller"):
		res.class = "err:mgr:deactivated"
	case strings.Contains(msg, "could not find any controllers for document"):
		res.class = "err:mgr:no-controllers"
	case strings.Contains(msg, "could not find capabilityInvocation key"):
		res.class = "err:mgr:no-key"
	case strings.Contains(msg, "error while finding controllers for document"):
		res.class = "err:mgr:controllers:" + vErrCause(err)
	case strings.Contains(msg, "invalid ") || strings.Contains(msg, "validation failed"):
		c := vValidateClass(msg)
		if strings.Contains(c, "other(") {
			c = "validate:managed-service"
			res.svcOk = false
		}
		res.class = "err:mgr:" + c
	default:
		res.class = "err:mgr:controller-meta:" + vErrCause(err)
	}
	return
}

// a Manager.Update attempt on the scratch node; when it publishes, the generator signs the template and returns the pair
func (g *vGen) mgrStep(n *vNode) *vPair {
	d := g.someDid(nil)
	if d == nil || d.latest() == nil {
		return nil
	}
	spec := d.latest().spec.clone()
	switch g.rng.Intn(8) {
	case 0:
		vDeactivate(&spec)
	case 1:
		g.violate([]string{"svc-duplicate-type", "svc-duplicate-type-padded", "vm-thumbprint-mismatch", "vm-foreign-prefix", "svc-foreign-prefix", "no-did-context"}[g.rng.Intn(6)], &spec)
	default:
		g.randomEdit(&spec)
	}
	// the key ids this node "holds": every / no / a random part of the verification methods of all documents so far
	var all []string
	for _, id := range g.order {
		for _, ver := range g.dids[id].versions {
			for _, vm := range ver.spec.VMs {
				all = append(all, vm.ID)
			}
		}
	}
	sort.Strings(all)
	var has []string
	mode := g.rng.Intn(5)
	for i, k := range all {
		if i > 0 && all[i-1] == k {
			continue
		}
		if mode <= 1 || (mode <= 3 && g.rng.Intn(2) == 0) {
			has = append(has, k)
		}
	}
	payload := spec.payload()
	m := &vMgr{ID: spec.ID, Has: has, Next: base64.StdEncoding.EncodeToString(payload)}
	if has == nil {
		m.Has = []string{}
	}
	res := n.runManager(m)
	if res.class != "ok" {
		g.preQueue = append(g.preQueue, m)
		return nil
	}
	var key *vKey
	for _, k := range g.keys {
		if strings.HasSuffix(res.kid, "#"+k.b64) {
			key = k
		}
	}
	if key == nil {
		g.preQueue = append(g.preQueue, m)
		return nil
	}
	var prevs []hash.SHA256Hash
	for _, p := range res.prevs { // the network layer adds each previous transaction once
		dup := false
		for _, q := range prevs {
			dup = dup || q.Equals(p)
		}
		if !dup {
			prevs = append(prevs, p)
		}
	}
	var pubSpec vDocSpec = spec
	target := d
	p := g.emit("mgr:published", res.payload, vSignSpec{key: key, kid: res.kid, prevs: prevs, clock: g.clockFor(prevs)}, func(ok bool, tx dag.Transaction) {
		if ok {
			target.versions = append(target.versions, vVersion{spec: pubSpec.clone(), ref: tx.Ref(), clock: tx.Clock(), time: tx.SigningTime().Unix()})
		}
	})
	p.Pre = append(p.Pre, m)
	return p
}
