//go:build verif

package didnuts

// C09 correspondence harness (injected with `go test -overlay`; never lives in /repo).
// Generated histories of (transaction, document) pairs are delivered to the REAL ambassador.callback (after the REAL
// dag signature verifier), backed by the REAL didstore on bbolt, the real didnuts.Resolver and the real
// dag.SourceTXKeyResolver. Transactions are real signed JWS transactions (ECDSA P-256).
// Output: ops.jsonl (one JSON op per line for the Lean model) and impl.out (one canonical line per op).

import (
	"bufio"
	"context"
	"crypto"
	"crypto/sha256"
	"encoding/base64"
	"encoding/hex"
	"encoding/json"
	"errors"
	"fmt"
	"io"
	"math/big"
	"math/rand"
	"os"
	"path/filepath"
	"runtime"
	"sort"
	"strconv"
	"strings"
	"testing"
	"time"

	"github.com/lestrrat-go/jwx/v2/jwa"
	"github.com/lestrrat-go/jwx/v2/jwk"
	"github.com/lestrrat-go/jwx/v2/jws"
	ssi "github.com/nuts-foundation/go-did"
	"github.com/nuts-foundation/go-did/did"
	"github.com/nats-io/nats.go"
	"github.com/nuts-foundation/go-stoabs"
	stoabsbbolt "github.com/nuts-foundation/go-stoabs/bbolt"
	"github.com/nuts-foundation/nuts-node/audit"
	"github.com/nuts-foundation/nuts-node/core"
	nutsCrypto "github.com/nuts-foundation/nuts-node/crypto"
	"github.com/nuts-foundation/nuts-node/crypto/hash"
	"github.com/nuts-foundation/nuts-node/events"
	"github.com/nuts-foundation/nuts-node/network"
	"github.com/nuts-foundation/nuts-node/network/dag"
	"github.com/nuts-foundation/nuts-node/storage"
	"github.com/nuts-foundation/nuts-node/vdr/didnuts/didstore"
	"github.com/nuts-foundation/nuts-node/vdr/didnuts/util"
	"github.com/nuts-foundation/nuts-node/vdr/resolver"
	"github.com/sirupsen/logrus"
	"go.etcd.io/bbolt"
	"go.uber.org/mock/gomock"
)

// ---------------------------------------------------------------------------------------------
// keys

type vKey struct {
	priv  jwk.Key
	pub   crypto.PublicKey
	pubM  map[string]interface{} // public JWK as JSON map
	b64   string                 // RFC7638 thumbprint, base64url  (key id fragment; the model's key name)
	b58   string                 // same thumbprint, base58         (DID)
	did   string
	index int
}

// RFC 7638 thumbprint of an EC public JWK given as JSON map, calculated here (no jwx, no nutsCrypto):
// SHA-256 over {"crv":..,"kty":"EC","x":..,"y":..} with the members in lexicographic order
func vThumb(m map[string]interface{}) ([]byte, bool) {
	crv, ok1 := m["crv"].(string)
	kty, ok2 := m["kty"].(string)
	x, ok3 := m["x"].(string)
	y, ok4 := m["y"].(string)
	if !ok1 || !ok2 || !ok3 || !ok4 || kty != "EC" {
		return nil, false
	}
	q := func(v string) string { b, _ := json.Marshal(v); return string(b) }
	h := sha256.Sum256([]byte(`{"crv":` + q(crv) + `,"kty":"EC","x":` + q(x) + `,"y":` + q(y) + `}`))
	return h[:], true
}

const vB58Alphabet = "123456789ABCDEFGHJKLMNPQRSTUVWXYZabcdefghijkmnopqrstuvwxyz"

// base58 (bitcoin alphabet), own implementation
func vBase58(b []byte) string {
	n := new(big.Int).SetBytes(b)
	var out []byte
	radix, zero, mod := big.NewInt(58), big.NewInt(0), new(big.Int)
	for n.Cmp(zero) > 0 {
		n.DivMod(n, radix, mod)
		out = append(out, vB58Alphabet[mod.Int64()])
	}
	for _, c := range b {
		if c != 0 {
			break
		}
		out = append(out, '1')
	}
	for i, j := 0, len(out)-1; i < j; i, j = i+1, j-1 {
		out[i], out[j] = out[j], out[i]
	}
	return string(out)
}

func vNewKey(i int) *vKey {
	k, err := nutsCrypto.GenerateJWK()
	if err != nil {
		panic(err)
	}
	pubJ, _ := k.PublicKey()
	var raw interface{}
	if err := pubJ.Raw(&raw); err != nil {
		panic(err)
	}
	b, _ := json.Marshal(pubJ)
	m := map[string]interface{}{}
	_ = json.Unmarshal(b, &m)
	delete(m, "kid")
	tp, ok := vThumb(m)
	if !ok {
		panic("generated key is not an EC JWK")
	}
	b58 := vBase58(tp)
	return &vKey{priv: k, pub: raw.(crypto.PublicKey), pubM: m, b64: base64.RawURLEncoding.EncodeToString(tp), b58: b58, did: "did:nuts:" + b58, index: i}
}

// ---------------------------------------------------------------------------------------------
// document specs (what the generator manipulates) -> JSON payload

type vVMSpec struct {
	ID     string                 // full id
	Key    *vKey                  // nil => no publicKeyJwk
	Type   string                 // "" => JsonWebKey2020 ; "-" => omitted
	Ctrl   string                 // "" => doc id ; "-" => omitted
	RawJwk map[string]interface{} // overrides Key (for unparseable JWK)
	JwkKid string                 // a "kid" member inside publicKeyJwk
	Base58 string                 // publicKeyBase58 member
}

type vSvcSpec struct {
	ID       string
	Type     string
	Endpoint interface{} // nil => omitted
	NoType   bool
}

type vDocSpec struct {
	ID     string
	Ctx    []string
	Ctrl   []string
	VMs    []vVMSpec
	Rels   map[string][]interface{} // relation -> items: string (reference) or vVMSpec (embedded)
	Svcs   []vSvcSpec
	RawAdd map[string]interface{} // extra top-level members (to break things)
	NullVM bool                   // a JSON null as last entry of verificationMethod
}

var vRelNames = []string{"authentication", "assertionMethod", "keyAgreement", "capabilityInvocation", "capabilityDelegation"}

const vDidCtx = "https://www.w3.org/ns/did/v1"
const vJwsCtx = "https://w3id.org/security/suites/jws-2020/v1"

func (v vVMSpec) json(docID string) map[string]interface{} {
	m := map[string]interface{}{"id": v.ID}
	switch v.Type {
	case "":
		m["type"] = "JsonWebKey2020"
	case "-":
	default:
		m["type"] = v.Type
	}
	switch v.Ctrl {
	case "":
		m["controller"] = docID
	case "-":
	default:
		m["controller"] = v.Ctrl
	}
	if v.Base58 != "" {
		m["publicKeyBase58"] = v.Base58
	}
	if v.RawJwk != nil {
		m["publicKeyJwk"] = v.RawJwk
	} else if v.Key != nil {
		if v.JwkKid != "" {
			j := map[string]interface{}{"kid": v.JwkKid}
			for k, x := range v.Key.pubM {
				j[k] = x
			}
			m["publicKeyJwk"] = j
		} else {
			m["publicKeyJwk"] = v.Key.pubM
		}
	}
	return m
}

func (s vDocSpec) clone() vDocSpec {
	c := s
	c.Ctx = append([]string(nil), s.Ctx...)
	c.Ctrl = append([]string(nil), s.Ctrl...)
	c.VMs = append([]vVMSpec(nil), s.VMs...)
	c.Svcs = append([]vSvcSpec(nil), s.Svcs...)
	c.Rels = map[string][]interface{}{}
	for k, v := range s.Rels {
		c.Rels[k] = append([]interface{}(nil), v...)
	}
	c.RawAdd = nil
	c.NullVM = false
	return c
}

func (s vDocSpec) payload() []byte {
	m := map[string]interface{}{"id": s.ID}
	if len(s.Ctx) > 0 {
		m["@context"] = s.Ctx
	}
	if len(s.Ctrl) > 0 {
		m["controller"] = s.Ctrl
	}
	if len(s.VMs) > 0 {
		var l []interface{}
		for _, v := range s.VMs {
			l = append(l, v.json(s.ID))
		}
		m["verificationMethod"] = l
	}
	for _, rn := range vRelNames {
		var l []interface{}
		for _, it := range s.Rels[rn] {
			switch x := it.(type) {
			case string:
				l = append(l, x)
			case vVMSpec:
				l = append(l, x.json(s.ID))
			case nil:
				l = append(l, nil)
			}
		}
		if len(l) > 0 {
			m[rn] = l
		}
	}
	if len(s.Svcs) > 0 {
		var l []interface{}
		for _, sv := range s.Svcs {
			e := map[string]interface{}{"id": sv.ID}
			if !sv.NoType {
				e["type"] = sv.Type
			}
			if sv.Endpoint != nil {
				e["serviceEndpoint"] = sv.Endpoint
			}
			l = append(l, e)
		}
		m["service"] = l
	}
	if s.NullVM {
		l, _ := m["verificationMethod"].([]interface{})
		m["verificationMethod"] = append(l, nil)
	}
	for k, v := range s.RawAdd {
		m[k] = v
	}
	b, _ := json.Marshal(m)
	return b
}

// capInv keys of a spec that are references to own verification methods (usable to sign with kid = VM id)
func (s vDocSpec) capInvKeys() []vVMSpec {
	var out []vVMSpec
	for _, it := range s.Rels["capabilityInvocation"] {
		if ref, ok := it.(string); ok {
			for _, vm := range s.VMs {
				if vm.ID == ref && vm.Key != nil {
					out = append(out, vm)
				}
			}
		}
	}
	return out
}

func vBasicDoc(k *vKey, extra ...*vKey) vDocSpec {
	s := vDocSpec{ID: k.did, Ctx: []string{vDidCtx, vJwsCtx}, Rels: map[string][]interface{}{}}
	for _, kk := range append([]*vKey{k}, extra...) {
		id := k.did + "#" + kk.b64
		s.VMs = append(s.VMs, vVMSpec{ID: id, Key: kk})
		s.Rels["capabilityInvocation"] = append(s.Rels["capabilityInvocation"], id)
		s.Rels["assertionMethod"] = append(s.Rels["assertionMethod"], id)
	}
	return s
}

// ---------------------------------------------------------------------------------------------
// the model's view of a parsed document

type vNVM struct {
	ID        string `json:"id"`
	Pfx       string `json:"pfx"`
	Frag      string `json:"frag"`
	IDEmpty   bool   `json:"idEmpty,omitempty"`
	TypeBlank bool   `json:"typeBlank,omitempty"`
	CtrlEmpty bool   `json:"ctrlEmpty,omitempty"`
	PKUnsupported bool `json:"pkUnsupported,omitempty"` // go-did's PublicKey() does not read publicKeyJwk for this type
	Key       string `json:"key"`
}
type vNSvc struct {
	ID          string `json:"id"`
	Pfx         string `json:"pfx"`
	Frag        string `json:"frag"`
	Type        string `json:"type"`
	IDBlank     bool   `json:"idBlank,omitempty"`
	TypeBlank   bool   `json:"typeBlank,omitempty"`
	EndpointBad bool   `json:"endpointBad,omitempty"`
	Body        string `json:"body"`
}
type vNDoc struct {
	ID           string   `json:"id"`
	IDID         string   `json:"idID"`
	IDEmpty      bool     `json:"idEmpty,omitempty"`
	HasDidCtx    bool     `json:"hasDidCtx"`
	Contexts     []string `json:"contexts"`
	Controllers  []string `json:"controllers"`
	CtrlEmptyAny bool     `json:"ctrlEmptyAny,omitempty"`
	VMNull       bool     `json:"vmNull,omitempty"`  // verificationMethod holds a nil entry (JSON null)
	RelNull      bool     `json:"relNull,omitempty"` // a relationship without verification method (JSON null)
	VMs          []vNVM   `json:"vms"`
	Auth         []vNVM   `json:"auth"`
	Assertion    []vNVM   `json:"assertion"`
	KeyAgr       []vNVM   `json:"keyAgr"`
	CapInv       []vNVM   `json:"capInv"`
	CapDel       []vNVM   `json:"capDel"`
	Services     []vNSvc  `json:"services"`
}

// key name of a verification method: base64url thumbprint, "" when there is no JWK, "!" when it does not parse
func vKeyName(vm *did.VerificationMethod) string {
	k, err := vm.JWK()
	if err != nil {
		return "!"
	}
	if k == nil {
		return ""
	}
	if tp, ok := vThumb(vm.PublicKeyJwk); ok {
		return base64.RawURLEncoding.EncodeToString(tp)
	}
	tp, err := k.Thumbprint(crypto.SHA256)
	if err != nil {
		return "!"
	}
	return base64.RawURLEncoding.EncodeToString(tp)
}

func vViewVM(vm *did.VerificationMethod) vNVM {
	u := vm.ID.URI()
	frag := u.Fragment
	u.Fragment = ""
	return vNVM{ID: vm.ID.String(), Pfx: u.String(), Frag: frag, IDEmpty: vm.ID.Empty(),
		TypeBlank: len(strings.TrimSpace(string(vm.Type))) == 0, CtrlEmpty: vm.Controller.Empty(), Key: vKeyName(vm),
		PKUnsupported: vm.Type != ssi.JsonWebKey2020 && vm.Type != ssi.ECDSASECP256K1VerificationKey2019}
}

func vDigest(v interface{}) string {
	b, _ := json.Marshal(v)
	h := sha256.Sum256(b)
	return hex.EncodeToString(h[:4])
}

func vView(d did.Document) vNDoc {
	n := vNDoc{ID: d.ID.String(), IDID: d.ID.ID, IDEmpty: d.ID.Empty(), Contexts: []string{}, Controllers: []string{},
		VMs: []vNVM{}, Auth: []vNVM{}, Assertion: []vNVM{}, KeyAgr: []vNVM{}, CapInv: []vNVM{}, CapDel: []vNVM{}, Services: []vNSvc{}}
	for _, c := range d.Context {
		s := util.LDContextToString(c)
		n.Contexts = append(n.Contexts, s)
	}
	// containsContextURI of go-did: string or ssi.URI entries only
	for _, c := range d.Context {
		switch x := c.(type) {
		case string:
			if x == vDidCtx {
				n.HasDidCtx = true
			}
		case fmt.Stringer:
			if x.String() == vDidCtx {
				n.HasDidCtx = true
			}
		}
	}
	for _, c := range d.Controller {
		n.Controllers = append(n.Controllers, c.String())
		if c.Empty() {
			n.CtrlEmptyAny = true
		}
	}
	for _, vm := range d.VerificationMethod {
		if vm == nil {
			n.VMNull = true
			continue
		}
		n.VMs = append(n.VMs, vViewVM(vm))
	}
	rel := func(rs did.VerificationRelationships) []vNVM {
		out := []vNVM{}
		for _, r := range rs {
			if r.VerificationMethod == nil {
				n.RelNull = true
				continue
			}
			out = append(out, vViewVM(r.VerificationMethod))
		}
		return out
	}
	n.Auth, n.Assertion, n.KeyAgr, n.CapInv, n.CapDel = rel(d.Authentication), rel(d.AssertionMethod), rel(d.KeyAgreement), rel(d.CapabilityInvocation), rel(d.CapabilityDelegation)
	for _, s := range d.Service {
		u := s.ID
		frag := u.Fragment
		idStr := u.String()
		u.Fragment = ""
		bad := s.ServiceEndpoint == nil
		if !bad {
			switch s.ServiceEndpoint.(type) {
			case string, map[string]interface{}, []interface{}:
			default:
				bad = true
			}
		}
		n.Services = append(n.Services, vNSvc{ID: idStr, Pfx: u.String(), Frag: frag, Type: s.Type,
			IDBlank: len(strings.TrimSpace(idStr)) == 0, TypeBlank: len(strings.TrimSpace(s.Type)) == 0, EndpointBad: bad, Body: vDigest(s) + "~" + base64.RawURLEncoding.EncodeToString([]byte(s.Type))})
	}
	return n
}

// canonical rendering of a stored document = C10 model's Doc.render over the same projection
func vRenderStored(d did.Document) string {
	n := vView(d)
	ent := func(l []vNVM) string {
		var p []string
		for _, v := range l {
			p = append(p, v.ID+"="+v.Key)
		}
		return "[" + strings.Join(p, ",") + "]"
	}
	entPK := func(l []vNVM) string {
		var p []string
		for _, v := range l {
			mark := ""
			if v.PKUnsupported {
				mark = "?"
			}
			p = append(p, v.ID+"="+mark+v.Key)
		}
		return "[" + strings.Join(p, ",") + "]"
	}
	strs := func(l []string) string {
		var p []string
		for _, v := range l {
			p = append(p, v+"=c")
		}
		return "[" + strings.Join(p, ",") + "]"
	}
	var sv []string
	for _, s := range n.Services {
		sv = append(sv, s.ID+"="+s.Body)
	}
	return n.ID + "{Context:" + strs(n.Contexts) + ";Controller:" + strs(n.Controllers) + ";VerificationMethod:" + entPK(n.VMs) +
		";Authentication:" + ent(n.Auth) + ";AssertionMethod:" + ent(n.Assertion) + ";CapabilityInvocation:" + ent(n.CapInv) +
		";CapabilityDelegation:" + ent(n.CapDel) + ";KeyAgreement:" + ent(n.KeyAgr) + ";Service:[" + strings.Join(sv, ",") + "]}"
}

// ---------------------------------------------------------------------------------------------
// transactions

type vTxView struct {
	Ref              string   `json:"ref"`
	Clock            uint32   `json:"clock"`
	Time             int64    `json:"time"`
	Prevs            []string `json:"prevs"`
	PayloadHash      string   `json:"payloadHash"`
	PayloadHashEmpty bool     `json:"payloadHashEmpty,omitempty"`
	SigTimeZero      bool     `json:"sigTimeZero,omitempty"`
	TypeOK           bool     `json:"typeOK"`
	Embedded         *string  `json:"embedded"`    // key name of the jwk header
	EmbeddedDid      string   `json:"embeddedDid"` // base58 thumbprint of the jwk header
	KidOK            bool     `json:"kidOK"`
	KidHolder        string   `json:"kidHolder"`
	KidID            string   `json:"kidID"`
	Signer           string   `json:"signer"` // key name of the key that made the signature
}

// vTx wraps a real signed transaction; two fields can be overridden to reach checkTransactionIntegrity's branches
type vTx struct {
	dag.Transaction
	zeroTime  bool
	emptyHash bool
}

func (t vTx) SigningTime() time.Time {
	if t.zeroTime {
		return time.Time{}
	}
	return t.Transaction.SigningTime()
}
func (t vTx) PayloadHash() hash.SHA256Hash {
	if t.emptyHash {
		return hash.EmptyHash()
	}
	return t.Transaction.PayloadHash()
}

type vPair struct {
	JWS       string  `json:"jws"`
	Payload   string  `json:"payload"` // base64
	ZeroTime  bool    `json:"zeroTime,omitempty"`
	EmptyHash bool    `json:"emptyHash,omitempty"`
	Signer    string  `json:"signerKey"` // key name of the signing key (generator knowledge; EUF contract)
	Kind      string  `json:"kind"`      // generator's label (distribution statistics only)
	Delayed   bool    `json:"delayed,omitempty"`   // delayed-VDR schedule: the DAG verifier sees this transaction earlier than the ambassador
	DagBefore int     `json:"dagBefore,omitempty"` // ... namely just before the pair with this index is processed
	Pre       []*vMgr `json:"pre,omitempty"`       // publishing path: Manager.Update calls made on the node right before this pair is delivered
	Ev        *vEv    `json:"ev,omitempty"`        // entry layer: the pair arrives as a DAG event at the subscription ambassador.Start makes
	tx        vTx     // parsed
	payload   []byte
}

type vSignSpec struct {
	key      *vKey  // private key that signs
	kid      string // kid header (update) / jwk kid (create)
	attach   *vKey  // public key to embed (create); nil => update
	ptype    string
	prevs    []hash.SHA256Hash
	clock    uint32
	time     int64
	zeroTime bool
	emptyHash bool
}

func vSign(payload []byte, s vSignSpec) (dag.Transaction, error) {
	ptype := s.ptype
	if ptype == "" {
		ptype = DIDDocumentType
	}
	unsigned, err := dag.NewTransaction(hash.SHA256Sum(payload), ptype, s.prevs, nil, s.clock)
	if err != nil {
		return nil, err
	}
	priv, _ := s.key.priv.Clone()
	_ = priv.Set(jwk.KeyIDKey, s.kid)
	var pub crypto.PublicKey
	if s.attach != nil {
		pub = s.attach.pub
	}
	return dag.NewTransactionSigner(nutsCrypto.MemoryJWTSigner{Key: priv}, s.kid, pub).Sign(audit.TestContext(), unsigned, time.Unix(s.time, 0).UTC())
}

func vTxViewOf(t vTx, signer string) vTxView {
	v := vTxView{Ref: t.Ref().String(), Clock: t.Clock(), Time: t.SigningTime().Unix(), Prevs: []string{}, PayloadHash: t.PayloadHash().String(),
		PayloadHashEmpty: t.PayloadHash().Empty(), SigTimeZero: t.SigningTime().IsZero(), TypeOK: t.PayloadType() == DIDDocumentType, Signer: signer}
	if v.SigTimeZero {
		v.Time = 0
	}
	for _, p := range t.Previous() {
		v.Prevs = append(v.Prevs, p.String())
	}
	if sk := t.SigningKey(); sk != nil {
		jb, _ := json.Marshal(sk)
		jm := map[string]interface{}{}
		_ = json.Unmarshal(jb, &jm)
		tp, ok := vThumb(jm)
		if !ok {
			tp, _ = sk.Thumbprint(crypto.SHA256)
		}
		n := base64.RawURLEncoding.EncodeToString(tp)
		v.Embedded = &n
		v.EmbeddedDid = vBase58(tp)
	} else {
		kid := t.SigningKeyID()
		if u, err := did.ParseDIDURL(kid); err == nil {
			v.KidOK = true
			v.KidHolder = u.DID.String()
			v.KidID = u.String()
		}
	}
	return v
}

// ---------------------------------------------------------------------------------------------
// node under test

type vNode struct {
	t        *testing.T
	path     string
	db       stoabs.KVStore
	store    didstore.Store
	amb      *ambassador
	verifier dag.Verifier
	noVerify bool
	abandoned bool
	keyRes   dag.SourceTXKeyResolver
	res      Resolver
	notified int
	// entry layer (zz_verif_c09entry_test.go)
	subs     []*vSubscription
	started  bool
	notifier dag.Notifier
	probe    dag.Notifier
	recv     dag.ReceiverFn
	reached  bool
	ack      string
	faultHit bool // the injected failing store call was executed in the last viaEntry
	onCreate func(t network.Template) (dag.Transaction, error) // publishing path: what networkClient.CreateTransaction does
	ownTx    dag.Transaction                                   // round 3: when set, CreateTransaction answers it and Manager.Update writes it to the store itself
}

func vNewNode(t *testing.T, ctrl *gomock.Controller, path string) *vNode {
	db, err := stoabsbbolt.CreateBBoltStore(path, stoabs.WithNoSync())
	if err != nil {
		t.Fatal(err)
	}
	st := didstore.New(&storage.StaticKVStoreProvider{Store: db})
	if err := st.(core.Configurable).Configure(core.ServerConfig{}); err != nil {
		t.Fatal(err)
	}
	n := &vNode{t: t, path: path, db: db, store: st}
	nw := network.NewMockTransactions(ctrl)
	nw.EXPECT().DiscoverServices(gomock.Any()).AnyTimes().Do(func(_ did.DID) { n.notified++ })
	n.amb = NewAmbassador(&vNet{MockTransactions: nw, node: n}, st, nil).(*ambassador)
	n.res = Resolver{Store: st}
	n.keyRes = dag.SourceTXKeyResolver{Resolver: n.res}
	// the DAG's signature verifier is wired as in Network.Configure: its key resolver reads the DID store directly
	n.verifier = dag.NewTransactionSignatureVerifier(dag.SourceTXKeyResolver{Resolver: st})
	return n
}

func (n *vNode) close() {
	if n.abandoned {
		return
	}
	n.db.Close(context.Background())
	os.Remove(n.path)
}

// full content of the database, digested (every bucket, key and value)
func (n *vNode) dbDigest() string {
	h := sha256.New()
	_ = n.db.Read(context.Background(), func(tx stoabs.ReadTx) error {
		btx, ok := tx.Unwrap().(*bbolt.Tx)
		if !ok {
			h.Write([]byte("no-bbolt"))
			return nil
		}
		return btx.ForEach(func(name []byte, b *bbolt.Bucket) error {
			fmt.Fprintf(h, "B%d:%s", len(name), name)
			return b.ForEach(func(k, v []byte) error {
				fmt.Fprintf(h, "K%d:%sV%d:%s", len(k), k, len(v), v)
				return nil
			})
		})
	})
	return hex.EncodeToString(h.Sum(nil)[:8])
}

func vErrCause(err error) string {
	switch {
	case errors.Is(err, ErrNestedDocumentsTooDeep):
		return "too-deep"
	case errors.Is(err, resolver.ErrKeyNotFound):
		return "key-not-found"
	case errors.Is(err, resolver.ErrNotFound):
		return "not-found"
	case err.Error() == resolver.ErrNoActiveController.Error() || strings.HasSuffix(err.Error(), resolver.ErrNoActiveController.Error()):
		return "no-active-controller"
	case err.Error() == resolver.ErrDeactivated.Error() || strings.HasSuffix(err.Error(), resolver.ErrDeactivated.Error()):
		return "deactivated"
	case strings.Contains(err.Error(), "invalid key ID"):
		return "invalid-kid"
	case strings.Contains(err.Error(), "could not parse public key"):
		return "bad-jwk"
	case strings.Contains(err.Error(), "unsupported verification method type"), strings.Contains(err.Error(), "expected either publicKeyMultibase or publicKeyBase58"):
		return "unsupported-type"
	}
	return "other(" + err.Error() + ")"
}

func vValidateClass(msg string) string {
	w3c := map[string]string{"invalid context": "context", "invalid ID": "id", "invalid controller": "controller", "invalid verificationMethod": "verificationMethod",
		"invalid authentication": "authentication", "invalid assertionMethod": "assertionMethod", "invalid keyAgreement": "keyAgreement",
		"invalid capabilityInvocation": "capabilityInvocation", "invalid capabilityDelegation": "capabilityDelegation", "invalid service": "service"}
	if i := strings.Index(msg, "DID Document validation failed: "); i >= 0 {
		rest := msg[i+len("DID Document validation failed: "):]
		if c, ok := w3c[rest]; ok {
			return "validate:w3c:" + c
		}
		return "validate:w3c:other(" + rest + ")"
	}
	if strings.HasSuffix(msg, "invalid verificationMethod: null entry") {
		return "validate:nil:verificationMethod"
	}
	if strings.HasSuffix(msg, "invalid verification relationship: null entry") {
		return "validate:nil:relationship"
	}
	kind := ""
	switch {
	case strings.Contains(msg, "invalid verificationMethod: "):
		kind = "vm"
	case strings.Contains(msg, "invalid service: "):
		kind = "svc"
	default:
		return "validate:other(" + msg + ")"
	}
	switch {
	case strings.HasSuffix(msg, "ID must have a fragment"):
		return "validate:" + kind + ":fragment"
	case strings.HasSuffix(msg, "ID must be unique"):
		return "validate:" + kind + ":unique"
	case strings.HasSuffix(msg, "ID must have document prefix"):
		return "validate:" + kind + ":prefix"
	case strings.HasSuffix(msg, "key thumbprint does not match ID"):
		return "validate:vm:thumbprint"
	case strings.Contains(msg, "JWK"), strings.Contains(msg, "publicKeyJwk"):
		return "validate:vm:jwk"
	case strings.HasSuffix(msg, resolver.ErrDuplicateService.Error()):
		return "validate:svc:duplicate-type"
	}
	return "validate:" + kind + ":other(" + msg + ")"
}

func vCallbackClass(err error) string {
	if err == nil {
		return "ok"
	}
	msg := err.Error()
	if c, ok := vFaultClass(msg); ok {
		return c
	}
	switch {
	case strings.Contains(msg, "wrong payload type"):
		return "err:integrity:payload-type"
	case strings.Contains(msg, "payloadHash must be provided"):
		return "err:integrity:payload-hash"
	case strings.Contains(msg, "signingTime must be set"):
		return "err:integrity:signing-time"
	case strings.HasPrefix(msg, "unable to unmarshal DID document"):
		return "err:unmarshal"
	case strings.Contains(msg, "DID Document integrity check failed: "):
		return "err:" + vValidateClass(msg)
	case errors.Is(err, ErrThumbprintMismatch):
		return "err:create:thumbprint-mismatch"
	case strings.HasPrefix(msg, "unable to update DID document: "):
		return "err:update:resolve:" + vErrCause(errors.Unwrap(err))
	case strings.HasPrefix(msg, "unable to resolve DID document's controllers: "):
		return "err:update:controllers:" + vErrCause(errors.Unwrap(err))
	case strings.HasPrefix(msg, "unable to resolve signingkey: "):
		return "err:update:signingkey:" + vErrCause(errors.Unwrap(err))
	case strings.HasPrefix(msg, "unable to find signingKey by thumprint in controllers: "):
		return "err:update:capinv-jwk"
	case msg == "network document not signed by one of its controllers":
		return "err:update:not-signed-by-controller"
	}
	return "err:other(" + msg + ")"
}

func vPanicSite(r interface{}) string {
	// the two nil-JWK sites are told apart by the stack
	buf := make([]byte, 1<<14)
	n := runtime.Stack(buf, false)
	st := string(buf[:n])
	switch {
	case strings.Contains(st, "verifyThumbprint"):
		return "verifyThumbprint:nil-jwk"
	case strings.Contains(st, "findKeyByThumbprint"):
		return "findKeyByThumbprint:nil-jwk"
	case strings.Contains(st, "VerificationMethod.PublicKey"):
		return "VerificationMethod.PublicKey:nil-jwk"
	}
	return fmt.Sprintf("other(%v)", r)
}

// deliver = what the node does with a received DID document transaction: signature verifier, then the callback
func (n *vNode) deliver(p *vPair) (class string) {
	defer func() {
		if r := recover(); r != nil {
			class = "panic:" + vPanicSite(r)
		}
	}()
	if n.noVerify {
		return n.viaSubscriber(p)
	}
	if err := n.verifier(nil, p.tx); err != nil {
		if strings.HasPrefix(err.Error(), "unable to verify transaction signature, can't resolve key by TX ref") {
			return "err:sig:key:" + vErrCause(errors.Unwrap(err))
		}
		return "err:sig:invalid"
	}
	return n.viaSubscriber(p)
}

// the DAG signature verifier alone
func (n *vNode) dagVerify(p *vPair) (class string) {
	defer func() {
		if r := recover(); r != nil {
			class = "panic:" + vPanicSite(r)
		}
	}()
	if err := n.verifier(nil, p.tx); err != nil {
		if strings.HasPrefix(err.Error(), "unable to verify transaction signature, can't resolve key by TX ref") {
			return "err:sig:key:" + vErrCause(errors.Unwrap(err))
		}
		return "err:sig:invalid"
	}
	return "admit"
}

// independent check (jwx only): does the JWS verify under the key that the transaction's kid names (as the
// ambassador's key resolver resolves it for the prevs)?
func (n *vNode) signedByKidKey(p *vPair) (ok bool) {
	defer func() {
		if r := recover(); r != nil {
			ok = false
		}
	}()
	pk, err := n.keyRes.ResolvePublicKey(p.tx.SigningKeyID(), p.tx.Previous())
	if err != nil {
		return false
	}
	_, err = jws.Verify(p.tx.Data(), jws.WithKey(jwa.SignatureAlgorithm(p.tx.SigningAlgorithm()), pk))
	return err == nil
}

// the callback is entered the way the network enters it: through the subscriber function handleNetworkEvent
func (n *vNode) viaSubscriber(p *vPair) string {
	finished, err := n.amb.handleNetworkEvent(dag.Event{Type: dag.PayloadEventType, Hash: p.tx.Ref(), Transaction: p.tx, Payload: p.payload})
	// ok | err:<class> (wrapped into dag.EventFatal) | retry:err:<class> (returned bare)
	return vAckClass(finished, err)
}

// ---------------------------------------------------------------------------------------------
// observation

type vProbeSet struct {
	DIDs  []string `json:"dids"`
	Refs  []string `json:"refs"`  // arrival order
	Times []int64  `json:"times"` // sorted
	Kids  []vKidProbe `json:"kids"` // sorted by raw
	Known []string `json:"known"` // payload hashes of the history (named by their prefix); other hashes print as "M"
}

type vKidProbe struct {
	K      string `json:"k"`
	OK     bool   `json:"ok"`
	Holder string `json:"holder"`
	ID     string `json:"id"`
}

type vProbes struct {
	line  []string
	table []string
	index map[string]int
}

func (p *vProbes) lit(s string) { p.line = append(p.line, s) }
func (p *vProbes) probe(label, res string) {
	if p.index == nil {
		p.index = map[string]int{}
	}
	i, ok := p.index[res]
	if !ok {
		i = len(p.table)
		p.index[res] = i
		p.table = append(p.table, res)
	}
	p.line = append(p.line, fmt.Sprintf("%s#%d", label, i))
}
func (p *vProbes) render() string {
	out := strings.Join(p.line, " | ")
	for i, r := range p.table {
		out += fmt.Sprintf(" || #%d=%s", i, r)
	}
	return out
}

func vShort(s string) string {
	if len(s) > 10 {
		return s[:10]
	}
	return s
}

func (n *vNode) showResolve(known map[string]bool, doc *did.Document, meta *resolver.DocumentMetadata, err error) string {
	if err != nil {
		return "err:" + vErrCause(err)
	}
	hn := func(h hash.SHA256Hash) string {
		if known[h.String()] {
			return vShort(h.String())
		}
		return "M"
	}
	var src []string
	for _, s := range meta.SourceTransactions {
		src = append(src, vShort(s.String()))
	}
	prev := "-"
	if meta.PreviousHash != nil {
		prev = hn(*meta.PreviousHash)
	}
	upd := meta.Created.Unix()
	if meta.Updated != nil {
		upd = meta.Updated.Unix()
	}
	return fmt.Sprintf("ok doc=%s created=%d updated=%d hash=%s prev=%s src=[%s] deact=%v", vRenderStored(*doc), meta.Created.Unix(), upd,
		hn(meta.Hash), prev, strings.Join(src, ","), meta.Deactivated)
}

func (n *vNode) observe(ps *vProbeSet) string {
	known := map[string]bool{}
	for _, k := range ps.Known {
		known[k] = true
	}
	p := &vProbes{}
	cc, _ := n.store.ConflictedCount()
	dc, _ := n.store.DocumentCount()
	p.lit(fmt.Sprintf("cc=%d dc=%d", cc, dc))
	conflicted := map[string]bool{}
	_ = n.store.Conflicted(func(doc did.Document, _ resolver.DocumentMetadata) error {
		conflicted[doc.ID.String()] = true
		return nil
	})
	cls := func(_ *did.Document, _ *resolver.DocumentMetadata, err error) string {
		if err != nil {
			return "err:" + vErrCause(err)
		}
		return "ok"
	}
	for _, ds := range ps.DIDs {
		id, err := did.ParseDID(ds)
		if err != nil {
			p.lit("DID " + ds + " unparseable")
			continue
		}
		p.lit("DID " + ds)
		d, m, e := n.store.Resolve(*id, nil)
		p.probe("nil:", n.showResolve(known, d, m, e))
		d, m, e = n.store.Resolve(*id, &resolver.ResolveMetadata{AllowDeactivated: true})
		p.probe("ad:", n.showResolve(known, d, m, e))
		p.probe("R:", cls(n.res.Resolve(*id, nil)))
		for _, tm := range ps.Times {
			tt := time.Unix(tm, 0)
			d, m, e = n.store.Resolve(*id, &resolver.ResolveMetadata{ResolveTime: &tt})
			p.probe(fmt.Sprintf("t%d:", tm), n.showResolve(known, d, m, e))
			p.probe(fmt.Sprintf("Rt%d:", tm), cls(n.res.Resolve(*id, &resolver.ResolveMetadata{ResolveTime: &tt})))
		}
		for i, r := range ps.Refs {
			ref, _ := hash.ParseHex(r)
			d, m, e = n.store.Resolve(*id, &resolver.ResolveMetadata{SourceTransaction: &ref, AllowDeactivated: true})
			p.probe(fmt.Sprintf("s%d:", i), n.showResolve(known, d, m, e))
			p.probe(fmt.Sprintf("Rs%d:", i), cls(n.res.Resolve(*id, &resolver.ResolveMetadata{SourceTransaction: &ref})))
		}
		for i, k := range ps.Known {
			ph, _ := hash.ParseHex(k)
			d, m, e = n.store.Resolve(*id, &resolver.ResolveMetadata{Hash: &ph, AllowDeactivated: true})
			p.probe(fmt.Sprintf("h%d:", i), n.showResolve(known, d, m, e))
		}
		p.lit(fmt.Sprintf("conflicted=%v", conflicted[ds]))
	}
	// key resolver answers: per kid, per source transaction (only answers other than not-found are listed)
	for _, kp := range ps.Kids {
		kid := kp.K
		var ans []string
		for i, r := range ps.Refs {
			ref, _ := hash.ParseHex(r)
			a := n.resolveKeyClass(kid, []hash.SHA256Hash{ref})
			if a != "err:not-found" {
				ans = append(ans, fmt.Sprintf("%d=%s", i, a))
			}
		}
		p.lit("KID " + kid + " " + strings.Join(ans, ","))
	}
	return p.render()
}

// the part of the observable state that does not come from the database file alone
func (n *vNode) observeCheap() string {
	cc, _ := n.store.ConflictedCount()
	dc, _ := n.store.DocumentCount()
	var conf []string
	_ = n.store.Conflicted(func(doc did.Document, md resolver.DocumentMetadata) error {
		conf = append(conf, doc.ID.String()+"@"+md.Hash.String()[:8]+"/"+vDigest(doc))
		return nil
	})
	sort.Strings(conf)
	return fmt.Sprintf("cc=%d dc=%d conflicted=%s", cc, dc, strings.Join(conf, ","))
}

func (n *vNode) resolveKeyClass(kid string, refs []hash.SHA256Hash) (out string) {
	defer func() {
		if r := recover(); r != nil {
			out = "panic:" + vPanicSite(r)
		}
	}()
	pk, err := n.keyRes.ResolvePublicKey(kid, refs)
	if err != nil {
		return "err:" + vErrCause(err)
	}
	j, err := jwk.FromRaw(pk)
	if err != nil {
		return "err:fromraw"
	}
	tp, _ := j.Thumbprint(crypto.SHA256)
	return "key:" + base64.RawURLEncoding.EncodeToString(tp)
}

// ---------------------------------------------------------------------------------------------
// generator

type vVersion struct {
	spec  vDocSpec
	ref   hash.SHA256Hash
	clock uint32
	time  int64
}

type vDid struct {
	key      *vKey
	versions []vVersion // accepted versions in acceptance order
}

func (d *vDid) latest() *vVersion {
	if len(d.versions) == 0 {
		return nil
	}
	return &d.versions[len(d.versions)-1]
}

type vGen struct {
	rng     *rand.Rand
	keys    []*vKey
	nextKey int
	dids    map[string]*vDid
	order   []string // DIDs in creation order
	now     int64
	clocks  map[string]uint32 // ref -> clock
	allRefs []hash.SHA256Hash
	pairs   []*vPair
	pending func(ok bool) // bookkeeping to run once the outcome of the last pair is known
	queued  []func() *vPair // follow-up steps to take next
	preQueue []*vMgr // refused Manager.Update attempts, attached to the next pair
	runDelayed func(ps []*vPair, pend []func(bool)) // delayed-VDR chunk: all pass the DAG verifier first, then the ambassador
}

func (g *vGen) freshKey() *vKey {
	if g.nextKey >= len(g.keys) {
		g.keys = append(g.keys, vNewKey(len(g.keys)))
	}
	k := g.keys[g.nextKey]
	g.nextKey++
	return k
}

func (g *vGen) tick() int64 {
	switch g.rng.Intn(6) {
	case 0: // same second
	case 1:
		g.now += 1
	default:
		g.now += int64(1 + g.rng.Intn(20))
	}
	return g.now
}

func (g *vGen) clockFor(prevs []hash.SHA256Hash) uint32 {
	var c uint32
	for _, p := range prevs {
		if pc, ok := g.clocks[p.String()]; ok && pc+1 > c {
			c = pc + 1
		}
	}
	return c
}

func (g *vGen) emit(kind string, payload []byte, s vSignSpec, onResult func(ok bool, tx dag.Transaction)) *vPair {
	if s.time == 0 {
		s.time = g.tick()
	}
	tx, err := vSign(payload, s)
	if err != nil {
		panic(fmt.Sprintf("sign (%s): %v", kind, err))
	}
	p := &vPair{JWS: string(tx.Data()), Payload: base64.StdEncoding.EncodeToString(payload), ZeroTime: s.zeroTime, EmptyHash: s.emptyHash,
		Signer: s.key.b64, Kind: kind, tx: vTx{Transaction: tx, zeroTime: s.zeroTime, emptyHash: s.emptyHash}, payload: payload}
	g.clocks[tx.Ref().String()] = tx.Clock()
	g.allRefs = append(g.allRefs, tx.Ref())
	g.pairs = append(g.pairs, p)
	g.pending = func(ok bool) {
		if onResult != nil {
			onResult(ok, tx)
		}
	}
	return p
}

func (g *vGen) randomPrevsForCreate() []hash.SHA256Hash {
	if len(g.allRefs) > 0 && g.rng.Intn(2) == 0 {
		return []hash.SHA256Hash{g.allRefs[len(g.allRefs)-1]}
	}
	return nil
}

// a valid creation; ctrl: nil (none), or a list of controller DIDs ("self" = own DID)
func (g *vGen) create(kind string, ctrl []string, mutate func(s *vDocSpec, k *vKey), sign func(s *vSignSpec, k *vKey)) *vPair {
	k := g.freshKey()
	var extra []*vKey
	if g.rng.Intn(3) == 0 {
		extra = append(extra, g.freshKey())
	}
	spec := vBasicDoc(k, extra...)
	for _, c := range ctrl {
		if c == "self" {
			c = k.did
		}
		spec.Ctrl = append(spec.Ctrl, c)
	}
	if g.rng.Intn(3) == 0 {
		spec.Svcs = append(spec.Svcs, vSvcSpec{ID: k.did + "#svc-a", Type: "type-a", Endpoint: "https://example.com/a"})
	}
	if mutate != nil {
		mutate(&spec, k)
	}
	prevs := g.randomPrevsForCreate()
	ss := vSignSpec{key: k, kid: k.did + "#" + k.b64, attach: k, prevs: prevs, clock: g.clockFor(prevs)}
	if sign != nil {
		sign(&ss, k)
	}
	payload := spec.payload()
	return g.emit(kind, payload, ss, func(ok bool, tx dag.Transaction) {
		if !ok {
			return
		}
		d := g.dids[spec.ID]
		if d == nil {
			d = &vDid{key: k}
			g.dids[spec.ID] = d
			g.order = append(g.order, spec.ID)
		}
		d.versions = append(d.versions, vVersion{spec: spec.clone(), ref: tx.Ref(), clock: tx.Clock(), time: tx.SigningTime().Unix()})
	})
}

// the DIDs that control `spec` and can sign: (did, version) pairs whose capInv keys authorise an update
func (g *vGen) controllerVersions(spec vDocSpec) []*vVersion {
	var out []*vVersion
	self := g.dids[spec.ID]
	if len(spec.Ctrl) == 0 {
		if self != nil && self.latest() != nil {
			out = append(out, nil) // nil = the succeeded version itself
		}
		return out
	}
	for _, c := range spec.Ctrl {
		if c == spec.ID {
			out = append(out, nil)
		} else if d := g.dids[c]; d != nil && d.latest() != nil {
			out = append(out, d.latest())
		}
	}
	return out
}

type vUpdateOpts struct {
	kind      string
	target    *vDid
	from      *vVersion                            // version to succeed (default latest)
	next      func(s *vDocSpec)                    // edits the new document
	signer    func() (key *vKey, kid string, extraPrevs []hash.SHA256Hash) // default: a legitimate controller key
	noCtrlRef bool                                 // leave the controller's transaction out of prevs (by-time fallback)
	sign      func(s *vSignSpec)
}

func (g *vGen) update(o vUpdateOpts) *vPair {
	from := o.from
	if from == nil {
		from = o.target.latest()
	}
	spec := from.spec.clone()
	if o.next != nil {
		o.next(&spec)
	}
	prevs := []hash.SHA256Hash{from.ref}
	var key *vKey
	var kid string
	if o.signer != nil {
		var extra []hash.SHA256Hash
		key, kid, extra = o.signer()
		prevs = append(prevs, extra...)
	} else {
		cvs := g.controllerVersions(from.spec)
		if len(cvs) == 0 {
			// nobody can sign: use the DID's creation key (will be rejected)
			key, kid = o.target.key, from.spec.ID+"#"+o.target.key.b64
		} else {
			cv := cvs[g.rng.Intn(len(cvs))]
			src := from
			if cv != nil {
				src = cv
				if !o.noCtrlRef {
					prevs = append(prevs, cv.ref)
				}
			}
			ks := src.spec.capInvKeys()
			if len(ks) == 0 {
				key, kid = o.target.key, from.spec.ID+"#"+o.target.key.b64
			} else {
				vm := ks[g.rng.Intn(len(ks))]
				key, kid = vm.Key, vm.ID
			}
		}
	}
	if g.rng.Intn(5) == 0 && len(g.allRefs) > 0 { // an unrelated DAG head among the prevs
		extra := g.allRefs[g.rng.Intn(len(g.allRefs))]
		if g.rng.Intn(2) == 0 {
			prevs = append([]hash.SHA256Hash{extra}, prevs...)
		} else {
			prevs = append(prevs, extra)
		}
	}
	ss := vSignSpec{key: key, kid: kid, prevs: prevs, clock: g.clockFor(prevs)}
	if o.sign != nil {
		o.sign(&ss)
	}
	target := o.target
	return g.emit(o.kind, spec.payload(), ss, func(ok bool, tx dag.Transaction) {
		if ok {
			target.versions = append(target.versions, vVersion{spec: spec.clone(), ref: tx.Ref(), clock: tx.Clock(), time: tx.SigningTime().Unix()})
		}
	})
}

func (g *vGen) someDid(pred func(d *vDid) bool) *vDid {
	var c []*vDid
	for _, id := range g.order {
		d := g.dids[id]
		if pred == nil || pred(d) {
			c = append(c, d)
		}
	}
	if len(c) == 0 {
		return nil
	}
	return c[g.rng.Intn(len(c))]
}

func vActive(d *vDid) bool {
	l := d.latest()
	return l != nil && (len(l.spec.Ctrl) > 0 || len(l.spec.Rels["capabilityInvocation"]) > 0)
}

// ordinary edits of a document
func (g *vGen) randomEdit(s *vDocSpec) {
	switch g.rng.Intn(10) {
	case 9: // a key listed under exactly one relationship other than capabilityInvocation
		k := g.freshKey()
		id := s.ID + "#" + k.b64
		s.VMs = append(s.VMs, vVMSpec{ID: id, Key: k})
		rel := []string{"capabilityDelegation", "authentication", "keyAgreement", "capabilityDelegation"}[g.rng.Intn(4)]
		s.Rels[rel] = append(s.Rels[rel], id)
	case 8: // a well-formed key whose `controller` member names another DID (allowed: only the id is bound to the document)
		k := g.freshKey()
		id := s.ID + "#" + k.b64
		o := "did:nuts:" + g.keys[0].b58
		s.VMs = append(s.VMs, vVMSpec{ID: id, Key: k, Ctrl: o})
		s.Rels["assertionMethod"] = append(s.Rels["assertionMethod"], id)
	case 6: // a well-formed key under another type name that go-did also reads from publicKeyJwk, listed for capabilityInvocation
		k := g.freshKey()
		id := s.ID + "#" + k.b64
		s.VMs = append(s.VMs, vVMSpec{ID: id, Key: k, Type: "EcdsaSecp256k1VerificationKey2019"})
		s.Rels["capabilityInvocation"] = append(s.Rels["capabilityInvocation"], id)
	case 7: // a well-formed key under a type name go-did cannot make a public key of (assertion only / capabilityInvocation)
		k := g.freshKey()
		id := s.ID + "#" + k.b64
		s.VMs = append(s.VMs, vVMSpec{ID: id, Key: k, Type: []string{"MadeUpVerificationKey2024", "Ed25519VerificationKey2018"}[g.rng.Intn(2)]})
		rel := []string{"assertionMethod", "capabilityInvocation"}[g.rng.Intn(2)]
		s.Rels[rel] = append(s.Rels[rel], id)
	case 0: // add a key, listed for capabilityInvocation
		k := g.freshKey()
		id := s.ID + "#" + k.b64
		s.VMs = append(s.VMs, vVMSpec{ID: id, Key: k})
		s.Rels["capabilityInvocation"] = append(s.Rels["capabilityInvocation"], id)
	case 1: // add a key for assertion only
		k := g.freshKey()
		id := s.ID + "#" + k.b64
		s.VMs = append(s.VMs, vVMSpec{ID: id, Key: k})
		s.Rels["assertionMethod"] = append(s.Rels["assertionMethod"], id)
	case 2: // drop the last capabilityInvocation entry when more than one is left
		if ci := s.Rels["capabilityInvocation"]; len(ci) > 1 {
			s.Rels["capabilityInvocation"] = ci[:len(ci)-1]
		}
	case 3: // add / change a service
		n := g.rng.Intn(3)
		id := fmt.Sprintf("%s#svc-%d", s.ID, n)
		found := false
		for i := range s.Svcs {
			if s.Svcs[i].ID == id {
				s.Svcs[i].Endpoint = fmt.Sprintf("https://example.com/%d", g.rng.Intn(100))
				found = true
			}
		}
		if !found {
			s.Svcs = append(s.Svcs, vSvcSpec{ID: id, Type: fmt.Sprintf("type-%d", n), Endpoint: "https://example.com/x"})
			if g.rng.Intn(3) == 0 {
				// a second service whose type is another SPELLING of the first one's (padded / upper case): a different type string, allowed
				variant := []string{"type-%d ", " type-%d", "TYPE-%d", "type-%d\t"}[g.rng.Intn(4)]
				s.Svcs = append(s.Svcs, vSvcSpec{ID: fmt.Sprintf("%s#svc-v%d", s.ID, n), Type: fmt.Sprintf(variant, n), Endpoint: "https://example.com/v"})
			}
		}
	case 4: // remove services
		s.Svcs = nil
	case 5: // drop the first key entirely (rotation) when another capabilityInvocation key exists
		if ci := s.Rels["capabilityInvocation"]; len(ci) > 1 && len(s.VMs) > 1 {
			gone := s.VMs[0].ID
			s.VMs = s.VMs[1:]
			for rn, l := range s.Rels {
				var keep []interface{}
				for _, it := range l {
					if ref, ok := it.(string); !ok || ref != gone {
						keep = append(keep, it)
					}
				}
				s.Rels[rn] = keep
			}
		}
	}
}

// embedded verification methods inside capabilityInvocation (not listed under verificationMethod)
func (g *vGen) embedCapInv(s *vDocSpec) {
	var k *vKey
	holder := s.ID
	if o := g.someDid(func(d *vDid) bool { return d.latest().spec.ID != s.ID }); o != nil && g.rng.Intn(2) == 0 {
		k, holder = o.key, o.latest().spec.ID // a key that another DID document lists as verification method
	} else {
		k = g.freshKey()
	}
	var vm vVMSpec
	switch g.rng.Intn(6) {
	case 0, 1:
		vm = vVMSpec{ID: s.ID + "#" + k.b64, Key: k}
	case 2:
		vm = vVMSpec{ID: holder + "#" + k.b64, Key: k, Ctrl: holder} // id prefixed by another DID
	case 3:
		vm = vVMSpec{ID: s.ID + "#not-the-thumbprint", Key: k}
	case 4:
		vm = vVMSpec{ID: s.ID + "#nojwk-" + k.b64[:6]} // no publicKeyJwk
	case 5:
		vm = vVMSpec{ID: s.ID + "#badjwk-" + k.b64[:6], RawJwk: map[string]interface{}{"kty": "EC", "crv": "P-256"}}
	}
	if g.rng.Intn(3) == 0 {
		s.Rels["capabilityInvocation"] = append([]interface{}{vm}, s.Rels["capabilityInvocation"]...)
	} else {
		s.Rels["capabilityInvocation"] = append(s.Rels["capabilityInvocation"], vm)
	}
}

func vDeactivate(s *vDocSpec) {
	s.Ctrl = nil
	s.VMs = nil
	s.Rels = map[string][]interface{}{}
	s.Svcs = nil
}

// one validator rule (or parsing requirement) broken in an otherwise valid document
var vViolations = []string{"no-did-context", "vm-no-fragment", "vm-duplicate-id", "vm-foreign-prefix", "vm-thumbprint-mismatch", "vm-bad-jwk",
	"vm-blank-type", "vm-no-controller", "svc-no-fragment", "svc-duplicate-id", "svc-foreign-prefix", "svc-duplicate-type", "svc-blank-type",
	"svc-no-endpoint", "svc-number-endpoint", "rel-unknown-reference", "rel-embedded-blank-type", "not-json",
	"vm-no-jwk", "vm-empty-key-fragment", "ctx-only-object", "vm-kid-in-jwk", "vm-keyswap-known-id", "vm-known-id-other-did",
	"vm-prefix-extension", "vm-prefix-truncated", "svc-prefix-extension", "svc-prefix-truncated",
	"vm-secp-type-thumbprint-mismatch", "vm-unknown-type-thumbprint-mismatch", "vm-ed25519-type-jwk-mismatch", "vm-ed25519-base58-no-jwk",
	"vm-keyswap-known-id-other-type", "vm-foreign-prefix-and-controller", "vm-foreign-prefix-and-controller-capinv", "vm-known-did-prefix-and-controller", "vm-null-entry", "rel-null-entry", "rel-empty-string-entry",
	"vm-relative-id", "vm-relative-id-capinv", "vm-relative-id-query", "vm-relative-id-path", "svc-relative-id", "svc-relative-id-query", "svc-relative-id-path",
	"svc-duplicate-type-padded", "svc-duplicate-type-padded-lead", "svc-duplicate-type-tab", "svc-duplicate-type-third", "svc-duplicate-type-upper",
	// wave 9: the id fragment is another base64url SPELLING of the key's thumbprint (the last of the 43 characters carries 4 data bits; the
	// 2 trailing bits are ignored by a lenient decoder): the same 32 bytes, but not the thumbprint text
	"vm-thumbprint-noncanonical-1", "vm-thumbprint-noncanonical-2", "vm-thumbprint-noncanonical-3", "vm-thumbprint-noncanonical-and-canonical", "vm-thumbprint-trailing-newline"}

const vB64Alphabet = "ABCDEFGHIJKLMNOPQRSTUVWXYZabcdefghijklmnopqrstuvwxyz0123456789-_"

// another base64url spelling of the same bytes: the last character moved n (1..3) places on in the alphabet (unused trailing bits set)
func vNonCanonical(b64 string, n int) string {
	if b64 == "" {
		return b64
	}
	i := strings.IndexByte(vB64Alphabet, b64[len(b64)-1])
	if i < 0 {
		return b64 + "A"
	}
	return b64[:len(b64)-1] + string(vB64Alphabet[(i/4)*4+(i%4+n)%4])
}

func (g *vGen) violate(which string, s *vDocSpec) {
	other := "did:nuts:" + g.keys[0].b58
	if other == s.ID && len(g.keys) > 1 {
		other = "did:nuts:" + g.keys[1].b58
	}
	switch which {
	case "no-did-context":
		s.Ctx = []string{vJwsCtx}
	case "vm-no-fragment":
		k := g.freshKey()
		s.VMs = append(s.VMs, vVMSpec{ID: s.ID, Key: k})
	case "vm-duplicate-id":
		if len(s.VMs) > 0 {
			s.VMs = append(s.VMs, s.VMs[0])
		}
	case "vm-foreign-prefix":
		k := g.freshKey()
		s.VMs = append(s.VMs, vVMSpec{ID: other + "#" + k.b64, Key: k})
	case "vm-thumbprint-mismatch":
		k, k2 := g.freshKey(), g.freshKey()
		s.VMs = append(s.VMs, vVMSpec{ID: s.ID + "#" + k2.b64, Key: k})
	case "vm-thumbprint-noncanonical-1", "vm-thumbprint-noncanonical-2", "vm-thumbprint-noncanonical-3":
		k := g.freshKey()
		s.VMs = append(s.VMs, vVMSpec{ID: s.ID + "#" + vNonCanonical(k.b64, int(which[len(which)-1]-'0')), Key: k})
	case "vm-thumbprint-noncanonical-and-canonical": // one key under two "unique" ids
		k := g.freshKey()
		s.VMs = append(s.VMs, vVMSpec{ID: s.ID + "#" + k.b64, Key: k}, vVMSpec{ID: s.ID + "#" + vNonCanonical(k.b64, 1+g.rng.Intn(3)), Key: k})
	case "vm-thumbprint-trailing-newline": // a lenient decoder also skips CR / LF
		k := g.freshKey()
		s.VMs = append(s.VMs, vVMSpec{ID: s.ID + "#" + k.b64 + "%0A", Key: k})
	case "vm-bad-jwk":
		k := g.freshKey()
		s.VMs = append(s.VMs, vVMSpec{ID: s.ID + "#" + k.b64, RawJwk: map[string]interface{}{"kty": "EC", "crv": "P-256"}})
	case "vm-blank-type":
		k := g.freshKey()
		s.VMs = append(s.VMs, vVMSpec{ID: s.ID + "#" + k.b64, Key: k, Type: " "})
	case "vm-no-controller":
		k := g.freshKey()
		s.VMs = append(s.VMs, vVMSpec{ID: s.ID + "#" + k.b64, Key: k, Ctrl: "-"})
	case "svc-no-fragment":
		s.Svcs = append(s.Svcs, vSvcSpec{ID: s.ID, Type: "type-nf", Endpoint: "https://example.com"})
	case "svc-duplicate-id":
		s.Svcs = append(s.Svcs, vSvcSpec{ID: s.ID + "#dup", Type: "type-d1", Endpoint: "https://example.com"}, vSvcSpec{ID: s.ID + "#dup", Type: "type-d2", Endpoint: "https://example.com"})
	case "svc-foreign-prefix":
		s.Svcs = append(s.Svcs, vSvcSpec{ID: other + "#svc", Type: "type-fp", Endpoint: "https://example.com"})
	case "svc-duplicate-type":
		s.Svcs = append(s.Svcs, vSvcSpec{ID: s.ID + "#t1", Type: "type-same", Endpoint: "https://example.com"}, vSvcSpec{ID: s.ID + "#t2", Type: "type-same", Endpoint: "https://example.com"})
	case "svc-duplicate-type-padded", "svc-duplicate-type-padded-lead", "svc-duplicate-type-tab", "svc-duplicate-type-upper":
		// the SAME type string twice, where the string carries padding / upper case (any normalisation of the looked-up key only must still see it)
		t := map[string]string{"svc-duplicate-type-padded": "type-pad ", "svc-duplicate-type-padded-lead": " type-pad", "svc-duplicate-type-tab": "type-pad\t", "svc-duplicate-type-upper": "TYPE-Pad"}[which]
		s.Svcs = append(s.Svcs, vSvcSpec{ID: s.ID + "#tp1", Type: t, Endpoint: "https://example.com"}, vSvcSpec{ID: s.ID + "#tp2", Type: t, Endpoint: "https://example.com"})
	case "svc-duplicate-type-third":
		// the duplicate is the third service, its twin the second, both padded; the first is the unpadded spelling (a different type)
		s.Svcs = append(s.Svcs, vSvcSpec{ID: s.ID + "#tt1", Type: "type-3rd", Endpoint: "https://example.com"},
			vSvcSpec{ID: s.ID + "#tt2", Type: "type-3rd  ", Endpoint: "https://example.com"}, vSvcSpec{ID: s.ID + "#tt3", Type: "type-3rd  ", Endpoint: "https://example.com"})
	case "svc-blank-type":
		s.Svcs = append(s.Svcs, vSvcSpec{ID: s.ID + "#bt", Type: "  ", Endpoint: "https://example.com"})
	case "svc-no-endpoint":
		s.Svcs = append(s.Svcs, vSvcSpec{ID: s.ID + "#ne", Type: "type-ne"})
	case "svc-number-endpoint":
		s.Svcs = append(s.Svcs, vSvcSpec{ID: s.ID + "#num", Type: "type-num", Endpoint: 5})
	case "rel-unknown-reference":
		s.Rels["authentication"] = append(s.Rels["authentication"], s.ID+"#nope")
	case "rel-embedded-blank-type":
		k := g.freshKey()
		s.Rels["keyAgreement"] = append(s.Rels["keyAgreement"], vVMSpec{ID: s.ID + "#" + k.b64, Key: k, Type: " "})
	case "not-json":
		s.RawAdd = map[string]interface{}{"id": 5}
	case "vm-no-jwk": // JsonWebKey2020 without publicKeyJwk: VerificationMethod.JWK() returns (nil, nil)
		k := g.freshKey()
		s.VMs = append(s.VMs, vVMSpec{ID: s.ID + "#" + k.b64})
	case "vm-empty-key-fragment":
		k := g.freshKey()
		s.VMs = append(s.VMs, vVMSpec{ID: s.ID + "#", Key: k})
	case "vm-secp-type-thumbprint-mismatch": // a P-256 publicKeyJwk under another type name; the id is not the key's thumbprint
		k, k2 := g.freshKey(), g.freshKey()
		id := s.ID + "#" + k2.b64
		s.VMs = append(s.VMs, vVMSpec{ID: id, Key: k, Type: "EcdsaSecp256k1VerificationKey2019"})
		s.Rels["capabilityInvocation"] = append(s.Rels["capabilityInvocation"], id)
	case "vm-unknown-type-thumbprint-mismatch":
		k := g.freshKey()
		s.VMs = append(s.VMs, vVMSpec{ID: s.ID + "#key-1", Key: k, Type: "MadeUpVerificationKey2024"})
	case "vm-ed25519-type-jwk-mismatch":
		k := g.freshKey()
		id := s.ID + "#ed-" + k.b64[:6]
		s.VMs = append(s.VMs, vVMSpec{ID: id, Key: k, Type: "Ed25519VerificationKey2018"})
		s.Rels["capabilityInvocation"] = append(s.Rels["capabilityInvocation"], id)
	case "vm-ed25519-base58-no-jwk": // a key in a type specific member only
		s.VMs = append(s.VMs, vVMSpec{ID: s.ID + "#ed-b58", Type: "Ed25519VerificationKey2018", Base58: "6MkpTHR8VNsBxYAAWHut2Geadd9jSwuBV8xRoAnwWsdvktH"})
	case "vm-keyswap-known-id-other-type": // known id, other key material, and the type renamed
		if len(s.VMs) > 0 {
			i := g.rng.Intn(len(s.VMs))
			s.VMs[i].Key = g.freshKey()
			s.VMs[i].Type = "EcdsaSecp256k1VerificationKey2019"
		}
	case "vm-relative-id": // entry ids written as relative DID URLs
		k := g.freshKey()
		s.VMs = append(s.VMs, vVMSpec{ID: "#" + k.b64, Key: k})
	case "vm-relative-id-capinv":
		k := g.freshKey()
		s.VMs = append(s.VMs, vVMSpec{ID: "#" + k.b64, Key: k})
		s.Rels["capabilityInvocation"] = append(s.Rels["capabilityInvocation"], "#"+k.b64)
	case "vm-relative-id-query":
		k := g.freshKey()
		s.VMs = append(s.VMs, vVMSpec{ID: "?v=1#" + k.b64, Key: k})
	case "vm-relative-id-path":
		k := g.freshKey()
		s.VMs = append(s.VMs, vVMSpec{ID: "/keys#" + k.b64, Key: k})
	case "svc-relative-id":
		s.Svcs = append(s.Svcs, vSvcSpec{ID: "#svc-rel", Type: "type-rel", Endpoint: "https://example.com"})
	case "svc-relative-id-query":
		s.Svcs = append(s.Svcs, vSvcSpec{ID: "?v=1#svc-relq", Type: "type-relq", Endpoint: "https://example.com"})
	case "svc-relative-id-path":
		s.Svcs = append(s.Svcs, vSvcSpec{ID: "/s#svc-relp", Type: "type-relp", Endpoint: "https://example.com"})
	case "vm-null-entry": // a JSON null in verificationMethod (no references: go-did's parser dereferences the entries when it resolves one)
		s.NullVM = true
		s.Rels = map[string][]interface{}{}
		if len(s.Ctrl) == 0 {
			s.Ctrl = []string{s.ID}
		}
	case "rel-empty-string-entry":
		s.Rels["authentication"] = append(s.Rels["authentication"], "")
	case "rel-null-entry":
		s.Rels["keyAgreement"] = append(s.Rels["keyAgreement"], nil)
	case "vm-foreign-prefix-and-controller": // id AND controller name another DID; the fragment is the key's thumbprint
		k := g.freshKey()
		s.VMs = append(s.VMs, vVMSpec{ID: other + "#" + k.b64, Key: k, Ctrl: other})
	case "vm-foreign-prefix-and-controller-capinv": // ... and it is listed for capabilityInvocation
		k := g.freshKey()
		id := other + "#" + k.b64
		s.VMs = append(s.VMs, vVMSpec{ID: id, Key: k, Ctrl: other})
		s.Rels["capabilityInvocation"] = append(s.Rels["capabilityInvocation"], id)
	case "vm-known-did-prefix-and-controller": // id and controller name an existing other DID of the history
		k := g.freshKey()
		o := other
		if d := g.someDid(func(d *vDid) bool { return d.latest().spec.ID != s.ID }); d != nil {
			o = d.latest().spec.ID
		}
		s.VMs = append(s.VMs, vVMSpec{ID: o + "#" + k.b64, Key: k, Ctrl: o})
	case "vm-prefix-extension": // the id's DID merely starts with the document's DID
		k := g.freshKey()
		s.VMs = append(s.VMs, vVMSpec{ID: s.ID + "x#" + k.b64, Key: k})
	case "vm-prefix-truncated": // the document's DID merely starts with the id's DID
		k := g.freshKey()
		s.VMs = append(s.VMs, vVMSpec{ID: s.ID[:len(s.ID)-1] + "#" + k.b64, Key: k})
	case "svc-prefix-extension":
		s.Svcs = append(s.Svcs, vSvcSpec{ID: s.ID + "x#svc-pe", Type: "type-pe", Endpoint: "https://example.com"})
	case "svc-prefix-truncated":
		s.Svcs = append(s.Svcs, vSvcSpec{ID: s.ID[:len(s.ID)-2] + "#svc-pt", Type: "type-pt", Endpoint: "https://example.com"})
	case "vm-kid-in-jwk": // the JWK carries its own "kid" equal to the (arbitrary) fragment
		k := g.freshKey()
		frag := "named-" + k.b64[:8]
		s.VMs = append(s.VMs, vVMSpec{ID: s.ID + "#" + frag, Key: k, JwkKid: frag})
	case "vm-keyswap-known-id": // an id that already passed validation now carries the key material of another key
		if len(s.VMs) > 0 {
			i := g.rng.Intn(len(s.VMs))
			s.VMs[i].Key = g.freshKey()
		}
	case "vm-known-id-other-did": // an id of another, already accepted document with other key material
		if o := g.someDid(func(d *vDid) bool { return d.latest().spec.ID != s.ID && len(d.latest().spec.VMs) > 0 }); o != nil {
			s.VMs = append(s.VMs, vVMSpec{ID: o.latest().spec.VMs[0].ID, Key: g.freshKey(), Ctrl: o.latest().spec.ID})
		} else {
			s.VMs = append(s.VMs, vVMSpec{ID: other + "#" + g.freshKey().b64, Key: g.freshKey()})
		}
	case "ctx-only-object": // the DID context is present only inside an object (JSON-LD graph): not counted by go-did
		s.RawAdd = map[string]interface{}{"@context": []interface{}{map[string]interface{}{"@base": vDidCtx}, vJwsCtx}}
	}
}

// an otherwise well-formed document for key k under an arbitrary DID (all entry ids use that DID)
func vDocUnderDID(k *vKey, didStr string) vDocSpec {
	s := vDocSpec{ID: didStr, Ctx: []string{vDidCtx, vJwsCtx}, Rels: map[string][]interface{}{}}
	id := didStr + "#" + k.b64
	s.VMs = append(s.VMs, vVMSpec{ID: id, Key: k})
	s.Rels["capabilityInvocation"] = append(s.Rels["capabilityInvocation"], id)
	s.Rels["assertionMethod"] = append(s.Rels["assertionMethod"], id)
	return s
}

// creation whose DID is a proper prefix (n > 0: first n characters; n < 0: all but the last -n) or an extension
// (ext != "") of the embedded key's thumbprint
func (g *vGen) createNearDID(kind string, k *vKey, n int, ext string) *vPair {
	id := k.b58 + ext
	if ext == "" {
		if n > 0 && n < len(k.b58) {
			id = k.b58[:n]
		} else if n < 0 && -n < len(k.b58) {
			id = k.b58[:len(k.b58)+n]
		}
	}
	spec := vDocUnderDID(k, "did:nuts:"+id)
	prevs := g.randomPrevsForCreate()
	return g.emit(kind, spec.payload(), vSignSpec{key: k, kid: k.did + "#" + k.b64, attach: k, prevs: prevs, clock: g.clockFor(prevs)}, func(ok bool, tx dag.Transaction) {
		if ok {
			d := g.dids[spec.ID]
			if d == nil {
				d = &vDid{key: k}
				g.dids[spec.ID] = d
				g.order = append(g.order, spec.ID)
			}
			d.versions = append(d.versions, vVersion{spec: spec.clone(), ref: tx.Ref(), clock: tx.Clock(), time: tx.SigningTime().Unix()})
		}
	})
}

func (g *vGen) createCaseVariantDID(k *vKey) *vPair {
	b := []byte(k.b58)
	for i, c := range b {
		sw := c
		switch {
		case c >= 'a' && c <= 'z' && c != 'l':
			sw = c - 32
		case c >= 'A' && c <= 'Z' && c != 'I' && c != 'O':
			sw = c + 32
		}
		if sw != c && strings.IndexByte(vB58Alphabet, sw) >= 0 {
			b[i] = sw
			break
		}
	}
	spec := vDocUnderDID(k, "did:nuts:"+string(b))
	prevs := g.randomPrevsForCreate()
	return g.emit("create-did-case-variant-of-thumbprint", spec.payload(), vSignSpec{key: k, kid: k.did + "#" + k.b64, attach: k, prevs: prevs, clock: g.clockFor(prevs)}, nil)
}

// a fresh key whose thumbprint shares its first byte (and so its first base64 character) with the given key's
func (g *vGen) collidingKey(with *vKey) *vKey {
	want, _ := base64.RawURLEncoding.DecodeString(with.b64)
	for tries := 0; tries < 4000; tries++ {
		k := vNewKey(len(g.keys))
		got, _ := base64.RawURLEncoding.DecodeString(k.b64)
		if len(got) > 0 && len(want) > 0 && got[0] == want[0] {
			g.keys = append(g.keys, k)
			return k
		}
	}
	return g.freshKey()
}

// an update (no embedded key) for the never-created DID of key v; the proposed document lists the signer's key (published
// by another, regularly created document whose transaction is among the prevs) for capabilityInvocation
func (g *vGen) updateUnknownListingSigner(v *vKey, signer vVMSpec, signerRef hash.SHA256Hash) *vPair {
	spec := vDocUnderDID(signer.Key, v.did)
	prevs := []hash.SHA256Hash{signerRef}
	return g.emit("update-unknown-did-listing-signer", spec.payload(), vSignSpec{key: signer.Key, kid: signer.ID, prevs: prevs, clock: g.clockFor(prevs)}, func(ok bool, tx dag.Transaction) {
		if ok {
			d := g.dids[spec.ID]
			if d == nil {
				d = &vDid{key: v}
				g.dids[spec.ID] = d
				g.order = append(g.order, spec.ID)
			}
			d.versions = append(d.versions, vVersion{spec: spec.clone(), ref: tx.Ref(), clock: tx.Clock(), time: tx.SigningTime().Unix()})
		}
	})
}

// ---- scenario steps. Each returns the emitted pair (bookkeeping runs when the outcome is known).

func (g *vGen) stepRandom() *vPair {
	r := g.rng.Intn(100)
	active := g.someDid(vActive)
	switch {
	case r < 14 || active == nil: // creation, sometimes controlled by an existing DID / itself
		var ctrl []string
		switch g.rng.Intn(6) {
		case 0:
			ctrl = []string{"self"}
		case 1:
			if o := g.someDid(nil); o != nil {
				ctrl = []string{o.latest().spec.ID}
			}
		case 2:
			if o := g.someDid(nil); o != nil {
				ctrl = []string{"self", o.latest().spec.ID}
			}
		}
		return g.create("create", ctrl, nil, nil)
	case r < 20 && g.rng.Intn(3) == 0: // the DID differs from the thumbprint only by the case of one letter
		return g.createCaseVariantDID(g.freshKey())
	case r < 20: // creation with a foreign key: the embedded key is not the one the DID is derived from
		return g.create("create-foreign-key", nil, nil, func(s *vSignSpec, k *vKey) {
			f := g.freshKey()
			s.key, s.attach, s.kid = f, f, k.did+"#"+f.b64
		})
	case r < 21: // the DID is a truncated / extended form of the embedded key's thumbprint, the document otherwise well-formed
		k := g.freshKey()
		switch g.rng.Intn(6) {
		case 0:
			return g.createNearDID("create-did-prefix-of-thumbprint", k, 1, "")
		case 1:
			return g.createNearDID("create-did-prefix-of-thumbprint", k, -1, "")
		case 2:
			return g.createNearDID("create-did-prefix-of-thumbprint", k, 2+g.rng.Intn(len(k.b58)-3), "")
		case 3:
			return g.createNearDID("create-did-extension-of-thumbprint", k, 0, "A")
		case 4:
			return g.createNearDID("create-did-extension-of-thumbprint", k, 0, k.b58[:3])
		default: // same letters, one of them in the other case
			return g.createCaseVariantDID(k)
		}
	case r < 23: // embedded key differs from the key that signs
		return g.create("create-embedded-not-signer", nil, nil, func(s *vSignSpec, k *vKey) {
			s.key = g.freshKey()
		})
	case r < 50: // legitimate update
		return g.update(vUpdateOpts{kind: "update", target: active, next: g.randomEdit, noCtrlRef: g.rng.Intn(4) == 0})
	case r < 55: // update that forks from an older version
		if len(active.versions) > 1 {
			return g.update(vUpdateOpts{kind: "update-fork", target: active, from: &active.versions[g.rng.Intn(len(active.versions)-1)], next: g.randomEdit})
		}
		return g.update(vUpdateOpts{kind: "update", target: active, next: g.randomEdit})
	case r < 63: // signed by a key that is no controller: another DID's key, or an own key not listed for capabilityInvocation
		return g.update(vUpdateOpts{kind: "update-non-controller", target: active, next: g.randomEdit, signer: func() (*vKey, string, []hash.SHA256Hash) {
			l := active.latest()
			if g.rng.Intn(2) == 0 {
				ci := map[string]bool{}
				for _, vm := range l.spec.capInvKeys() {
					ci[vm.ID] = true
				}
				var cand []vVMSpec
				for _, vm := range l.spec.VMs {
					if !ci[vm.ID] && vm.Key != nil {
						cand = append(cand, vm)
					}
				}
				if len(cand) > 0 {
					vm := cand[g.rng.Intn(len(cand))]
					return vm.Key, vm.ID, nil
				}
			}
			if o := g.someDid(func(d *vDid) bool { return d != active && vActive(d) && len(d.latest().spec.capInvKeys()) > 0 }); o != nil {
				for _, c := range l.spec.Ctrl {
					if c == o.latest().spec.ID {
						goto stranger
					}
				}
				vm := o.latest().spec.capInvKeys()[0]
				return vm.Key, vm.ID, []hash.SHA256Hash{o.latest().ref}
			}
		stranger:
			k := g.freshKey()
			return k, l.spec.ID + "#" + k.b64, nil
		}})
	case r < 65 && len(active.latest().spec.capInvKeys()) > 0: // a stranger's key whose thumbprint starts like a listed key's; or: the kid of a listed key, signed by another key
		l := active.latest()
		legit := l.spec.capInvKeys()[0]
		if g.rng.Intn(2) == 0 {
			k := g.collidingKey(legit.Key)
			// published as verification method (not capabilityInvocation) of a fresh self-controlled DID so that the kid resolves
			holder := g.freshKey()
			pub := g.create("create-publishing-colliding-key", nil, func(s *vDocSpec, _ *vKey) {
				s.VMs = append(s.VMs, vVMSpec{ID: s.ID + "#" + k.b64, Key: k})
				s.Rels["assertionMethod"] = append(s.Rels["assertionMethod"], s.ID+"#"+k.b64)
			}, nil)
			_ = holder
			g.queued = append(g.queued, func() *vPair {
				h := g.dids[g.order[len(g.order)-1]]
				if h == nil || h.latest() == nil || !vActive(active) {
					return nil
				}
				return g.update(vUpdateOpts{kind: "update-by-key-with-colliding-thumbprint-prefix", target: active, next: g.randomEdit, signer: func() (*vKey, string, []hash.SHA256Hash) {
					return k, h.latest().spec.ID + "#" + k.b64, []hash.SHA256Hash{h.latest().ref}
				}})
			})
			return pub
		}
		if len(l.spec.Ctrl) == 0 {
			other := g.freshKey()
			return g.update(vUpdateOpts{kind: "update-kid-of-listed-key-signed-by-other-key", target: active, next: g.randomEdit, signer: func() (*vKey, string, []hash.SHA256Hash) {
				return other, legit.ID, nil
			}})
		}
		return g.update(vUpdateOpts{kind: "update", target: active, next: g.randomEdit})
	case r < 66 && len(active.versions) > 1: // prevs name two different versions of the DID (both orders occur)
		a, b := active.versions[g.rng.Intn(len(active.versions))], active.versions[g.rng.Intn(len(active.versions))]
		return g.update(vUpdateOpts{kind: "update-two-own-prevs", target: active, from: &a, next: g.randomEdit, signer: func() (*vKey, string, []hash.SHA256Hash) {
			ks := a.spec.capInvKeys()
			if len(ks) == 0 {
				return active.key, a.spec.ID + "#" + active.key.b64, []hash.SHA256Hash{b.ref}
			}
			return ks[0].Key, ks[0].ID, []hash.SHA256Hash{b.ref}
		}})
	case r < 71: // signed by a key that an earlier version listed and the succeeded version no longer lists
		d := g.someDid(func(d *vDid) bool { return len(d.versions) > 1 })
		if d != nil {
			l := d.latest()
			now := map[string]bool{}
			for _, vm := range l.spec.capInvKeys() {
				now[vm.Key.b64] = true
			}
			for i := len(d.versions) - 2; i >= 0; i-- {
				for _, vm := range d.versions[i].spec.capInvKeys() {
					if !now[vm.Key.b64] {
						vm := vm
						return g.update(vUpdateOpts{kind: "update-removed-key", target: d, next: g.randomEdit, signer: func() (*vKey, string, []hash.SHA256Hash) {
							return vm.Key, vm.ID, nil
						}})
					}
				}
			}
		}
		return g.update(vUpdateOpts{kind: "update", target: active, next: g.randomEdit})
	case r < 77: // deactivation
		return g.update(vUpdateOpts{kind: "deactivate", target: active, next: vDeactivate})
	case r < 82: // update of a deactivated DID / by the key of a deactivated controller
		if d := g.someDid(func(d *vDid) bool { return len(d.versions) > 1 && !vActive(d) }); d != nil {
			prev := d.versions[len(d.versions)-2]
			if ks := prev.spec.capInvKeys(); len(ks) > 0 {
				// a DID controlled by d, if any, else d itself
				target := g.someDid(func(x *vDid) bool {
					for _, c := range x.latest().spec.Ctrl {
						if c == d.latest().spec.ID && x != d {
							return true
						}
					}
					return false
				})
				kind := "update-by-deactivated-controller"
				if target == nil {
					target, kind = d, "update-deactivated-did"
				}
				vm := ks[0]
				ref := prev.ref
				if g.rng.Intn(2) == 0 {
					ref = d.latest().ref
				}
				return g.update(vUpdateOpts{kind: kind, target: target, next: g.randomEdit, signer: func() (*vKey, string, []hash.SHA256Hash) {
					return vm.Key, vm.ID, []hash.SHA256Hash{ref}
				}})
			}
		}
		return g.update(vUpdateOpts{kind: "deactivate", target: active, next: vDeactivate})
	case r < 92: // one validator rule violated, in a creation or in an otherwise legitimate update
		which := vViolations[g.rng.Intn(len(vViolations))]
		if g.rng.Intn(2) == 0 {
			return g.create("violate:"+which, nil, func(s *vDocSpec, _ *vKey) { g.violate(which, s) }, nil)
		}
		return g.update(vUpdateOpts{kind: "violate:" + which, target: active, next: func(s *vDocSpec) { g.violate(which, s) }})
	case r < 94: // transaction integrity
		switch g.rng.Intn(3) {
		case 0:
			return g.create("integrity:type", nil, nil, func(s *vSignSpec, _ *vKey) { s.ptype = "application/other+json" })
		case 1:
			return g.create("integrity:zero-time", nil, nil, func(s *vSignSpec, _ *vKey) { s.zeroTime = true })
		default:
			return g.update(vUpdateOpts{kind: "integrity:empty-hash", target: active, next: g.randomEdit, sign: func(s *vSignSpec) { s.emptyHash = true }})
		}
	case r < 96: // an embedded capabilityInvocation method is added by a legitimate update
		return g.update(vUpdateOpts{kind: "update-embed-capinv", target: active, next: g.embedCapInv})
	case r < 97: // update signed with a key that the succeeded version lists only as embedded capabilityInvocation method
		if d := g.someDid(func(d *vDid) bool {
			for _, it := range d.latest().spec.Rels["capabilityInvocation"] {
				if vm, ok := it.(vVMSpec); ok && vm.Key != nil {
					return true
				}
			}
			return false
		}); d != nil {
			for _, it := range d.latest().spec.Rels["capabilityInvocation"] {
				if vm, ok := it.(vVMSpec); ok && vm.Key != nil {
					key := vm.Key
					kid := vm.ID
					var extra []hash.SHA256Hash
					if o := g.dids[key.did]; o != nil && o.latest() != nil { // the key's own DID lists it as verification method
						kid = key.did + "#" + key.b64
						extra = []hash.SHA256Hash{o.latest().ref}
					}
					return g.update(vUpdateOpts{kind: "update-by-embedded-capinv-key", target: d, next: g.randomEdit, signer: func() (*vKey, string, []hash.SHA256Hash) {
						return key, kid, extra
					}})
				}
			}
		}
		return g.update(vUpdateOpts{kind: "update-embed-capinv", target: active, next: g.embedCapInv})
	case r < 98 && g.rng.Intn(3) == 0: // an update (no embedded key) for a DID that does not exist, signed by an existing DID's key
		k := g.freshKey()
		spec := vBasicDoc(k)
		signer := active.latest()
		if ks := signer.spec.capInvKeys(); len(ks) > 0 {
			prevs := []hash.SHA256Hash{signer.ref}
			if g.rng.Intn(2) == 0 { // the proposed document itself lists the signer's key for capabilityInvocation
				return g.updateUnknownListingSigner(k, ks[0], signer.ref)
			}
			return g.emit("update-unknown-did", spec.payload(), vSignSpec{key: ks[0].Key, kid: ks[0].ID, prevs: prevs, clock: g.clockFor(prevs)}, nil)
		}
		return g.update(vUpdateOpts{kind: "update", target: active, next: g.randomEdit})
	case r < 98: // odd key ids
		return g.update(vUpdateOpts{kind: "update-odd-kid", target: active, next: g.randomEdit, signer: func() (*vKey, string, []hash.SHA256Hash) {
			k := active.key
			switch g.rng.Intn(3) {
			case 0:
				return k, "not a did url", nil
			case 1:
				return k, "did:nuts:unknown#" + k.b64, nil
			}
			return k, active.latest().spec.ID + "#unknown", nil
		}})
	default: // re-creation: a second transaction with the DID's own key embedded
		d := g.someDid(nil)
		spec := vBasicDoc(d.key)
		g.randomEdit(&spec)
		k := d.key
		prevs := g.randomPrevsForCreate()
		return g.emit("re-create", spec.payload(), vSignSpec{key: k, kid: k.did + "#" + k.b64, attach: k, prevs: prevs, clock: g.clockFor(prevs)}, func(ok bool, tx dag.Transaction) {
			if ok {
				d.versions = append(d.versions, vVersion{spec: spec.clone(), ref: tx.Ref(), clock: tx.Clock(), time: tx.SigningTime().Unix()})
			}
		})
	}
}

// ---------------------------------------------------------------------------------------------
// running a history

type vOp struct {
	Op     string     `json:"op"`
	H      int        `json:"h"`
	Label  string     `json:"label,omitempty"`
	NoVerify bool     `json:"noVerify,omitempty"` // deliver straight to the callback (the signature verifier is skipped)
	Probes *vProbeSet `json:"probes,omitempty"`
	I      int        `json:"i"`
	Tx     *vTxView   `json:"tx,omitempty"`
	Doc    *vNDoc     `json:"doc,omitempty"` // nil = payload does not unmarshal
	Raw    *vPair     `json:"raw,omitempty"`
	CB       *bool    `json:"cb,omitempty"`       // pair: straight into the callback (no verifier at this moment)
	Is       []int    `json:"is,omitempty"`       // reprocess: indexes of the deliveries that are replayed
	Verified bool     `json:"verified,omitempty"` // pair: the DAG signature verifier has admitted this transaction (now or earlier)
	Ev       *vEvView `json:"ev,omitempty"`       // pair: delivered as a DAG event through the Start subscription (type, payload type, store fault)
}

type vRunner struct {
	natsConn *nats.Conn         // embedded NATS (events.NewTestManager), started once: REPROCESS messages must be ack-able
	natsSub  *nats.Subscription
	t     *testing.T
	ctrl  *gomock.Controller
	out   string
	opsW  *bufio.Writer
	implW *bufio.Writer
	dbN   int
}

const vReprocessSubject = "verif.c09.reprocess"

// one REPROCESS.application/did+json message as Network.Reprocess publishes it, received over real NATS (so that Ack works)
func (r *vRunner) reprocessMsg(p *vPair) *nats.Msg {
	if r.natsConn == nil {
		em := vEvents(r.t)
		ec, _, err := em.Pool().Acquire(context.Background())
		if err != nil {
			r.t.Fatal(err)
		}
		conn, ok := ec.(*nats.Conn)
		if !ok {
			r.t.Fatalf("events connection is a %T, not a *nats.Conn", ec)
		}
		sub, err := conn.SubscribeSync(vReprocessSubject)
		if err != nil {
			r.t.Fatal(err)
		}
		r.natsConn, r.natsSub = conn, sub
	}
	data, err := json.Marshal(events.TransactionWithPayload{Transaction: p.tx.Transaction, Payload: p.payload})
	if err != nil {
		r.t.Fatal(err)
	}
	if err := r.natsConn.PublishRequest(vReprocessSubject, vReprocessSubject+".ack", data); err != nil {
		r.t.Fatal(err)
	}
	_ = r.natsConn.Flush()
	msg, err := r.natsSub.NextMsg(60 * time.Second)
	if err != nil {
		r.t.Fatal(err)
	}
	return msg
}

func (r *vRunner) newNode() *vNode {
	r.dbN++
	return vNewNode(r.t, r.ctrl, filepath.Join(r.out, fmt.Sprintf("c09-%d.db", r.dbN)))
}

func vParsePayload(b []byte) (out *vNDoc) {
	defer func() {
		if r := recover(); r != nil {
			out = nil
		}
	}()
	// the callback refuses null / empty-string entries in the key arrays before unmarshalling (same outcome class as a
	// payload that does not unmarshal); found here by an own scan of the generic JSON
	var generic map[string]interface{}
	if json.Unmarshal(b, &generic) == nil {
		for _, name := range []string{"verificationMethod", "authentication", "assertionMethod", "keyAgreement", "capabilityInvocation", "capabilityDelegation"} {
			if l, ok := generic[name].([]interface{}); ok {
				for _, e := range l {
					if e == nil || e == "" {
						return nil
					}
				}
			}
		}
	}
	var d did.Document
	if err := json.Unmarshal(b, &d); err != nil {
		return nil
	}
	v := vView(d)
	return &v
}

func vProbeSetOf(pairs []*vPair) *vProbeSet {
	ps := &vProbeSet{DIDs: []string{}, Refs: []string{}, Times: []int64{}, Kids: []vKidProbe{}, Known: []string{}}
	dids, times, kids, known := map[string]bool{}, map[int64]bool{}, map[string]bool{}, map[string]bool{}
	for _, p := range pairs {
		ps.Refs = append(ps.Refs, p.tx.Ref().String())
		if !p.ZeroTime {
			times[p.tx.Transaction.SigningTime().Unix()] = true
		}
		if !known[p.tx.Transaction.PayloadHash().String()] {
			known[p.tx.Transaction.PayloadHash().String()] = true
			ps.Known = append(ps.Known, p.tx.Transaction.PayloadHash().String())
		}
		if kid := p.tx.SigningKeyID(); kid != "" && p.tx.SigningKey() == nil {
			kids[kid] = true
		}
		if v := vParsePayload(p.payload); v != nil {
			dids[v.ID] = true
			for _, c := range v.Controllers {
				dids[c] = true
			}
			for _, vm := range v.VMs {
				kids[vm.ID] = true
			}
			for _, vm := range v.CapInv {
				kids[vm.ID] = true
			}
		}
	}
	for k := range dids {
		if _, err := did.ParseDID(k); err == nil {
			ps.DIDs = append(ps.DIDs, k)
		}
	}
	for k := range times {
		ps.Times = append(ps.Times, k)
	}
	for k := range kids {
		kp := vKidProbe{K: k}
		if u, err := did.ParseDIDURL(k); err == nil {
			kp.OK, kp.Holder, kp.ID = true, u.DID.String(), u.String()
		}
		ps.Kids = append(ps.Kids, kp)
	}
	sort.Strings(ps.DIDs)
	sort.Slice(ps.Kids, func(i, j int) bool { return ps.Kids[i].K < ps.Kids[j].K })
	sort.Slice(ps.Times, func(i, j int) bool { return ps.Times[i] < ps.Times[j] })
	return ps
}

// replays the pairs on a fresh node, observing after every delivery; returns the outcome classes
func (r *vRunner) runHistory(h int, label string, noVerify bool, pairs []*vPair, expect []string) []string {
	n := r.newNode()
	n.noVerify = noVerify
	defer n.close()
	ps := vProbeSetOf(pairs)
	emitOp := func(op vOp) {
		b, _ := json.Marshal(op)
		r.opsW.Write(b)
		r.opsW.WriteByte('\n')
	}
	emitOp(vOp{Op: "hist", H: h, Label: label, NoVerify: noVerify, Probes: ps})
	prevObs := n.observe(ps)
	prevCheap := n.observeCheap()
	fmt.Fprintf(r.implW, "hist %d %s\n", h, prevObs)
	var classes []string
	var onDAG []int // deliveries that reached the ambassador (the DAG holds their transactions, accepted by the VDR or not)
	admitted := map[int]string{}
	for i, p := range pairs {
		// delayed-VDR schedule: transactions whose DAG admission happens now (store state of this moment)
		for j := i; j < len(pairs); j++ {
			if pairs[j].Delayed && pairs[j].DagBefore == i {
				admitted[j] = n.dagVerify(pairs[j])
				view := vTxViewOf(pairs[j].tx, pairs[j].Signer)
				emitOp(vOp{Op: "verify", H: h, I: j, Tx: &view, Raw: pairs[j]})
				fmt.Fprintf(r.implW, "verify %d.%d %s\n", h, j, admitted[j])
			}
		}
		if p.Delayed && admitted[i] != "admit" {
			classes = append(classes, "dropped:"+admitted[i]) // never reaches the ambassador
			continue
		}
		for j, m := range p.Pre {
			var own *vTxView
			if m.Own && j == len(p.Pre)-1 && strings.HasPrefix(p.Kind, "mgr:") {
				n.ownTx = p.tx.Transaction
				view := vTxViewOf(p.tx, p.Signer)
				own = &view
			}
			res := n.runManager(m)
			if res.ownAdd == "" {
				own = nil
			}
			b, _ := json.Marshal(vMgrOp{Op: "mgr", H: h, I: i, J: j, ID: m.ID, Has: m.Has, Doc: res.view, SvcOk: res.svcOk, Via: m.Via, Key: res.newKey, B58: res.newB58, Rm: m.Rm, Hash: res.rawHash, Own: own})
			r.opsW.Write(b)
			r.opsW.WriteByte('\n')
			note := ""
			if strings.HasPrefix(p.Kind, "mgr:") && j == len(p.Pre)-1 && (res.class != "ok" || (p.tx.SigningKey() == nil && res.kid != p.tx.SigningKeyID()) || (p.tx.SigningKey() != nil && res.key != p.Signer)) {
				note = " NONDETERMINISTIC(first-run published with kid " + p.tx.SigningKeyID() + ")"
			}
			if res.ownAdd == "ok" {
				// the manager wrote to the store itself: observe right here, so that the delivery that follows is judged against this state
				obs := n.observe(ps)
				shown := "="
				if obs != prevObs {
					shown = obs
				}
				note += " OBS " + shown
				prevObs, prevCheap = obs, n.observeCheap()
			}
			fmt.Fprintf(r.implW, "mgr %d.%d.%d %s%s\n", h, i, j, res.line(), note)
		}
		before := n.dbDigest()
		notified := n.notified
		// independent signature check in the state the ambassador sees BEFORE it processes the pair (afterwards the
		// versions of the DID may have been re-derived and the prevs can select another version)
		sigByKidKey := true
		if (!noVerify || p.Delayed) && p.Ev == nil && p.tx.SigningKey() == nil {
			sigByKidKey = n.signedByKidKey(p)
		}
		var class string
		cbOnly := noVerify || p.Delayed || p.Ev != nil
		faultHit := false
		if p.Ev != nil {
			class = n.viaEntry(p)
			faultHit = n.faultHit
		} else if p.Delayed {
			class = n.viaSubscriber(p)
		} else {
			class = n.deliver(p)
		}
		after := n.dbDigest()
		// Resolve and the key resolver read the database only: with byte-identical content only the in-memory
		// state (conflicted cache) and the counters are re-read; otherwise everything is observed again
		cheap := n.observeCheap()
		obs := prevObs
		if before != after || cheap != prevCheap {
			obs = n.observe(ps)
		}
		prevCheap = cheap
		classes = append(classes, class)
		if !strings.HasPrefix(class, "err:sig:") && !p.ZeroTime && !p.EmptyHash {
			onDAG = append(onDAG, i)
		}
		view := vTxViewOf(p.tx, p.Signer)
		verified := (!noVerify || p.Delayed) && p.Ev == nil
		emitOp(vOp{Op: "pair", H: h, I: i, Tx: &view, Doc: vParsePayload(p.payload), Raw: p, CB: &cbOnly, Verified: verified, Ev: vEvViewOf(p)})
		// direct oracle material, implementation only: raw database identity and the network notification
		inert := "db-same"
		if before != after {
			inert = "db-changed"
		}
		note := ""
		if (n.notified > notified) != (class == "ok") {
			note = " NOTIFY-MISMATCH"
		}
		if faultHit {
			note += " FAULT-HIT" // the model says the same: where the failing store call is executed is part of the correspondence
		}
		if verified && class == "ok" && p.tx.SigningKey() == nil && !sigByKidKey {
			note += " SIG-NOT-BY-KID-KEY"
		}
		if expect != nil && i < len(expect) && expect[i] != class {
			note += " NONDETERMINISTIC(first-run=" + expect[i] + ")"
		}
		shown := "="
		if obs != prevObs {
			shown = obs
		}
		fmt.Fprintf(r.implW, "pair %d.%d %s [%s%s] %s\n", h, i, class, inert, note, shown)
		prevObs = obs
	}
	// REPROCESS of application/did+json: every such transaction on the DAG goes through handleReprocessEvent again, in order
	if len(onDAG) > 0 {
		before := n.dbDigest()
		panics := 0
		panicAt := ""
		for _, i := range onDAG {
			msg := r.reprocessMsg(pairs[i])
			func() {
				defer func() {
					if rec := recover(); rec != nil {
						panics++
						panicAt = fmt.Sprintf("%d:%s", i, pairs[i].Kind)
					}
				}()
				n.amb.handleReprocessEvent(msg)
			}()
			if panics > 0 {
				break
			}
		}
		emitOp(vOp{Op: "reprocess", H: h, Is: onDAG})
		if panics > 0 {
			// a panic below store.Add leaves the database write lock held: the node is abandoned, nothing more is read from it
			n.abandoned = true
			fmt.Fprintf(r.implW, "reprocess %d [PANICS at %s] =\n", h, panicAt)
			return classes
		}
		after := n.dbDigest()
		inert, shown := "db-same", "="
		if before != after {
			inert = "db-changed"
			if obs := n.observe(ps); obs != prevObs {
				shown = obs
			}
		}
		note := ""
		if panics > 0 {
			note = fmt.Sprintf(" PANICS=%d", panics)
		}
		fmt.Fprintf(r.implW, "reprocess %d [%s%s] %s\n", h, inert, note, shown)
	}
	return classes
}

// generates one history adaptively on a scratch node, then replays it with the full probe set
func (r *vRunner) genHistory(h int, rng *rand.Rand, steps int, kind string, noVerify bool) {
	g := &vGen{rng: rng, dids: map[string]*vDid{}, now: 1700000000 + int64(rng.Intn(1000)), clocks: map[string]uint32{}}
	n := r.newNode()
	n.noVerify = noVerify
	var first []string
	run := func(p *vPair) bool {
		var class string
		if len(g.preQueue) > 0 && !p.Delayed {
			p.Pre = append(g.preQueue, p.Pre...)
			g.preQueue = nil
		}
		if p.Ev != nil {
			class = n.viaEntry(p)
		} else {
			class = n.deliver(p)
		}
		first = append(first, class)
		if g.pending != nil {
			g.pending(class == "ok")
			g.pending = nil
		}
		return class == "ok"
	}
	g.runDelayed = func(ps []*vPair, pend []func(bool)) {
		start := len(g.pairs) - len(ps)
		verdict := make([]string, len(ps))
		for k, p := range ps {
			p.Delayed, p.DagBefore = true, start
			verdict[k] = n.dagVerify(p)
		}
		for k, p := range ps {
			if verdict[k] != "admit" {
				first = append(first, "dropped:"+verdict[k])
				if pend[k] != nil {
					pend[k](false)
				}
				continue
			}
			class := n.viaSubscriber(p)
			first = append(first, class)
			if pend[k] != nil {
				pend[k](class == "ok")
			}
		}
		g.pending = nil
	}
	vScenario(g, kind, run)
	for len(g.pairs) < steps {
		if len(g.queued) > 0 {
			q := g.queued[0]
			g.queued = g.queued[1:]
			if p := q(); p != nil {
				run(p)
				continue
			}
		}
		if g.rng.Intn(6) == 0 { // the node's own publishing path: Manager.Update on the state reached so far
			if mp := g.mgrStep(n); mp != nil {
				run(mp)
				continue
			}
		}
		sp := g.stepRandom()
		if !sp.Delayed && g.rng.Intn(8) == 0 { // this step arrives as a DAG event at the Start subscription
			sp.Ev = g.randomEv()
		}
		run(sp)
		if g.rng.Intn(12) == 0 && len(g.pairs) > 0 { // re-delivery of an earlier pair
			old := g.pairs[g.rng.Intn(len(g.pairs))]
			dup := *old
			dup.Kind = "redeliver"
			g.pairs = append(g.pairs, &dup)
			g.pending = nil
			run(&dup)
		}
	}
	n.close()
	r.runHistory(h, kind, noVerify, g.pairs, first)
}

// scripted openings: the shapes the property's quantifier names
func vScenario(g *vGen, kind string, run func(p *vPair) bool) {
	switch {
	case kind == "mixed":
	case kind == "entry-layer":
		vEntryScenario(g, run)
	case kind == "lookup-fault":
		vLookupFaultScenario(g, run)
	case strings.HasPrefix(kind, "chain"), strings.HasPrefix(kind, "cycle"):
		// D0 <- D1 <- ... <- Dk : Di is controlled by Di+1; chain: Dk controls itself; cycle: Dk is controlled by D0
		k, _ := strconv.Atoi(kind[5:])
		keys := make([]*vKey, k+1)
		for i := range keys {
			keys[i] = g.freshKey()
		}
		for i := k; i >= 0; i-- {
			spec := vBasicDoc(keys[i])
			if i < k {
				spec.Ctrl = []string{keys[i+1].did}
			} else if strings.HasPrefix(kind, "cycle") {
				spec.Ctrl = []string{keys[0].did}
			}
			if i == 0 && g.rng.Intn(3) == 0 && k > 0 {
				spec.Ctrl = append(spec.Ctrl, keys[0].did) // also its own controller
			}
			kk := keys[i]
			spec2 := spec
			run(g.emit(fmt.Sprintf("%s:create-%d", kind, i), spec.payload(), vSignSpec{key: kk, kid: kk.did + "#" + kk.b64, attach: kk, clock: 0}, func(ok bool, tx dag.Transaction) {
				if ok {
					g.dids[spec2.ID] = &vDid{key: kk, versions: []vVersion{{spec: spec2.clone(), ref: tx.Ref(), clock: tx.Clock(), time: tx.SigningTime().Unix()}}}
					g.order = append(g.order, spec2.ID)
				}
			}))
		}
		// update D0 signed by its controller D1 (D0 itself when k = 0), with and without the controller's tx among the prevs
		d0 := g.dids[keys[0].did]
		if d0 != nil {
			for _, noRef := range []bool{false, true} {
				run(g.update(vUpdateOpts{kind: kind + ":update-d0", target: d0, next: g.randomEdit, noCtrlRef: noRef}))
			}
		}
	case kind == "deactivated-controller":
		c := g.create("dc:create-controller", nil, nil, nil)
		if !run(c) {
			return
		}
		cd := g.dids[g.order[len(g.order)-1]]
		run(g.create("dc:create-controlled", []string{cd.latest().spec.ID}, nil, nil))
		td := g.dids[g.order[len(g.order)-1]]
		run(g.update(vUpdateOpts{kind: "dc:update-by-controller", target: td, next: g.randomEdit}))
		old := *cd.latest()
		run(g.update(vUpdateOpts{kind: "dc:deactivate-controller", target: cd, next: vDeactivate}))
		vm := old.spec.capInvKeys()[0]
		for _, ref := range []hash.SHA256Hash{old.ref, cd.latest().ref} {
			ref := ref
			run(g.update(vUpdateOpts{kind: "dc:update-by-deactivated-controller", target: td, next: g.randomEdit, signer: func() (*vKey, string, []hash.SHA256Hash) {
				return vm.Key, vm.ID, []hash.SHA256Hash{ref}
			}}))
		}
	case kind == "removed-key":
		run(g.create("rk:create", nil, func(s *vDocSpec, k *vKey) {
			k2 := g.freshKey()
			id := s.ID + "#" + k2.b64
			s.VMs = append(s.VMs, vVMSpec{ID: id, Key: k2})
			s.Rels["capabilityInvocation"] = append(s.Rels["capabilityInvocation"], id)
		}, nil))
		d := g.dids[g.order[len(g.order)-1]]
		v0 := *d.latest()
		ci := v0.spec.capInvKeys()
		gone := ci[len(ci)-1]
		keepVM := g.rng.Intn(2) == 0
		run(g.update(vUpdateOpts{kind: "rk:remove-key", target: d, signer: func() (*vKey, string, []hash.SHA256Hash) { return ci[0].Key, ci[0].ID, nil },
			next: func(s *vDocSpec) {
				var keep []interface{}
				for _, it := range s.Rels["capabilityInvocation"] {
					if it.(string) != gone.ID {
						keep = append(keep, it)
					}
				}
				s.Rels["capabilityInvocation"] = keep
				if !keepVM {
					var vms []vVMSpec
					for _, vm := range s.VMs {
						if vm.ID != gone.ID {
							vms = append(vms, vm)
						}
					}
					s.VMs = vms
					s.Rels["assertionMethod"] = nil
				}
			}}))
		// the removed key signs an update of the version that removed it: must be refused
		run(g.update(vUpdateOpts{kind: "rk:update-removed-key", target: d, next: g.randomEdit, signer: func() (*vKey, string, []hash.SHA256Hash) { return gone.Key, gone.ID, nil }}))
		// ... and an update that forks from the version that still listed it (authorised by design, merged as a conflict)
		run(g.update(vUpdateOpts{kind: "rk:fork-from-listing-version", target: d, from: &v0, next: g.randomEdit, signer: func() (*vKey, string, []hash.SHA256Hash) { return gone.Key, gone.ID, nil }}))
	case kind == "handed-over":
		// A was handed over to B (controller=[B]) but still lists its own key a for capabilityInvocation; the same key a
		// is also published by a self-controlled DID E, so that a transaction signed by a has a resolvable kid
		a := g.freshKey()
		run(g.create("ho:create-E", nil, func(s *vDocSpec, _ *vKey) {
			s.VMs = append(s.VMs, vVMSpec{ID: s.ID + "#" + a.b64, Key: a})
			s.Rels["assertionMethod"] = append(s.Rels["assertionMethod"], s.ID+"#"+a.b64)
		}, nil))
		e := g.dids[g.order[len(g.order)-1]]
		run(g.create("ho:create-B", nil, nil, nil))
		b := g.dids[g.order[len(g.order)-1]]
		specA := vBasicDoc(a)
		specA.Ctrl = []string{b.latest().spec.ID}
		if !run(g.emit("ho:create-A", specA.payload(), vSignSpec{key: a, kid: a.did + "#" + a.b64, attach: a, clock: 0}, func(ok bool, tx dag.Transaction) {
			if ok {
				g.dids[specA.ID] = &vDid{key: a, versions: []vVersion{{spec: specA.clone(), ref: tx.Ref(), clock: tx.Clock(), time: tx.SigningTime().Unix()}}}
				g.order = append(g.order, specA.ID)
			}
		})) {
			return
		}
		ad := g.dids[specA.ID]
		if g.rng.Intn(2) == 0 { // the real controller updates first (keeps controller and A's own key)
			run(g.update(vUpdateOpts{kind: "ho:update-by-controller", target: ad, next: func(s *vDocSpec) {
				s.Svcs = append(s.Svcs, vSvcSpec{ID: s.ID + "#svc-ho", Type: "type-ho", Endpoint: "https://example.com/ho"})
			}}))
		}
		// the former owner signs with the retained key (kid published by E): takes the DID back / plain edit
		for i := 0; i < 2; i++ {
			takeBack := i == 0
			run(g.update(vUpdateOpts{kind: "ho:update-by-retained-own-key", target: ad, next: func(s *vDocSpec) {
				if takeBack {
					s.Ctrl = nil
				} else {
					g.randomEdit(s)
				}
			}, signer: func() (*vKey, string, []hash.SHA256Hash) {
				return a, e.latest().spec.ID + "#" + a.b64, []hash.SHA256Hash{e.latest().ref}
			}}))
		}
	case kind == "delayed-vdr":
		// several transactions pass the DAG verifier before the ambassador processes them in order
		run(g.create("dv:create", nil, nil, nil))
		x := g.dids[g.order[len(g.order)-1]]
		if x == nil || x.latest() == nil || len(x.latest().spec.capInvKeys()) == 0 {
			return
		}
		grab := func(p *vPair) (*vPair, func(bool)) { f := g.pending; g.pending = nil; return p, f }
		takeover := func(att *vKey) []byte {
			spec := vDocUnderDID(att, x.latest().spec.ID)
			return spec.payload()
		}
		own := x.latest().spec.capInvKeys()[0]
		for round := 0; round < 2; round++ {
			att := g.freshKey()
			cur := x.latest()
			// V1: genuine update, pending; F: forged update naming V1 as prev, kid = the victim's key, signed by the attacker
			v1, p1 := grab(g.update(vUpdateOpts{kind: "dv:genuine-pending", target: x, next: g.randomEdit, signer: func() (*vKey, string, []hash.SHA256Hash) { return own.Key, own.ID, nil }}))
			prevs := []hash.SHA256Hash{v1.tx.Ref()}
			f, pf := grab(g.emit("dv:forged-on-pending-prev", takeover(att), vSignSpec{key: att, kid: own.ID, prevs: prevs, clock: g.clockFor(prevs)}, nil))
			// V2: genuine update on top of the pending V1 (its kid is not resolvable at DAG time either)
			v2spec := cur.spec.clone()
			v2spec.Svcs = append(v2spec.Svcs, vSvcSpec{ID: fmt.Sprintf("%s#svc-dv%d", v2spec.ID, round), Type: fmt.Sprintf("type-dv%d", round), Endpoint: "https://example.com/dv"})
			v2, p2 := grab(g.emit("dv:genuine-on-pending-prev", v2spec.payload(), vSignSpec{key: own.Key, kid: own.ID, prevs: prevs, clock: g.clockFor(prevs)}, nil))
			// F2: forged update whose kid IS resolvable at DAG time
			prevs2 := []hash.SHA256Hash{cur.ref}
			f2, pf2 := grab(g.emit("dv:forged-on-applied-prev", takeover(att), vSignSpec{key: att, kid: own.ID, prevs: prevs2, clock: g.clockFor(prevs2)}, nil))
			g.runDelayed([]*vPair{v1, f, v2, f2}, []func(bool){p1, pf, p2, pf2})
			if x.latest() == nil || len(x.latest().spec.capInvKeys()) == 0 {
				return
			}
			own = x.latest().spec.capInvKeys()[0]
		}
	case kind == "unknown-did":
		// a never-created DID V: update transactions naming it, signed by the key of a regularly created DID A whose
		// transaction is among the prevs and whose key the proposed document lists; then V's real creation; then A's key again
		run(g.create("ud:create-A", nil, nil, nil))
		a := g.dids[g.order[len(g.order)-1]]
		if a == nil || a.latest() == nil || len(a.latest().spec.capInvKeys()) == 0 {
			return
		}
		v := g.freshKey()
		ak := a.latest().spec.capInvKeys()[0]
		run(g.updateUnknownListingSigner(v, ak, a.latest().ref))
		run(g.updateUnknownListingSigner(g.freshKey(), ak, a.latest().ref))
		spec := vBasicDoc(v)
		run(g.emit("ud:create-V-by-own-key", spec.payload(), vSignSpec{key: v, kid: v.did + "#" + v.b64, attach: v, clock: 0}, func(ok bool, tx dag.Transaction) {
			if ok {
				d := g.dids[spec.ID]
				if d == nil {
					d = &vDid{key: v}
					g.dids[spec.ID] = d
					g.order = append(g.order, spec.ID)
				}
				d.versions = append(d.versions, vVersion{spec: spec.clone(), ref: tx.Ref(), clock: tx.Clock(), time: tx.SigningTime().Unix()})
			}
		}))
		if vd := g.dids[v.did]; vd != nil && vd.latest() != nil {
			run(g.update(vUpdateOpts{kind: "ud:update-V-by-foreign-key", target: vd, next: g.randomEdit, signer: func() (*vKey, string, []hash.SHA256Hash) {
				return ak.Key, ak.ID, []hash.SHA256Hash{a.latest().ref}
			}}))
		}
	case kind == "relationship-subsets":
		// keys listed under exactly one relationship; only capabilityInvocation keys may sign updates — of the document
		// itself and of a document it controls
		rels := []string{"capabilityDelegation", "authentication", "assertionMethod", "keyAgreement"}
		relKeys := map[string]vVMSpec{}
		run(g.create("rs:create-X", nil, func(s *vDocSpec, k *vKey) {
			s.Rels["assertionMethod"] = nil
			for _, rn := range rels {
				kk := g.freshKey()
				vm := vVMSpec{ID: s.ID + "#" + kk.b64, Key: kk}
				s.VMs = append(s.VMs, vm)
				s.Rels[rn] = append(s.Rels[rn], vm.ID)
				relKeys[rn] = vm
			}
		}, nil))
		x := g.dids[g.order[len(g.order)-1]]
		if x == nil || x.latest() == nil {
			return
		}
		for _, rn := range rels {
			vm := relKeys[rn]
			run(g.update(vUpdateOpts{kind: "rs:update-by-" + rn + "-only-key", target: x, signer: func() (*vKey, string, []hash.SHA256Hash) { return vm.Key, vm.ID, nil },
				next: func(s *vDocSpec) { // the signer promotes itself and drops the capabilityInvocation keys
					s.Rels["capabilityInvocation"] = []interface{}{vm.ID}
				}}))
		}
		run(g.create("rs:create-Y-controlled-by-X", []string{x.latest().spec.ID}, func(s *vDocSpec, _ *vKey) {
			s.Rels["capabilityInvocation"] = nil
		}, nil))
		y := g.dids[g.order[len(g.order)-1]]
		if y != nil && y != x && y.latest() != nil {
			for _, rn := range []string{"capabilityDelegation", "authentication"} {
				vm := relKeys[rn]
				run(g.update(vUpdateOpts{kind: "rs:update-controlled-by-" + rn + "-only-key-of-controller", target: y, next: g.randomEdit, signer: func() (*vKey, string, []hash.SHA256Hash) {
					return vm.Key, vm.ID, []hash.SHA256Hash{x.latest().ref}
				}}))
			}
			run(g.update(vUpdateOpts{kind: "rs:update-controlled-by-controller", target: y, next: g.randomEdit}))
		}
	case kind == "deactivated-controller-alias":
		// controller C is deactivated; its old key is also published by a self-controlled DID E; an update of the
		// controlled DID names C's DEACTIVATION transaction among its prevs and is signed by the old key via kid E#key
		run(g.create("da:create-C", nil, nil, nil))
		c := g.dids[g.order[len(g.order)-1]]
		if c == nil || c.latest() == nil || len(c.latest().spec.capInvKeys()) == 0 {
			return
		}
		old := c.latest().spec.capInvKeys()[0]
		run(g.create("da:create-E-publishing-C-key", nil, func(s *vDocSpec, _ *vKey) {
			s.VMs = append(s.VMs, vVMSpec{ID: s.ID + "#" + old.Key.b64, Key: old.Key})
			s.Rels["assertionMethod"] = append(s.Rels["assertionMethod"], s.ID+"#"+old.Key.b64)
		}, nil))
		e := g.dids[g.order[len(g.order)-1]]
		run(g.create("da:create-D-controlled-by-C", []string{c.latest().spec.ID}, func(s *vDocSpec, _ *vKey) {
			s.Rels["capabilityInvocation"] = nil
		}, nil))
		d := g.dids[g.order[len(g.order)-1]]
		if e == nil || d == nil || e == c || d == e || d.latest() == nil || e.latest() == nil {
			return
		}
		run(g.update(vUpdateOpts{kind: "da:deactivate-C", target: c, next: vDeactivate}))
		if vActive(c) {
			return
		}
		deact := c.latest().ref
		// kid C#key: not resolvable any more; kid E#key with the deactivation among the prevs
		run(g.update(vUpdateOpts{kind: "da:update-by-deactivated-controller-own-kid", target: d, next: g.randomEdit, signer: func() (*vKey, string, []hash.SHA256Hash) {
			return old.Key, old.ID, []hash.SHA256Hash{deact}
		}}))
		run(g.update(vUpdateOpts{kind: "da:update-by-deactivated-controller-alias-kid-after-deactivation", target: d, next: g.randomEdit, signer: func() (*vKey, string, []hash.SHA256Hash) {
			return old.Key, e.latest().spec.ID + "#" + old.Key.b64, []hash.SHA256Hash{deact, e.latest().ref}
		}}))
	case kind == "chosen-signing-time":
		// the signer chooses the signing time: D is controlled by C, C rotates key k2 out of capabilityInvocation (it stays a
		// verification method); updates of D signed by k2 whose prevs pin the CURRENT versions of D and C, back- and forward-dated
		var k2 vVMSpec
		run(g.create("st:create-C", nil, func(s *vDocSpec, _ *vKey) {
			kk := g.freshKey()
			k2 = vVMSpec{ID: s.ID + "#" + kk.b64, Key: kk}
			s.VMs = append(s.VMs, k2)
			s.Rels["capabilityInvocation"] = append(s.Rels["capabilityInvocation"], k2.ID)
		}, nil))
		c := g.dids[g.order[len(g.order)-1]]
		if c == nil || c.latest() == nil {
			return
		}
		tCreate := c.latest().time
		run(g.create("st:create-D-controlled-by-C", []string{c.latest().spec.ID}, func(s *vDocSpec, _ *vKey) {
			s.Rels["capabilityInvocation"] = nil
		}, nil))
		d := g.dids[g.order[len(g.order)-1]]
		if d == nil || d == c || d.latest() == nil {
			return
		}
		g.now += 50
		k1 := c.latest().spec.capInvKeys()[0]
		run(g.update(vUpdateOpts{kind: "st:C-rotates-key-out", target: c, signer: func() (*vKey, string, []hash.SHA256Hash) { return k1.Key, k1.ID, nil },
			next: func(s *vDocSpec) {
				s.Rels["capabilityInvocation"] = []interface{}{k1.ID}
				s.Rels["assertionMethod"] = append(s.Rels["assertionMethod"], k2.ID)
			}}))
		g.now += 50
		for _, tm := range []int64{tCreate + 1, d.latest().time + 1, g.now + 1000} { // before the rotation (backdated) ... far in the future
			tm := tm
			run(g.update(vUpdateOpts{kind: "st:update-by-rotated-out-key-chosen-signing-time", target: d, next: g.randomEdit,
				signer: func() (*vKey, string, []hash.SHA256Hash) { return k2.Key, k2.ID, []hash.SHA256Hash{c.latest().ref} },
				sign:   func(s *vSignSpec) { s.time = tm }}))
		}
		run(g.update(vUpdateOpts{kind: "st:update-by-current-controller-key-backdated", target: d, next: g.randomEdit,
			signer: func() (*vKey, string, []hash.SHA256Hash) { return k1.Key, k1.ID, []hash.SHA256Hash{c.latest().ref} },
			sign:   func(s *vSignSpec) { s.time = tCreate + 2 }}))
	case kind == "old-prev-first":
		// prevs name an OLD version of the DID before the current one: a key that the current version removed signs
		run(g.create("op:create", nil, func(s *vDocSpec, k *vKey) {
			k2 := g.freshKey()
			id := s.ID + "#" + k2.b64
			s.VMs = append(s.VMs, vVMSpec{ID: id, Key: k2})
			s.Rels["capabilityInvocation"] = append(s.Rels["capabilityInvocation"], id)
		}, nil))
		d := g.dids[g.order[len(g.order)-1]]
		if d == nil || d.latest() == nil || len(d.latest().spec.capInvKeys()) < 2 {
			return
		}
		v1 := *d.latest()
		ci := v1.spec.capInvKeys()
		gone := ci[1]
		dropVM := g.rng.Intn(2) == 0
		run(g.update(vUpdateOpts{kind: "op:remove-key", target: d, signer: func() (*vKey, string, []hash.SHA256Hash) { return ci[0].Key, ci[0].ID, nil },
			next: func(s *vDocSpec) {
				s.Rels["capabilityInvocation"] = []interface{}{ci[0].ID}
				if dropVM {
					s.VMs = s.VMs[:1]
					s.Rels["assertionMethod"] = []interface{}{ci[0].ID}
				}
			}}))
		if len(d.versions) < 2 {
			return
		}
		v2 := *d.latest()
		takeover := func(s *vDocSpec) { // the removed key makes itself the only capabilityInvocation key
			*s = vDocUnderDID(gone.Key, s.ID)
		}
		for _, order := range [][]hash.SHA256Hash{{v2.ref, v1.ref}, {v1.ref, v2.ref}} {
			order := order
			from := &v2
			if order[0] == v1.ref {
				from = &v1
			}
			run(g.update(vUpdateOpts{kind: "op:removed-key-names-old-and-current-version", target: d, from: from, next: takeover,
				signer: func() (*vKey, string, []hash.SHA256Hash) { return gone.Key, gone.ID, order[1:] }}))
		}
	case kind == "did-prefix":
		// DIDs that are proper prefixes / extensions of the embedded key's thumbprint; two unrelated keys whose
		// thumbprints share the first character both try to create that one-character DID
		k := g.freshKey()
		for _, n := range []int{1, 2, len(k.b58) / 2, -2, -1} {
			run(g.createNearDID("create-did-prefix-of-thumbprint", g.freshKey(), n, ""))
		}
		run(g.createNearDID("create-did-extension-of-thumbprint", g.freshKey(), 0, "1"))
		run(g.createCaseVariantDID(g.freshKey()))
		run(g.createNearDID("create-did-prefix-of-thumbprint", k, 1, ""))
		for tries := 0; tries < 80; tries++ {
			k2 := g.freshKey()
			if k2.b58[0] == k.b58[0] {
				run(g.createNearDID("create-did-prefix-of-thumbprint", k2, 1, ""))
				break
			}
		}
	case kind == "key-swap":
		// an id that was accepted with key K later carries the key material of K'
		run(g.create("ks:create", nil, func(s *vDocSpec, k *vKey) {
			k2 := g.freshKey()
			id := s.ID + "#" + k2.b64
			s.VMs = append(s.VMs, vVMSpec{ID: id, Key: k2})
			s.Rels["capabilityInvocation"] = append(s.Rels["capabilityInvocation"], id)
		}, nil))
		d := g.dids[g.order[len(g.order)-1]]
		if d == nil || d.latest() == nil {
			return
		}
		ci := d.latest().spec.capInvKeys()
		kp := g.freshKey()
		swapped := ci[0].ID
		run(g.update(vUpdateOpts{kind: "ks:swap-key-under-known-id", target: d, signer: func() (*vKey, string, []hash.SHA256Hash) { return ci[1].Key, ci[1].ID, nil },
			next: func(s *vDocSpec) {
				for i := range s.VMs {
					if s.VMs[i].ID == swapped {
						s.VMs[i].Key = kp
					}
				}
			}}))
		// K' acts under the name of K: deactivation
		run(g.update(vUpdateOpts{kind: "ks:deactivate-by-swapped-key", target: d, next: vDeactivate, signer: func() (*vKey, string, []hash.SHA256Hash) { return kp, swapped, nil }}))
		run(g.update(vUpdateOpts{kind: "ks:swap-key-and-type-under-known-id", target: d, signer: func() (*vKey, string, []hash.SHA256Hash) { return ci[1].Key, ci[1].ID, nil },
			next: func(s *vDocSpec) {
				for i := range s.VMs {
					if s.VMs[i].ID == swapped {
						s.VMs[i].Key = kp
						s.VMs[i].Type = "EcdsaSecp256k1VerificationKey2019"
					}
				}
			}}))
		// the same id inside another DID's document
		run(g.create("violate:vm-known-id-other-did", nil, func(s *vDocSpec, _ *vKey) { g.violate("vm-known-id-other-did", s) }, nil))
	case kind == "embedded-capinv":
		run(g.create("ec:create-other", nil, nil, nil))
		run(g.create("ec:create", nil, nil, nil))
		d := g.dids[g.order[len(g.order)-1]]
		for i := 0; i < 4; i++ {
			run(g.update(vUpdateOpts{kind: "update-embed-capinv", target: d, next: g.embedCapInv}))
			run(g.update(vUpdateOpts{kind: "ec:update-after-embed", target: d, next: g.randomEdit}))
		}
	case kind == "validator-sweep":
		run(g.create("vs:create", nil, nil, nil))
		d := g.dids[g.order[len(g.order)-1]]
		for _, which := range vViolations {
			which := which
			if g.rng.Intn(2) == 0 {
				run(g.create("violate:"+which, nil, func(s *vDocSpec, _ *vKey) { g.violate(which, s) }, nil))
			} else {
				run(g.update(vUpdateOpts{kind: "violate:" + which, target: d, next: func(s *vDocSpec) { g.violate(which, s) }}))
			}
		}
	}
}

// ---------------------------------------------------------------------------------------------

func vLoadReplay(path string) (map[int][]*vPair, map[int]bool) {
	f, err := os.Open(path)
	if err != nil {
		return nil, nil
	}
	defer f.Close()
	out := map[int][]*vPair{}
	nov := map[int]bool{}
	seen := map[int]map[int]bool{}
	idx := map[int][]int{}
	sc := bufio.NewScanner(f)
	sc.Buffer(make([]byte, 1<<20), 1<<26)
	for sc.Scan() {
		var op vOp
		if json.Unmarshal(sc.Bytes(), &op) != nil {
			continue
		}
		if op.Op == "hist" {
			nov[op.H] = op.NoVerify
		}
		if (op.Op != "pair" && op.Op != "verify") || op.Raw == nil {
			continue
		}
		if seen[op.H] == nil {
			seen[op.H] = map[int]bool{}
		}
		if seen[op.H][op.I] {
			continue
		}
		seen[op.H][op.I] = true
		p := op.Raw
		tx, err := dag.ParseTransaction([]byte(p.JWS))
		if err != nil {
			continue
		}
		p.tx = vTx{Transaction: tx, zeroTime: p.ZeroTime, emptyHash: p.EmptyHash}
		p.payload, _ = base64.StdEncoding.DecodeString(p.Payload)
		out[op.H] = append(out[op.H], p)
		idx[op.H] = append(idx[op.H], op.I)
	}
	// pairs in index order (a delayed pair is first seen in its verify op); DagBefore is re-based on the new positions
	for h, ps := range out {
		order := make([]int, len(ps))
		for i := range order {
			order[i] = i
		}
		sort.SliceStable(order, func(a, b int) bool { return idx[h][order[a]] < idx[h][order[b]] })
		sorted := make([]*vPair, len(ps))
		pos := map[int]int{}
		for k, o := range order {
			sorted[k] = ps[o]
			pos[idx[h][o]] = k
		}
		for _, p := range sorted {
			if p.Delayed {
				if np, ok := pos[p.DagBefore]; ok {
					p.DagBefore = np
				}
			}
		}
		out[h] = sorted
	}
	return out, nov
}

func TestVerifC09(t *testing.T) {
	outDir := os.Getenv("VERIF_OUT")
	if outDir == "" {
		t.Skip("VERIF_OUT not set")
	}
	seed, _ := strconv.ParseInt(os.Getenv("VERIF_SEED"), 10, 64)
	nHist, _ := strconv.Atoi(os.Getenv("VERIF_HISTORIES"))
	if nHist == 0 {
		nHist = 60
	}
	logrus.SetLevel(logrus.PanicLevel)
	logrus.SetOutput(io.Discard)
	opsF, _ := os.Create(filepath.Join(outDir, "ops.jsonl"))
	implF, _ := os.Create(filepath.Join(outDir, "impl.out"))
	defer opsF.Close()
	defer implF.Close()
	r := &vRunner{t: t, ctrl: gomock.NewController(t), out: outDir, opsW: bufio.NewWriterSize(opsF, 1<<20), implW: bufio.NewWriterSize(implF, 1<<20)}
	defer r.opsW.Flush()
	defer r.implW.Flush()

	runFile := func(path string, base int) {
		hs, nov := vLoadReplay(path)
		var keys []int
		for k := range hs {
			keys = append(keys, k)
		}
		sort.Ints(keys)
		for _, k := range keys {
			r.runHistory(base+k, "replay:"+filepath.Base(path), nov[k], hs[k], nil)
		}
	}
	if rp := os.Getenv("VERIF_REPLAY"); rp != "" {
		runFile(rp, 0)
		return
	}
	if cd := os.Getenv("VERIF_CORPUS"); cd != "" {
		files, _ := filepath.Glob(filepath.Join(cd, "*.jsonl"))
		sort.Strings(files)
		for i, fn := range files {
			runFile(fn, -1000*(i+1))
		}
	}
	rng := rand.New(rand.NewSource(seed*7919 + 9))
	scripted := []string{"chain0", "chain1", "chain2", "chain3", "chain4", "chain5", "chain6", "cycle1", "cycle2", "cycle3", "cycle5",
		"deactivated-controller", "removed-key", "validator-sweep", "embedded-capinv", "handed-over", "key-swap", "did-prefix", "delayed-vdr", "unknown-did", "relationship-subsets", "deactivated-controller-alias", "chosen-signing-time", "old-prev-first", "entry-layer", "lookup-fault"}
	for h := 0; h < nHist; h++ {
		kind := "mixed"
		if h%2 == 0 {
			kind = scripted[(h/2)%len(scripted)]
		}
		steps := 6 + rng.Intn(10)
		if os.Getenv("VERIF_TIER") == "thorough" && rng.Intn(4) == 0 {
			steps = 16 + rng.Intn(18) // longer histories: deeper version chains, more forks and merges
		}
		if kind == "validator-sweep" {
			steps = 28
		}
		r.genHistory(h, rand.New(rand.NewSource(rng.Int63())), steps, kind, rng.Intn(2) == 0)
	}
}
