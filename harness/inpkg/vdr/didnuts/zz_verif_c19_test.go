//go:build verif

// C19 exploration harness (crash/timeout oracle, no model here — the ambassador/validators model belongs to C09) for the two
// places in vdr/didnuts that run on DID documents received over the network: NetworkDocumentValidator().Validate and
// ambassador.findKeyByThumbprint (the controller-key lookup of every document update).
package didnuts

import (
	"encoding/json"
	"errors"
	"fmt"
	mrand "math/rand"
	"os"
	"strings"
	"testing"
	"time"

	"github.com/lestrrat-go/jwx/v2/jwk"
	"github.com/nuts-foundation/go-did/did"
	"github.com/nuts-foundation/go-stoabs"
	nutsCrypto "github.com/nuts-foundation/nuts-node/crypto"
	"github.com/nuts-foundation/nuts-node/crypto/hash"
	"github.com/nuts-foundation/nuts-node/network"
	"github.com/nuts-foundation/nuts-node/network/dag"
	"github.com/nuts-foundation/nuts-node/vdr/didnuts/didstore"
	"github.com/nuts-foundation/nuts-node/vdr/resolver"
	"github.com/sirupsen/logrus"
)

// c19Store / c19Net: the two collaborators the REAL ambassador.callback hands an accepted document to
type c19Store struct {
	didstore.Store
	adds   int
	addErr error
}

func (s *c19Store) Add(_ did.Document, _ didstore.Transaction) error {
	if s.addErr != nil {
		return s.addErr
	}
	s.adds++
	return nil
}
func (s *c19Store) Resolve(_ did.DID, _ *resolver.ResolveMetadata) (*did.Document, *resolver.DocumentMetadata, error) {
	return nil, nil, resolver.ErrNotFound
}

type c19Net struct{ network.Transactions }

func (c19Net) DiscoverServices(_ did.DID) {}

// c19CallbackOp feeds one payload through the REAL ambassador.handleNetworkEvent → callback (modelled op `didnuts.callback`,
// NutsModel/C19/Ambassador.lean). tx: 0 = create (signing key in the header), 1 = update (no signing key, one previous),
// 2 = wrong payload type, 3 = empty payload hash, 4 = zero signing time, 5 = create with a store that fails (database error)
func c19CallbackOp(o *c19Out, key jwk.Key, payload string, txKind int) {
	tx := testTransaction{payloadType: DIDDocumentType, payloadHash: hash.SHA256Sum([]byte(payload)), signingTime: time.Unix(1700000000, 0),
		ref: hash.SHA256Sum([]byte("ref" + payload)), signingKey: key}
	store := &c19Store{}
	switch txKind {
	case 1:
		tx.signingKey, tx.prevs = nil, []hash.SHA256Hash{hash.SHA256Sum([]byte("prev"))}
	case 2:
		tx.payloadType = "application/vc+json"
	case 3:
		tx.payloadHash = hash.EmptyHash()
	case 4:
		tx.signingTime = time.Time{}
	case 5:
		store.addErr = stoabs.DatabaseError(errors.New("disk full"))
	}
	op := map[string]any{"op": "didnuts.callback", "payload": payload, "tx": txKind,
		"ptOk": tx.payloadType == DIDDocumentType, "hashSet": !tx.payloadHash.Empty(), "timeSet": !tx.signingTime.IsZero()}
	// data for the model, observed independently of the callback
	op["nullEntries"] = resolver.RejectNullKeyEntries([]byte(payload)) != nil
	var doc did.Document
	um := c19Class(c19Guard(func() string {
		if err := json.Unmarshal([]byte(payload), &doc); err != nil {
			return "err"
		}
		return "ok"
	}))
	if strings.HasPrefix(um, "panic") {
		um = "panic"
	}
	op["unmarshal"] = um
	op["validateOk"] = false
	if um == "ok" {
		op["validateOk"] = c19Guard(func() string { return fmt.Sprint(NetworkDocumentValidator().Validate(doc) == nil) }) == "true"
	}
	c19Mark(op)
	amb := NewAmbassador(c19Net{}, store, nil).(*ambassador)
	handled := "ok"
	res := c19Guard(func() string {
		done, err := amb.handleNetworkEvent(dag.Event{Transaction: tx, Payload: []byte(payload)})
		ev, cb := "done", "ok"
		if err != nil {
			ev = "retry"
			var fatal dag.EventFatal
			if errors.As(err, &fatal) {
				ev = "fatal"
			}
			m := err.Error()
			switch {
			case strings.Contains(m, "could not process new DID Document: "):
				cb = "err:integrity"
			case strings.Contains(m, "unable to unmarshal DID document from network payload"):
				cb = "err:unmarshal"
			case strings.Contains(m, "DID Document integrity check failed"):
				cb = "err:validate"
			case errors.As(err, new(stoabs.ErrDatabase)):
				cb, handled = "err:database", "db"
			default:
				cb, handled = "err:handle", "other"
			}
		}
		if done != (err == nil) {
			return "INVARIANT-BROKEN done=" + fmt.Sprint(done) + " err=" + fmt.Sprint(err)
		}
		line := "ev=" + ev + " cb=" + cb
		// clause (S): a rejected payload leaves the store unchanged
		if err != nil && store.adds != 0 {
			line += " STATE-CHANGED-ON-ERROR"
		}
		return line
	})
	op["handled"] = handled
	if strings.HasPrefix(res, "panic:") {
		res = c19Class(res)
		if strings.HasPrefix(res, "panic:callback>did.") || strings.HasPrefix(res, "panic:callback>json.") {
			res = "panic:callback>did.Document.UnmarshalJSON"
		}
	}
	if len(payload) > 4000 {
		op["payload"] = c19Short(payload, 4000) // (replay of an over-long payload is approximate; the model only needs the observed data)
	}
	o.emit(op, res)
}

const c19NutsDocTmpl = `{"@context":["https://www.w3.org/ns/did/v1","https://w3id.org/security/suites/jws-2020/v1"],
"id":"did:nuts:3gU9z3j7j4VCboc3qq3Vc5mVVGDNGjfg32xokeX8c8Zn",
"controller":"did:nuts:3gU9z3j7j4VCboc3qq3Vc5mVVGDNGjfg32xokeX8c8Zn",
"verificationMethod":[{"id":"did:nuts:3gU9z3j7j4VCboc3qq3Vc5mVVGDNGjfg32xokeX8c8Zn#KEYFRAGMENT","type":"JsonWebKey2020","controller":"did:nuts:3gU9z3j7j4VCboc3qq3Vc5mVVGDNGjfg32xokeX8c8Zn",
"publicKeyJwk":{"kty":"EC","crv":"P-256","x":"VovYU-43esqZaDLPBhbV44G6nvSYXHv0_pXFkLL5wWw","y":"kD-ev_48d7JSh-Ig2Rt0qDf_7OrGSPNbMbHxXsfgmVo"}}],
"capabilityInvocation":["did:nuts:3gU9z3j7j4VCboc3qq3Vc5mVVGDNGjfg32xokeX8c8Zn#KEYFRAGMENT",
 {"id":"did:nuts:3gU9z3j7j4VCboc3qq3Vc5mVVGDNGjfg32xokeX8c8Zn#embedded","type":"JsonWebKey2020","controller":"did:nuts:3gU9z3j7j4VCboc3qq3Vc5mVVGDNGjfg32xokeX8c8Zn","publicKeyJwk":{"kty":"EC","crv":"P-256","x":"VovYU-43esqZaDLPBhbV44G6nvSYXHv0_pXFkLL5wWw","y":"kD-ev_48d7JSh-Ig2Rt0qDf_7OrGSPNbMbHxXsfgmVo"}}],
"assertionMethod":["did:nuts:3gU9z3j7j4VCboc3qq3Vc5mVVGDNGjfg32xokeX8c8Zn#KEYFRAGMENT"],
"service":[{"id":"did:nuts:3gU9z3j7j4VCboc3qq3Vc5mVVGDNGjfg32xokeX8c8Zn#s1","type":"NutsComm","serviceEndpoint":"grpc://example.com:5555"}]}`

func TestVerifC19(t *testing.T) {
	dir := os.Getenv("VERIF_OUT")
	if dir == "" {
		t.Skip("VERIF_OUT not set")
	}
	o := c19Open(dir)
	defer o.close(dir)
	logrus.SetLevel(logrus.PanicLevel) // (the callback logs every registered document)
	r := mrand.New(mrand.NewSource(c19Seed()*67867967 + 13))
	m := jmut{r}

	// the first steps of ambassador.callback on a network payload: null-entry guard on the raw JSON, then json.Unmarshal (go-did)
	parseLikeCallback := func(in string) (*did.Document, error) {
		if err := resolver.RejectNullKeyEntries([]byte(in)); err != nil {
			return nil, err
		}
		var doc did.Document
		if err := json.Unmarshal([]byte(in), &doc); err != nil {
			return nil, err
		}
		return &doc, nil
	}
	path := func(in string) string {
		doc, err := parseLikeCallback(in)
		if err != nil {
			return "err:parse"
		}
		res := "ok"
		if err := NetworkDocumentValidator().Validate(*doc); err != nil {
			res = "err:validate"
		}
		// the controller-key lookup runs on documents that are already stored (validated when they arrived) and on the
		// proposed document's controllers; run it regardless of the validator's verdict on this mutant's relationships
		if _, err := (ambassador{}).findKeyByThumbprint([]byte("thumbprint"), doc.CapabilityInvocation); err != nil && res == "ok" {
			res = "err:thumbprint"
		}
		return res
	}
	validatedThenLookup := func(in string) string {
		// only documents the network validator ACCEPTS reach the store; the lookup must not panic on any of them
		doc, err := parseLikeCallback(in)
		if err != nil {
			return "err:parse"
		}
		if err := NetworkDocumentValidator().Validate(*doc); err != nil {
			return "err:validate"
		}
		if _, err := (ambassador{}).findKeyByThumbprint([]byte("thumbprint"), doc.CapabilityInvocation); err != nil {
			return "err:thumbprint"
		}
		return "ok"
	}
	// the validator on documents that did NOT pass the raw-JSON guard (other sources: built programmatically, parsed elsewhere):
	// nil entries are planted after parsing
	validateWithNilEntries := func(in string) string {
		doc, err := parseLikeCallback(in)
		if err != nil {
			return "err:parse"
		}
		res := "ok"
		for variant := 0; variant < 4; variant++ {
			d := *doc
			switch variant {
			case 0:
				d.VerificationMethod = append(did.VerificationMethods{nil}, d.VerificationMethod...)
			case 1:
				d.VerificationMethod = append(append(did.VerificationMethods{}, d.VerificationMethod...), nil)
			case 2:
				d.CapabilityInvocation = append(did.VerificationRelationships{{}}, d.CapabilityInvocation...)
			case 3:
				d.AssertionMethod = append(append(did.VerificationRelationships{}, d.AssertionMethod...), did.VerificationRelationship{})
			}
			if err := NetworkDocumentValidator().Validate(d); err == nil {
				res = "ACCEPTED-NIL-ENTRY"
			}
		}
		return res
	}
	eps := map[string]func(string) string{"didnuts.Validate(nil entries planted)": validateWithNilEntries, "didnuts.validate+findKeyByThumbprint": path, "didnuts.accepted-doc-then-findKeyByThumbprint": validatedThenLookup}

	// the key id of a did:nuts verification method is the thumbprint of its key
	key, err := jwk.ParseKey([]byte(`{"kty":"EC","crv":"P-256","x":"VovYU-43esqZaDLPBhbV44G6nvSYXHv0_pXFkLL5wWw","y":"kD-ev_48d7JSh-Ig2Rt0qDf_7OrGSPNbMbHxXsfgmVo"}`))
	if err != nil {
		t.Fatal(err)
	}
	_ = jwk.AssignKeyID(key)
	replay, isReplay := c19ReadOps()
	for _, op := range replay {
		if op["op"] == "didnuts.callback" {
			pl, _ := op["payload"].(string)
			k := 0
			if n, ok := op["tx"].(json.Number); ok {
				i, _ := n.Int64()
				k = int(i)
			}
			c19CallbackOp(o, key, pl, k)
			continue
		}
		name, _ := op["op"].(string)
		if len(name) > 2 {
			if fn, ok := eps[name[2:]]; ok {
				in, _ := op["input"].(string)
				o.explore(name[2:], in, func() string { return fn(in) })
			}
		}
	}
	if isReplay {
		return
	}
	c19NutsDoc := strings.ReplaceAll(c19NutsDocTmpl, "KEYFRAGMENT", key.KeyID())
	if res := validatedThenLookup(c19NutsDoc); res != "ok" {
		t.Fatalf("valid did:nuts document is not accepted: %s", res)
	}
	run := func(b []byte, kind string) {
		in := string(b)
		o.dist["didnuts-doc:"+kind] += 2
		for name, fn := range eps {
			f := fn
			o.explore(name, in, func() string { return f(in) })
		}
	}
	// ---- the REAL subscriber: ambassador.handleNetworkEvent → callback (modelled op didnuts.callback)
	thumb, err := nutsCrypto.Thumbprint(key)
	if err != nil {
		t.Fatal(err)
	}
	ownDoc := strings.ReplaceAll(c19NutsDoc, "3gU9z3j7j4VCboc3qq3Vc5mVVGDNGjfg32xokeX8c8Zn", thumb) // the DID of a create transaction is the thumbprint of its signing key
	cb := func(b []byte, kind string, kinds ...int) {
		o.dist["didnuts.callback:"+kind] += len(kinds)
		for _, k := range kinds {
			c19CallbackOp(o, key, string(b), k)
		}
	}
	for k := 0; k <= 5; k++ {
		cb([]byte(ownDoc), "valid", k)
		cb([]byte(c19NutsDoc), "valid-other-did", k)
	}
	{
		// null entries in the key arrays: alone, with a reference / an embedded method / a second null in every relationship, before and
		// after a valid entry, under case variants of the member names (encoding/json matches member names case-insensitively)
		did0 := "did:nuts:" + thumb
		vm := `{"id":"` + did0 + `#` + key.KeyID() + `","type":"JsonWebKey2020","controller":"` + did0 + `","publicKeyJwk":{"kty":"EC","crv":"P-256","x":"VovYU-43esqZaDLPBhbV44G6nvSYXHv0_pXFkLL5wWw","y":"kD-ev_48d7JSh-Ig2Rt0qDf_7OrGSPNbMbHxXsfgmVo"}}`
		ref := `"` + did0 + `#` + key.KeyID() + `"`
		vmVals := []string{`[null]`, `[null,` + vm + `]`, `[` + vm + `,null]`, `[` + vm + `]`, `null`, `[]`, `[null,null]`}
		relVals := []string{`[` + ref + `]`, `[null]`, `[` + ref + `,null]`, `[null,` + ref + `]`, `[` + vm + `]`, `["#` + key.KeyID() + `"]`, `["did:nuts:other#k"]`}
		rels := []string{"authentication", "assertionMethod", "capabilityInvocation", "capabilityDelegation", "keyAgreement"}
		caseOf := func(s string, v int) string {
			switch v {
			case 1:
				return strings.ToUpper(s[:1]) + s[1:]
			case 2:
				return strings.ToLower(s)
			case 3:
				return strings.ToUpper(s)
			}
			return s
		}
		for vi, vmv := range vmVals {
			for _, rel := range rels {
				for ri, rv := range relVals {
					for cv := 0; cv < 4; cv++ {
						if cv > 0 && (vi > 2 || ri > 2) {
							continue // case variants only for the null-entry shapes
						}
						ci := `,"capabilityInvocation":[` + ref + `]`
						if rel == "capabilityInvocation" {
							ci = ""
						}
						doc := `{"@context":["https://www.w3.org/ns/did/v1"],"id":"` + did0 + `","` + caseOf("verificationMethod", cv) + `":` + vmv + `,"` + caseOf(rel, cv) + `":` + rv + ci + `}`
						cb([]byte(doc), "null-entry-table", 0, 1)
					}
				}
			}
		}
	}
	jsystematic([]byte(ownDoc), func(b []byte, kind string) { cb(b, kind, 0, 1) })
	for i := 0; i < c19Env("VERIF_N", 400); i++ {
		b, kind := m.mutate([]byte(ownDoc))
		cb(b, "rand:"+kind, r.Intn(6))
	}
	jsystematic([]byte(c19NutsDoc), run)
	n := c19Env("VERIF_N", 400)
	for i := 0; i < n; i++ {
		b, kind := m.mutate([]byte(c19NutsDoc))
		run(b, "rand:"+kind)
	}
}
