//go:build verif

// C19 exploration harness (crash/timeout oracle, no model here — the ambassador/validators model belongs to C09) for the two
// places in vdr/didnuts that run on DID documents received over the network: NetworkDocumentValidator().Validate and
// ambassador.findKeyByThumbprint (the controller-key lookup of every document update).
package didnuts

import (
	"encoding/json"
	mrand "math/rand"
	"os"
	"strings"
	"testing"

	"github.com/lestrrat-go/jwx/v2/jwk"
	"github.com/nuts-foundation/go-did/did"
	"github.com/nuts-foundation/nuts-node/vdr/resolver"
)

const c19NutsDocTmpl = `{"@context":["https://www.w3.org/ns/did/v1","https://w3id.org/security/suites/jws-2020/v1"],
"id":"did:nuts:3gU9z3j7j4VCboc3qq3Vc5mVVGDNGjfg32xokeX8c8Zn",
"controller":"did:nuts:3gU9z3j7j4VCboc3qq3Vc5mVVGDNGjfg32xokeX8c8Zn",
"verificationMethod":[{"id":"did:nuts:3gU9z3j7j4VCboc3qq3Vc5mVVGDNGjfg32xokeX8c8Zn#KEYFRAGMENT","type":"JsonWebKey2020","controller":"did:nuts:3gU9z3j7j4VCboc3qq3Vc5mVVGDNGjfg32xokeX8c8Zn",
"publicKeyJwk":{"kty":"EC","crv":"P-256","x":"VovYU-43esqZaDLPBhbV44G6nvSYXHv0_pXFkLL5wWw","y":"kD-ev_48d7JSh-Ig2Rt0qDf_7OrGSPNbMbHxXsfgmVo"}}],
"capabilityInvocation":["did:nuts:3gU9z3j7j4VCboc3qq3Vc5mVVGDNGjfg32xokeX8c8Zn#KEYFRAGMENT",
 {"id":"did:nuts:3gU9z3j7j4VCboc3qq3Vc5mVVGDNGjfg32xokeX8c8Zn#embedded","type":"JsonWebKey2020","controller":"did:nuts:3gU9z3j7j4VCboc3qq3Vc5mVVGDNGjfg32xokeX8c8Zn","publicKeyJwk":{"kty":"EC","crv":"P-256","x":"VovYU-43esqZaDLPBhbV44G6nvSYXHv0_pXFkLL5wWw","y":"kD-ev_48d7JSh-Ig2Rt0qDf_7OrGSPNbMbHxXsfgmVo"}}],
"assertionMethod":["did:nuts:3gU9z3j7j4VCboc3qq3Vc5mVVGDNGjfg32xokeX8c8Zn#KEYFRAGMENT"],
"service":[{"id":"did:nuts:3gU9z3j7j4VCboc3qq3Vc5mVVGDNGjfg32xokeX8c8Zn#s1","type":"NutsComm","serviceEndpoint":"grpc://example.com:5555"}]}`

func TestVerifC19(t *testing.T) {
	dir := os.Getenv("VERIF_OUT")
	if dir == "" {
		t.Skip("VERIF_OUT not set")
	}
	o := c19Open(dir)
	defer o.close(dir)
	r := mrand.New(mrand.NewSource(c19Seed()*67867967 + 13))
	m := jmut{r}

	// the first steps of ambassador.callback on a network payload: null-entry guard on the raw JSON, then json.Unmarshal (go-did)
	parseLikeCallback := func(in string) (*did.Document, error) {
		if err := resolver.RejectNullKeyEntries([]byte(in)); err != nil {
			return nil, err
		}
		var doc did.Document
		if err := json.Unmarshal([]byte(in), &doc); err != nil {
			return nil, err
		}
		return &doc, nil
	}
	path := func(in string) string {
		doc, err := parseLikeCallback(in)
		if err != nil {
			return "err:parse"
		}
		res := "ok"
		if err := NetworkDocumentValidator().Validate(*doc); err != nil {
			res = "err:validate"
		}
		// the controller-key lookup runs on documents that are already stored (validated when they arrived) and on the
		// proposed document's controllers; run it regardless of the validator's verdict on this mutant's relationships
		if _, err := (ambassador{}).findKeyByThumbprint([]byte("thumbprint"), doc.CapabilityInvocation); err != nil && res == "ok" {
			res = "err:thumbprint"
		}
		return res
	}
	validatedThenLookup := func(in string) string {
		// only documents the network validator ACCEPTS reach the store; the lookup must not panic on any of them
		doc, err := parseLikeCallback(in)
		if err != nil {
			return "err:parse"
		}
		if err := NetworkDocumentValidator().Validate(*doc); err != nil {
			return "err:validate"
		}
		if _, err := (ambassador{}).findKeyByThumbprint([]byte("thumbprint"), doc.CapabilityInvocation); err != nil {
			return "err:thumbprint"
		}
		return "ok"
	}
	// the validator on documents that did NOT pass the raw-JSON guard (other sources: built programmatically, parsed elsewhere):
	// nil entries are planted after parsing
	validateWithNilEntries := func(in string) string {
		doc, err := parseLikeCallback(in)
		if err != nil {
			return "err:parse"
		}
		res := "ok"
		for variant := 0; variant < 4; variant++ {
			d := *doc
			switch variant {
			case 0:
				d.VerificationMethod = append(did.VerificationMethods{nil}, d.VerificationMethod...)
			case 1:
				d.VerificationMethod = append(append(did.VerificationMethods{}, d.VerificationMethod...), nil)
			case 2:
				d.CapabilityInvocation = append(did.VerificationRelationships{{}}, d.CapabilityInvocation...)
			case 3:
				d.AssertionMethod = append(append(did.VerificationRelationships{}, d.AssertionMethod...), did.VerificationRelationship{})
			}
			if err := NetworkDocumentValidator().Validate(d); err == nil {
				res = "ACCEPTED-NIL-ENTRY"
			}
		}
		return res
	}
	eps := map[string]func(string) string{"didnuts.Validate(nil entries planted)": validateWithNilEntries, "didnuts.validate+findKeyByThumbprint": path, "didnuts.accepted-doc-then-findKeyByThumbprint": validatedThenLookup}

	replay, isReplay := c19ReadOps()
	for _, op := range replay {
		name, _ := op["op"].(string)
		if len(name) > 2 {
			if fn, ok := eps[name[2:]]; ok {
				in, _ := op["input"].(string)
				o.explore(name[2:], in, func() string { return fn(in) })
			}
		}
	}
	if isReplay {
		return
	}
	// the key id of a did:nuts verification method is the thumbprint of its key
	key, err := jwk.ParseKey([]byte(`{"kty":"EC","crv":"P-256","x":"VovYU-43esqZaDLPBhbV44G6nvSYXHv0_pXFkLL5wWw","y":"kD-ev_48d7JSh-Ig2Rt0qDf_7OrGSPNbMbHxXsfgmVo"}`))
	if err != nil {
		t.Fatal(err)
	}
	_ = jwk.AssignKeyID(key)
	c19NutsDoc := strings.ReplaceAll(c19NutsDocTmpl, "KEYFRAGMENT", key.KeyID())
	if res := validatedThenLookup(c19NutsDoc); res != "ok" {
		t.Fatalf("valid did:nuts document is not accepted: %s", res)
	}
	run := func(b []byte, kind string) {
		in := string(b)
		o.dist["didnuts-doc:"+kind] += 2
		for name, fn := range eps {
			f := fn
			o.explore(name, in, func() string { return f(in) })
		}
	}
	jsystematic([]byte(c19NutsDoc), run)
	n := c19Env("VERIF_N", 400)
	for i := 0; i < n; i++ {
		b, kind := m.mutate([]byte(c19NutsDoc))
		run(b, "rand:"+kind)
	}
}
