//go:build verif

// C09 entry layer (deepening round 2026-09-28): the REAL ambassador.Start subscribes against a stub network client that
// records what it is handed; the recorded options (the selection filter closure) configure a REAL dag notifier whose
// receiver is the recorded handleNetworkEvent. Events of every type / payload type go through notifier.Notify.
// Store faults: the ambassador's didStore is wrapped so that Add fails (with / without stoabs.ErrDatabase).
package didnuts

import (
	"errors"
	"fmt"
	"os"
	"strings"
	"testing"
	"time"

	"github.com/nuts-foundation/go-did/did"
	"github.com/nuts-foundation/go-stoabs"
	"github.com/nuts-foundation/nuts-node/crypto/hash"
	"github.com/nuts-foundation/nuts-node/events"
	"github.com/nuts-foundation/nuts-node/network"
	"github.com/nuts-foundation/nuts-node/network/dag"
	"github.com/nuts-foundation/nuts-node/vdr/didnuts/didstore"
)

// how a pair enters the ambassador when it does not come straight through deliver(): as a DAG event
type vEv struct {
	Type  string `json:"type"`            // dag.Event.Type
	Fault string `json:"fault,omitempty"` // "" | "db" (didStore.Add fails with a stoabs.ErrDatabase) | "other" (fails with a plain error)
}

// what the model is told about the event
type vEvView struct {
	Type  string `json:"type"`
	PType string `json:"ptype"` // Transaction.PayloadType()
	Fault string `json:"fault,omitempty"`
}

func vEvViewOf(p *vPair) *vEvView {
	if p.Ev == nil {
		return nil
	}
	return &vEvView{Type: p.Ev.Type, PType: p.tx.PayloadType(), Fault: p.Ev.Fault}
}

var vEventMgr events.Event

// one embedded NATS for the whole run (REPROCESS messages and ambassador.Start)
func vEvents(t *testing.T) events.Event {
	if vEventMgr == nil {
		vEventMgr = events.NewTestManager(t)
	}
	return vEventMgr
}

// the network client the ambassador is constructed with: the gomock (DiscoverServices counting) plus a recording Subscribe
type vNet struct {
	*network.MockTransactions
	node *vNode
}

type vSubscription struct {
	name string
	recv dag.ReceiverFn
	opts []dag.NotifierOption
}

func (s *vNet) Subscribe(name string, receiver dag.ReceiverFn, options ...network.SubscriberOption) error {
	sub := &vSubscription{name: name, recv: receiver}
	for _, o := range options {
		sub.opts = append(sub.opts, o())
	}
	s.node.subs = append(s.node.subs, sub)
	return nil
}

// persistence of the notifier is the DAG's business; in its place an option that keeps a (never expected) retry far away
func (s *vNet) WithPersistency() network.SubscriberOption {
	return func() dag.NotifierOption { return dag.WithRetryDelay(24 * time.Hour) }
}

// didstore.Store whose Add fails
type vFaultStore struct {
	didstore.Store
	err error
}

func (f vFaultStore) Add(_ did.Document, _ didstore.Transaction) error { return f.err }

const vFaultDB, vFaultOther = "verif-fault-db", "verif-fault-other"

func vFaultClass(msg string) (string, bool) {
	switch {
	case strings.Contains(msg, vFaultDB):
		return "err:store:fault:db", true
	case strings.Contains(msg, vFaultOther):
		return "err:store:fault:other", true
	}
	return "", false
}

// the answer of handleNetworkEvent as one class: ok | err:<class> (fatal) | retry:err:<class> (returned bare: the notifier retries)
func vAckClass(finished bool, err error) string {
	class := "ok"
	if err != nil {
		var fatal dag.EventFatal
		if errors.As(err, &fatal) {
			class = vCallbackClass(fatal.Err)
		} else {
			class = "retry:" + vCallbackClass(err)
		}
	}
	if finished != (err == nil) {
		class += "+FINISHED-MISMATCH"
	}
	return class
}

// runs the real Start once per node and builds the notifier(s) from what Start subscribed
func (n *vNode) startSub() {
	if n.started {
		return
	}
	n.started = true
	n.amb.eventManager = vEvents(n.t)
	if err := n.amb.Start(); err != nil {
		// the REPROCESS stream part may refuse a second consumer of the same name; the network subscription comes first
		fmt.Fprintf(os.Stderr, "c09: ambassador.Start: %v\n", err)
	}
	if len(n.subs) != 1 {
		n.t.Fatalf("ambassador.Start made %d network subscriptions, expected 1", len(n.subs))
	}
	sub := n.subs[0]
	n.notifier = dag.NewNotifier(sub.name, func(ev dag.Event) (bool, error) {
		n.reached = true
		fin, err := sub.recv(ev)
		n.ack = vAckClass(fin, err)
		return fin, err
	}, sub.opts...)
	n.probe = dag.NewNotifier(sub.name+"-probe", func(ev dag.Event) (bool, error) {
		n.reached = true
		return true, nil
	}, sub.opts...)
	n.recv = sub.recv
}

// the pair arrives as a DAG event at the subscription
func (n *vNode) viaEntry(p *vPair) (class string) {
	defer func() {
		if r := recover(); r != nil {
			class = "panic:" + vPanicSite(r)
		}
	}()
	n.startSub()
	ev := dag.Event{Type: p.Ev.Type, Hash: p.tx.Ref(), Transaction: p.tx, Payload: p.payload}
	n.reached, n.ack = false, ""
	switch p.Ev.Fault {
	case "":
		n.notifier.Notify(ev)
	default:
		// the filter decides on a notifier with the same options and an empty receiver; the ambassador's receiver is then
		// called directly (a bare error makes the real notifier start its timed retry loop)
		n.probe.Notify(ev)
		if !n.reached {
			return "filtered"
		}
		real := n.amb.didStore
		var ferr error = errors.New(vFaultOther)
		if p.Ev.Fault == "db" {
			ferr = stoabs.DatabaseError(errors.New(vFaultDB))
		}
		n.amb.didStore = vFaultStore{Store: real, err: ferr}
		defer func() { n.amb.didStore = real }()
		fin, err := n.recv(ev)
		return vAckClass(fin, err)
	}
	if !n.reached {
		return "filtered"
	}
	return n.ack
}

var vEvTypes = []string{dag.PayloadEventType, dag.PayloadEventType, dag.PayloadEventType, dag.TransactionEventType, "", "Payload", "payload ", "payloads"}

// a random way of arriving: mostly the payload event, sometimes another event type, sometimes with a failing store
func (g *vGen) randomEv() *vEv {
	ev := &vEv{Type: vEvTypes[g.rng.Intn(len(vEvTypes))]}
	switch g.rng.Intn(5) {
	case 0:
		ev.Fault = "db"
	case 1:
		ev.Fault = "other"
	}
	return ev
}

// scripted opening of the entry layer: every (event type, payload type) shape around the selection filter, and store
// faults on accepted and on refused deliveries, each followed by the delivery that must (still) work
func vEntryScenario(g *vGen, run func(p *vPair) bool) {
	as := func(p *vPair, typ, fault string) *vPair { p.Ev = &vEv{Type: typ, Fault: fault}; return p }
	again := func(p *vPair, typ, fault string, pend func(bool)) *vPair {
		dup := *p
		dup.Kind = p.Kind + ":again"
		dup.Ev = &vEv{Type: typ, Fault: fault}
		g.pairs = append(g.pairs, &dup)
		g.pending = pend
		return &dup
	}
	// A: a plain creation through the subscription
	run(as(g.create("ev:create", nil, nil, nil), dag.PayloadEventType, ""))
	// B: the same transaction first as another event type (filtered), then as the payload event
	for _, typ := range []string{dag.TransactionEventType, "", "Payload"} {
		p := g.create("ev:create-other-event-type", nil, nil, nil)
		pend := g.pending
		run(as(p, typ, ""))
		run(again(p, dag.PayloadEventType, "", pend))
	}
	// C: a well-formed document under another payload type (the transaction itself says so): filtered; REPROCESS refuses it too
	for _, pt := range []string{"application/vc+json", "application/DID+json", "application/did+json ", "application/did"} {
		pt := pt
		run(as(g.create("ev:create-other-payload-type", nil, nil, func(s *vSignSpec, _ *vKey) { s.ptype = pt }), dag.PayloadEventType, ""))
	}
	// both wrong
	run(as(g.create("ev:create-other-both", nil, nil, func(s *vSignSpec, _ *vKey) { s.ptype = "application/vc+json" }), dag.TransactionEventType, ""))
	// D: store faults on a creation that would be accepted: database error => retried (and the retry works), other => fatal
	for _, fault := range []string{"db", "other"} {
		p := g.create("ev:create-store-fault", nil, nil, nil)
		pend := g.pending
		run(as(p, dag.PayloadEventType, fault))
		run(again(p, dag.PayloadEventType, "", pend))
	}
	// E: updates: accepted, faulted then retried, refused (foreign key) with a failing store behind it
	if d := g.someDid(vActive); d != nil {
		run(as(g.update(vUpdateOpts{kind: "ev:update", target: d, next: g.randomEdit}), dag.PayloadEventType, ""))
		for _, fault := range []string{"db", "other"} {
			p := g.update(vUpdateOpts{kind: "ev:update-store-fault", target: d, next: g.randomEdit})
			pend := g.pending
			run(as(p, dag.PayloadEventType, fault))
			run(again(p, dag.PayloadEventType, "", pend))
		}
		stranger := g.freshKey()
		for _, fault := range []string{"", "db"} {
			run(as(g.update(vUpdateOpts{kind: "ev:update-by-stranger", target: d, next: g.randomEdit, signer: func() (*vKey, string, []hash.SHA256Hash) {
				return stranger, d.latest().spec.ID + "#" + stranger.b64, nil
			}}), dag.PayloadEventType, fault))
		}
		run(as(g.update(vUpdateOpts{kind: "ev:update-other-event-type", target: d, next: g.randomEdit}), dag.TransactionEventType, ""))
	}
	// F: an ill-formed document through the subscription (fatal), also with a failing store behind it
	for _, fault := range []string{"", "db"} {
		run(as(g.create("ev:create-ill-formed", nil, func(s *vDocSpec, _ *vKey) { g.violate("vm-thumbprint-mismatch", s) }, nil), dag.PayloadEventType, fault))
	}
}
