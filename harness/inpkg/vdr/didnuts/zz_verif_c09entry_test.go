//go:build verif

// C09 entry layer (deepening round 2026-09-28): the REAL ambassador.Start subscribes against a stub network client that
// records what it is handed; the recorded options (the selection filter closure) configure a REAL dag notifier whose
// receiver is the recorded handleNetworkEvent. Events of every type / payload type go through notifier.Notify.
// Store faults: the ambassador's didStore is wrapped so that Add fails (with / without stoabs.ErrDatabase).
package didnuts

import (
	"errors"
	"fmt"
	"os"
	"strconv"
	"strings"
	"testing"
	"time"

	"github.com/nuts-foundation/go-did/did"
	"github.com/nuts-foundation/go-stoabs"
	"github.com/nuts-foundation/nuts-node/crypto/hash"
	"github.com/nuts-foundation/nuts-node/events"
	"github.com/nuts-foundation/nuts-node/network"
	"github.com/nuts-foundation/nuts-node/network/dag"
	"github.com/nuts-foundation/nuts-node/vdr/didnuts/didstore"
	"github.com/nuts-foundation/nuts-node/vdr/resolver"
)

// how a pair enters the ambassador when it does not come straight through deliver(): as a DAG event
type vEv struct {
	Type  string `json:"type"`            // dag.Event.Type
	// "" | "db" (didStore.Add fails with a stoabs.ErrDatabase) | "other" (Add fails with a plain error) |
	// "lookup-db:<k>" / "lookup-other:<k>" (didStore.Resolve of the version named by the k-th prev fails in handleUpdateDIDDocument's
	// loop) | "lookup-db:all" / "lookup-other:all" (every such lookup and the fallback lookup fail)
	Fault string `json:"fault,omitempty"`
}

// what the model is told about the event
type vEvView struct {
	Type  string `json:"type"`
	PType string `json:"ptype"` // Transaction.PayloadType()
	Fault string `json:"fault,omitempty"`
}

func vEvViewOf(p *vPair) *vEvView {
	if p.Ev == nil {
		return nil
	}
	return &vEvView{Type: p.Ev.Type, PType: p.tx.PayloadType(), Fault: p.Ev.Fault}
}

var vEventMgr events.Event

// one embedded NATS for the whole run (REPROCESS messages and ambassador.Start)
func vEvents(t *testing.T) events.Event {
	if vEventMgr == nil {
		vEventMgr = events.NewTestManager(t)
	}
	return vEventMgr
}

// the network client the ambassador is constructed with: the gomock (DiscoverServices counting) plus a recording Subscribe
type vNet struct {
	*network.MockTransactions
	node *vNode
}

type vSubscription struct {
	name string
	recv dag.ReceiverFn
	opts []dag.NotifierOption
}

func (s *vNet) Subscribe(name string, receiver dag.ReceiverFn, options ...network.SubscriberOption) error {
	sub := &vSubscription{name: name, recv: receiver}
	for _, o := range options {
		sub.opts = append(sub.opts, o())
	}
	s.node.subs = append(s.node.subs, sub)
	return nil
}

// persistence of the notifier is the DAG's business; in its place an option that keeps a (never expected) retry far away
func (s *vNet) WithPersistency() network.SubscriberOption {
	return func() dag.NotifierOption { return dag.WithRetryDelay(24 * time.Hour) }
}

// didstore.Store (the ambassador's own handle n.didStore) with a failing call
type vFaultStore struct {
	didstore.Store
	err    error
	add    bool // Add fails
	lookup bool // Resolve(id, {AllowDeactivated, SourceTransaction}) fails at call number k (or at all of them, and the fallback lookup)
	k      int
	all    bool
	calls  int
	hit    bool // the failing call was executed
}

func (f *vFaultStore) Add(doc did.Document, tx didstore.Transaction) error {
	if f.add {
		f.hit = true
		return f.err
	}
	return f.Store.Add(doc, tx)
}

func (f *vFaultStore) Resolve(id did.DID, md *resolver.ResolveMetadata) (*did.Document, *resolver.DocumentMetadata, error) {
	if f.lookup && md != nil && md.AllowDeactivated {
		if md.SourceTransaction != nil {
			k := f.calls
			f.calls++
			if f.all || k == f.k {
				f.hit = true
				return nil, nil, f.err
			}
		} else if f.all && md.ResolveTime == nil && md.Hash == nil {
			f.hit = true
			return nil, nil, f.err
		}
	}
	return f.Store.Resolve(id, md)
}

// "lookup-db:1" -> (lookup, db, k=1); "db" -> (add, db)
func vParseFault(s string) (lookup, db, all bool, k int) {
	kind := s
	if i := strings.Index(s, ":"); i >= 0 {
		kind = s[:i]
		if s[i+1:] == "all" {
			all = true
		} else {
			k, _ = strconv.Atoi(s[i+1:])
		}
	}
	lookup = strings.HasPrefix(kind, "lookup-")
	db = strings.HasSuffix(kind, "db")
	return
}

const vFaultDB, vFaultOther = "verif-fault-db", "verif-fault-other"
const vFaultLookupDB, vFaultLookupOther = "verif-lookup-fault-db", "verif-lookup-fault-other"

func vFaultClass(msg string) (string, bool) {
	switch {
	case strings.Contains(msg, vFaultDB):
		return "err:store:fault:db", true
	case strings.Contains(msg, vFaultOther):
		return "err:store:fault:other", true
	case strings.Contains(msg, vFaultLookupDB) && strings.HasPrefix(msg, "unable to update DID document: "):
		return "err:update:resolve:fault:db", true
	case strings.Contains(msg, vFaultLookupOther) && strings.HasPrefix(msg, "unable to update DID document: "):
		return "err:update:resolve:fault:other", true
	}
	return "", false
}

// the answer of handleNetworkEvent as one class: ok | err:<class> (fatal) | retry:err:<class> (returned bare: the notifier retries)
func vAckClass(finished bool, err error) string {
	class := "ok"
	if err != nil {
		var fatal dag.EventFatal
		if errors.As(err, &fatal) {
			class = vCallbackClass(fatal.Err)
		} else {
			class = "retry:" + vCallbackClass(err)
		}
	}
	if finished != (err == nil) {
		class += "+FINISHED-MISMATCH"
	}
	return class
}

// runs the real Start once per node and builds the notifier(s) from what Start subscribed
func (n *vNode) startSub() {
	if n.started {
		return
	}
	n.started = true
	n.amb.eventManager = vEvents(n.t)
	if err := n.amb.Start(); err != nil {
		// the REPROCESS stream part may refuse a second consumer of the same name; the network subscription comes first
		fmt.Fprintf(os.Stderr, "c09: ambassador.Start: %v\n", err)
	}
	if len(n.subs) != 1 {
		n.t.Fatalf("ambassador.Start made %d network subscriptions, expected 1", len(n.subs))
	}
	sub := n.subs[0]
	n.notifier = dag.NewNotifier(sub.name, func(ev dag.Event) (bool, error) {
		n.reached = true
		fin, err := sub.recv(ev)
		n.ack = vAckClass(fin, err)
		return fin, err
	}, sub.opts...)
	n.probe = dag.NewNotifier(sub.name+"-probe", func(ev dag.Event) (bool, error) {
		n.reached = true
		return true, nil
	}, sub.opts...)
	n.recv = sub.recv
}

// the pair arrives as a DAG event at the subscription
func (n *vNode) viaEntry(p *vPair) (class string) {
	defer func() {
		if r := recover(); r != nil {
			class = "panic:" + vPanicSite(r)
		}
	}()
	n.startSub()
	ev := dag.Event{Type: p.Ev.Type, Hash: p.tx.Ref(), Transaction: p.tx, Payload: p.payload}
	n.reached, n.ack, n.faultHit = false, "", false
	switch p.Ev.Fault {
	case "":
		n.notifier.Notify(ev)
	default:
		// the filter decides on a notifier with the same options and an empty receiver; the ambassador's receiver is then
		// called directly (a bare error makes the real notifier start its timed retry loop)
		n.probe.Notify(ev)
		if !n.reached {
			return "filtered"
		}
		real := n.amb.didStore
		lookup, db, all, k := vParseFault(p.Ev.Fault)
		name := map[[2]bool]string{{false, false}: vFaultOther, {false, true}: vFaultDB, {true, false}: vFaultLookupOther, {true, true}: vFaultLookupDB}[[2]bool{lookup, db}]
		var ferr error = errors.New(name)
		if db {
			ferr = stoabs.DatabaseError(ferr)
		}
		fs := &vFaultStore{Store: real, err: ferr, add: !lookup, lookup: lookup, k: k, all: all}
		n.amb.didStore = fs
		defer func() { n.amb.didStore = real; n.faultHit = fs.hit }()
		fin, err := n.recv(ev)
		return vAckClass(fin, err)
	}
	if !n.reached {
		return "filtered"
	}
	return n.ack
}

var vEvTypes = []string{dag.PayloadEventType, dag.PayloadEventType, dag.PayloadEventType, dag.TransactionEventType, "", "Payload", "payload ", "payloads"}

// a random way of arriving: mostly the payload event, sometimes another event type, sometimes with a failing store
func (g *vGen) randomEv() *vEv {
	ev := &vEv{Type: vEvTypes[g.rng.Intn(len(vEvTypes))]}
	switch g.rng.Intn(8) {
	case 0:
		ev.Fault = "db"
	case 1:
		ev.Fault = "other"
	case 2:
		ev.Fault = fmt.Sprintf("lookup-db:%d", g.rng.Intn(3))
	case 3:
		ev.Fault = []string{"lookup-other:0", "lookup-db:all", "lookup-other:1"}[g.rng.Intn(3)]
	}
	return ev
}

// scripted opening of the entry layer: every (event type, payload type) shape around the selection filter, and store
// faults on accepted and on refused deliveries, each followed by the delivery that must (still) work
func vEntryScenario(g *vGen, run func(p *vPair) bool) {
	as := func(p *vPair, typ, fault string) *vPair { p.Ev = &vEv{Type: typ, Fault: fault}; return p }
	again := func(p *vPair, typ, fault string, pend func(bool)) *vPair {
		dup := *p
		dup.Kind = p.Kind + ":again"
		dup.Ev = &vEv{Type: typ, Fault: fault}
		g.pairs = append(g.pairs, &dup)
		g.pending = pend
		return &dup
	}
	// A: a plain creation through the subscription
	run(as(g.create("ev:create", nil, nil, nil), dag.PayloadEventType, ""))
	// B: the same transaction first as another event type (filtered), then as the payload event
	for _, typ := range []string{dag.TransactionEventType, "", "Payload"} {
		p := g.create("ev:create-other-event-type", nil, nil, nil)
		pend := g.pending
		run(as(p, typ, ""))
		run(again(p, dag.PayloadEventType, "", pend))
	}
	// C: a well-formed document under another payload type (the transaction itself says so): filtered; REPROCESS refuses it too
	for _, pt := range []string{"application/vc+json", "application/DID+json", "application/did+json ", "application/did"} {
		pt := pt
		run(as(g.create("ev:create-other-payload-type", nil, nil, func(s *vSignSpec, _ *vKey) { s.ptype = pt }), dag.PayloadEventType, ""))
	}
	// both wrong
	run(as(g.create("ev:create-other-both", nil, nil, func(s *vSignSpec, _ *vKey) { s.ptype = "application/vc+json" }), dag.TransactionEventType, ""))
	// D: store faults on a creation that would be accepted: database error => retried (and the retry works), other => fatal
	for _, fault := range []string{"db", "other"} {
		p := g.create("ev:create-store-fault", nil, nil, nil)
		pend := g.pending
		run(as(p, dag.PayloadEventType, fault))
		run(again(p, dag.PayloadEventType, "", pend))
	}
	// E: updates: accepted, faulted then retried, refused (foreign key) with a failing store behind it
	if d := g.someDid(vActive); d != nil {
		run(as(g.update(vUpdateOpts{kind: "ev:update", target: d, next: g.randomEdit}), dag.PayloadEventType, ""))
		for _, fault := range []string{"db", "other"} {
			p := g.update(vUpdateOpts{kind: "ev:update-store-fault", target: d, next: g.randomEdit})
			pend := g.pending
			run(as(p, dag.PayloadEventType, fault))
			run(again(p, dag.PayloadEventType, "", pend))
		}
		stranger := g.freshKey()
		for _, fault := range []string{"", "db"} {
			run(as(g.update(vUpdateOpts{kind: "ev:update-by-stranger", target: d, next: g.randomEdit, signer: func() (*vKey, string, []hash.SHA256Hash) {
				return stranger, d.latest().spec.ID + "#" + stranger.b64, nil
			}}), dag.PayloadEventType, fault))
		}
		run(as(g.update(vUpdateOpts{kind: "ev:update-other-event-type", target: d, next: g.randomEdit}), dag.TransactionEventType, ""))
	}
	// F: an ill-formed document through the subscription (fatal), also with a failing store behind it
	for _, fault := range []string{"", "db"} {
		run(as(g.create("ev:create-ill-formed", nil, func(s *vDocSpec, _ *vKey) { g.violate("vm-thumbprint-mismatch", s) }, nil), dag.PayloadEventType, fault))
	}
}

// scripted: a version lookup fails while an update names several versions. X lists K1 and K2 (tx1); tx2 removes K2; the holder of
// K2 signs updates naming [tx1, tx2] / [tx2, tx1] while the lookup of the first / second / every named version fails (database
// error: deferred; other error: dropped), each followed by the same transaction against a working store (still refused).
// Legitimate updates by K1 run through the same faults and must succeed on the retry.
func vLookupFaultScenario(g *vGen, run func(p *vPair) bool) {
	as := func(p *vPair, fault string) *vPair { p.Ev = &vEv{Type: dag.PayloadEventType, Fault: fault}; return p }
	again := func(p *vPair, fault string, pend func(bool)) *vPair {
		dup := *p
		dup.Kind = p.Kind + ":again"
		dup.Ev = &vEv{Type: dag.PayloadEventType, Fault: fault}
		g.pairs = append(g.pairs, &dup)
		g.pending = pend
		return &dup
	}
	run(g.create("lf:create", nil, func(s *vDocSpec, k *vKey) {
		k2 := g.freshKey()
		id := s.ID + "#" + k2.b64
		s.VMs = append(s.VMs, vVMSpec{ID: id, Key: k2})
		s.Rels["capabilityInvocation"] = append(s.Rels["capabilityInvocation"], id)
	}, nil))
	d := g.dids[g.order[len(g.order)-1]]
	if d == nil || d.latest() == nil || len(d.latest().spec.capInvKeys()) < 2 {
		return
	}
	v1 := *d.latest()
	ci := v1.spec.capInvKeys()
	gone := ci[1]
	// the verification method stays (so that its kid still resolves under either order of the prevs); only the authorisation goes
	run(g.update(vUpdateOpts{kind: "lf:remove-key", target: d, signer: func() (*vKey, string, []hash.SHA256Hash) { return ci[0].Key, ci[0].ID, nil },
		next: func(s *vDocSpec) { s.Rels["capabilityInvocation"] = []interface{}{ci[0].ID} }}))
	if len(d.versions) < 2 {
		return
	}
	v2 := *d.latest()
	takeover := func(s *vDocSpec) { *s = vDocUnderDID(gone.Key, s.ID) }
	faults := []string{"lookup-db:1", "lookup-db:0", "lookup-other:1", "lookup-db:all", "lookup-db:2"}
	for oi, order := range [][]hash.SHA256Hash{{v1.ref, v2.ref}, {v2.ref, v1.ref}} {
		order := order
		from := &v1
		if order[0] == v2.ref {
			from = &v2
		}
		for fi, fault := range faults {
			if oi == 1 && fi >= 2 {
				break
			}
			p := g.update(vUpdateOpts{kind: "lf:removed-key-names-both-versions", target: d, from: from, next: takeover,
				signer: func() (*vKey, string, []hash.SHA256Hash) { return gone.Key, gone.ID, order[1:] }})
			pend := g.pending
			run(as(p, fault))
			run(again(p, "", pend))
		}
	}
	// the remaining key's holder: a legitimate update naming both versions, deferred by the fault, accepted on the retry
	for _, fault := range []string{"lookup-db:1", "lookup-other:0"} {
		p := g.update(vUpdateOpts{kind: "lf:legitimate-update-names-both-versions", target: d, from: &v2, next: g.randomEdit,
			signer: func() (*vKey, string, []hash.SHA256Hash) { return ci[0].Key, ci[0].ID, []hash.SHA256Hash{v1.ref} }})
		pend := g.pending
		run(as(p, fault))
		if fault == "lookup-db:1" {
			run(again(p, "", pend))
		}
	}
	// an update whose prevs name no version of the DID at all: the fallback lookup fails
	if len(g.allRefs) > 0 {
		p := g.update(vUpdateOpts{kind: "lf:update-fallback-lookup", target: d, next: g.randomEdit, sign: func(s *vSignSpec) {
			s.prevs = []hash.SHA256Hash{hash.SHA256Sum([]byte("no such transaction"))}
			s.clock = 1
		}})
		pend := g.pending
		run(as(p, "lookup-db:all"))
		run(again(p, "", pend))
	}
}
