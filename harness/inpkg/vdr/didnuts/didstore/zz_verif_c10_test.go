//go:build verif

package didstore

// C10 correspondence harness (injected with `go test -overlay`; never lives in /repo).
// Generates did:nuts event sets, applies them in many arrival orders to the REAL store,
// and writes (a) ops.jsonl — one JSON op per arrival sequence for the Lean model,
// (b) impl.out — one canonical observation line per sequence.

import (
	"bufio"
	"context"
	"encoding/json"
	"errors"
	"fmt"
	"hash/fnv"
	"math/rand"
	"os"
	"path/filepath"
	"sort"
	"strconv"
	"strings"
	"sync"
	"testing"
	"time"

	"github.com/alicebob/miniredis/v2"
	"github.com/nuts-foundation/go-did/did"
	"github.com/nuts-foundation/go-stoabs"
	"github.com/nuts-foundation/go-stoabs/redis7"
	"github.com/nuts-foundation/nuts-node/core"
	"github.com/nuts-foundation/nuts-node/crypto/hash"
	"github.com/nuts-foundation/nuts-node/storage"
	"github.com/nuts-foundation/nuts-node/vdr/didnuts/util"
	"github.com/nuts-foundation/nuts-node/vdr/resolver"
	"github.com/redis/go-redis/v9"
)

type vEntry struct {
	ID   string `json:"id"`
	Body string `json:"body"`
}
type vDoc struct {
	ID string              `json:"id"`
	F  map[string][]vEntry `json:"f"`
}
type vEvent struct {
	Clock   uint32   `json:"clock"`
	Time    int64    `json:"time"` // nanoseconds since vBase when the op says "tu":"ns", else unix seconds (old corpus files)
	Ref     string   `json:"ref"`
	Prevs   []string `json:"prevs"`
	Payload string   `json:"payload"`
	Doc     vDoc     `json:"doc"`
}
// vProbe: one Resolve metadata combination. H / S index an event of the set (-1 = not given, -2 = a value that
// occurs nowhere); T is a resolve time (-1 = not given); AD = AllowDeactivated.
type vProbe struct {
	H  int   `json:"h"`
	S  int   `json:"s"`
	T  int64 `json:"t"`
	AD bool  `json:"ad"`
}
type vOp struct {
	Op      string   `json:"op"`
	Set     int      `json:"set"`
	TU      string   `json:"tu,omitempty"` // time unit of events[].time / times / probes[].t
	// Backend: "" = bbolt (reads inside a write transaction see its own writes); "redis" = go-stoabs redis7 on miniredis
	// (writes are sent on commit: a read inside a write transaction sees COMMITTED data only). The model is the same.
	Backend string   `json:"backend,omitempty"`
	Events  []vEvent `json:"events"`  // the event set (index = event number)
	Arrival []int    `json:"arrival"` // arrival order (indexes into events; may repeat)
	// Fail is parallel to Arrival: 0 = plain Add; 1 = the first write transaction of Add fails; 2 = a stop between
	// the two write transactions (second never runs); 3 = the second write transaction runs and is rolled back;
	// 4 = the store object is re-created (restart) before a plain Add; 100+k = the k-th shelf operation of this Add
	// fails with a storage error. Adds with 1..3 / 100+k return an error and the generator always re-delivers the
	// event later. 51 / 52 = this Add OVERLAPS the next arrival: it runs in its own goroutine and is parked right before
	// its 1st / 2nd KVStore.Write call until the next arrival's Add has completed (a forced two-thread schedule; the
	// write transactions are serialised by the store, so the outcome must be that of SOME sequential order: here
	// "next arrival first").
	Fail    []int    `json:"fail,omitempty"`
	Times   []int64  `json:"times"`   // resolve times to probe
	Probes  []vProbe `json:"probes,omitempty"`
	Bodies  map[string]string `json:"bodies,omitempty"` // entry digest -> JSON (replay only; ignored by the model)
}

// vbody: entry content as a short digest of its JSON (identity is all the model needs)
var vFull = map[string]string{} // digest -> JSON, for replay

func vbody(v interface{}) string {
	b, _ := json.Marshal(v)
	d := hash.SHA256Sum(b).String()[:8]
	vFull[d] = string(b)
	return d
}

func vRenderDoc(d did.Document, norm func(string) string) vDoc {
	f := map[string][]vEntry{}
	for _, c := range d.Context {
		s := util.LDContextToString(c)
		f["Context"] = append(f["Context"], vEntry{norm(s), "c"})
	}
	for _, c := range d.Controller {
		f["Controller"] = append(f["Controller"], vEntry{norm(c.String()), "c"})
	}
	for _, v := range d.VerificationMethod {
		f["VerificationMethod"] = append(f["VerificationMethod"], vEntry{norm(v.ID.String()), norm(vbody(v))})
	}
	rel := func(name string, rs did.VerificationRelationships) {
		for _, r := range rs {
			f[name] = append(f[name], vEntry{norm(r.ID.String()), norm(vbody(r))})
		}
	}
	rel("Authentication", d.Authentication)
	rel("AssertionMethod", d.AssertionMethod)
	rel("CapabilityInvocation", d.CapabilityInvocation)
	rel("CapabilityDelegation", d.CapabilityDelegation)
	rel("KeyAgreement", d.KeyAgreement)
	for _, s := range d.Service {
		f["Service"] = append(f["Service"], vEntry{norm(s.ID.String()), norm(vbody(s))})
	}
	return vDoc{ID: norm(d.ID.String()), F: f}
}

var vFieldOrder = []string{"Context", "Controller", "VerificationMethod", "Authentication", "AssertionMethod", "CapabilityInvocation", "CapabilityDelegation", "KeyAgreement", "Service"}

func vDocString(d vDoc) string {
	var parts []string
	for _, fn := range vFieldOrder {
		var es []string
		for _, e := range d.F[fn] {
			es = append(es, e.ID+"="+e.Body)
		}
		parts = append(parts, fn+":["+strings.Join(es, ",")+"]")
	}
	return d.ID + "{" + strings.Join(parts, ";") + "}"
}

// ---- generator -------------------------------------------------------------------------

type vGenEvent struct {
	doc did.Document
	tx  Transaction
}

func vMakeDoc(rng *rand.Rand, id string, otherIDs []string, deactivate bool) did.Document {
	type m = map[string]interface{}
	doc := m{"id": id}
	ctxPool := []string{"https://www.w3.org/ns/did/v1", "https://w3id.org/security/suites/jws-2020/v1", "https://example.com/ctx"}
	var ctx []interface{}
	for _, c := range ctxPool {
		if rng.Intn(3) > 0 {
			ctx = append(ctx, c)
		}
	}
	rng.Shuffle(len(ctx), func(i, j int) { ctx[i], ctx[j] = ctx[j], ctx[i] })
	if len(ctx) > 0 {
		doc["@context"] = ctx
	}
	if !deactivate {
		// controllers: 0..3 from {self, others}
		pool := append([]string{id}, otherIDs...)
		var ctrl []interface{}
		for _, c := range pool {
			if rng.Intn(2) == 0 {
				ctrl = append(ctrl, c)
			}
		}
		rng.Shuffle(len(ctrl), func(i, j int) { ctrl[i], ctrl[j] = ctrl[j], ctrl[i] })
		if len(ctrl) > 0 {
			doc["controller"] = ctrl
		}
		// keys: subset of 4 keys, id <-> content is 1:1
		var vms []interface{}
		var keyIDs []string
		for k := 0; k < 4; k++ {
			if rng.Intn(2) == 0 {
				kid := fmt.Sprintf("%s#key-%d", id, k)
				keyIDs = append(keyIDs, kid)
				vms = append(vms, m{"id": kid, "type": "JsonWebKey2020", "controller": id,
					"publicKeyJwk": m{"kty": "EC", "crv": "P-256", "x": fmt.Sprintf("x%d", k), "y": "y"}})
			}
		}
		rng.Shuffle(len(vms), func(i, j int) { vms[i], vms[j] = vms[j], vms[i] })
		if len(vms) > 0 {
			doc["verificationMethod"] = vms
		}
		for _, relName := range []string{"authentication", "assertionMethod", "capabilityInvocation", "capabilityDelegation", "keyAgreement"} {
			var refs []interface{}
			for _, kid := range keyIDs {
				if rng.Intn(2) == 0 {
					refs = append(refs, kid)
				}
			}
			if relName == "capabilityInvocation" && len(refs) == 0 && len(ctrl) == 0 && len(keyIDs) > 0 {
				refs = append(refs, keyIDs[0]) // keep it active unless deactivate was asked for
			}
			rng.Shuffle(len(refs), func(i, j int) { refs[i], refs[j] = refs[j], refs[i] })
			if len(refs) > 0 {
				doc[relName] = refs
			}
		}
	}
	// services: ids from a pool of 4; the same id may carry different content in different docs
	var svcs []interface{}
	for k := 0; k < 4; k++ {
		if rng.Intn(3) == 0 {
			svcs = append(svcs, m{"id": fmt.Sprintf("%s#svc-%d", id, k), "type": fmt.Sprintf("t%d", k),
				"serviceEndpoint": fmt.Sprintf("https://e/%d", rng.Intn(2))})
		}
	}
	rng.Shuffle(len(svcs), func(i, j int) { svcs[i], svcs[j] = svcs[j], svcs[i] })
	if len(svcs) > 0 {
		doc["service"] = svcs
	}
	raw, _ := json.Marshal(doc)
	var d did.Document
	if err := json.Unmarshal(raw, &d); err != nil {
		panic(err)
	}
	// one more round-trip so bodies are in normal form
	raw, _ = json.Marshal(d)
	var d2 did.Document
	if err := json.Unmarshal(raw, &d2); err != nil {
		panic(err)
	}
	return d2
}

// vBase: observation times are printed as nanoseconds since this instant
var vBase = time.Unix(1600000000, 0).UTC()

func vNs(t time.Time) int64 { return t.Sub(vBase).Nanoseconds() }

// vGenSet builds an event set for 1-3 DIDs. Shapes: creation, chains, 2/3-way forks, resolution, deactivation,
// clock/time ties (also ties that differ only below the second), republished identical documents.
func vGenSet(rng *rand.Rand, set int, n int) []vGenEvent {
	ndid := 1
	switch rng.Intn(8) {
	case 0, 1:
		ndid = 2
	case 2:
		ndid = 3
	}
	ids := make([]string, ndid)
	for i := range ids {
		ids[i] = fmt.Sprintf("did:nuts:d%d", i)
	}
	var out []vGenEvent
	per := map[string][]int{} // did -> event indexes
	baseTime := int64(1700000000)
	subs := []int64{0, 0, 1, 999999999, 500000000, 1000, 1000000}
	for len(out) < n {
		id := ids[rng.Intn(ndid)]
		var others []string
		for _, o := range ids {
			if o != id {
				others = append(others, o)
			}
		}
		others = append(others, "did:nuts:ext")
		mine := per[id]
		var prevs []hash.SHA256Hash
		var clock uint32
		if len(mine) > 0 {
			// choose prevs: heads (resolve), latest only (chain), older one (fork), or several
			switch rng.Intn(6) {
			case 0, 1: // chain on the newest
				prevs = []hash.SHA256Hash{out[mine[len(mine)-1]].tx.Ref}
			case 2: // fork from a random older one
				prevs = []hash.SHA256Hash{out[mine[rng.Intn(len(mine))]].tx.Ref}
			case 3: // reference all so far (resolves any conflict)
				for _, k := range mine {
					prevs = append(prevs, out[k].tx.Ref)
				}
			case 4: // two random
				prevs = []hash.SHA256Hash{out[mine[rng.Intn(len(mine))]].tx.Ref, out[mine[rng.Intn(len(mine))]].tx.Ref}
			case 5: // fork from first
				prevs = []hash.SHA256Hash{out[mine[0]].tx.Ref}
			}
			for _, p := range prevs {
				for _, k := range mine {
					if out[k].tx.Ref.Equals(p) && out[k].tx.Clock+1 > clock {
						clock = out[k].tx.Clock + 1
					}
				}
			}
			if rng.Intn(8) == 0 && clock > 0 {
				clock-- // unusual: tie with an ancestor's clock, exercises time / ref tie-breakers
			}
			if rng.Intn(12) == 0 {
				prevs = nil // a second root: a transaction of an existing DID that names no predecessor at all
			}
		}
		// TX.Prevs are DAG heads: they also name transactions of other DIDs and transactions this store never sees
		if len(out) > 0 && rng.Intn(3) == 0 {
			for k := 1 + rng.Intn(2); k > 0; k-- {
				o := out[rng.Intn(len(out))]
				foreign := hash.SHA256Sum([]byte(fmt.Sprintf("foreign-%d-%d", set, rng.Int63())))
				if o.doc.ID.String() != id {
					foreign = o.tx.Ref
				}
				at := rng.Intn(len(prevs) + 1)
				prevs = append(prevs[:at:at], append([]hash.SHA256Hash{foreign}, prevs[at:]...)...)
			}
		}
		deact := len(mine) > 0 && rng.Intn(7) == 0
		doc := vMakeDoc(rng, id, others, deact)
		if len(mine) > 0 && !deact && rng.Intn(9) == 0 {
			doc = out[mine[rng.Intn(len(mine))]].doc // the same bytes published again by another transaction
		}
		raw, _ := json.Marshal(doc)
		var t int64
		switch rng.Intn(3) {
		case 0:
			t = baseTime + int64(clock)*10
		case 1:
			t = baseTime + int64(rng.Intn(40))
		case 2:
			t = baseTime + int64(len(out))
		}
		var sub int64
		if rng.Intn(3) == 0 {
			sub = subs[rng.Intn(len(subs))] // signing times that differ (or tie) only below the second
		}
		st := time.Unix(t, sub).UTC()
		if rng.Intn(3) == 0 { // same clock AND same signing time as a sibling: only the ref orders the two
			for _, k := range mine {
				if out[k].tx.Clock == clock {
					st = out[k].tx.SigningTime
				}
			}
		}
		tx := Transaction{
			Clock:       clock,
			SigningTime: st,
			Ref:         hash.SHA256Sum([]byte(fmt.Sprintf("ref-%d-%d-%d", set, len(out), rng.Int63()))),
			PayloadHash: hash.SHA256Sum(raw),
			Previous:    prevs,
		}
		per[id] = append(per[id], len(out))
		out = append(out, vGenEvent{doc: doc, tx: tx})
	}
	return out
}

// vGenProbes: Resolve metadata combinations the fixed probes of vObserve do not cover (hash+time, hash+source tx,
// source tx without AllowDeactivated, values that occur nowhere, ...). Chosen per event set, so that every arrival
// order of the set is asked the same questions.
func vGenProbes(rng *rand.Rand, n int, times []int64) []vProbe {
	var out []vProbe
	pick := func() int {
		switch rng.Intn(5) {
		case 0, 1:
			return -1
		case 2:
			if rng.Intn(4) == 0 {
				return -2
			}
		}
		return rng.Intn(n)
	}
	k := 10 + 2*n
	for len(out) < k {
		p := vProbe{H: pick(), S: pick(), T: -1, AD: rng.Intn(2) == 0}
		if rng.Intn(2) == 0 && len(times) > 0 {
			p.T = times[rng.Intn(len(times))]
		}
		if p.H == -1 && p.S == -1 {
			continue // covered by the fixed probes
		}
		out = append(out, p)
	}
	return out
}

func vPermutations(n int) [][]int {
	var res [][]int
	a := make([]int, n)
	for i := range a {
		a[i] = i
	}
	var rec func(k int)
	rec = func(k int) {
		if k == n {
			res = append(res, append([]int(nil), a...))
			return
		}
		for i := k; i < n; i++ {
			a[k], a[i] = a[i], a[k]
			rec(k + 1)
			a[k], a[i] = a[i], a[k]
		}
	}
	rec(0)
	return res
}

// ---- observation ---------------------------------------------------------------------

type vObserver struct {
	s     *store
	names map[hash.SHA256Hash]string // document-shelf key -> content name, valid for this one observation
}

// vDocStr: canonical rendering of a document, memoised on its JSON bytes (a pure function of them)
var vDocStrMemo = map[string]string{}

func vDocStr(d did.Document) string {
	raw, err := json.Marshal(d)
	if err != nil {
		return vDocString(vRenderDoc(d, vNoNorm))
	}
	if r, ok := vDocStrMemo[string(raw)]; ok {
		return r
	}
	r := vDocString(vRenderDoc(d, vNoNorm))
	vDocStrMemo[string(raw)] = r
	return r
}

func vNoNorm(x string) string { return x }

func vShort(h hash.SHA256Hash) string { return h.String()[:10] }

func vContentName(d did.Document) string {
	f := fnv.New64a()
	f.Write([]byte(vDocStr(d)))
	return fmt.Sprintf("H%016x", f.Sum64())
}

// hashName names a document hash by the content it addresses (FNV-1a 64 of the canonical rendering of
// the document on the document shelf) — the model does the same, so a merged document that is
// byte-identical to a published one gets the same name on both sides.
func (o *vObserver) hashName(h hash.SHA256Hash) (name string) {
	if n, ok := o.names[h]; ok {
		return n
	}
	defer func() { o.names[h] = name }()
	var d did.Document
	var err error
	_ = o.s.db.Read(context.Background(), func(tx stoabs.ReadTx) error {
		d, err = readDocument(tx, h)
		return nil
	})
	if err != nil {
		return "?" + vShort(h)
	}
	return vContentName(d)
}

// showDocMeta: canonical line for a (document, resolver metadata) pair as handed out by Resolve / Iterate / Conflicted
func (o *vObserver) showDocMeta(doc did.Document, meta resolver.DocumentMetadata) string {
	var src []string
	for _, s := range meta.SourceTransactions {
		src = append(src, vShort(s))
	}
	prev := "-"
	if meta.PreviousHash != nil {
		prev = o.hashName(*meta.PreviousHash)
	}
	upd := "-"
	if meta.Updated != nil {
		upd = strconv.FormatInt(vNs(*meta.Updated), 10)
	}
	return fmt.Sprintf("ok doc=%s created=%d updated=%s hash=%s prev=%s src=[%s] deact=%v",
		vDocStr(doc), vNs(meta.Created), upd, o.hashName(meta.Hash), prev, strings.Join(src, ","), meta.Deactivated)
}

func vErrName(err error) string {
	switch {
	case err == resolver.ErrNotFound:
		return "err:not-found"
	case err == resolver.ErrDeactivated:
		return "err:deactivated"
	case err == storage.ErrNotFound:
		return "err:storage-not-found"
	}
	return "err:other:" + err.Error()
}

func (o *vObserver) resolve(id did.DID, md *resolver.ResolveMetadata) (res string) {
	defer func() {
		if r := recover(); r != nil {
			res = "panic:Resolve"
		}
	}()
	doc, meta, err := o.s.Resolve(id, md)
	if err != nil {
		return vErrName(err)
	}
	return o.showDocMeta(*doc, *meta)
}

var vRawName = map[string]string{} // raw document bytes -> content name (a pure function of the bytes)

// history: HistorySinceVersion as "version:created:updated:contentname" per returned document
func (o *vObserver) history(id did.DID, v int) (res string) {
	defer func() {
		if r := recover(); r != nil {
			res = "panic:HistorySinceVersion"
		}
	}()
	h, err := o.s.HistorySinceVersion(id, v)
	if err != nil {
		return vErrName(err)
	}
	var parts []string
	for _, m := range h {
		name, ok := vRawName[string(m.Raw)]
		if !ok {
			var d did.Document
			name = "?unparsable"
			if json.Unmarshal(m.Raw, &d) == nil {
				name = vContentName(d)
			}
			vRawName[string(m.Raw)] = name
		}
		parts = append(parts, fmt.Sprintf("%d:%d:%d:%s", m.Version, vNs(m.Created), vNs(m.Updated), name))
	}
	return "ok [" + strings.Join(parts, " ") + "]"
}

func vNewStore(t *testing.T, path string) (*store, stoabs.KVStore) {
	db := storage.CreateTestBBoltStore(t, path)
	s := New(&storage.StaticKVStoreProvider{Store: db}).(*store)
	if err := s.Configure(core.ServerConfig{}); err != nil {
		t.Fatal(err)
	}
	return s, db
}

// vFailDB injects a failure into the k-th Write call: mode 1 = the call fails without running, mode 3 = the call
// runs and is rolled back (the function's work is discarded by returning an error from inside the transaction),
// mode 5 = the opAt-th shelf operation (Get/Put/Delete, counted over all write transactions of this Add) fails with a
// storage error that is not ErrKeyNotFound.
type vFailDB struct {
	stoabs.KVStore
	calls  int
	failAt int
	mode   int
	ops    int
	opAt   int
	fired  bool
}

var vErrInjected = errors.New("verif: injected storage failure")

func (f *vFailDB) tick() bool {
	f.ops++
	if f.ops == f.opAt {
		f.fired = true
		return true
	}
	return false
}

type vFailTx struct {
	stoabs.WriteTx
	f *vFailDB
}

func (t vFailTx) GetShelfWriter(n string) stoabs.Writer {
	return vFailW{Writer: t.WriteTx.GetShelfWriter(n), f: t.f}
}
func (t vFailTx) GetShelfReader(n string) stoabs.Reader {
	return vFailR{Reader: t.WriteTx.GetShelfReader(n), f: t.f}
}

type vFailW struct {
	stoabs.Writer
	f *vFailDB
}

func (w vFailW) Get(k stoabs.Key) ([]byte, error) {
	if w.f.tick() {
		return nil, vErrInjected
	}
	return w.Writer.Get(k)
}
func (w vFailW) Put(k stoabs.Key, v []byte) error {
	if w.f.tick() {
		return vErrInjected
	}
	return w.Writer.Put(k, v)
}
func (w vFailW) Delete(k stoabs.Key) error {
	if w.f.tick() {
		return vErrInjected
	}
	return w.Writer.Delete(k)
}

type vFailR struct {
	stoabs.Reader
	f *vFailDB
}

func (r vFailR) Get(k stoabs.Key) ([]byte, error) {
	if r.f.tick() {
		return nil, vErrInjected
	}
	return r.Reader.Get(k)
}

func (f *vFailDB) Write(ctx context.Context, fn func(stoabs.WriteTx) error, opts ...stoabs.TxOption) error {
	f.calls++
	if f.mode == 5 {
		return f.KVStore.Write(ctx, func(tx stoabs.WriteTx) error { return fn(vFailTx{WriteTx: tx, f: f}) }, opts...)
	}
	if f.calls != f.failAt {
		return f.KVStore.Write(ctx, fn, opts...)
	}
	f.fired = true
	if f.mode == 1 {
		return vErrInjected
	}
	return f.KVStore.Write(ctx, func(tx stoabs.WriteTx) error {
		if err := fn(tx); err != nil {
			return err
		}
		return vErrInjected
	}, opts...)
}

// vAddFailing runs store.Add with a failure injected as the op's fail code says (see vOp.Fail); fired tells whether
// the failure actually happened (a shelf-operation number beyond what this Add performs never fires)
func vAddFailing(s *store, e vGenEvent, code int) (err error, fired bool) {
	real := s.db
	defer func() { s.db = real }()
	var f *vFailDB
	switch {
	case code == 1:
		f = &vFailDB{KVStore: real, failAt: 1, mode: 1}
	case code == 2:
		f = &vFailDB{KVStore: real, failAt: 2, mode: 1}
	case code == 3:
		f = &vFailDB{KVStore: real, failAt: 2, mode: 3}
	case code > 100:
		f = &vFailDB{KVStore: real, mode: 5, opAt: code - 100}
	}
	if f != nil {
		s.db = f
	}
	err = s.Add(e.doc, e.tx)
	return err, f != nil && f.fired
}

// vStaleEntry: the Conflicted() entry of one DID and both counters right after an Add whose second write transaction
// was rolled back (ccB / dcB = the counters before that Add)
func vStaleEntry(s *store, id string, ccB, dcB uint) (res string) {
	defer func() {
		if r := recover(); r != nil {
			res = id + "=panic"
		}
	}()
	entry := "-"
	_ = s.Conflicted(func(doc did.Document, md resolver.DocumentMetadata) error {
		if doc.ID.String() == id {
			var src []string
			for _, st := range md.SourceTransactions {
				src = append(src, vShort(st))
			}
			entry = vContentName(doc) + "/" + strings.Join(src, ",")
		}
		return nil
	})
	cc, _ := s.ConflictedCount()
	dc, _ := s.DocumentCount()
	return fmt.Sprintf("%s=%s cc=%d>%d dc=%d>%d", id, entry, ccB, cc, dcB, dc)
}

// vGateDB steers scheduling only: the k-th Write CALL after arming is parked (before it reaches the real store, so
// no lock is held) until release is closed. Everything else passes through.
type vGateDB struct {
	stoabs.KVStore
	mu      sync.Mutex
	armed   bool
	calls   int
	at      int
	parked  chan struct{}
	release chan struct{}
}

func (g *vGateDB) Write(ctx context.Context, fn func(stoabs.WriteTx) error, opts ...stoabs.TxOption) error {
	g.mu.Lock()
	park := false
	if g.armed {
		g.calls++
		if g.calls == g.at {
			g.armed = false
			park = true
		}
	}
	g.mu.Unlock()
	if park {
		close(g.parked)
		<-g.release
	}
	return g.KVStore.Write(ctx, fn, opts...)
}

// vAddOverlapping: Add(a) starts in its own goroutine and is parked before its at-th Write call; Add(b) then runs to
// completion on the same store object; then a is released. fired = a really was parked (else a simply ran first).
func vAddOverlapping(s *store, a, b vGenEvent, at int) (errA, errB error, fired bool) {
	real := s.db
	defer func() { s.db = real }()
	g := &vGateDB{KVStore: real, armed: true, at: at, parked: make(chan struct{}), release: make(chan struct{})}
	s.db = g
	safe := func(e vGenEvent) (err error) {
		defer func() {
			if r := recover(); r != nil {
				err = fmt.Errorf("panic: %v", r)
			}
		}()
		return s.Add(e.doc, e.tx)
	}
	done := make(chan error, 1)
	go func() { done <- safe(a) }()
	select {
	case <-g.parked:
		fired = true
	case errA = <-done:
		// a finished without reaching the gate (fewer Write calls than expected): disarm, so that b is not parked
		g.mu.Lock()
		g.armed = false
		g.mu.Unlock()
	}
	doneB := make(chan error, 1)
	go func() { doneB <- safe(b) }()
	released := false
	select {
	case errB = <-doneB:
	case <-time.After(90 * time.Second):
		// b cannot complete while a is parked OUTSIDE any transaction: the store serialises on something it holds
		// across write transactions. Let a go on, so that the run continues; the hang is an outcome.
		if fired {
			close(g.release)
			released = true
		}
		errB = <-doneB
		if errB == nil {
			errB = errors.New("verif: Add blocked by an Add that is between its write transactions")
		}
	}
	if fired {
		if !released {
			close(g.release)
		}
		errA = <-done
	}
	return errA, errB, fired
}

func vToOpEvents(evs []vGenEvent) ([]vEvent, []int64, map[string]did.DID) {
	var out []vEvent
	timesSet := map[int64]bool{}
	dids := map[string]did.DID{}
	for _, e := range evs {
		ve := vEvent{Clock: e.tx.Clock, Time: vNs(e.tx.SigningTime), Ref: e.tx.Ref.String(),
			Payload: e.tx.PayloadHash.String(), Doc: vRenderDoc(e.doc, vNoNorm), Prevs: []string{}}
		for _, p := range e.tx.Previous {
			ve.Prevs = append(ve.Prevs, p.String())
		}
		out = append(out, ve)
		timesSet[ve.Time] = true
		timesSet[ve.Time-1] = true
		dids[e.doc.ID.String()] = e.doc.ID
	}
	var times []int64
	for tm := range timesSet {
		times = append(times, tm)
	}
	sort.Slice(times, func(i, j int) bool { return times[i] < times[j] })
	return out, times, dids
}

var vSortIterate bool

var vUnknownHash = hash.SHA256Sum([]byte("verif: occurs nowhere"))

// vObserve prints the full canonical observable state of the store for the DIDs of the set.
// Probe results are de-duplicated: each distinct result gets an index in order of first appearance.
// lite = only what can depend on the store object's in-memory state (the conflicted cache) plus the latest version:
// used after a restart, where the database is unchanged (fact storeStructFields: db handle, provider, cache).
func vObserve(s *store, evs []vGenEvent, times []int64, dids map[string]did.DID, probes []vProbe, lite bool) (res string) {
	defer func() {
		if r := recover(); r != nil {
			res = "observepanic: an iterator or counter of the store panicked"
		}
	}()
	obs := &vObserver{s: s, names: map[hash.SHA256Hash]string{}}
	var didKeys []string
	for k := range dids {
		didKeys = append(didKeys, k)
	}
	sort.Strings(didKeys)
	var line []string
	var table []string
	index := map[string]int{}
	probe := func(label, res string) {
		i, ok := index[res]
		if !ok {
			i = len(table)
			index[res] = i
			table = append(table, res)
		}
		line = append(line, fmt.Sprintf("%s#%d", label, i))
	}
	cc, _ := s.ConflictedCount()
	dc, _ := s.DocumentCount()
	// the three iterators of the store: Conflicted (in-memory cache), Iterate (latest shelf), Finder (consumer of Iterate)
	conf := map[string]string{}
	nconf := 0
	_ = s.Conflicted(func(doc did.Document, md resolver.DocumentMetadata) error {
		nconf++
		conf[doc.ID.String()] = obs.showDocMeta(doc, md)
		return nil
	})
	iter := map[string]string{}
	var iterOrder []string
	_ = s.Iterate(func(doc did.Document, md resolver.DocumentMetadata) error {
		iterOrder = append(iterOrder, doc.ID.String())
		iter[doc.ID.String()] = obs.showDocMeta(doc, md)
		return nil
	})
	if vSortIterate {
		sort.Strings(iterOrder)
	}
	found := map[string]string{}
	nfound := 0
	if docs, err := (Finder{Store: s}).Find(resolver.IsActive()); err == nil {
		for _, d := range docs {
			nfound++
			found[d.ID.String()] = vDocStr(d)
		}
	}
	unknown := did.MustParseDID("did:nuts:occursnowhere")
	line = append(line, fmt.Sprintf("cc=%d dc=%d nconf=%d niter=%d nactive=%d iter=[%s] unknown=%s/%s", cc, dc, nconf, len(iterOrder), nfound, strings.Join(iterOrder, ","),
		obs.resolve(unknown, &resolver.ResolveMetadata{AllowDeactivated: true}), obs.history(unknown, 0)))
	get := func(m map[string]string, k string) string {
		if v, ok := m[k]; ok {
			return v
		}
		return "-"
	}
	for _, dk := range didKeys {
		id := dids[dk]
		line = append(line, "DID "+dk)
		probe("nil:", obs.resolve(id, nil))
		probe("ad:", obs.resolve(id, &resolver.ResolveMetadata{AllowDeactivated: true}))
		probe("nad:", obs.resolve(id, &resolver.ResolveMetadata{}))
		if lite {
			probe("conf:", get(conf, dk))
			probe("iter:", get(iter, dk))
			probe("active:", get(found, dk))
			_, isConf := conf[dk]
			line = append(line, fmt.Sprintf("conflicted=%v", isConf))
			continue
		}
		var mine []int // this DID's events, in set order
		for i, e := range evs {
			if e.doc.ID.String() == dk {
				mine = append(mine, i)
			}
		}
		for ti, tm := range times { // labels carry the index into op.times
			tt := vBase.Add(time.Duration(tm))
			probe(fmt.Sprintf("t%d:", ti), obs.resolve(id, &resolver.ResolveMetadata{ResolveTime: &tt}))
			probe(fmt.Sprintf("ta%d:", ti), obs.resolve(id, &resolver.ResolveMetadata{ResolveTime: &tt, AllowDeactivated: true}))
		}
		for i, e := range evs {
			ref := e.tx.Ref
			probe(fmt.Sprintf("s%d:", i), obs.resolve(id, &resolver.ResolveMetadata{SourceTransaction: &ref, AllowDeactivated: true}))
			ph := e.tx.PayloadHash
			probe(fmt.Sprintf("h%d:", i), obs.resolve(id, &resolver.ResolveMetadata{Hash: &ph, AllowDeactivated: true}))
		}
		for k, p := range probes {
			md := &resolver.ResolveMetadata{AllowDeactivated: p.AD}
			// an index >= 0 selects among THIS DID's events (index modulo their number); events of other DIDs are
			// covered by the s<i>/h<i> probes above
			if p.H >= 0 && len(mine) > 0 {
				h := evs[mine[p.H%len(mine)]].tx.PayloadHash
				md.Hash = &h
			} else if p.H == -2 {
				h := vUnknownHash
				md.Hash = &h
			}
			if p.S >= 0 && len(mine) > 0 {
				r := evs[mine[p.S%len(mine)]].tx.Ref
				md.SourceTransaction = &r
			} else if p.S == -2 {
				r := vUnknownHash
				md.SourceTransaction = &r
			}
			if p.T >= 0 {
				tt := vBase.Add(time.Duration(p.T))
				md.ResolveTime = &tt
			}
			probe(fmt.Sprintf("p%d:", k), obs.resolve(id, md))
		}
		probe("conf:", get(conf, dk))
		probe("iter:", get(iter, dk))
		probe("active:", get(found, dk))
		for v := 0; v <= len(mine)+1; v++ {
			probe(fmt.Sprintf("hist%d:", v), obs.history(id, v))
		}
		probe("histneg:", obs.history(id, -1-len(mine)%3)) // Go's int version: negative = error before any read
		_, isConf := conf[dk]
		line = append(line, fmt.Sprintf("conflicted=%v", isConf))
	}
	out := strings.Join(line, " | ")
	for i, r := range table {
		out += fmt.Sprintf(" || #%d=%s", i, r)
	}
	return out
}

// vRawDump: the literal content of the seven shelves, read through the stoabs API (bbolt and redis alike), in a canonical
// sorted form: latestV2 key>value, metadataV2 keys (with the record's own version), eventsV2 MetaRefs per DID, conflictedV2
// keys, the two statsV2 values as hex bytes, txRefV2 ref>name of the payload hash, documentsV2 keys named by the content
// stored under them ("!key" = the key is not the SHA-256 of the value).
func vRawDump(s *store) (res string) {
	defer func() {
		if r := recover(); r != nil {
			res = "raw panic: reading the shelves panicked"
		}
	}()
	var latest, metas, evrefs, conf, txs, docs []string
	cc, dc := "-", "-"
	docName := map[hash.SHA256Hash]string{}
	type kv struct {
		k stoabs.Key
		v []byte
	}
	all := func(tx stoabs.ReadTx, shelf string, kt stoabs.Key) []kv {
		var out []kv
		_ = tx.GetShelfReader(shelf).Iterate(func(k stoabs.Key, v []byte) error {
			out = append(out, kv{k, append([]byte(nil), v...)})
			return nil
		}, kt)
		return out
	}
	err := s.db.Read(context.Background(), func(tx stoabs.ReadTx) error {
		for _, e := range all(tx, documentShelf, stoabs.HashKey{}) {
			var d did.Document
			name := "?unparsable"
			if json.Unmarshal(e.v, &d) == nil {
				name = vContentName(d)
			}
			var h hash.SHA256Hash
			copy(h[:], e.k.Bytes())
			docName[h] = name
			if !h.Equals(hash.SHA256Sum(e.v)) {
				name += "!key"
			}
			docs = append(docs, name)
		}
		for _, e := range all(tx, transactionIndexShelf, stoabs.HashKey{}) {
			n, ok := docName[hash.FromSlice(e.v)]
			if !ok {
				n = "?absent"
			}
			txs = append(txs, fmt.Sprintf("%x>%s", e.k.Bytes()[:5], n))
		}
		for _, e := range all(tx, latestShelf, stoabs.BytesKey{}) {
			latest = append(latest, string(e.k.Bytes())+">"+string(e.v))
		}
		for _, e := range all(tx, metadataShelf, stoabs.BytesKey{}) {
			var m documentMetadata
			v := "?"
			if json.Unmarshal(e.v, &m) == nil {
				v = strconv.Itoa(m.Version)
			}
			metas = append(metas, string(e.k.Bytes())+":v"+v)
		}
		for _, e := range all(tx, eventShelf, stoabs.BytesKey{}) {
			var el eventList
			var refs []string
			if json.Unmarshal(e.v, &el) == nil {
				for _, ev := range el.Events {
					refs = append(refs, ev.MetaRef)
				}
			}
			evrefs = append(evrefs, string(e.k.Bytes())+":"+strings.Join(refs, "/"))
		}
		for _, e := range all(tx, conflictedShelf, stoabs.BytesKey{}) {
			conf = append(conf, fmt.Sprintf("%s:%x", e.k.Bytes(), e.v))
		}
		st := tx.GetShelfReader(statsShelf)
		if b, err := st.Get(stoabs.BytesKey(conflictedCountKey)); err == nil && b != nil {
			cc = fmt.Sprintf("%x", b)
		}
		if b, err := st.Get(stoabs.BytesKey(documentCountKey)); err == nil && b != nil {
			dc = fmt.Sprintf("%x", b)
		}
		return nil
	})
	if err != nil {
		return "raw err: the shelves cannot be read"
	}
	for _, l := range [][]string{latest, metas, evrefs, conf, txs, docs} {
		sort.Strings(l)
	}
	return fmt.Sprintf("raw latest=[%s] metas=[%s] evrefs=[%s] conf=[%s] cc=%s dc=%s tx=[%s] docs=[%s]",
		strings.Join(latest, ","), strings.Join(metas, ","), strings.Join(evrefs, ","), strings.Join(conf, ","), cc, dc,
		strings.Join(txs, ","), strings.Join(docs, ","))
}

// ---- read-transaction faults: the k-th shelf Get of a READ transaction fails with a storage error -----------------

type vRFailDB struct {
	stoabs.KVStore
	ops, opAt int
	fired     bool
}
type vRFailTx struct {
	stoabs.ReadTx
	f *vRFailDB
}
type vRFailR struct {
	stoabs.Reader
	f *vRFailDB
}

func (f *vRFailDB) Read(ctx context.Context, fn func(stoabs.ReadTx) error) error {
	return f.KVStore.Read(ctx, func(tx stoabs.ReadTx) error { return fn(vRFailTx{ReadTx: tx, f: f}) })
}
func (f *vRFailDB) ReadShelf(ctx context.Context, shelf string, fn func(stoabs.Reader) error) error {
	return f.KVStore.ReadShelf(ctx, shelf, func(r stoabs.Reader) error { return fn(vRFailR{Reader: r, f: f}) })
}
func (t vRFailTx) GetShelfReader(n string) stoabs.Reader {
	return vRFailR{Reader: t.ReadTx.GetShelfReader(n), f: t.f}
}
func (r vRFailR) Get(k stoabs.Key) ([]byte, error) {
	r.f.ops++
	if r.f.ops == r.f.opAt {
		r.f.fired = true
		return nil, vErrInjected
	}
	return r.Reader.Get(k)
}

// vReadFault runs call once with the k-th Get of its read transaction(s) failing and once without a fault:
// "db" = the failure fired and came back as an error wrapping the injected one; "swallowed" = it fired and the call did
// not report it; "same" = it never fired and the call answered what it answers without a fault; "DIFF" = it never fired
// and the answer differs all the same.
func vReadFault(db stoabs.KVStore, k int, call func(db stoabs.KVStore) (string, error)) (res string) {
	defer func() {
		if r := recover(); r != nil {
			res = "panic"
		}
	}()
	f := &vRFailDB{KVStore: db, opAt: k}
	got, err := call(f)
	base, berr := call(db)
	switch {
	case f.fired && err != nil && errors.Is(err, vErrInjected):
		return "db"
	case f.fired:
		return "swallowed"
	case got == base && (err == nil) == (berr == nil):
		return "same"
	}
	return "DIFF"
}

// vReadFaults: every read entry point of the store under a failing k-th Get (see vReadFault), for the k around the number
// of Gets the call performs
func vReadFaults(s *store, evs []vGenEvent, times []int64, dids map[string]did.DID) (res string) {
	defer func() {
		if r := recover(); r != nil {
			res = "rfault panic"
		}
	}()
	real := s.db
	defer func() { s.db = real }()
	on := func(call func() (string, error)) func(db stoabs.KVStore) (string, error) {
		return func(db stoabs.KVStore) (string, error) {
			s.db = db
			defer func() { s.db = real }()
			return call()
		}
	}
	var didKeys []string
	for k := range dids {
		didKeys = append(didKeys, k)
	}
	sort.Strings(didKeys)
	var parts []string
	var g []string
	for k := 1; k <= 2; k++ {
		g = append(g, fmt.Sprintf("cc%d=%s", k, vReadFault(real, k, on(func() (string, error) { c, err := s.ConflictedCount(); return fmt.Sprint(c), err }))))
		g = append(g, fmt.Sprintf("dc%d=%s", k, vReadFault(real, k, on(func() (string, error) { c, err := s.DocumentCount(); return fmt.Sprint(c), err }))))
	}
	var cfg []string
	for k := 1; k <= 4; k++ {
		cfg = append(cfg, vReadFault(real, k, func(db stoabs.KVStore) (string, error) {
			ns := New(&storage.StaticKVStoreProvider{Store: db}).(*store)
			err := ns.Configure(core.ServerConfig{})
			return fmt.Sprint(len(ns.conflictedDocuments)), err
		}))
	}
	g = append(g, "cfg=["+strings.Join(cfg, ",")+"]")
	var it []string
	for _, k := range []int{1, 2, 3, 2 * len(didKeys), 2*len(didKeys) + 1} {
		it = append(it, vReadFault(real, k, on(func() (string, error) {
			var ids []string
			err := s.Iterate(func(doc did.Document, md resolver.DocumentMetadata) error {
				ids = append(ids, doc.ID.String())
				return nil
			})
			sort.Strings(ids)
			return strings.Join(ids, ","), err
		})))
	}
	g = append(g, "iter=["+strings.Join(it, ",")+"]")
	var fd []string
	for _, k := range []int{1, 2 * len(didKeys), 2*len(didKeys) + 1} { // Finder.Find consumes Iterate: its error must come through
		fd = append(fd, vReadFault(real, k, on(func() (string, error) {
			docs, err := (Finder{Store: s}).Find(resolver.IsActive())
			return fmt.Sprint(len(docs)), err
		})))
	}
	g = append(g, "find=["+strings.Join(fd, ",")+"]")
	parts = append(parts, "rfault "+strings.Join(g, " "))
	for _, dk := range didKeys {
		id := dids[dk]
		n := 0
		for _, e := range evs {
			if e.doc.ID.String() == dk {
				n++
			}
		}
		var mds []*resolver.ResolveMetadata
		mds = append(mds, nil, &resolver.ResolveMetadata{AllowDeactivated: true})
		if len(times) > 0 {
			t0 := vBase.Add(time.Duration(times[0]))
			t1 := vBase.Add(time.Duration(times[len(times)/2]))
			mds = append(mds, &resolver.ResolveMetadata{ResolveTime: &t0}, &resolver.ResolveMetadata{ResolveTime: &t1, AllowDeactivated: true})
		}
		var rs []string
		for vi, md := range mds {
			for _, k := range []int{1, 2, 3, 4, 5, n + 2} {
				rs = append(rs, fmt.Sprintf("%d.%d:%s", vi, k, vReadFault(real, k, on(func() (string, error) {
					doc, meta, err := s.Resolve(id, md)
					if err != nil {
						return vErrName(err), err
					}
					return vDocStr(*doc) + fmt.Sprint(meta.Hash, meta.SourceTransactions, meta.Deactivated), nil
				}))))
			}
		}
		var hs []string
		for _, vk := range [][2]int{{0, 1}, {0, 2}, {0, n + 1}, {0, n + 2}, {n - 1, 1}, {n - 1, 2}, {n - 1, 3}, {n, 1}, {n, 2}} {
			hs = append(hs, fmt.Sprintf("%d.%d:%s", vk[0], vk[1], vReadFault(real, vk[1], on(func() (string, error) {
				h, err := s.HistorySinceVersion(id, vk[0])
				return fmt.Sprint(len(h)), err
			}))))
		}
		parts = append(parts, "DID "+dk+" res=["+strings.Join(rs, ",")+"] hist=["+strings.Join(hs, ",")+"]")
	}
	return strings.Join(parts, " | ")
}

// vReadFaultLeg: the read-fault leg runs on the corpus, on replays and on every 3rd generated sequence
var vReadFaultLeg = true

func TestVerifC10(t *testing.T) {
	outDir := os.Getenv("VERIF_OUT")
	if outDir == "" {
		t.Skip("VERIF_OUT not set")
	}
	seed, _ := strconv.ParseInt(os.Getenv("VERIF_SEED"), 10, 64)
	nSets, _ := strconv.Atoi(os.Getenv("VERIF_SETS"))
	if nSets == 0 {
		nSets = 40
	}
	maxPerms, _ := strconv.Atoi(os.Getenv("VERIF_MAXPERMS"))
	if maxPerms == 0 {
		maxPerms = 120
	}
	rng := rand.New(rand.NewSource(seed*7919 + 10))
	opsF, _ := os.Create(filepath.Join(outDir, "ops.jsonl"))
	implF, _ := os.Create(filepath.Join(outDir, "impl.out"))
	defer opsF.Close()
	defer implF.Close()
	opsW := bufio.NewWriterSize(opsF, 1<<20)
	implW := bufio.NewWriterSize(implF, 1<<20)
	defer opsW.Flush()
	defer implW.Flush()

	// replay mode: ops from a replay file are re-run on the implementation
	var replayOps []vOp
	if rp := os.Getenv("VERIF_REPLAY"); rp != "" {
		f, err := os.Open(rp)
		if err != nil {
			t.Fatal(err)
		}
		sc := bufio.NewScanner(f)
		sc.Buffer(make([]byte, 1<<20), 1<<26)
		for sc.Scan() {
			var op vOp
			if json.Unmarshal(sc.Bytes(), &op) == nil && op.Op == "seq" {
				replayOps = append(replayOps, op)
			}
		}
		f.Close()
	}
	dbN := 0
	var redisServer *miniredis.Miniredis
	runSeq := func(set int, evs []vGenEvent, arrival []int, fail []int, probes []vProbe, backend string) {
		dbN++
		path := filepath.Join(outDir, fmt.Sprintf("db%d.db", dbN))
		var s *store
		var db stoabs.KVStore
		if backend == "redis" {
			if redisServer == nil {
				redisServer = miniredis.RunT(t)
			}
			redisServer.FlushAll()
			rdb, err := redis7.CreateRedisStore(fmt.Sprintf("db%d", dbN), &redis.Options{Addr: redisServer.Addr()})
			if err != nil {
				t.Fatal(err)
			}
			db = rdb
			s = New(&storage.StaticKVStoreProvider{Store: db}).(*store)
			if err := s.Configure(core.ServerConfig{}); err != nil {
				t.Fatal(err)
			}
		} else {
			s, db = vNewStore(t, path)
		}
		vSortIterate = backend == "redis" // redis SCAN has no key order: the order of Iterate is the backend's, not the store's
		addErrs := ""
		var stale []string
		skip := false
		for pos, k := range arrival {
			if skip {
				skip = false
				continue
			}
			code := 0
			if pos < len(fail) {
				code = fail[pos]
			}
			if code == 51 || code == 52 {
				if pos+1 < len(arrival) && fail[pos+1] == 0 {
					errA, errB, fired := vAddOverlapping(s, evs[k], evs[arrival[pos+1]], code-50)
					if !fired {
						fail[pos] = 0 // never parked: the two Adds simply ran one after the other
					}
					if errA != nil {
						addErrs += fmt.Sprintf("adderr@%d(ev%d) ", pos, k)
					}
					if errB != nil {
						addErrs += fmt.Sprintf("adderr@%d(ev%d) ", pos+1, arrival[pos+1])
					}
					skip = true
					continue
				}
				fail[pos] = 0
				code = 0
			}
			if code == 4 { // restart: a new store object on the same database, then a plain Add
				ns := New(&storage.StaticKVStoreProvider{Store: db}).(*store)
				if err := ns.Configure(core.ServerConfig{}); err != nil {
					addErrs += fmt.Sprintf("restarterr@%d ", pos) // a store that cannot be re-opened is an outcome
				} else {
					s = ns
				}
				code = 0
			}
			func() {
				defer func() {
					if r := recover(); r != nil {
						addErrs += fmt.Sprintf("addpanic@%d(ev%d) ", pos, k)
					}
				}()
				var ccB, dcB uint
				if code == 3 {
					ccB, _ = s.ConflictedCount()
					dcB, _ = s.DocumentCount()
				}
				err, fired := vAddFailing(s, evs[k], code)
				if code == 3 && fired {
					// the closure of the second write transaction ran to its end and the transaction was rolled back:
					// what Conflicted() and the counters say NOW (before any re-delivery)
					stale = append(stale, vStaleEntry(s, evs[k].doc.ID.String(), ccB, dcB))
				}
				if code != 0 && !fired && pos < len(fail) {
					fail[pos] = 0 // the failure point was never reached: this was a plain Add
					code = 0
				}
				switch {
				case code == 0 && err != nil:
					// an accepted transaction that the store refuses in this arrival order is an observable outcome
					addErrs += fmt.Sprintf("adderr@%d(ev%d) ", pos, k)
				case code != 0 && err == nil:
					// a storage error inside Add that is not reported: the DAG would never deliver the event again
					addErrs += fmt.Sprintf("addswallowed@%d(ev%d) ", pos, k)
				}
			}()
		}
		opEvents, times, dids := vToOpEvents(evs)
		op := vOp{Op: "seq", Set: set, TU: "ns", Backend: backend, Arrival: arrival, Fail: fail, Events: opEvents, Times: times, Probes: probes, Bodies: map[string]string{}}
		for _, e := range opEvents {
			for _, l := range e.Doc.F {
				for _, en := range l {
					if j, ok := vFull[en.Body]; ok {
						op.Bodies[en.Body] = j
					}
				}
			}
		}
		b, _ := json.Marshal(op)
		opsW.Write(b)
		opsW.WriteByte('\n')
		implW.WriteString(addErrs + vObserve(s, evs, times, dids, probes, false))
		implW.WriteByte('\n')
		// the literal shelves (order-DEPENDENT for documentsV2: intermediate merged documents stay behind)
		opsW.WriteString(`{"op":"raw"}` + "\n")
		implW.WriteString(vRawDump(s))
		implW.WriteByte('\n')
		// the in-memory conflicted cache right after every rolled-back Add of this sequence
		if len(stale) > 0 {
			opsW.WriteString(`{"op":"stale"}` + "\n")
			implW.WriteString("stale " + strings.Join(stale, " | "))
			implW.WriteByte('\n')
		}
		// every read entry point with a failing k-th Get of its read transaction
		if vReadFaultLeg {
			opsW.WriteString(`{"op":"rfault"}` + "\n")
			implW.WriteString(vReadFaults(s, evs, times, dids))
			implW.WriteByte('\n')
		}
		// restart: a fresh store object on the same database must give the same answers (conflicted cache reload)
		s2 := New(&storage.StaticKVStoreProvider{Store: db}).(*store)
		opsW.WriteString(`{"op":"again"}` + "\n")
		if err := s2.Configure(core.ServerConfig{}); err != nil {
			implW.WriteString("restarterr: the store cannot be re-opened")
		} else {
			implW.WriteString(vObserve(s2, evs, times, dids, probes, true))
		}
		implW.WriteByte('\n')
		db.Close(context.Background())
		os.Remove(path)
	}
	if replayOps != nil {
		for _, op := range replayOps {
			runSeq(op.Set, vFromOp(op), op.Arrival, op.Fail, op.Probes, op.Backend)
		}
		return
	}
	// corpus first: minimised past witnesses (each file = one event set, several arrival orders)
	if cd := os.Getenv("VERIF_CORPUS"); cd != "" {
		files, _ := filepath.Glob(filepath.Join(cd, "*.jsonl"))
		sort.Strings(files)
		for fi, fn := range files {
			f, err := os.Open(fn)
			if err != nil {
				continue
			}
			sc := bufio.NewScanner(f)
			sc.Buffer(make([]byte, 1<<20), 1<<26)
			for sc.Scan() {
				var op vOp
				if json.Unmarshal(sc.Bytes(), &op) == nil && op.Op == "seq" {
					evs := vFromOp(op)
					runSeq(-1-fi, evs, op.Arrival, op.Fail, op.Probes, op.Backend)
					// and the reverse arrival order
					rev := append([]int(nil), op.Arrival...)
					for i, j := 0, len(rev)-1; i < j; i, j = i+1, j-1 {
						rev[i], rev[j] = rev[j], rev[i]
					}
					runSeq(-1-fi, evs, rev, nil, op.Probes, op.Backend)
					// and both on the other supported backend
					if op.Backend == "" {
						runSeq(-1-fi, evs, op.Arrival, append([]int(nil), op.Fail...), op.Probes, "redis")
						runSeq(-1-fi, evs, rev, nil, op.Probes, "redis")
					}
				}
			}
			f.Close()
		}
	}
	redisEvery, _ := strconv.Atoi(os.Getenv("VERIF_REDIS_EVERY")) // every k-th sequence runs on the redis backend (0 = none)
	if os.Getenv("VERIF_REDIS_EVERY") == "" {
		redisEvery = 5
	}
	seqN := 0
	for set := 0; set < nSets; set++ {
		n := 1 + rng.Intn(6)
		switch rng.Intn(10) {
		case 0, 1:
			n = 7 + rng.Intn(3)
		case 2:
			n = 10 + rng.Intn(4) // two-digit version numbers in the metadata keys
		}
		evs := vGenSet(rand.New(rand.NewSource(rng.Int63())), set, n)
		_, times, _ := vToOpEvents(evs)
		probes := vGenProbes(rng, n, times)
		var orders [][]int
		perms := maxPerms
		if n >= 10 {
			perms = maxPerms / 4
		}
		if n <= 5 {
			orders = vPermutations(n)
		} else {
			for k := 0; k < perms-1; k++ {
				orders = append(orders, rng.Perm(n))
			}
			id := make([]int, n)
			for i := range id {
				id[i] = i
			}
			orders = append(orders, id)
		}
		if len(orders) > perms {
			rng.Shuffle(len(orders), func(i, j int) { orders[i], orders[j] = orders[j], orders[i] })
			orders = orders[:perms]
		}
		for _, order := range orders {
			arrival := append([]int(nil), order...)
			for rng.Intn(4) == 0 { // duplicates anywhere
				pos := rng.Intn(len(arrival) + 1)
				dup := arrival[rng.Intn(len(arrival))]
				arrival = append(arrival[:pos], append([]int{dup}, arrival[pos:]...)...)
			}
			var fail []int
			if rng.Intn(5) == 0 { // storage failures inside Add (the event is delivered again later) and restarts
				fail = make([]int, len(arrival))
				for k := 1 + rng.Intn(2); k > 0; k-- {
					pos := rng.Intn(len(arrival))
					code := 1 + rng.Intn(4)
					if rng.Intn(2) == 0 {
						code = 101 + rng.Intn(24)
					}
					if fail[pos] != 0 {
						continue
					}
					fail[pos] = code
					if code != 4 {
						// re-delivery at a later position
						at := pos + 1 + rng.Intn(len(arrival)-pos)
						arrival = append(arrival[:at], append([]int{arrival[pos]}, arrival[at:]...)...)
						fail = append(fail[:at], append([]int{0}, fail[at:]...)...)
					}
				}
			}
			if len(arrival) >= 2 && rng.Intn(3) == 0 { // two overlapping Adds (forced schedule)
				if fail == nil {
					fail = make([]int, len(arrival))
				}
				pos := rng.Intn(len(arrival) - 1)
				if fail[pos] == 0 && fail[pos+1] == 0 {
					fail[pos] = 52
					if rng.Intn(4) == 0 {
						fail[pos] = 51
					}
				}
			}
			backend := ""
			if redisEvery > 0 && (seqN%redisEvery == redisEvery-1 || (n <= 4 && seqN%2 == 1)) {
				backend = "redis"
			}
			vReadFaultLeg = seqN%3 == 0
			seqN++
			runSeq(set, evs, arrival, fail, probes, backend)
		}
	}
}

// vFromOp rebuilds real documents/transactions from a replay op (documents are re-created from the
// rendered entries: bodies are JSON for everything except contexts/controllers).
func vFromOp(op vOp) []vGenEvent {
	var out []vGenEvent
	for _, e := range op.Events {
		m := map[string]interface{}{"id": e.Doc.ID}
		put := func(jsonName, field string, raw bool) {
			var l []interface{}
			for _, en := range e.Doc.F[field] {
				if raw {
					l = append(l, en.ID)
				} else {
					var v interface{}
					_ = json.Unmarshal([]byte(op.Bodies[en.Body]), &v)
					l = append(l, v)
				}
			}
			if len(l) > 0 {
				m[jsonName] = l
			}
		}
		put("@context", "Context", true)
		put("controller", "Controller", true)
		put("verificationMethod", "VerificationMethod", false)
		put("authentication", "Authentication", false)
		put("assertionMethod", "AssertionMethod", false)
		put("capabilityInvocation", "CapabilityInvocation", false)
		put("capabilityDelegation", "CapabilityDelegation", false)
		put("keyAgreement", "KeyAgreement", false)
		put("service", "Service", false)
		raw, _ := json.Marshal(m)
		var d did.Document
		if err := json.Unmarshal(raw, &d); err != nil {
			panic(err)
		}
		ref, _ := hash.ParseHex(e.Ref)
		// an accepted transaction's payload hash is the SHA-256 of the published bytes (the document is rebuilt here, so
		// the recorded hex is recomputed; identical documents still share one hash)
		ph, _ := hash.ParseHex(e.Payload)
		if db, err := json.Marshal(d); err == nil {
			ph = hash.SHA256Sum(db)
		}
		st := time.Unix(e.Time, 0).UTC()
		if op.TU == "ns" {
			st = vBase.Add(time.Duration(e.Time))
		}
		tx := Transaction{Clock: e.Clock, SigningTime: st, Ref: ref, PayloadHash: ph}
		for _, p := range e.Prevs {
			h, _ := hash.ParseHex(p)
			tx.Previous = append(tx.Previous, h)
		}
		out = append(out, vGenEvent{doc: d, tx: tx})
	}
	return out
}
