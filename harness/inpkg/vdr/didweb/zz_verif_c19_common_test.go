//go:build verif

// C19 harness support, copied into every harnessed package (the package clause is rewritten by props/C19.py):
// guarded calls (recover + per-call deadline), outcome canonicalisation, structure-aware JSON mutator, op/out files.
package didweb

import (
	"bufio"
	"bytes"
	"encoding/json"
	"fmt"
	"math/rand"
	"os"
	"path/filepath"
	"runtime"
	"runtime/debug"
	"sort"
	"strconv"
	"strings"
	"time"
)

// ---------------------------------------------------------------- guarded call

var c19Deadline = 6 * time.Second // (generous: the final runs happen on a busy box; a hang is for ever anyway)

// c19Hung counts calls that never returned (their goroutine keeps spinning; the process exits at the end)
var c19Hung int

// c19Guard runs fn under recover() and a watchdog. Result: fn's own string, or "panic:<innermost nuts-node func>", or "timeout".
func c19Guard(fn func() string) (out string) {
	done := make(chan string, 1)
	go func() {
		defer func() {
			if r := recover(); r != nil {
				done <- "panic:" + c19PanicSite() + " (" + c19Short(fmt.Sprint(r), 80) + ")"
			}
		}()
		done <- fn()
	}()
	select {
	case s := <-done:
		return s
	case <-time.After(c19Deadline):
		c19Hung++
		return "timeout"
	}
}

// c19Class strips the free-text detail: "panic:HTU (interface conversion…)" -> "panic:HTU"
func c19Class(s string) string {
	if strings.HasPrefix(s, "panic:") {
		if i := strings.Index(s, " ("); i > 0 {
			return s[:i]
		}
	}
	return s
}

// c19Show: long strings are shown as prefix + length (same rule in the Lean driver: showStr); counts runes
func c19Show(s string) string {
	r := []rune(s)
	if len(r) <= 48 {
		return s
	}
	return string(r[:48]) + "~" + strconv.Itoa(len(r))
}

func c19Short(s string, n int) string {
	s = strings.ReplaceAll(s, "\n", " ")
	if len(s) > n {
		return s[:n]
	}
	return s
}

// c19PanicSite: "<innermost nuts-node function>" when the panic happened in nuts-node code itself, or
// "<innermost nuts-node function>><library function>" when it happened in a library called from it
func c19PanicSite() string {
	pcs := make([]uintptr, 64)
	n := runtime.Callers(3, pcs)
	frames := runtime.CallersFrames(pcs[:n])
	first := ""
	for {
		f, more := frames.Next()
		fn := f.Function
		if fn != "" && !strings.HasPrefix(fn, "runtime.") && !strings.Contains(fn, "c19Guard") && !strings.Contains(fn, "c19PanicSite") {
			short := fn
			if i := strings.LastIndex(short, "/"); i >= 0 {
				short = short[i+1:]
			}
			isNuts := strings.Contains(fn, "nuts-foundation/nuts-node") && !strings.Contains(fn, "TestVerif") && !strings.Contains(fn, "c19")
			if first == "" && !isNuts {
				first = short
			}
			if isNuts {
				parts := strings.Split(short, ".")
				name := parts[len(parts)-1]
				if strings.HasPrefix(name, "func") && len(parts) > 1 {
					name = parts[len(parts)-2]
				}
				if first != "" {
					return name + ">" + first
				}
				return name
			}
		}
		if !more {
			break
		}
	}
	return "ext:" + first
}

// ---------------------------------------------------------------- op / out files

type c19Out struct {
	ops, impl, fail *bufio.Writer
	files           []*os.File
	counts          map[string]map[string]int // entry point -> outcome class -> n
	dist            map[string]int            // input distribution
	modelled        int
	explored        int
	maxUs           map[string]int64
}

// c19Inflight holds the op that is being executed: a fatal runtime error (stack overflow, …) kills the process without running
// deferred functions, so the check reads this file to learn which op did it and re-runs that op alone to confirm.
var c19Inflight *os.File

func c19Mark(op map[string]any) {
	if c19Inflight == nil {
		return
	}
	b, _ := json.Marshal(op)
	c19Inflight.Truncate(0)
	c19Inflight.WriteAt(append(b, '\n'), 0)
}

func c19Open(dir string) *c19Out {
	// unbounded recursion should end in seconds, not after the default 1 GB of stack
	debug.SetMaxStack(64 << 20)
	c19Inflight, _ = os.Create(filepath.Join(dir, "inflight.jsonl"))
	o := &c19Out{counts: map[string]map[string]int{}, dist: map[string]int{}, maxUs: map[string]int64{}}
	mk := func(name string) *bufio.Writer {
		f, err := os.Create(filepath.Join(dir, name))
		if err != nil {
			panic(err)
		}
		o.files = append(o.files, f)
		return bufio.NewWriterSize(f, 1<<20)
	}
	o.ops, o.impl, o.fail = mk("ops.jsonl"), mk("impl.out"), mk("explore_fail.jsonl")
	return o
}

func (o *c19Out) count(ep, class string) {
	m := o.counts[ep]
	if m == nil {
		m = map[string]int{}
		o.counts[ep] = m
	}
	m[class]++
}

// modelled op: goes to ops.jsonl / impl.out (compared with the Lean model line by line)
func (o *c19Out) emit(op map[string]any, line string) {
	b, _ := json.Marshal(op)
	o.ops.Write(b)
	o.ops.WriteByte('\n')
	o.impl.WriteString(line)
	o.impl.WriteByte('\n')
	o.modelled++
	ep, _ := op["op"].(string)
	cls := "ok"
	switch {
	case strings.Contains(line, "panic:"):
		cls = "panic"
	case strings.Contains(line, "timeout"):
		cls = "timeout"
	case strings.Contains(line, "err:"):
		cls = "err"
	}
	o.count(ep, cls)
}

// explored (not modelled) entry point: pure crash/timeout oracle; only failures are kept with their input
func (o *c19Out) explore(ep string, input string, fn func() string) string {
	c19Mark(map[string]any{"op": "x." + ep, "input": input})
	t0 := time.Now()
	res := c19Guard(fn)
	if us := time.Since(t0).Microseconds(); us > o.maxUs[ep] {
		o.maxUs[ep] = us
	}
	o.explored++
	cls := "ok"
	switch {
	case strings.HasPrefix(res, "panic:"):
		cls = c19Class(res)
	case res == "timeout":
		cls = "timeout"
	case strings.HasPrefix(res, "err"):
		cls = "err"
	case strings.HasPrefix(res, "STATE-CHANGED"):
		cls = "state-changed"
	case strings.HasPrefix(res, "INVARIANT-BROKEN"):
		cls = "invariant-broken"
	}
	o.count(ep, cls)
	if cls != "ok" && cls != "err" {
		b, _ := json.Marshal(map[string]any{"op": "x." + ep, "input": input, "outcome": res})
		o.fail.Write(b)
		o.fail.WriteByte('\n')
	}
	return res
}

func (o *c19Out) close(dir string) {
	o.ops.Flush()
	o.impl.Flush()
	o.fail.Flush()
	for _, f := range o.files {
		f.Close()
	}
	sum := map[string]any{"counts": o.counts, "distribution": o.dist, "modelled": o.modelled, "explored": o.explored, "hung": c19Hung, "max_us": o.maxUs}
	b, _ := json.MarshalIndent(sum, "", " ")
	os.WriteFile(filepath.Join(dir, "summary.json"), b, 0o644)
}

// c19ReadOps reads op lines from VERIF_REPLAY (file) or VERIF_CORPUS (dir, *.jsonl sorted)
func c19ReadOps() (replay []map[string]any, isReplay bool) {
	var files []string
	if p := os.Getenv("VERIF_REPLAY"); p != "" {
		files = []string{p}
		isReplay = true
	} else if d := os.Getenv("VERIF_CORPUS"); d != "" {
		files, _ = filepath.Glob(filepath.Join(d, "*.jsonl"))
		sort.Strings(files)
	}
	for _, f := range files {
		b, err := os.ReadFile(f)
		if err != nil {
			continue
		}
		for _, line := range bytes.Split(b, []byte("\n")) {
			line = bytes.TrimSpace(line)
			if len(line) == 0 || line[0] != '{' {
				continue
			}
			var m map[string]any
			dec := json.NewDecoder(bytes.NewReader(line))
			dec.UseNumber()
			if dec.Decode(&m) == nil {
				replay = append(replay, m)
			}
		}
	}
	return
}

func c19Env(name string, def int) int {
	if v, err := strconv.Atoi(os.Getenv(name)); err == nil {
		return v
	}
	return def
}

func c19Seed() int64 {
	v, _ := strconv.ParseInt(os.Getenv("VERIF_SEED"), 10, 64)
	if v == 0 {
		v = 1
	}
	return v
}

func c19Thorough() bool { return os.Getenv("VERIF_TIER") == "thorough" }

// ---------------------------------------------------------------- ordered JSON tree + structure-aware mutator

type jnode struct {
	kind byte // 'n' null, 'b' bool, '#' number, 's' string, 'a' array, 'o' object
	lit  string
	str  string
	kids []*jnode
	keys []string // for objects, parallel to kids (duplicates allowed)
}

func jparse(b []byte) (*jnode, error) {
	dec := json.NewDecoder(bytes.NewReader(b))
	dec.UseNumber()
	n, err := jparseVal(dec)
	if err != nil {
		return nil, err
	}
	return n, nil
}

func jparseVal(dec *json.Decoder) (*jnode, error) {
	t, err := dec.Token()
	if err != nil {
		return nil, err
	}
	switch v := t.(type) {
	case nil:
		return &jnode{kind: 'n'}, nil
	case bool:
		return &jnode{kind: 'b', lit: strconv.FormatBool(v)}, nil
	case json.Number:
		return &jnode{kind: '#', lit: v.String()}, nil
	case string:
		return &jnode{kind: 's', str: v}, nil
	case json.Delim:
		if v == '[' {
			n := &jnode{kind: 'a'}
			for dec.More() {
				k, err := jparseVal(dec)
				if err != nil {
					return nil, err
				}
				n.kids = append(n.kids, k)
			}
			_, err := dec.Token()
			return n, err
		}
		if v == '{' {
			n := &jnode{kind: 'o'}
			for dec.More() {
				kt, err := dec.Token()
				if err != nil {
					return nil, err
				}
				ks, _ := kt.(string)
				k, err := jparseVal(dec)
				if err != nil {
					return nil, err
				}
				n.keys = append(n.keys, ks)
				n.kids = append(n.kids, k)
			}
			_, err := dec.Token()
			return n, err
		}
	}
	return nil, fmt.Errorf("unexpected token %v", t)
}

func (n *jnode) write(sb *bytes.Buffer) {
	switch n.kind {
	case 'n':
		sb.WriteString("null")
	case 'b', '#':
		sb.WriteString(n.lit)
	case 's':
		b, _ := json.Marshal(n.str)
		sb.Write(b)
	case 'a':
		sb.WriteByte('[')
		for i, k := range n.kids {
			if i > 0 {
				sb.WriteByte(',')
			}
			k.write(sb)
		}
		sb.WriteByte(']')
	case 'o':
		sb.WriteByte('{')
		for i, k := range n.kids {
			if i > 0 {
				sb.WriteByte(',')
			}
			b, _ := json.Marshal(n.keys[i])
			sb.Write(b)
			sb.WriteByte(':')
			k.write(sb)
		}
		sb.WriteByte('}')
	}
}

func (n *jnode) bytes() []byte {
	var sb bytes.Buffer
	n.write(&sb)
	return sb.Bytes()
}

func (n *jnode) clone() *jnode {
	c := &jnode{kind: n.kind, lit: n.lit, str: n.str}
	c.keys = append([]string(nil), n.keys...)
	for _, k := range n.kids {
		c.kids = append(c.kids, k.clone())
	}
	return c
}

// slot = a place in the tree where a value sits: (parent, index); the root has parent nil
type jslot struct {
	parent *jnode
	idx    int
}

func (n *jnode) slots(acc *[]jslot) {
	for i, k := range n.kids {
		*acc = append(*acc, jslot{n, i})
		k.slots(acc)
	}
}

// jConfusions are the replacement values used for type confusion; "$" entries wrap / derive from the original
var jConfusions = []string{"null", "true", "false", "0", "-1", "1.5", "1e400", "-1e400", "9007199254740993", "18446744073709551616",
	"-9223372036854775809", `""`, `"x"`, `"did:nuts:x"`, `"://"`, `"0"`, "[]", "{}", "[$]", `{"x":$}`, "[$,$]", `[null]`, `[[]]`, `{"":null}`, `"$s"`, `"$long"`, "$first", "$dup", `"\u0000"`, `"` + "�" + `"`}

func jraw(s string) *jnode {
	n, err := jparse([]byte(s))
	if err != nil {
		// overflowing literals such as 1e400 are valid JSON numbers; keep them as raw number literals
		return &jnode{kind: '#', lit: s}
	}
	return n
}

func jconfuse(orig *jnode, c string) *jnode {
	switch c {
	case "[$]":
		return &jnode{kind: 'a', kids: []*jnode{orig.clone()}}
	case "[$,$]":
		return &jnode{kind: 'a', kids: []*jnode{orig.clone(), orig.clone()}}
	case `{"x":$}`:
		return &jnode{kind: 'o', keys: []string{"x"}, kids: []*jnode{orig.clone()}}
	case `"$s"`:
		return &jnode{kind: 's', str: string(orig.bytes())}
	case "$first": // plural → singular: an array is replaced by its first element (empty array: null)
		if orig.kind == 'a' && len(orig.kids) > 0 {
			return orig.kids[0].clone()
		}
		return &jnode{kind: 'n'}
	case "$dup": // an array gets its first element once more (duplicate entries); other values become a two-element array
		if orig.kind == 'a' && len(orig.kids) > 0 {
			c := orig.clone()
			c.kids = append(c.kids, orig.kids[0].clone())
			return c
		}
		return &jnode{kind: 'a', kids: []*jnode{orig.clone(), orig.clone()}}
	case `"$long"`: // longer than any fixed-size buffer a key coordinate, hash or id is copied into
		return &jnode{kind: 's', str: strings.Repeat("B", 300)} // (base64 of a non-zero number)
	}
	return jraw(c)
}

// mutation kinds (names go to the input-distribution table)
var jMutKinds = []string{"confuse", "delete", "duplicate", "null", "extreme-number", "long-string", "deep-nest", "swap", "truncate", "dup-conflict", "empty-key", "garbage"}

type jmut struct{ r *rand.Rand }

// one applies one random mutation to a clone of root and returns the bytes + the kind used
func (m jmut) one(root *jnode) ([]byte, string) {
	c := root.clone()
	var slots []jslot
	c.slots(&slots)
	kind := jMutKinds[m.r.Intn(len(jMutKinds))]
	if len(slots) == 0 {
		kind = "truncate"
	}
	pick := func() jslot { return slots[m.r.Intn(len(slots))] }
	switch kind {
	case "confuse":
		s := pick()
		s.parent.kids[s.idx] = jconfuse(s.parent.kids[s.idx], jConfusions[m.r.Intn(len(jConfusions))])
	case "null":
		s := pick()
		s.parent.kids[s.idx] = &jnode{kind: 'n'}
	case "delete":
		s := pick()
		s.parent.kids = append(s.parent.kids[:s.idx:s.idx], s.parent.kids[s.idx+1:]...)
		if s.parent.kind == 'o' {
			s.parent.keys = append(s.parent.keys[:s.idx:s.idx], s.parent.keys[s.idx+1:]...)
		}
	case "duplicate": // same member twice, same value
		s := pick()
		s.parent.kids = append(s.parent.kids, s.parent.kids[s.idx].clone())
		if s.parent.kind == 'o' {
			s.parent.keys = append(s.parent.keys, s.parent.keys[s.idx])
		}
	case "dup-conflict": // same member twice, second one type-confused (last wins in Go, first in other parsers)
		s := pick()
		s.parent.kids = append(s.parent.kids, jconfuse(s.parent.kids[s.idx], jConfusions[m.r.Intn(len(jConfusions))]))
		if s.parent.kind == 'o' {
			s.parent.keys = append(s.parent.keys, s.parent.keys[s.idx])
		}
	case "extreme-number":
		s := pick()
		ex := []string{"0", "-0", "-1", "2147483647", "2147483648", "4294967295", "4294967296", "9223372036854775807", "9223372036854775808", "-9223372036854775808",
			"1e308", "1e309", "1e-400", "0.1", "1.0", "1E2", "131071", "131072", "253402300800", "-62135596801"}
		v := ex[m.r.Intn(len(ex))]
		if s.parent.kids[s.idx].kind == 's' && m.r.Intn(2) == 0 {
			s.parent.kids[s.idx] = &jnode{kind: 's', str: v} // numbers carried in strings (statusListIndex)
		} else {
			s.parent.kids[s.idx] = &jnode{kind: '#', lit: v}
		}
	case "long-string":
		s := pick()
		n := []int{255, 256, 257, 4096, 70000}[m.r.Intn(5)]
		s.parent.kids[s.idx] = &jnode{kind: 's', str: strings.Repeat("A", n)}
	case "deep-nest":
		s := pick()
		d := []int{10, 100, 1000, 9999, 10001}[m.r.Intn(5)]
		open, cl := "[", "]"
		if m.r.Intn(2) == 0 {
			open, cl = `{"a":`, "}"
		}
		s.parent.kids[s.idx] = &jnode{kind: '#', lit: strings.Repeat(open, d) + "1" + strings.Repeat(cl, d)}
	case "swap":
		a, b := pick(), pick()
		a.parent.kids[a.idx], b.parent.kids[b.idx] = b.parent.kids[b.idx].clone(), a.parent.kids[a.idx].clone()
	case "empty-key":
		s := pick()
		if s.parent.kind == 'o' {
			s.parent.keys[s.idx] = []string{"", "@context", "id", "type", "__proto__", s.parent.keys[s.idx] + " "}[m.r.Intn(6)]
		}
	case "truncate":
		b := c.bytes()
		if len(b) > 1 {
			return b[:1+m.r.Intn(len(b)-1)], kind
		}
		return b, kind
	case "garbage":
		b := c.bytes()
		if len(b) > 0 {
			b[m.r.Intn(len(b))] = byte(m.r.Intn(256))
		}
		return b, kind
	}
	return c.bytes(), kind
}

// mutate applies 1..3 mutations
func (m jmut) mutate(valid []byte) ([]byte, string) {
	root, err := jparse(valid)
	if err != nil {
		return valid, "unparsable-seed"
	}
	n := 1 + m.r.Intn(3)
	var kinds []string
	cur := root
	var out []byte
	for i := 0; i < n; i++ {
		var k string
		out, k = m.one(cur)
		kinds = append(kinds, k)
		next, err := jparse(out)
		if err != nil {
			break // truncated / garbage: stop stacking
		}
		cur = next
	}
	if len(kinds) > 1 {
		return out, "multi"
	}
	return out, kinds[0]
}

// systematic enumerates every single-slot type confusion, deletion and conflicting duplicate of the valid instance
func jsystematic(valid []byte, each func(b []byte, kind string)) {
	root, err := jparse(valid)
	if err != nil {
		return
	}
	var slots []jslot
	root.slots(&slots)
	for si := range slots {
		for _, cf := range jConfusions {
			c := root.clone()
			var cs []jslot
			c.slots(&cs)
			s := cs[si]
			s.parent.kids[s.idx] = jconfuse(s.parent.kids[s.idx], cf)
			each(c.bytes(), "sys-confuse")
		}
		{
			c := root.clone()
			var cs []jslot
			c.slots(&cs)
			s := cs[si]
			s.parent.kids = append(s.parent.kids[:s.idx:s.idx], s.parent.kids[s.idx+1:]...)
			if s.parent.kind == 'o' {
				s.parent.keys = append(s.parent.keys[:s.idx:s.idx], s.parent.keys[s.idx+1:]...)
			}
			each(c.bytes(), "sys-delete")
		}
		{
			c := root.clone()
			var cs []jslot
			c.slots(&cs)
			s := cs[si]
			if s.parent.kind == 'o' {
				s.parent.kids = append(s.parent.kids, &jnode{kind: '#', lit: "5"})
				s.parent.keys = append(s.parent.keys, s.parent.keys[s.idx])
				each(c.bytes(), "sys-dup-conflict")
			}
		}
		// member NAME variants: encoding/json matches struct fields case-insensitively, hand-written guards and map lookups do not;
		// a second member that differs only in case, before and after the original, holding each hostile value
		if slots[si].parent.kind == 'o' {
			key := slots[si].parent.keys[slots[si].idx]
			if key != "" {
				variants := []string{strings.ToUpper(key[:1]) + key[1:], strings.ToUpper(key), strings.ToLower(key)}
				for vi, v := range variants {
					if v == key {
						continue
					}
					{ // renamed
						c := root.clone()
						var cs []jslot
						c.slots(&cs)
						cs[si].parent.keys[cs[si].idx] = v
						each(c.bytes(), "sys-key-case")
					}
					if vi > 0 {
						continue
					}
					for _, hostile := range []string{"[null]", `[""]`, "null", "5"} {
						for _, front := range []bool{false, true} { // case-variant twin with a hostile value, after / before the original
							c := root.clone()
							var cs []jslot
							c.slots(&cs)
							par := cs[si].parent
							if front {
								par.keys = append([]string{v}, par.keys...)
								par.kids = append([]*jnode{jraw(hostile)}, par.kids...)
							} else {
								par.keys = append(par.keys, v)
								par.kids = append(par.kids, jraw(hostile))
							}
							each(c.bytes(), "sys-key-case-twin")
						}
					}
					// renamed AND hostile
					for _, hostile := range []string{"[null]", `[""]`} {
						c := root.clone()
						var cs []jslot
						c.slots(&cs)
						cs[si].parent.keys[cs[si].idx] = v
						cs[si].parent.kids[cs[si].idx] = jraw(hostile)
						each(c.bytes(), "sys-key-case-hostile")
					}
				}
			}
		}
	}
	b := root.bytes()
	for cut := 1; cut < len(b); cut += 1 + len(b)/40 {
		each(b[:cut], "sys-truncate")
	}
	// whole-value shapes: the document inside empty / single / nested / mixed arrays, and the bare scalars
	v := string(b)
	for _, w := range []string{"[]", " [ ] ", "[[]]", "[" + v + "]", "[[" + v + "]]", "[" + v + "," + v + "]", "[" + v + ",[]]", "[" + v + ",null]", "[null," + v + "]", "null", "{}", `""`, "5", "true", " " + v + " ", v + v} {
		each([]byte(w), "sys-whole-shape")
	}
}
