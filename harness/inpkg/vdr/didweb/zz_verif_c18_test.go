//go:build verif

package didweb

// C18 correspondence harness (injected with `go test -overlay`; never lives in /repo).
// Grammar-based generator of did:web identifiers / URLs / server scenarios, run through the REAL
// DIDToURL, URLToDID, percentEncodeString, percentDecodeString, did.ParseDID, url.Parse, net.ParseIP and
// Resolver.Resolve (real http/client.StrictHTTPClient + real net/http redirect handling; the transport is a
// recording fake, or — for "sock" ops — real local TLS / plain-HTTP servers).
// Writes ops.jsonl (one JSON op per line, byte strings hex-encoded) and impl.out (one canonical line per op).

import (
	"bufio"
	"context"
	"crypto/tls"
	"crypto/x509"
	"encoding/hex"
	"encoding/json"
	"errors"
	"fmt"
	"io"
	"math/rand"
	"mime"
	"net"
	"net/http"
	"net/http/httptest"
	"net/url"
	"os"
	"path/filepath"
	"sort"
	"strconv"
	"strings"
	"sync"
	"testing"
	"time"

	"github.com/nuts-foundation/go-did/did"
	"github.com/nuts-foundation/nuts-node/http/client"
	"github.com/nuts-foundation/nuts-node/vdr/resolver"
)

type vResp struct {
	St   int    `json:"st"`
	Ct   string `json:"ct"`   // hex
	Mt   *string `json:"mt,omitempty"` // hex of mime.ParseMediaType(ct) (absent = error): library verdict handed to the model
	Loc  string `json:"loc"`  // hex, "" = no Location header
	Body string `json:"body"` // "doc:<hex id string>" | "raw:<hex JSON text>" | "badjson" | "big" | "empty"
	Pid  *string `json:"pid,omitempty"` // raw bodies: hex of the id go-did's Document parser reads from the text (absent = it rejects the text): library verdict for the model
}

type vOp struct {
	Op     string  `json:"op"`
	M      string  `json:"m,omitempty"`  // hex method
	ID     string  `json:"id,omitempty"` // hex method-specific id
	S      string  `json:"s,omitempty"`  // hex string argument
	Strict bool    `json:"strict,omitempty"`
	Resps  []vResp `json:"resps,omitempty"`
	Via    string  `json:"via,omitempty"` // "" = fake transport, "sock" = real local servers
	WF     bool    `json:"wf,omitempty"`  // generator claims: identifier is in the round-trip grammar
	Pre       []vCUrl `json:"pre,omitempty"`       // cache: URLs other components of the node fetch through the SHARED caching transport before the resolution
	Cacheable bool    `json:"cacheable,omitempty"` // cache: the servers mark their responses cacheable
	Tag    string  `json:"tag,omitempty"` // generator family (statistics only; ignored by the model)
}

// vCUrl: a URL given by its components (all plain text)
type vCUrl struct {
	Scheme string `json:"scheme"`
	User   string `json:"user,omitempty"`
	Host   string `json:"host"`
	Path   string `json:"path"`
	Query  string `json:"query,omitempty"`
	Frag   string `json:"frag,omitempty"`
}

func (u vCUrl) text() string {
	s := u.Scheme + "://"
	if u.User != "" {
		s += u.User + "@"
	}
	s += u.Host + u.Path
	if u.Query != "" {
		s += "?" + u.Query
	}
	if u.Frag != "" {
		s += "#" + u.Frag
	}
	return s
}

// vCacheInner: what sits below the real CachingRoundTripper; every origin serves a document that claims the DID under
// resolution (a third party that wants to plant a document would do exactly that)
type vCacheInner struct {
	mu        sync.Mutex
	reqs      []string
	docID     string
	cacheable bool
}

func (f *vCacheInner) RoundTrip(r *http.Request) (*http.Response, error) {
	f.mu.Lock()
	defer f.mu.Unlock()
	f.reqs = append(f.reqs, hx(r.URL.String()))
	h := http.Header{}
	h.Set("Content-Type", "application/did+json")
	if f.cacheable {
		h.Set("Cache-Control", "public, max-age=600")
	} else {
		h.Set("Cache-Control", "no-store")
	}
	j, _ := json.Marshal(map[string]interface{}{"@context": "https://www.w3.org/ns/did/v1", "id": f.docID})
	return &http.Response{StatusCode: 200, Status: "200 OK", Header: h, Body: io.NopCloser(strings.NewReader(string(j))), ContentLength: int64(len(j)),
		Proto: "HTTP/1.1", ProtoMajor: 1, ProtoMinor: 1, Request: r}, nil
}

func hx(s string) string { return hex.EncodeToString([]byte(s)) }
func unhx(s string) string {
	b, err := hex.DecodeString(s)
	if err != nil {
		panic("bad hex in op: " + s)
	}
	return string(b)
}

// ---------- canonical rendering

func vShowURL(u *url.URL) string {
	return fmt.Sprintf("scheme=%s opaque=%s user=%v host=%s path=%s raw=%s fq=%v q=%s frag=%s", hx(u.Scheme), hx(u.Opaque), u.User != nil,
		hx(u.Host), hx(u.Path), hx(u.RawPath), u.ForceQuery, hx(u.RawQuery), hx(u.Fragment))
}

func vD2UErr(err error) string {
	m := err.Error()
	switch {
	case strings.Contains(m, "unsupported DID method"):
		return "method"
	case strings.Contains(m, "contains empty path elements"):
		return "empty-path-element"
	case strings.Contains(m, "illegal characters in domain name"):
		return "host"
	case strings.Contains(m, "must be a domain name, not IP address"):
		return "ip"
	case strings.HasPrefix(m, "invalid did:web: invalid URL escape"):
		return "unescape"
	}
	var ue *url.Error
	if errors.As(err, &ue) {
		return "parse"
	}
	return "other:" + m
}

func vResErr(err error) string {
	m := err.Error()
	switch {
	case m == "DID is not did:web":
		return "notweb"
	case strings.HasPrefix(m, "did:web HTTP error"):
		switch {
		case strings.Contains(m, "strictmode is enabled, but request is not over HTTPS"):
			return "http:strict"
		case strings.Contains(m, "stopped after 10 redirects"):
			return "http:too-many-redirects"
		case strings.Contains(m, "failed to parse Location header"):
			return "http:location"
		case strings.Contains(m, "exceeds max. safety limit"):
			return "http:toolarge"
		case strings.Contains(m, "redirect"):
			return "http:redirect-refused"
		case strings.Contains(m, "verif: transport error"):
			return "http:transport"
		}
		return "http:other:" + m
	case strings.HasPrefix(m, "did:web non-ok HTTP status"):
		return "status"
	case strings.HasPrefix(m, "did:web invalid content-type"):
		return "ct-invalid"
	case strings.HasPrefix(m, "did:web unsupported content-type"):
		return "ct-unsupported"
	case strings.HasPrefix(m, "did:web JSON unmarshal error"):
		return "json"
	case strings.HasPrefix(m, "did:web document ID mismatch"):
		return "id-mismatch"
	}
	return "d2u:" + vD2UErr(err)
}

// ---------- fake transport

type vFakeRT struct {
	mu    sync.Mutex
	resps []vResp
	reqs  []string
}

func vBody(b string) (io.ReadCloser, int64) {
	var data string
	switch {
	case strings.HasPrefix(b, "doc:"):
		j, _ := json.Marshal(map[string]interface{}{"@context": "https://www.w3.org/ns/did/v1", "id": unhx(b[4:])})
		data = string(j)
	case strings.HasPrefix(b, "raw:"):
		data = unhx(b[4:])
	case b == "badjson":
		data = "{not json"
	case b == "big":
		data = `{"id":"` + strings.Repeat("a", client.DefaultMaxHttpResponseSize+10) + `"}`
	default:
		data = ""
	}
	return io.NopCloser(strings.NewReader(data)), int64(len(data))
}

func vReqLine(scheme, host, escapedPath string, user bool, rawQuery string) string {
	return fmt.Sprintf("%s|%s|%s|%v|%s", scheme, hx(host), hx(escapedPath), user, hx(rawQuery))
}

func (f *vFakeRT) RoundTrip(r *http.Request) (*http.Response, error) {
	f.mu.Lock()
	defer f.mu.Unlock()
	hop := len(f.reqs)
	f.reqs = append(f.reqs, vReqLine(r.URL.Scheme, r.URL.Host, r.URL.EscapedPath(), r.URL.User != nil, r.URL.RawQuery))
	if hop >= len(f.resps) || f.resps[hop].St == 0 {
		return nil, errors.New("verif: transport error")
	}
	rs := f.resps[hop]
	h := http.Header{}
	if rs.Ct != "" {
		h.Set("Content-Type", unhx(rs.Ct))
	}
	if rs.Loc != "" {
		h.Set("Location", unhx(rs.Loc))
	}
	body, n := vBody(rs.Body)
	return &http.Response{StatusCode: rs.St, Status: strconv.Itoa(rs.St) + " X", Header: h, Body: body, ContentLength: n,
		Proto: "HTTP/1.1", ProtoMajor: 1, ProtoMinor: 1, Request: r}, nil
}

// ---------- real local servers for "sock" ops
// three origins: a.verif.test (TLS, symbolic port 1001), b.verif.test (TLS, 1002), c.verif.test (plain HTTP, 1003).
// Every connection is dialled to 127.0.0.1:<real port of the addressed symbolic port>; the real http.Transport,
// TLS handshake and redirect handling run unmodified.

type vSock struct {
	mu      sync.Mutex
	resps   []vResp
	reqs    []string
	servers []*httptest.Server
	real    map[string]string // symbolic port -> real port
	pool    *x509.CertPool
}

func (s *vSock) handler(scheme string) http.Handler {
	return http.HandlerFunc(func(w http.ResponseWriter, r *http.Request) {
		s.mu.Lock()
		hop := len(s.reqs)
		s.reqs = append(s.reqs, vReqLine(scheme, r.Host, r.URL.EscapedPath(), false, r.URL.RawQuery))
		var rs vResp
		if hop < len(s.resps) {
			rs = s.resps[hop]
		}
		s.mu.Unlock()
		if rs.St == 0 {
			// abort the connection: a transport error
			if hj, ok := w.(http.Hijacker); ok {
				c, _, _ := hj.Hijack()
				c.Close()
			}
			return
		}
		if rs.Ct != "" {
			w.Header().Set("Content-Type", unhx(rs.Ct))
		} else {
			w.Header()["Content-Type"] = nil
		}
		if rs.Loc != "" {
			loc := unhx(rs.Loc)
			w.Header().Set("Location", loc)
		}
		w.WriteHeader(rs.St)
		body, _ := vBody(rs.Body)
		io.Copy(w, body)
	})
}

func vNewSock() *vSock {
	s := &vSock{real: map[string]string{}, pool: x509.NewCertPool()}
	a := httptest.NewTLSServer(s.handler("https"))
	b := httptest.NewTLSServer(s.handler("https"))
	c := httptest.NewServer(s.handler("http"))
	s.servers = []*httptest.Server{a, b, c}
	for i, srv := range s.servers {
		_, p, _ := net.SplitHostPort(srv.Listener.Addr().String())
		s.real[strconv.Itoa(1001+i)] = p
		if srv.Certificate() != nil {
			s.pool.AddCert(srv.Certificate())
		}
	}
	return s
}

func (s *vSock) close() {
	for _, srv := range s.servers {
		srv.Close()
	}
}

func (s *vSock) transport() *http.Transport {
	tr := client.SafeHttpTransport.Clone()
	tr.TLSClientConfig = &tls.Config{RootCAs: s.pool, ServerName: "example.com", MinVersion: tls.VersionTLS12}
	tr.DisableKeepAlives = true
	tr.DialContext = func(ctx context.Context, network, addr string) (net.Conn, error) {
		_, p, err := net.SplitHostPort(addr)
		if err != nil {
			return nil, err
		}
		rp, ok := s.real[p]
		if !ok {
			return nil, fmt.Errorf("verif: no server on symbolic port %s", p)
		}
		return (&net.Dialer{}).DialContext(ctx, "tcp", "127.0.0.1:"+rp)
	}
	return tr
}

// vNormalize fills the library verdicts the model takes as data
func vNormalize(op *vOp) {
	for i := range op.Resps {
		op.Resps[i].Pid = nil
		if strings.HasPrefix(op.Resps[i].Body, "raw:") {
			var doc did.Document
			data := []byte(unhx(op.Resps[i].Body[4:]))
			if resolver.RejectNullKeyEntries(data) == nil && doc.UnmarshalJSON(data) == nil {
				h := hx(doc.ID.String())
				op.Resps[i].Pid = &h
			}
		}
		op.Resps[i].Mt = nil
		if mt, _, err := mime.ParseMediaType(unhx(op.Resps[i].Ct)); err == nil {
			h := hx(mt)
			op.Resps[i].Mt = &h
		}
	}
}

// ---------- executing one op on the implementation

func vExec(op vOp, sock **vSock) (line string) {
	defer func() {
		if r := recover(); r != nil {
			line = fmt.Sprintf("%s panic:%v", op.Op, r)
		}
	}()
	switch op.Op {
	case "pd":
		d, err := did.ParseDID(unhx(op.S))
		if err != nil {
			return "pd err:invalid-did"
		}
		return fmt.Sprintf("pd ok m=%s id=%s", hx(d.Method), hx(d.ID))
	case "d2u":
		u, err := DIDToURL(did.DID{Method: unhx(op.M), ID: unhx(op.ID)})
		if err != nil {
			return "d2u err:" + vD2UErr(err)
		}
		return "d2u ok " + vShowURL(u)
	case "rt":
		id := did.DID{Method: unhx(op.M), ID: unhx(op.ID)}
		u, err := DIDToURL(id)
		if err != nil {
			return "rt err:" + vD2UErr(err)
		}
		back, err := URLToDID(*u)
		if err != nil {
			return "rt back-err"
		}
		if back.String() == id.String() {
			return "rt same"
		}
		return "rt diff:" + hx(back.String())
	case "up":
		u, err := url.Parse(unhx(op.S))
		if err != nil {
			return "up err"
		}
		return "up ok " + vShowURL(u)
	case "u2d":
		u, err := url.Parse(unhx(op.S))
		if err != nil {
			return "u2d urlerr"
		}
		d, err := URLToDID(*u)
		if err != nil {
			return "u2d err:invalid-did"
		}
		return fmt.Sprintf("u2d ok m=%s id=%s", hx(d.Method), hx(d.ID))
	case "enc":
		return "enc " + hx(percentEncodeString(unhx(op.S)))
	case "dec":
		return "dec " + hx(percentDecodeString(unhx(op.S)))
	case "ip":
		return fmt.Sprintf("ip %v", net.ParseIP(unhx(op.S)) != nil)
	case "wf":
		return fmt.Sprintf("wf %v", vWF(unhx(op.M), unhx(op.ID)))
	case "cache":
		id := did.DID{Method: unhx(op.M), ID: unhx(op.ID)}
		oldStrict, oldTr := client.StrictMode, client.DefaultCachingTransport
		defer func() { client.StrictMode, client.DefaultCachingTransport = oldStrict, oldTr }()
		client.StrictMode = op.Strict
		inner := &vCacheInner{docID: id.String(), cacheable: op.Cacheable}
		client.DefaultCachingTransport = client.NewCachingTransport(inner, 10*1024*1024) // the REAL shared cache, as http/engine.go installs it
		third := client.NewWithCache(5 * time.Second)                                     // e.g. the status-list / OpenID4VP client
		for _, u := range op.Pre {
			if req, err := http.NewRequest(http.MethodGet, u.text(), nil); err == nil {
				if resp, err := third.Do(req); err == nil {
					resp.Body.Close()
				}
			}
		}
		out := ""
		for k := 0; k < 2; k++ { // twice: the second resolution may be served from the cache entry of the first
			doc, _, err := NewResolver().Resolve(id, nil)
			if err != nil {
				out += "err:" + vResErr(err) + ";"
			} else {
				out += "ok:" + hx(doc.ID.String()) + ";"
			}
		}
		return fmt.Sprintf("cache inner=[%s] out=%s", strings.Join(inner.reqs, ","), out)
	case "res":
		id := did.DID{Method: unhx(op.M), ID: unhx(op.ID)}
		oldStrict, oldTr := client.StrictMode, client.DefaultCachingTransport
		defer func() { client.StrictMode, client.DefaultCachingTransport = oldStrict, oldTr }()
		client.StrictMode = op.Strict
		var reqs *[]string
		if op.Via == "sock" {
			if *sock == nil {
				*sock = vNewSock()
			}
			s := *sock
			s.mu.Lock()
			s.resps, s.reqs = op.Resps, nil
			s.mu.Unlock()
			client.DefaultCachingTransport = s.transport()
			reqs = &s.reqs
		} else {
			f := &vFakeRT{resps: op.Resps}
			client.DefaultCachingTransport = f
			reqs = &f.reqs
		}
		doc, _, err := NewResolver().Resolve(id, nil)
		out := ""
		if err != nil {
			out = "err:" + vResErr(err)
		} else {
			out = "ok:" + hx(doc.ID.String())
		}
		return fmt.Sprintf("res reqs=[%s] out=%s", strings.Join(*reqs, ","), out)
	}
	return "bad-op:" + op.Op
}

// vWF: the round-trip grammar (Lean: Nuts.C18.wfDID), written independently in Go; the correspondence compares the two
// on every generated identifier, the oracle demands "rt same" for every identifier inside it.
func vWF(m, id string) bool {
	if m != "web" {
		return false
	}
	isName := func(c byte) bool {
		return c >= 'a' && c <= 'z' || c >= 'A' && c <= 'Z' || c >= '0' && c <= '9' || c == '.' || c == '-' || c == '_'
	}
	upHex := func(c byte) int {
		switch {
		case c >= '0' && c <= '9':
			return int(c - '0')
		case c >= 'A' && c <= 'F':
			return int(c-'A') + 10
		}
		return -1
	}
	parts := strings.Split(id, ":")
	h := parts[0]
	n := 0
	for n < len(h) && isName(h[n]) {
		n++
	}
	if n == 0 || net.ParseIP(h[:n]) != nil {
		return false
	}
	if tl := h[n:]; tl != "" {
		if !strings.HasPrefix(tl, "%3A") {
			return false
		}
		for _, c := range []byte(tl[3:]) {
			if c < '0' || c > '9' {
				return false
			}
		}
	}
	for _, s := range parts[1:] {
		if s == "" {
			return false
		}
		for i := 0; i < len(s); {
			if s[i] == '%' {
				if i+2 >= len(s) || upHex(s[i+1]) < 0 || upHex(s[i+2]) < 0 || strings.IndexByte(vSet14, byte(upHex(s[i+1])*16+upHex(s[i+2]))) < 0 {
					return false
				}
				i += 3
			} else if isName(s[i]) {
				i++
			} else {
				return false
			}
		}
	}
	return len(parts) == 1 || parts[len(parts)-1] != "did.json"
}

// ---------- generators

type vGen struct{ r *rand.Rand }

func (g *vGen) pick(l []string) string { return l[g.r.Intn(len(l))] }
func (g *vGen) chance(p float64) bool  { return g.r.Float64() < p }

const vPlain = "abcdefghijklmnopqrstuvwxyzABCDEFGHIJKLMNOPQRSTUVWXYZ0123456789.-_"
const vSet14 = "~!$&'()*+,;=:@"

func (g *vGen) label(n int) string {
	const a = "abcxyzABZ019-_"
	b := make([]byte, 1+g.r.Intn(n))
	for i := range b {
		b[i] = a[g.r.Intn(len(a))]
	}
	return string(b)
}

func (g *vGen) domain() string {
	n := 1 + g.r.Intn(3)
	l := make([]string, n)
	for i := range l {
		l[i] = g.label(5)
	}
	return strings.Join(l, ".")
}

var vIPish = []string{"127.0.0.1", "10.0.0.1", "255.255.255.255", "0.0.0.0", "1.2.3.4", "127.1", "127.0.1", "0x7f.0.0.1", "2130706433", "017700000001",
	"127.0.0.1.", "256.1.1.1", "01.2.3.4", "1.2.3", "1.2.3.4.5", "1..3.4", ".1.2.3.4", "1.2.3.04", "1.2.3.4a", "999.1.1.1",
	"::1", "::", "[::1]", "[::]", "[fe80::1%25eth0]", "[fe80::1%eth0]", "fe80::1%25eth0", "[::ffff:1.2.3.4]", "::ffff:1.2.3.4", "[1:2:3:4:5:6:7:8]", "1:2:3:4:5:6:7:8",
	"1:2:3:4:5:6:7", "[1:2:3:4:5:6:7]", "[::1", "::1]", "[foo]", "a[::1]", "[::1]a", "[12345::]", "[1::2::3]", "[::1.2.3]", "[1:2:3:4:5:6:1.2.3.4]", "[1:2:3:4:5:6:7:1.2.3.4]",
	"[::g]", "1::", "[1::]", "[:1]", "[1:]", "[1:2:3:4:5:6:7::]", "[1:2:3:4:5:6:7:8:9]", "[::1:2:3:4:5:6:7:8]", "[0:0:0:0:0:0:0:1]", "[::01.2.3.4]", "[::1.2.3.4.5]", "[::1.2.3.256]"}

var vPorts = []string{"", ":", ":80", ":443", ":3000", ":0", ":65536", ":99999999999", ":8a", ":-1", ":80:80", ": 80", ":80 "}

func (g *vGen) unicode() string {
	return g.pick([]string{"é", "š", "ß", "€", "€:", "日本", "šš", "😀", "á", "\xff", "\xc3", "\xe2\x82", "\xed\xa0\x80", "\xc0\xaf", "\xf4\x90\x80\x80", "é:", "é::", "😀:::", "ÿ", "ā"})
}

// hostile host (decoded form)
func (g *vGen) host() (h string, wf bool) {
	switch x := g.r.Intn(100); {
	case x < 40:
		return g.domain(), true
	case x < 55:
		d := g.domain()
		p := g.pick([]string{":80", ":443", ":3000", ":8080", ":", ":0", ":65535"})
		return d + p, true
	case x < 70:
		return g.pick(vIPish) + g.pick(vPorts), false
	case x < 76:
		return g.domain() + g.pick(vPorts), false
	case x < 82:
		return g.pick([]string{"user@", "user:pw@", "@", "a@b@", "user%40x@", "us er@", "üser@"}) + g.domain() + g.pick(vPorts), false
	case x < 90:
		d := g.domain()
		ins := g.pick([]string{"/", "?", "#", "%", "%25", "%2F", " ", "\t", "\n", "\x7f", "\\", "\"", "<", ">", "[", "]", "^", "`", "{", "|", "}", "~", "!", "$", "&", "'", "(", ")", "*", "+", ",", ";", "=", "/x", "?q=1", "#f", "%zz", "%4", "/did.json", "?", "??", "#%zz", "%80", "%ff", "%7f", "%41"})
		i := g.r.Intn(len(d) + 1)
		return d[:i] + ins + d[i:] + g.pick([]string{"", "", ":80"}), false
	case x < 96:
		return g.unicode() + g.pick([]string{"", ".example", ":80"}), false
	default:
		return g.pick([]string{"", ":", ".", "..", "-", "_", "a.", ".a", "a..b", "xn--80ak6aa92e.com", "LOCALHOST", "localhost", "localhost."}), false
	}
}

// encode a decoded host into the DID id's first component
func (g *vGen) encHost(h string, clean bool) string {
	var sb strings.Builder
	for i := 0; i < len(h); i++ {
		c := h[i]
		plain := strings.IndexByte(vPlain, c) >= 0
		if plain && (clean || !g.chance(0.03)) {
			sb.WriteByte(c)
		} else if clean || g.chance(0.85) {
			fmt.Fprintf(&sb, "%%%02X", c)
		} else {
			fmt.Fprintf(&sb, "%%%02x", c)
		}
	}
	return sb.String()
}

// one encoded path segment; wf = inside the round-trip grammar
func (g *vGen) seg() (s string, wf bool) {
	switch x := g.r.Intn(100); {
	case x < 45:
		return g.label(6), true
	case x < 65: // plain + upper-case escapes of the 14 characters
		var sb strings.Builder
		n := 1 + g.r.Intn(5)
		for i := 0; i < n; i++ {
			if g.chance(0.5) {
				sb.WriteString(g.label(2))
			} else {
				fmt.Fprintf(&sb, "%%%02X", vSet14[g.r.Intn(len(vSet14))])
			}
		}
		return sb.String(), true
	case x < 72: // lower-case escapes
		return fmt.Sprintf("%s%%%02x", g.label(2), vSet14[g.r.Intn(len(vSet14))]), false
	case x < 84:
		return g.pick([]string{"%2F", "%2f", "a%2Fb", "%3F", "%3Fq", "a%3F", "%23", "%23f", "%25", "%2541", "%253A", "%252F", "%20", "%00", "%0A", "%7F", "%41", "%61", "%2E", "%2E%2E", "%5C", "%22", "%3C", "%5B", "%7B", "%7E", "%7e", "%C5%A1", "%c5%a1", "%E2%82%AC", "%E2%82%AC%3A", "%FF", "%80"}), false
	case x < 92:
		return g.pick([]string{".", "..", "...", ".well-known", "did.json", "did.json.", "Did.json", "-", "_"}), g.chance(0) // dot segments: not claimed
	default:
		return g.label(3) + g.pick([]string{"%", "%4", "%zz", "%%", "%G0"}), false
	}
}

func (g *vGen) didWeb() (id string, wf bool, tag string) {
	h, wfh := g.host()
	id = g.encHost(h, wfh)
	wf = wfh
	tag = "host-hostile"
	if wfh {
		tag = "host-domain"
	}
	n := g.r.Intn(4)
	last := ""
	for i := 0; i < n; i++ {
		s, w := g.seg()
		if g.chance(0.04) {
			s, w = "", false // empty segment
		}
		id += ":" + s
		wf = wf && w
		last = s
	}
	if last == "did.json" || last == "." || last == ".." {
		wf = false
	}
	if n > 0 {
		tag += fmt.Sprintf("+%dseg", n)
	}
	return
}

var vCts = []string{"application/json", "application/did+json", "application/did+ld+json", "application/json; charset=utf-8", "APPLICATION/JSON",
	"application/did+json;profile=\"x\"", " application/json ", "application/json;", "text/html", "text/plain; charset=utf-8", "", "application/jsonx",
	"application/json/extra", "application/json; charset", "application", "application/json; a=1; a=2", "application/ld+json", "*/*", "application/json, text/html"}

func (g *vGen) location(self string) string {
	otherPort := self + ":8444"
	if i := strings.LastIndex(self, ":"); i > 0 && !strings.HasSuffix(self, "]") {
		otherPort = self[:i] + ":8444"
	}
	host := g.pick([]string{self, self, otherPort, "b.verif.test:1002", "c.verif.test:1003", "evil.example", "127.0.0.1", "127.0.0.1:8080", "[::1]", "169.254.169.254", "localhost:1234", "user@" + self, "EVIL.example:443"})
	scheme := g.pick([]string{"https", "https", "https", "http", "http", "HTTPS", "Http"})
	path := g.pick([]string{"/did.json", "/x/did.json", "/.well-known/did.json", "/a/b", "", "/", "/a%2Fb", "/a?x=1", "/é"})
	switch x := g.r.Intn(20); {
	case x == 0:
		return path // relative (absolute path)
	case x == 1:
		return "//" + host + path // scheme-relative
	case x == 2:
		return g.pick([]string{"http://[::1", "https://a b/", ":", "https://%zz/", "ftp://" + host + "/x", "gopher://x/", "file:///etc/passwd", "https://a/%zz"})
	}
	return scheme + "://" + host + path
}

func (g *vGen) scenario(didStr string, self string) []vResp {
	body := func() string {
		switch x := g.r.Intn(20); {
		case x < 11:
			return "doc:" + hx(didStr)
		case x < 14:
			return "doc:" + hx(g.pick([]string{"did:web:evil.example", didStr + ":x", strings.ToUpper(didStr), "did:nuts:abc", didStr + "#frag", didStr + "?", didStr + "/", didStr + "?&&", didStr + "/#", didStr + "/p", "", "notadid", "did:web:", strings.Replace(didStr, "%3A", "%3a", 1), strings.ToLower(didStr)}))
		case x < 15:
			// several id-like members: different case, duplicates, JSON-LD @id — in both orders; which one is "the" id must be
			// decided by the parser that produces the returned document
			other := g.pick([]string{"did:web:victim.example", "did:web:victim.example:alice", didStr + ":x"})
			k1, k2 := g.pick([]string{"id", "ID", "Id", "iD", "@id"}), g.pick([]string{"id", "ID", "Id", "iD", "@id"})
			a, b := didStr, other
			if g.chance(0.5) {
				a, b = b, a
			}
			ja, _ := json.Marshal(a)
			jb, _ := json.Marshal(b)
			txt := fmt.Sprintf(`{"@context":"https://www.w3.org/ns/did/v1","%s":%s,"service":[],"%s":%s}`, k1, ja, k2, jb)
			if g.chance(0.2) {
				txt = fmt.Sprintf(`{"%s":%s}`, k1, ja)
			}
			return "raw:" + hx(txt)
		case x < 16:
			return "badjson"
		case x < 17:
			return "big"
		default:
			return "empty"
		}
	}
	var l []vResp
	hops := 0
	for g.chance(0.45) && hops < 12 {
		l = append(l, vResp{St: []int{301, 302, 303, 307, 308, 302, 302}[g.r.Intn(7)], Loc: hx(g.location(self)), Body: "empty"})
		hops++
	}
	if g.chance(0.05) && len(l) > 0 {
		l[len(l)-1].Loc = "" // 3xx without Location
		return l
	}
	if g.chance(0.06) {
		return append(l, vResp{St: 0}) // transport error
	}
	st := 200
	if g.chance(0.2) {
		st = []int{201, 204, 299, 300, 304, 400, 404, 500, 199, 100 + g.r.Intn(500)}[g.r.Intn(10)]
		if st == 100 || st == 101 {
			st = 404
		}
	}
	ct := "application/json"
	if g.chance(0.4) {
		ct = g.pick(vCts)
	}
	return append(l, vResp{St: st, Ct: hx(ct), Body: body()})
}

func (g *vGen) urlString() string {
	scheme := g.pick([]string{"https://", "https://", "https://", "https://", "http://", "HTTPS://", "", "//", "https:", "https:/", "ht tp://", "1https://", ":", "did:"})
	h, _ := g.host()
	var sb strings.Builder
	sb.WriteString(scheme)
	sb.WriteString(h)
	n := g.r.Intn(4)
	for i := 0; i < n; i++ {
		sb.WriteByte('/')
		switch x := g.r.Intn(12); {
		case x < 5:
			sb.WriteString(g.label(5))
		case x < 7:
			for k := 0; k < 1+g.r.Intn(3); k++ {
				sb.WriteByte(vSet14[g.r.Intn(len(vSet14))])
				sb.WriteString(g.label(2))
			}
		case x < 9:
			s, _ := g.seg()
			sb.WriteString(s)
		case x < 10:
			sb.WriteString(g.unicode())
		case x < 11:
			sb.WriteString(g.pick([]string{"", ".", "..", "did.json", ".well-known", "a b", "a\"b", "<x>", "a\\b", "^", "a|b"}))
		default:
			sb.WriteString(g.pick([]string{"did.json", ".well-known/did.json"}))
		}
	}
	if g.chance(0.15) {
		sb.WriteString(g.pick([]string{"/", "/did.json", "/.well-known/did.json", "/did.json/did.json", "/.well-known/did.json/did.json"}))
	}
	if g.chance(0.1) {
		sb.WriteString(g.pick([]string{"?", "?a=b", "?a=b?", "??", "?%zz", "?a#b"}))
	}
	if g.chance(0.1) {
		sb.WriteString(g.pick([]string{"#", "#f", "#%zz", "#a#b", "#%41"}))
	}
	return sb.String()
}

func (g *vGen) rawBytes(n int) string {
	const a = "az09.-_:%/?#@[]~!$&'()*+,;= \x00\x7f\x80\xc3\xa9\xff\"<>\\AF"
	b := make([]byte, g.r.Intn(n))
	for i := range b {
		b[i] = a[g.r.Intn(len(a))]
	}
	return string(b)
}

func vGenerate(seed int64, thorough bool) []vOp {
	g := &vGen{r: rand.New(rand.NewSource(seed*7919 + 18))}
	var ops []vOp
	// documented examples + fixed hostile shapes first
	for _, s := range []string{"did:web:localhost", "did:web:localhost:alice%2Band%2Bbob:path", "did:web:localhost%3A3000:alice", "did:web:nodeA:iam:5",
		"did:web:example.com%3A", "did:web:%3A%3A1", "did:web:host:a%2Fb", "did:web:host:..:b", "did:web:host:%2E%2E:b", "did:web:host:did.json", "did:web:host:%C5%A1"} {
		d, err := did.ParseDID(s)
		if err != nil {
			panic(err)
		}
		ops = append(ops, vOp{Op: "d2u", M: hx(d.Method), ID: hx(d.ID), Tag: "fixed"}, vOp{Op: "rt", M: hx(d.Method), ID: hx(d.ID), WF: vWF(d.Method, d.ID), Tag: "fixed"},
			vOp{Op: "wf", M: hx(d.Method), ID: hx(d.ID), Tag: "fixed"})
	}
	for _, s := range []string{"https://localhost/.well-known/did.json", "https://localhost/alice+and+bob/path/did.json", "https://localhost:3000/alice", "https://nodeA/iam/5/", "https://host/%C5%A1", "https://host/%E2%82%AC:"} {
		ops = append(ops, vOp{Op: "u2d", S: hx(s), Tag: "fixed"}, vOp{Op: "up", S: hx(s), Tag: "fixed"})
	}
	nID, nURL, nRes, nSock := 9000, 5000, 1500, 40
	if thorough {
		nID, nURL, nRes, nSock = 120000, 60000, 20000, 300
	}
	for i := 0; i < nID; i++ {
		id, wf, tag := g.didWeb()
		m := "web"
		if g.chance(0.01) {
			m = g.pick([]string{"nuts", "jwk", "WEB", "", "web2"})
			wf = false
		}
		if g.chance(0.06) { // hand-built struct that never went through ParseDID
			id = g.rawBytes(14)
			wf = false
			tag = "raw-struct"
		}
		_ = wf // the generator's own bookkeeping; the claim is made for the recognised grammar
		ops = append(ops, vOp{Op: "d2u", M: hx(m), ID: hx(id), Tag: tag}, vOp{Op: "rt", M: hx(m), ID: hx(id), WF: vWF(m, id), Tag: tag},
			vOp{Op: "wf", M: hx(m), ID: hx(id), Tag: tag})
		if i%3 == 0 {
			s := "did:" + m + ":" + id
			if g.chance(0.2) {
				s += g.pick([]string{"?", "#", "/", "?&", "/#", "/?#", "?a", "#f", "/p", "//", " ", "\n", "?;", "?&#", "/?&&#"})
			}
			ops = append(ops, vOp{Op: "pd", S: hx(s), Tag: tag})
		}
		if i%5 == 0 {
			h, _ := g.host()
			ops = append(ops, vOp{Op: "ip", S: hx(h), Tag: "ip"})
			s, _ := g.seg()
			s = g.pick([]string{"", g.unicode(), string(vSet14[g.r.Intn(len(vSet14))])}) + s + g.pick([]string{"", g.unicode(), ":", "+"})
			ops = append(ops, vOp{Op: "enc", S: hx(s), Tag: "enc"}, vOp{Op: "dec", S: hx(s), Tag: "dec"})
		}
	}
	for _, ip := range vIPish {
		ops = append(ops, vOp{Op: "ip", S: hx(ip), Tag: "ip"}, vOp{Op: "ip", S: hx(strings.Trim(ip, "[]")), Tag: "ip"})
	}
	for i := 0; i < nURL; i++ {
		s := g.urlString()
		ops = append(ops, vOp{Op: "up", S: hx(s), Tag: "url"}, vOp{Op: "u2d", S: hx(s), Tag: "url"})
	}
	for i := 0; i < nRes; i++ {
		id, _, tag := g.didWeb()
		if g.chance(0.6) { // make most of them resolvable
			h, _ := g.host()
			if g.chance(0.8) {
				h = g.domain() + g.pick([]string{"", ":443", ":8443"})
			}
			id = g.encHost(h, true)
			for k := g.r.Intn(3); k > 0; k-- {
				s, _ := g.seg()
				id += ":" + s
			}
			tag = "resolvable"
		}
		self := "x.example"
		if u, err := DIDToURL(did.DID{Method: "web", ID: id}); err == nil {
			self = u.Host
		}
		ops = append(ops, vOp{Op: "res", M: hx("web"), ID: hx(id), Strict: g.chance(0.7), Resps: g.scenario("did:web:"+id, self), Tag: tag})
	}
	// the shared HTTP cache: look-alike URLs fetched by other components before the did:web resolution
	nCache := 400
	if thorough {
		nCache = 6000
	}
	for i := 0; i < nCache; i++ {
		host := g.domain()
		if g.chance(0.4) {
			host += g.pick([]string{":443", ":8443"})
		}
		id := g.encHost(host, true)
		path := "/.well-known/did.json"
		if n := g.r.Intn(3); n > 0 {
			path = ""
			for k := 0; k < n; k++ {
				sg := g.label(4)
				id += ":" + sg
				path += "/" + sg
			}
			path += "/did.json"
		}
		exact := vCUrl{Scheme: "https", Host: host, Path: path}
		var pre []vCUrl
		for k := g.r.Intn(4); k > 0; k-- {
			u := exact
			switch g.r.Intn(11) {
			case 0:
				u.Scheme = "http"
			case 1:
				u.Host = strings.Split(host, ":")[0] + ":8080"
			case 2:
				u.User = g.pick([]string{"user", "user:pw", "x"})
			case 3:
				u.Query = g.pick([]string{"x=1", "a=b&c=d", "cachebust"})
			case 4:
				u.Frag = "f"
			case 5:
				u.Host = strings.ToUpper(host)
			case 6:
				u.Scheme = "HTTPS"
			case 7:
				u.Path = path + "/"
			case 8:
				u.Path = strings.TrimSuffix(path, "/did.json") + "/DID.JSON"
			case 9:
				u.Host = "evil.example"
			case 10:
				// the very same URL: a legitimate earlier fetch
			}
			pre = append(pre, u)
		}
		ops = append(ops, vOp{Op: "cache", M: hx("web"), ID: hx(id), Strict: g.chance(0.5), Pre: pre, Cacheable: g.chance(0.85), Tag: "shared-cache"})
	}
	// real sockets: the three local origins
	for i := 0; i < nSock; i++ {
		id := "a.verif.test%3A1001" + g.pick([]string{"", ":x", ":x:y", ":a%2Bb"})
		var l []vResp
		for g.chance(0.6) && len(l) < 3 {
			to := g.pick([]string{"https://a.verif.test:1001", "https://b.verif.test:1002", "http://c.verif.test:1003"})
			l = append(l, vResp{St: g.r.Intn(2)*5 + 302, Loc: hx(to + g.pick([]string{"/did.json", "/x/did.json", "/moved"})), Body: "empty"})
		}
		body := "doc:" + hx("did:web:"+id)
		if g.chance(0.2) {
			body = "doc:" + hx("did:web:b.verif.test%3A1002")
		}
		l = append(l, vResp{St: 200, Ct: hx("application/did+json"), Body: body})
		ops = append(ops, vOp{Op: "res", M: hx("web"), ID: hx(id), Strict: g.chance(0.7), Resps: l, Via: "sock", Tag: "sock"})
	}
	return ops
}

// ---------- entry point

func vReadOps(path string) []vOp {
	f, err := os.Open(path)
	if err != nil {
		panic(err)
	}
	defer f.Close()
	var ops []vOp
	sc := bufio.NewScanner(f)
	sc.Buffer(make([]byte, 1<<20), 1<<26)
	for sc.Scan() {
		t := strings.TrimSpace(sc.Text())
		if t == "" || strings.HasPrefix(t, "#") {
			continue
		}
		var op vOp
		if err := json.Unmarshal([]byte(t), &op); err != nil {
			panic(fmt.Sprintf("bad op line %q: %v", t, err))
		}
		ops = append(ops, op)
	}
	return ops
}

func TestVerifC18(t *testing.T) {
	out := os.Getenv("VERIF_OUT")
	if out == "" {
		t.Skip("VERIF_OUT not set")
	}
	seed, _ := strconv.ParseInt(os.Getenv("VERIF_SEED"), 10, 64)
	thorough := os.Getenv("VERIF_TIER") == "thorough"
	var ops []vOp
	if rp := os.Getenv("VERIF_REPLAY"); rp != "" {
		ops = vReadOps(rp)
	} else {
		if dir := os.Getenv("VERIF_CORPUS"); dir != "" {
			files, _ := filepath.Glob(filepath.Join(dir, "*.jsonl"))
			sort.Strings(files)
			for _, f := range files {
				ops = append(ops, vReadOps(f)...)
			}
		}
		ops = append(ops, vGenerate(seed, thorough)...)
	}
	fo, err := os.Create(filepath.Join(out, "ops.jsonl"))
	if err != nil {
		t.Fatal(err)
	}
	fi, err := os.Create(filepath.Join(out, "impl.out"))
	if err != nil {
		t.Fatal(err)
	}
	wo, wi := bufio.NewWriter(fo), bufio.NewWriter(fi)
	var sock *vSock
	for _, op := range ops {
		vNormalize(&op)
		b, _ := json.Marshal(op)
		wo.Write(b)
		wo.WriteByte('\n')
		wi.WriteString(vExec(op, &sock))
		wi.WriteByte('\n')
	}
	if sock != nil {
		sock.close()
	}
	wo.Flush()
	wi.Flush()
	fo.Close()
	fi.Close()
}
