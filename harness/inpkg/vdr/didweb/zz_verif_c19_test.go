//go:build verif

// C19 correspondence harness for did:web (model NutsModel/C19/DidWeb.lean): percentDecodeString, url.PathUnescape (re-implemented
// in the model), DIDToURL and Resolver.Resolve on generated DID values (any bytes in the id: Resolve takes a did.DID VALUE) and
// generated HTTP exchanges. Third-party results the model takes as data are observed here independently of the code under test.
package didweb

import (
	"encoding/hex"
	"errors"
	"fmt"
	"io"
	"mime"
	mrand "math/rand"
	"net"
	"net/http"
	"net/url"
	"os"
	"strings"
	"testing"

	"github.com/nuts-foundation/go-did/did"
	"github.com/nuts-foundation/nuts-node/vdr/resolver"
)

func c19Ints(s string) []int {
	out := make([]int, len(s))
	for i := 0; i < len(s); i++ {
		out[i] = int(s[i])
	}
	return out
}

func c19Bytes(v any) string {
	a, _ := v.([]any)
	b := make([]byte, 0, len(a))
	for _, x := range a {
		n, _ := x.(interface{ Int64() (int64, error) })
		if n != nil {
			i, _ := n.Int64()
			b = append(b, byte(i))
		}
	}
	return string(b)
}

type c19Exchange struct {
	doErr   bool
	status  int
	ct      string // "-" = no header
	body    string
	readErr bool
}

type c19ErrReader struct{}

func (c19ErrReader) Read([]byte) (int, error) { return 0, errors.New("connection reset") }

type c19Doer struct {
	x      c19Exchange
	called bool
	path   string
}

func (d *c19Doer) Do(req *http.Request) (*http.Response, error) {
	d.called, d.path = true, req.URL.Path
	if d.x.doErr {
		return nil, errors.New("connection refused")
	}
	h := http.Header{}
	if d.x.ct != "-" {
		h.Set("Content-Type", d.x.ct)
	}
	var body io.Reader = strings.NewReader(d.x.body)
	if d.x.readErr {
		body = c19ErrReader{}
	}
	return &http.Response{StatusCode: d.x.status, Status: fmt.Sprint(d.x.status), Header: h, Body: io.NopCloser(body)}, nil
}

// c19URLClass: the error classes of DIDToURL
func c19URLClass(err error) string {
	m := err.Error()
	switch {
	case strings.Contains(m, "unsupported DID method: "):
		return "method"
	case m == "invalid did:web: contains empty path elements":
		return "empty-path"
	case strings.HasPrefix(m, "invalid did:web: invalid URL escape"):
		return "unescape"
	case m == "invalid did:web: illegal characters in domain name":
		return "domain"
	case m == "invalid did:web: ID must be a domain name, not IP address":
		return "ip"
	case strings.HasPrefix(m, "parse "):
		return "urlparse"
	}
	return "other(" + c19Short(m, 60) + ")"
}

// c19Table: url.Parse / Hostname / net.ParseIP on the URL the id maps to, computed with the library and the real percentDecodeString
// (which is compared byte for byte with the model in op didweb.pct); the model reports a target it does not find here
func c19Table(id string) (tbl map[string]any) {
	tbl = map[string]any{}
	defer func() { recover() }()
	base, path := id, ""
	if i := strings.Index(id, ":"); i != -1 {
		base, path = id[:i], strings.ReplaceAll(id[i:], ":", "/")
	}
	ub, err := url.PathUnescape(base)
	if err != nil {
		return
	}
	target := "https://" + ub + percentDecodeString(path)
	e := map[string]any{"ok": false}
	if u, err := url.Parse(target); err == nil {
		e = map[string]any{"ok": true, "host": c19Ints(u.Host), "path": c19Ints(u.Path), "ip": net.ParseIP(u.Hostname()) != nil}
	}
	tbl[hex.EncodeToString([]byte(target))] = e
	return
}

func TestVerifC19(t *testing.T) {
	dir := os.Getenv("VERIF_OUT")
	if dir == "" {
		t.Skip("VERIF_OUT not set")
	}
	o := c19Open(dir)
	defer o.close(dir)
	r := mrand.New(mrand.NewSource(c19Seed()*7919 + 19))

	pct := func(s string) {
		op := map[string]any{"op": "didweb.pct", "s": c19Ints(s)}
		c19Mark(op)
		o.emit(op, c19Class(c19Guard(func() string { return "ok " + hex.EncodeToString([]byte(percentDecodeString(s))) })))
	}
	unesc := func(s string) {
		op := map[string]any{"op": "didweb.unescape", "s": c19Ints(s)}
		out, err := url.PathUnescape(s)
		if err != nil {
			o.emit(op, "err")
			return
		}
		o.emit(op, "ok "+hex.EncodeToString([]byte(out)))
	}
	urlOp := func(method, id string) {
		op := map[string]any{"op": "didweb.url", "method": method, "id": c19Ints(id), "urls": c19Table(id)}
		c19Mark(op)
		o.emit(op, c19Class(c19Guard(func() string {
			u, err := DIDToURL(did.DID{Method: method, ID: id})
			if err != nil {
				return "err:" + c19URLClass(err)
			}
			return "ok host=" + hex.EncodeToString([]byte(u.Host)) + " path=" + hex.EncodeToString([]byte(u.Path))
		})))
	}
	resolveOp := func(method, id string, x c19Exchange) {
		d := did.DID{Method: method, ID: id}
		h := map[string]any{"doOk": !x.doErr, "status": x.status, "readOk": !x.readErr}
		if mt, _, err := mime.ParseMediaType(map[bool]string{true: "", false: x.ct}[x.ct == "-"]); err == nil {
			h["ct"] = mt
		} else {
			h["ct"] = nil
		}
		h["nullEntries"] = resolver.RejectNullKeyEntries([]byte(x.body)) != nil
		var doc did.Document
		um := c19Class(c19Guard(func() string {
			if err := doc.UnmarshalJSON([]byte(x.body)); err != nil {
				return "err"
			}
			return "ok"
		}))
		if strings.HasPrefix(um, "panic") {
			um = "panic"
		}
		h["unmarshal"] = um
		h["idEquals"] = um == "ok" && doc.ID.Equals(d)
		op := map[string]any{"op": "didweb.resolve", "method": method, "id": c19Ints(id), "urls": c19Table(id), "http": h,
			"x": map[string]any{"doErr": x.doErr, "status": x.status, "ct": x.ct, "body": x.body, "readErr": x.readErr}}
		c19Mark(op)
		doer := &c19Doer{x: x}
		res := c19Guard(func() string {
			_, _, err := Resolver{HttpClient: doer}.Resolve(d, nil)
			if err == nil {
				return "ok path=" + hex.EncodeToString([]byte(doer.path))
			}
			m := err.Error()
			for _, p := range [][2]string{{"DID is not did:web", "method"}, {"did:web HTTP error", "http"}, {"did:web non-ok HTTP status", "status"},
				{"did:web invalid content-type", "content-type-invalid"}, {"did:web unsupported content-type", "content-type"},
				{"did:web HTTP response read error", "read"}, {"did:web JSON unmarshal error", "unmarshal"}, {"did:web document ID mismatch", "id-mismatch"}} {
				if strings.HasPrefix(m, p[0]) {
					return "err:" + p[1]
				}
			}
			if c := c19URLClass(err); !strings.HasPrefix(c, "other") {
				return "err:" + c
			}
			if !doer.called {
				return "err:request"
			}
			return "err:other(" + c19Short(m, 60) + ")"
		})
		h["reqOk"] = doer.called
		if strings.HasPrefix(res, "panic:") {
			res = c19Class(res)
			if strings.HasPrefix(res, "panic:Resolve>did.") {
				res = "panic:Resolve>did.Document.UnmarshalJSON"
			}
		}
		o.emit(op, res)
	}

	replay, isReplay := c19ReadOps()
	for _, op := range replay {
		switch op["op"] {
		case "didweb.pct":
			pct(c19Bytes(op["s"]))
		case "didweb.unescape":
			unesc(c19Bytes(op["s"]))
		case "didweb.url":
			m, _ := op["method"].(string)
			urlOp(m, c19Bytes(op["id"]))
		case "didweb.resolve":
			m, _ := op["method"].(string)
			x, _ := op["x"].(map[string]any)
			var ex c19Exchange
			ex.doErr, _ = x["doErr"].(bool)
			ex.readErr, _ = x["readErr"].(bool)
			ex.ct, _ = x["ct"].(string)
			ex.body, _ = x["body"].(string)
			if n, ok := x["status"].(interface{ Int64() (int64, error) }); ok {
				i, _ := n.Int64()
				ex.status = int(i)
			}
			resolveOp(m, c19Bytes(op["id"]), ex)
		}
	}
	if isReplay {
		return
	}

	// ---- id strings: every string of length <= 4 over {a : % 2 B} (every position of an incomplete / complete / nested escape), a
	// hand-made list, random strings over an alphabet of structural bytes
	var ids []string
	small := []byte{'a', ':', '%', '2', 'B'}
	var rec func(prefix string, n int)
	rec = func(prefix string, n int) {
		ids = append(ids, prefix)
		if n == 0 {
			return
		}
		for _, c := range small {
			rec(prefix+string(c), n-1)
		}
	}
	rec("", 4)
	nSmall := len(ids)
	hand := []string{"localhost", "example.com", "example.com:a:b", "localhost%3A3000:alice", "localhost:alice%2Band%2Bbob:path", "x:", "x::y", ":x", ":", "::",
		"%", "%4", "x:%", "x:%2", "x:%2B", "x:a%2", "x:a%", "x:%%2B", "x:%2%2B", "x:%2B%", "x:%2b", "x:%7E%21%24%26%27%28%29%2A%2B%2C%3B%3D%3A%40", "x:%2F", "x:%2f..%2f", "x:%2E%2E", "x:..", "x:%25", "x:%3F", "x:%23",
		"x:%5C", "x:%00", "x:%0A", "x:a b", "x:a?b", "x:a#b", "x:a/b", "x:a//b", "x:a/", "x:/", "x:%zz", "x:%G0", "x:%0G", "x:%fF", "x:\xff", "x:%ff",
		"127.0.0.1", "%31%32%37.0.0.1", "1.2.3.4:a", "%5B%3A%3A1%5D", "[::1]", "%5B%3A%3A1%5D%3A80", "x%2Fy", "x%2fy:z", "x%3A80", "x%3A80%3A90", "x%3Aabc", "x%40y", "y%40x:a", "x%3Fq", "x%23f", "X.COM",
		"x%25", "x%2525", "%zz", "x%", "x%4", "a b", "a%20b", "a%00b", "%00", "\x00", "\x80", "x\xff", "x%ff", "x%5Cy", "user%3Apw%40host", "xn--bcher-kva.example", "bücher.example", "x.", ".x", "..", "%2E%2E", "",
		"x:y%3Az", "x:y%40z", "x:%3A", "x:%3A%3A", "x:a%3A:b", strings.Repeat("a", 300) + ":b", "x:" + strings.Repeat("%2B", 100), "x:" + strings.Repeat("%", 99)}
	ids = append(ids, hand...)
	alpha := []byte("ab.:%2BFf3A/+~zG @#?[]10-_\x80\x00\\")
	n := c19Env("VERIF_N", 500)
	for i := 0; i < n; i++ {
		l := r.Intn(14)
		b := make([]byte, l)
		for k := range b {
			b[k] = alpha[r.Intn(len(alpha))]
			if r.Intn(5) == 0 {
				b[k] = '%'
			}
		}
		ids = append(ids, string(b))
	}
	for i, id := range ids {
		kind := "rand"
		if i < nSmall {
			kind = "exhaustive<=4"
		} else if i < nSmall+len(hand) {
			kind = "hand"
		}
		o.dist["didweb.pct:"+kind]++
		o.dist["didweb.unescape:"+kind]++
		o.dist["didweb.url:"+kind]++
		pct(id)
		unesc(id)
		urlOp("web", id)
		if i%50 == 0 {
			for _, m := range []string{"", "nuts", "WEB", "web "} {
				o.dist["didweb.url:method"]++
				urlOp(m, id)
			}
		}
	}

	// ---- Resolve: DID × HTTP exchange
	docFor := func(id string) string {
		return `{"@context":["https://www.w3.org/ns/did/v1"],"id":"did:web:` + id + `","verificationMethod":[{"id":"did:web:` + id + `#k","type":"JsonWebKey2020","controller":"did:web:` + id +
			`","publicKeyJwk":{"kty":"EC","crv":"P-256","x":"VovYU-43esqZaDLPBhbV44G6nvSYXHv0_pXFkLL5wWw","y":"kD-ev_48d7JSh-Ig2Rt0qDf_7OrGSPNbMbHxXsfgmVo"}}],"assertionMethod":["did:web:` + id + `#k"]}`
	}
	rids := []string{"example.com", "example.com:a:b", "localhost%3A3000:alice", "x:a%2Bb", "x:a%2Fb", "127.0.0.1", "x::y", "%zz", "x%2Fy", "x:%2", "EXAMPLE.com", ""}
	statuses := []int{200, 199, 201, 204, 299, 300, 301, 404, 500, 0, -1, 1000}
	cts := []string{"application/json", "application/did+json", "application/did+ld+json", "application/did+ld+json; charset=utf-8", "APPLICATION/JSON", "Application/DID+JSON;x=y", "text/html", "", "-",
		"application/json;;", "application/ld+json", "application/jsonx", "application/json, text/html", "application", ";", "application/json; charset"}
	bodies := func(id string) []string {
		return []string{docFor(id), docFor("other.example"), `{"id":"did:web:` + id + `","verificationMethod":[null],"assertionMethod":["did:web:` + id + `#k"]}`,
			`{"id":"did:web:` + id + `","VerificationMethod":[null],"ASSERTIONMETHOD":["did:web:` + id + `#k"]}`, `{"id":"did:web:` + id + `","assertionMethod":[null]}`,
			`{"id":"did:web:` + id + `"}`, `not json`, `{}`, `[]`, `null`, ``, `{"id":5}`}
	}
	for _, id := range rids {
		base := c19Exchange{status: 200, ct: "application/json", body: docFor(id)}
		emitX := func(x c19Exchange, kind string) {
			o.dist["didweb.resolve:"+kind]++
			resolveOp("web", id, x)
		}
		emitX(base, "valid")
		for _, s := range statuses {
			x := base
			x.status = s
			emitX(x, "status")
		}
		for _, c := range cts {
			x := base
			x.ct = c
			emitX(x, "content-type")
		}
		for _, b := range bodies(id) {
			x := base
			x.body = b
			emitX(x, "body")
		}
		x := base
		x.doErr = true
		emitX(x, "do-error")
		x = base
		x.readErr = true
		emitX(x, "read-error")
		o.dist["didweb.resolve:method"]++
		resolveOp("nuts", id, base)
	}
	for i := 0; i < n; i++ {
		id := rids[r.Intn(len(rids))]
		if r.Intn(4) == 0 {
			id = ids[r.Intn(len(ids))]
		}
		bs := bodies(id)
		x := c19Exchange{doErr: r.Intn(12) == 0, status: statuses[r.Intn(len(statuses))], ct: cts[r.Intn(len(cts))], body: bs[r.Intn(len(bs))], readErr: r.Intn(12) == 0}
		if r.Intn(2) == 0 {
			x.status = 200
		}
		if r.Intn(2) == 0 {
			x.ct = cts[r.Intn(3)]
		}
		o.dist["didweb.resolve:rand"]++
		resolveOp("web", id, x)
	}
}
