//go:build verif

package didsubject_test

// C13 correspondence harness (injected with `go test -overlay`; never lives in /repo).
// External test package: the real didnuts / didweb managers import didsubject, so the harness cannot live inside it.
//
// Real code under test: didsubject.SqlManager (Create/CreateService/UpdateService/DeleteService/AddVerificationMethod/
// Deactivate/Rollback/ListDIDs/FindServices) + didsubject.Resolver on the test storage engine's SQLite database,
// the REAL didweb.Manager and the REAL didnuts.Manager wired to the real didstore, the real didnuts.Resolver and a
// fake network client (CreateTransaction hands the payload to the didstore, as the ambassador does on a node).
// Faults are injected by a MethodManager decorator: "the did:nuts Commit fails" and "the process stops before the
// k-th Commit call / after the last one" (panic, recovered here; afterwards fresh managers on the same database).
// The clock is advanced by moving all stored stamps back (the code reads time.Now() directly).
//
// Output: ops.jsonl (one JSON event per line, written AFTER the event ran so that it carries the observed Go map
// iteration order and the fault that actually fired) and impl.out (one canonical observation line per event).

import (
	"bufio"
	"context"
	"encoding/json"
	"errors"
	"fmt"
	"math/rand"
	"os"
	"path/filepath"
	"sort"
	"strconv"
	"strings"
	"testing"
	"time"

	ssi "github.com/nuts-foundation/go-did"
	"github.com/nuts-foundation/go-did/did"
	"github.com/nuts-foundation/nuts-node/audit"
	nutsCrypto "github.com/nuts-foundation/nuts-node/crypto"
	"github.com/nuts-foundation/nuts-node/crypto/hash"
	"github.com/nuts-foundation/nuts-node/network"
	"github.com/nuts-foundation/nuts-node/network/dag"
	"github.com/nuts-foundation/nuts-node/storage"
	"github.com/nuts-foundation/nuts-node/storage/orm"
	"github.com/nuts-foundation/nuts-node/vdr/didnuts"
	"github.com/nuts-foundation/nuts-node/vdr/didnuts/didstore"
	"github.com/nuts-foundation/nuts-node/vdr/didsubject"
	"github.com/nuts-foundation/nuts-node/vdr/didweb"
	"github.com/nuts-foundation/nuts-node/vdr/resolver"
	"github.com/sirupsen/logrus"
	"gorm.io/gorm"
)

// ---- event format ------------------------------------------------------------------------

type c13Ev struct {
	Op      string   `json:"op"`                // cfg | do | tick | sweep
	Methods []string `json:"methods,omitempty"` // cfg
	Tag     string   `json:"tag,omitempty"`     // cfg: what this world exercises (for the oracle / statistics)
	Kind    string   `json:"kind,omitempty"`    // do: create addsvc updsvc delsvc addkey deact
	Subj    string   `json:"subj,omitempty"`
	A       string   `json:"a,omitempty"`
	B       string   `json:"b,omitempty"`
	Order   []string `json:"order,omitempty"` // observed order of Commit calls
	Fault   string   `json:"fault,omitempty"` // none | fail | failctx | okctx | stop | logerr | logstop | sweepat (what actually fired)
	K       int      `json:"k"`
	Want    string   `json:"want,omitempty"` // requested fault (replay input; ignored by the model)
	WantK   int      `json:"wantk,omitempty"`
	D       int      `json:"d,omitempty"` // tick
	NutsNo  []int    `json:"nutsno,omitempty"` // sweep: labels of the did:nuts DIDs for which IsCommitted answered false
	Opts    []string `json:"opts,omitempty"`   // do/createopt: the CreationOptions in order: "s:<name>" | "enc" | "legacy" | "unk"
	U       string   `json:"u,omitempty"`      // do/createopt: the alias for the name Create makes up itself (uuid / did:nuts DID)
	IDs     []string `json:"ids,omitempty"`    // sort: the DIDs (their methods in `methods`), position = marker of the document
	Pref    string   `json:"pref,omitempty"`   // cfg: SqlManager.PreferredOrder, comma separated ("" = nuts,web; "-" = empty)
}

// ---- fake network + fault injection ---------------------------------------------------------

type c13Tx struct {
	dag.Transaction
	t didstore.Transaction
}

func (f c13Tx) Clock() uint32                { return f.t.Clock }
func (f c13Tx) PayloadHash() hash.SHA256Hash { return f.t.PayloadHash }
func (f c13Tx) Previous() []hash.SHA256Hash  { return f.t.Previous }
func (f c13Tx) Ref() hash.SHA256Hash         { return f.t.Ref }
func (f c13Tx) SigningTime() time.Time       { return f.t.SigningTime }

type c13Net struct {
	network.Transactions
	store didstore.Store
}

var c13NetSeq uint64

func (f *c13Net) CreateTransaction(_ context.Context, spec network.Template) (dag.Transaction, error) {
	var doc did.Document
	if err := json.Unmarshal(spec.Payload, &doc); err != nil {
		return nil, err
	}
	// the DAG (and so the Lamport clock) outlives a process stop
	c13NetSeq++
	tx := didstore.Transaction{Clock: uint32(c13NetSeq), PayloadHash: hash.SHA256Sum(spec.Payload), Previous: spec.AdditionalPrevs,
		Ref: hash.SHA256Sum([]byte(fmt.Sprintf("c13-ref-%d", c13NetSeq))), SigningTime: time.Now()}
	// what the network ambassador does when the transaction is processed
	if err := f.store.Add(doc, tx); err != nil {
		return nil, err
	}
	return c13Tx{t: tx}, nil
}

type c13Stop struct{}

var errC13Injected = errors.New("c13: injected commit failure")
var errC13DB = errors.New("c13: injected database error in the clean-up transaction")

type c13Inj struct {
	mode     string // none fail stop
	k, n     int
	calls    int
	order    []string
	fired    bool
	sweep    func() // mode sweepat: the rollback loop's tick fires while the operation is in flight
	cancel   context.CancelFunc
	logSeen  int // did_change_log writes seen in this operation (modes logerr / logstop)
	sweepErr string
	nutsNo   []string
}

type c13Deco struct {
	didsubject.MethodManager
	name string
	inj  *c13Inj
}

func (d *c13Deco) Commit(ctx context.Context, e orm.DIDChangeLog) error {
	in := d.inj
	in.order = append(in.order, d.name)
	if in.mode == "stop" && in.k == in.calls {
		in.fired = true
		panic(c13Stop{})
	}
	if in.mode == "sweepat" && in.k == in.calls && !in.fired && in.sweep != nil {
		// between the database write and this publish: the sweep runs (the operation is in flight and YOUNG)
		in.fired = true
		in.sweep()
	}
	in.calls++
	if (in.mode == "fail" || in.mode == "failctx" || in.mode == "failtx2") && d.name == "nuts" {
		in.fired = true
		if in.mode == "failctx" && in.cancel != nil {
			in.cancel() // the request is cancelled / times out while did:nuts is publishing
		}
		return errC13Injected
	}
	err := d.MethodManager.Commit(ctx, e)
	if in.mode == "okctx" && d.name == "nuts" && err == nil && in.cancel != nil {
		// did:nuts has published; the request ends (client gone / deadline) before the remaining methods are committed
		in.fired = true
		in.k = in.calls // the context is dead from this Commit call on
		in.cancel()
	}
	if in.mode == "stop" && in.k == in.n && in.calls == in.n && err == nil {
		in.fired = true
		panic(c13Stop{})
	}
	return err
}

func (d *c13Deco) IsCommitted(ctx context.Context, e orm.DIDChangeLog) (bool, error) {
	ok, err := d.MethodManager.IsCommitted(ctx, e)
	if err != nil && d.inj.sweepErr == "" {
		d.inj.sweepErr = c13ErrClass(err)
	}
	if err == nil && !ok && d.name == "nuts" {
		d.inj.nutsNo = append(d.inj.nutsNo, e.DID().String())
	}
	return ok, err
}

func c13ErrClass(err error) string {
	switch {
	case err == nil:
		return "ok"
	case errors.Is(err, didsubject.ErrSubjectAlreadyExists):
		return "err:exists"
	case errors.Is(err, didsubject.ErrSubjectNotFound):
		return "err:nosubject"
	case errors.Is(err, errC13DB):
		return "err:db"
	case errors.Is(err, errC13Injected):
		return "err:injected"
	case errors.Is(err, didsubject.ErrKeyAgreementNotSupported):
		return "err:keyagreement"
	case errors.Is(err, didsubject.ErrSubjectValidation):
		return "err:validation"
	case errors.Is(err, resolver.ErrDeactivated):
		return "err:deactivated"
	case errors.Is(err, resolver.ErrNotFound), errors.Is(err, gorm.ErrRecordNotFound):
		return "err:notfound"
	case errors.As(err, new(didnuts.InvalidServiceError)):
		return "err:invalidservice"
	}
	s := err.Error()
	if len(s) > 60 {
		s = s[len(s)-60:]
	}
	return "err:other:" + strings.ReplaceAll(s, " ", "_")
}

// ---- world -----------------------------------------------------------------------------------

type c13World struct {
	t       *testing.T
	ctx     context.Context
	eng     storage.Engine
	db      *gorm.DB
	ks      nutsCrypto.KeyStore
	store   didstore.Store
	methods []string
	pref    []string
	inj     *c13Inj
	mgr     *didsubject.SqlManager
	// canonical names
	didLabel map[string]int
	vmLabel  map[string]int
	subjects map[string]bool
	svcs     map[string]bool
	optNames map[string]bool   // names handed in with a SubjectCreationOption (List may show them before an event names them)
	alias    map[string]string // subject name used in the events -> real subject (Create with NutsLegacyNamingOption picks the name itself)
	opCancel context.CancelFunc
}

func (w *c13World) real(s string) string {
	if r, ok := w.alias[s]; ok {
		return r
	}
	return s
}

var c13Root = did.MustParseDID("did:web:example.com")

func (w *c13World) freshManagers() {
	w.inj = &c13Inj{mode: "none"}
	mm := map[string]didsubject.MethodManager{}
	for _, m := range w.methods {
		switch m {
		case "nuts":
			net := &c13Net{store: w.store}
			res := &didnuts.Resolver{Store: w.store}
			mm["nuts"] = &c13Deco{MethodManager: didnuts.NewManager(w.ks, net, w.store, res, w.db), name: "nuts", inj: w.inj}
		case "web":
			mm["web"] = &c13Deco{MethodManager: didweb.NewManager(c13Root, "iam", w.ks, w.db), name: "web", inj: w.inj}
		}
	}
	w.mgr = didsubject.New(w.db, mm, w.ks, w.pref)
}

func c13Pref(s string) []string {
	switch s {
	case "":
		return []string{"nuts", "web"}
	case "-":
		return []string{}
	}
	return strings.Split(s, ",")
}

func (w *c13World) reset(methods []string, pref ...string) {
	w.pref = c13Pref(strings.Join(pref, ","))
	for _, tbl := range []string{"did_change_log", "did_document_to_service", "did_document_to_verification_method", "did_service",
		"did_verification_method", "did_document_version", "did", "key_reference"} {
		if err := w.db.Exec("DELETE FROM " + tbl).Error; err != nil {
			w.t.Fatal(err)
		}
	}
	w.methods = methods
	w.didLabel, w.vmLabel = map[string]int{}, map[string]int{}
	w.subjects, w.svcs, w.alias, w.optNames = map[string]bool{}, map[string]bool{}, map[string]string{}, map[string]bool{}
	w.freshManagers()
}

func c13Service(label string) did.Service {
	return did.Service{Type: "T-" + label, ServiceEndpoint: "https://example.com/" + label}
}

func (w *c13World) count(table string) int64 {
	var c int64
	if err := w.db.Table(table).Count(&c).Error; err != nil {
		w.t.Fatal(err)
	}
	return c
}

func (w *c13World) lbl(m map[string]int, k string) int {
	if v, ok := m[k]; ok {
		return v
	}
	m[k] = len(m)
	return m[k]
}

func (w *c13World) content(doc *did.Document) string {
	var vms []int
	for _, vm := range doc.VerificationMethod {
		vms = append(vms, w.lbl(w.vmLabel, vm.ID.String()))
	}
	sort.Ints(vms)
	var svcs []string
	for _, s := range doc.Service {
		svcs = append(svcs, strings.TrimPrefix(s.Type, "T-"))
	}
	sort.Strings(svcs)
	vs := make([]string, len(vms))
	for i, v := range vms {
		vs[i] = "k" + strconv.Itoa(v)
	}
	return strings.Join(vs, ",") + ";" + strings.Join(svcs, ",")
}

// observe renders everything the property talks about, through the public read API (+ version numbers and row counts)
func (w *c13World) observe(result string) string {
	var sb strings.Builder
	fmt.Fprintf(&sb, "%s log=%d keys=%d", result, w.count("did_change_log"), w.count("key_reference"))
	subjects := make([]string, 0, len(w.subjects))
	for s := range w.subjects {
		subjects = append(subjects, s)
	}
	sort.Strings(subjects)
	labels := make([]string, 0, len(w.svcs))
	for s := range w.svcs {
		labels = append(labels, s)
	}
	sort.Strings(labels)
	res := didsubject.Resolver{DB: w.db}
	// List and Exists must agree with ListDIDs (implementation-side consistency; the model prints the constant)
	listOK := "ok"
	all, err := w.mgr.List(w.ctx)
	if err != nil {
		listOK = "bad:" + c13ErrClass(err)
	}
	known := map[string]bool{}
	for _, s := range subjects {
		known[w.real(s)] = true
		dids, err := w.mgr.ListDIDs(w.ctx, w.real(s))
		exists, err2 := w.mgr.Exists(w.ctx, w.real(s))
		if err2 != nil || exists != (err == nil && len(dids) > 0) {
			listOK = "bad:exists(" + s + ")"
		}
		if fmt.Sprint(all[w.real(s)]) != fmt.Sprint(dids) && !(len(all[w.real(s)]) == 0 && len(dids) == 0) {
			listOK = "bad:list(" + s + ")"
		}
	}
	for s := range all {
		if !known[s] && !w.optNames[s] {
			listOK = "bad:unknown-subject"
		}
	}
	fmt.Fprintf(&sb, " list=%s", listOK)
	for _, s := range subjects {
		fmt.Fprintf(&sb, " || %s", s)
		dids, err := w.mgr.ListDIDs(w.ctx, w.real(s))
		if err != nil {
			fmt.Fprintf(&sb, " %s", c13ErrClass(err))
			continue
		}
		for _, id := range dids {
			var versions []int
			if err := w.db.Table("did_document_version").Where("did = ?", id.String()).Order("version").Pluck("version", &versions).Error; err != nil {
				w.t.Fatal(err)
			}
			vs := make([]string, len(versions))
			for i, v := range versions {
				vs[i] = strconv.Itoa(v)
			}
			top, status := "-", ""
			doc, _, err := res.Resolve(id, &resolver.ResolveMetadata{AllowDeactivated: true})
			if err == nil {
				top = w.content(doc)
			}
			_, _, err = res.Resolve(id, nil)
			switch {
			case err == nil:
				status = "ok"
			case errors.Is(err, resolver.ErrDeactivated):
				status = "deact"
			case errors.Is(err, resolver.ErrNotFound):
				status = "notfound"
			default:
				status = c13ErrClass(err)
			}
			pub := "-"
			if id.Method == "nuts" {
				pdoc, _, err := w.store.Resolve(id, &resolver.ResolveMetadata{AllowDeactivated: true})
				switch {
				case err == nil:
					pub = w.content(pdoc)
				case errors.Is(err, resolver.ErrNotFound):
					pub = "none"
				default:
					pub = c13ErrClass(err)
				}
			}
			fmt.Fprintf(&sb, " [%s:d%d v=%s top=%s res=%s pub=%s]", id.Method, w.lbl(w.didLabel, id.String()), strings.Join(vs, ","), top, status, pub)
		}
		sb.WriteString(" svc=")
		for i, l := range labels {
			typ := "T-" + l
			found, err := w.mgr.FindServices(w.ctx, w.real(s), &typ)
			if i > 0 {
				sb.WriteString(";")
			}
			sb.WriteString(l + ":")
			if err != nil {
				sb.WriteString(c13ErrClass(err))
				continue
			}
			var owners []string
			for _, f := range found {
				owner := f.ID
				owner.Fragment = ""
				owners = append(owners, "d"+strconv.Itoa(w.lbl(w.didLabel, strings.TrimSuffix(owner.String(), "#"))))
			}
			sort.Strings(owners)
			sb.WriteString(strings.Join(owners, ","))
		}
		// FindServices without a type
		if found, err := w.mgr.FindServices(w.ctx, w.real(s), nil); err != nil {
			sb.WriteString(" untyped=" + c13ErrClass(err))
		} else {
			fmt.Fprintf(&sb, " untyped=%d", len(found))
		}
	}
	return sb.String()
}

func (w *c13World) serviceID(subject, label string) ssi.URI {
	// DeleteService/UpdateService only look at the fragment
	u := ssi.MustParseURI("did:x:y")
	u.Fragment = didsubject.NewIDForService(c13Service(label))
	return u
}

// run executes one event and returns the (completed) event and the observation line
func (w *c13World) run(ev c13Ev) (c13Ev, string) {
	switch ev.Op {
	case "cfg":
		w.reset(ev.Methods, ev.Pref)
		return ev, w.observe("cfg")
	case "sort":
		// the pure helpers behind ListDIDs / List / Create's answer, on DIDs of any method
		list := make([]did.DID, len(ev.IDs))
		docs := make([]did.Document, len(ev.IDs))
		for i, s := range ev.IDs {
			id, err := did.ParseDID(s)
			if err != nil || id.Method != ev.Methods[i] {
				w.t.Fatalf("sort: bad DID %q", s)
			}
			list[i] = *id
			docs[i] = did.Document{ID: *id, Service: []did.Service{{Type: strconv.Itoa(i)}}}
		}
		pref := c13Pref(ev.Pref)
		didsubject.VerifC13SortDIDs(list, pref)
		didsubject.VerifC13SortDocuments(docs, pref)
		a, b := make([]string, len(list)), make([]string, len(docs))
		for i := range list {
			a[i] = list[i].String()
			b[i] = docs[i].ID.String() + "@"
			if len(docs[i].Service) == 1 {
				b[i] += docs[i].Service[0].Type
			}
		}
		return ev, "sorted log=0 keys=0 list=ok ids=" + strings.Join(a, ",") + " docs=" + strings.Join(b, ",")
	case "tick":
		if err := w.db.Exec("UPDATE did_document_version SET updated_at = updated_at - ?, created_at = created_at - ?", ev.D, ev.D).Error; err != nil {
			w.t.Fatal(err)
		}
		return ev, w.observe("tick")
	case "skew":
		// the first transaction stamps every DID's version with its own clock reading (CreateOrUpdate: time.Now().Unix()):
		// make the pending versions of method ev.A ev.D seconds older than the others
		if err := w.db.Exec("UPDATE did_document_version SET updated_at = updated_at - ? WHERE id IN (SELECT did_document_version_id FROM did_change_log) AND did LIKE ?",
			ev.D, "did:"+ev.A+":%").Error; err != nil {
			w.t.Fatal(err)
		}
		return ev, w.observe("skew")
	case "sweep":
		w.inj.sweepErr, w.inj.nutsNo = "", nil
		w.mgr.Rollback(w.ctx)
		ev.NutsNo = nil
		for _, id := range w.inj.nutsNo {
			if l, ok := w.didLabel[id]; ok {
				ev.NutsNo = append(ev.NutsNo, l)
			}
		}
		sort.Ints(ev.NutsNo)
		r := "ok"
		if w.inj.sweepErr != "" {
			r = w.inj.sweepErr
		}
		return ev, w.observe(r)
	case "do":
		want, wantK := ev.Want, ev.WantK
		if want == "" {
			want, wantK = ev.Fault, ev.K
		}
		if want == "" {
			want = "none"
		}
		ev.Want, ev.WantK = want, wantK
		if ev.Kind == "createopt" {
			ev.Subj = ev.U // completed below: the event-level name of the subject that was created
		} else {
			w.subjects[ev.Subj] = true
		}
		if ev.A != "" {
			w.svcs[ev.A] = true
		}
		if ev.B != "" {
			w.svcs[ev.B] = true
		}
		opCtx, cancel := context.WithCancel(w.ctx)
		defer cancel()
		*w.inj = c13Inj{mode: want, k: wantK, n: len(w.methods), cancel: cancel, sweep: func() { w.mgr.Rollback(w.ctx) }}
		subj := w.real(ev.Subj)
		extra := ""
		var err error
		stopped := false
		func() {
			defer func() {
				if r := recover(); r != nil {
					if _, ok := r.(c13Stop); ok {
						stopped = true
						return
					}
					panic(r)
				}
			}()
			switch ev.Kind {
			case "create":
				_, _, err = w.mgr.Create(opCtx, didsubject.DefaultCreationOptions().With(didsubject.SubjectCreationOption{Subject: subj}))
			case "createleg":
				// v1 naming: the subject IS the did:nuts DID (only known once the did:nuts document has been generated)
				docs, name, cerr := w.mgr.Create(opCtx, didsubject.DefaultCreationOptions().With(didsubject.NutsLegacyNamingOption{}))
				err = cerr
				if cerr == nil {
					w.alias[ev.Subj] = name
					// every DID returned by Create belongs to the returned subject
					listed, lerr := w.mgr.ListDIDs(w.ctx, name)
					have := map[string]bool{}
					for _, id := range listed {
						have[id.String()] = true
					}
					for _, doc := range docs {
						if lerr != nil || !have[doc.ID.String()] {
							extra = ":returned-did-not-under-returned-subject"
						}
					}
					if len(listed) != len(docs) {
						extra = ":returned-did-not-under-returned-subject"
					}
				}
			case "createopt":
				// Create with a LIST of options, as the API hands it in
				opts := didsubject.DefaultCreationOptions()
				for _, o := range ev.Opts {
					switch {
					case o == "enc":
						opts = opts.With(didsubject.EncryptionKeyCreationOption{})
					case o == "legacy":
						opts = opts.With(didsubject.NutsLegacyNamingOption{})
					case strings.HasPrefix(o, "s:"):
						w.optNames[w.real(o[2:])] = true
						opts = opts.With(didsubject.SubjectCreationOption{Subject: w.real(o[2:])})
					default:
						opts = opts.With(didsubject.SkipAssertionKeyCreationOption{}) // a type the option switch does not know
					}
				}
				docs, name, cerr := w.mgr.Create(opCtx, opts)
				err = cerr
				if cerr == nil {
					for _, o := range ev.Opts {
						if strings.HasPrefix(o, "s:") && w.real(o[2:]) == name {
							ev.Subj = o[2:]
						}
					}
					if ev.Subj == ev.U {
						w.alias[ev.U] = name
					}
					listed, lerr := w.mgr.ListDIDs(w.ctx, name)
					if lerr != nil || len(listed) != len(docs) {
						extra = ":returned-did-not-under-returned-subject"
					}
					// the documents come back in the order ListDIDs answers (sortDIDDocumentsByMethod vs sortDIDsByMethod)
					for i := range docs {
						if i < len(listed) && docs[i].ID.String() != listed[i].String() {
							extra = ":returned-documents-not-in-listdids-order"
						}
					}
				}
			case "addkeyka":
				_, err = w.mgr.AddVerificationMethod(opCtx, subj, orm.AssertionKeyUsage()|orm.EncryptionKeyUsage())
			case "addsvc":
				_, err = w.mgr.CreateService(opCtx, subj, c13Service(ev.A))
			case "updsvc":
				_, err = w.mgr.UpdateService(opCtx, subj, w.serviceID(subj, ev.A), c13Service(ev.B))
			case "delsvc":
				err = w.mgr.DeleteService(opCtx, subj, w.serviceID(subj, ev.A))
			case "addkey":
				_, err = w.mgr.AddVerificationMethod(opCtx, subj, orm.AssertionKeyUsage())
			case "deact":
				err = w.mgr.Deactivate(opCtx, subj)
			default:
				w.t.Fatalf("unknown kind %q", ev.Kind)
			}
		}()
		if ev.Kind == "createopt" {
			w.subjects[ev.Subj] = true
		}
		ev.Order = append([]string{}, w.inj.order...)
		ev.Fault, ev.K = "none", 0
		if w.inj.fired {
			ev.Fault, ev.K = want, wantK
			if want == "okctx" {
				ev.K = w.inj.k // number of Commit calls made with the live context
			}
		}
		if w.inj.mode == "tx2err" || w.inj.mode == "failtx2" {
			w.inj.mode = "none" // the DB error hits this operation's clean-up only, not a later sweep
		}
		result := c13ErrClass(err) + extra
		if stopped {
			result = "stopped"
			// the process is gone: volatile state is lost, the database and the network stay
			w.freshManagers()
		}
		return ev, w.observe(result)
	}
	w.t.Fatalf("unknown op %q", ev.Op)
	return ev, ""
}

// runSafe: a panic of the code under test (other than the injected stop) is an outcome of that event, not of the harness
func (w *c13World) runSafe(ev c13Ev) (done c13Ev, line string) {
	defer func() {
		if r := recover(); r != nil {
			msg := strings.ReplaceAll(fmt.Sprint(r), " ", "_")
			if len(msg) > 80 {
				msg = msg[:80]
			}
			w.freshManagers()
			done = ev
			func() {
				defer func() {
					if r2 := recover(); r2 != nil {
						line = "panic:" + msg + " log=0 keys=0"
					}
				}()
				line = w.observe("panic:" + msg)
			}()
		}
	}()
	return w.run(ev)
}

// ---- generator -----------------------------------------------------------------------------------

type c13Gen struct {
	rng *rand.Rand
}

func do(kind, subj, a, b string) c13Ev { return c13Ev{Op: "do", Kind: kind, Subj: subj, A: a, B: b, Fault: "none"} }

// base sequences: a create followed by a mix of operations on one or two subjects
func (g *c13Gen) baseSeq(maxLen int) []c13Ev {
	subj := []string{"s1", "s2"}
	labels := []string{"A", "B", "C"}
	seq := []c13Ev{do("create", "s1", "", "")}
	n := 1 + g.rng.Intn(maxLen)
	for len(seq) < n {
		s := subj[0]
		if g.rng.Intn(4) == 0 {
			s = subj[1]
		}
		a, b := labels[g.rng.Intn(3)], labels[g.rng.Intn(3)]
		switch p := g.rng.Intn(20); {
		case p < 3:
			seq = append(seq, do("create", s, "", ""))
		case p < 8:
			seq = append(seq, do("addsvc", s, a, ""))
		case p < 11:
			seq = append(seq, do("updsvc", s, a, b))
		case p < 14:
			seq = append(seq, do("delsvc", s, a, ""))
		case p < 17:
			seq = append(seq, do("addkey", s, "", ""))
		default:
			seq = append(seq, do("deact", s, "", ""))
		}
	}
	return seq
}

var c13Configs = [][]string{{"nuts", "web"}, {"nuts"}, {"web"}}

// variants: every cut point of every operation of the sequence
func c13Variants(sid string, seq []c13Ev, methods []string, rng *rand.Rand, all bool) [][]c13Ev {
	var out [][]c13Ev
	cfg := func(tag string) c13Ev { return c13Ev{Op: "cfg", Methods: methods, Tag: tag + ":" + sid} }
	// fault free
	out = append(out, append([]c13Ev{cfg("plain")}, append(append([]c13Ev{}, seq...), c13Ev{Op: "tick", D: 70}, c13Ev{Op: "sweep"})...))
	type fault struct {
		f string
		k int
	}
	faults := []fault{{"fail", 0}, {"failctx", 0}}
	for k := 0; k <= len(methods); k++ {
		faults = append(faults, fault{"stop", k})
	}
	for k := 0; k < len(methods); k++ {
		faults = append(faults, fault{"logerr", k}, fault{"logstop", k})
	}
	// (e) the rollback loop ticks while an operation is in flight (before its k-th Commit call): nothing may happen, the whole
	// run must look exactly like the fault-free one
	for j := range seq {
		for k := 0; k < len(methods); k++ {
			if !all && rng.Intn(3) != 0 {
				continue
			}
			mid := seq[j]
			mid.Fault, mid.K = "sweepat", k
			v := append([]c13Ev{cfg(fmt.Sprintf("mid:%d", j))}, seq[:j]...)
			v = append(v, mid)
			v = append(v, seq[j+1:]...)
			v = append(v, c13Ev{Op: "tick", D: 70}, c13Ev{Op: "sweep"})
			out = append(out, v)
		}
	}
	for j := range seq {
		for _, f := range faults {
			if !all && rng.Intn(3) != 0 {
				continue
			}
			pre := append([]c13Ev{}, seq[:j]...)
			bad := seq[j]
			bad.Fault, bad.K = f.f, f.k
			retry := seq[j]
			rest := seq[j+1:]
			// (a) fault, sweep after the threshold, retry, rest
			v := append([]c13Ev{cfg(fmt.Sprintf("quiet:%d", j))}, pre...)
			v = append(v, bad, c13Ev{Op: "tick", D: 25}, c13Ev{Op: "sweep"}, c13Ev{Op: "tick", D: 70}, c13Ev{Op: "sweep"}, retry)
			v = append(v, rest...)
			v = append(v, c13Ev{Op: "tick", D: 70}, c13Ev{Op: "sweep"})
			out = append(out, v)
			// (d) the publish fails (with the request context cancelled or not) and the caller retries AT ONCE, no sweep in between
			if f.f == "failctx" || (f.f == "fail" && !all) {
				v := append([]c13Ev{cfg(fmt.Sprintf("now:%d", j))}, pre...)
				v = append(v, bad, retry)
				v = append(v, rest...)
				v = append(v, c13Ev{Op: "tick", D: 70}, c13Ev{Op: "sweep"})
				out = append(out, v)
			}
			// (c) the did:nuts version was stamped 2 s before the did:web version; the first sweep runs when only it is old
			if f.f == "stop" && len(methods) == 2 && (all || rng.Intn(2) == 0) {
				v := append([]c13Ev{cfg(fmt.Sprintf("quiet:%d", j))}, pre...)
				v = append(v, bad, c13Ev{Op: "skew", A: "nuts", D: 2}, c13Ev{Op: "tick", D: 59}, c13Ev{Op: "sweep"}, c13Ev{Op: "tick", D: 70}, c13Ev{Op: "sweep"}, retry)
				v = append(v, rest...)
				v = append(v, c13Ev{Op: "tick", D: 70}, c13Ev{Op: "sweep"})
				out = append(out, v)
			}
			// (b) not quiet: the sequence continues right after the fault, the sweep comes last
			if f.f == "stop" && len(rest) > 0 && (all || rng.Intn(2) == 0) {
				v := append([]c13Ev{cfg(fmt.Sprintf("busy:%d", j))}, pre...)
				v = append(v, bad)
				v = append(v, rest...)
				v = append(v, c13Ev{Op: "tick", D: 70}, c13Ev{Op: "sweep"}, retry, c13Ev{Op: "tick", D: 70}, c13Ev{Op: "sweep"})
				out = append(out, v)
			}
		}
	}
	return out
}

// ---- test -------------------------------------------------------------------------------------------

func c13ReadEvents(path string) ([]c13Ev, error) {
	f, err := os.Open(path)
	if err != nil {
		return nil, err
	}
	defer f.Close()
	var evs []c13Ev
	sc := bufio.NewScanner(f)
	sc.Buffer(make([]byte, 1<<20), 1<<24)
	for sc.Scan() {
		line := strings.TrimSpace(sc.Text())
		if line == "" || strings.HasPrefix(line, "#") {
			continue
		}
		var ev c13Ev
		if err := json.Unmarshal([]byte(line), &ev); err != nil {
			return nil, fmt.Errorf("%s: %w", path, err)
		}
		evs = append(evs, ev)
	}
	return evs, sc.Err()
}

func TestVerifC13(t *testing.T) {
	logrus.SetLevel(logrus.PanicLevel)
	outDir := os.Getenv("VERIF_OUT")
	if outDir == "" {
		t.Skip("VERIF_OUT not set")
	}
	seed, _ := strconv.ParseInt(os.Getenv("VERIF_SEED"), 10, 64)
	thorough := os.Getenv("VERIF_TIER") == "thorough"
	nSeq := 10
	if thorough {
		nSeq = 90
	}
	if v, err := strconv.Atoi(os.Getenv("VERIF_SEQS")); err == nil {
		nSeq = v
	}
	eng := storage.NewTestStorageEngine(t)
	if err := eng.Start(); err != nil {
		t.Fatal(err)
	}
	db := eng.GetSQLDatabase()
	w := &c13World{t: t, ctx: audit.TestContext(), eng: eng, db: db, ks: nutsCrypto.NewDatabaseCryptoInstance(db),
		store: didstore.TestStore(t, eng)}
	w.reset([]string{"nuts", "web"})
	// crash point "at the k-th did_change_log write": a DB error (logerr) or a process stop (logstop)
	if err := db.Callback().Create().Before("gorm:create").Register("c13:logfault", func(tx *gorm.DB) {
		in := w.inj
		if in == nil || (in.mode != "logerr" && in.mode != "logstop") || in.fired || tx.Statement.Table != "did_change_log" {
			return
		}
		if in.logSeen == in.k {
			in.fired = true
			if in.mode == "logstop" {
				// a dead process releases its connection: if gorm opened an implicit transaction for this single statement
				// (the write is NOT part of an explicit transaction), give the connection back before "dying"
				if _, implicit := tx.InstanceGet("gorm:started_transaction"); implicit {
					if c, ok := tx.Statement.ConnPool.(gorm.TxCommitter); ok {
						_ = c.Rollback()
					}
				}
				panic(c13Stop{})
			}
			_ = tx.AddError(errC13Injected)
			return
		}
		in.logSeen++
	}); err != nil {
		t.Fatal(err)
	}

	// "the clean-up transaction fails": a DB error at the first DELETE the operation issues (only transactionHelper's second
	// transaction and Rollback delete rows of these tables; no sweep runs during such an operation)
	if err := db.Callback().Delete().Before("gorm:delete").Register("c13:tx2fault", func(tx *gorm.DB) {
		in := w.inj
		if in == nil || (in.mode != "tx2err" && in.mode != "failtx2") {
			return
		}
		switch tx.Statement.Table {
		case "did_change_log", "did_document_version", "did":
			in.fired = true
			_ = tx.AddError(errC13DB)
		}
	}); err != nil {
		t.Fatal(err)
	}

	opsF, err := os.Create(filepath.Join(outDir, "ops.jsonl"))
	if err != nil {
		t.Fatal(err)
	}
	defer opsF.Close()
	implF, err := os.Create(filepath.Join(outDir, "impl.out"))
	if err != nil {
		t.Fatal(err)
	}
	defer implF.Close()
	ops, impl := bufio.NewWriter(opsF), bufio.NewWriter(implF)
	defer ops.Flush()
	defer impl.Flush()
	// watchdog: an event that hangs (e.g. a connection that is never given back) is an outcome with a replay, not a hung check
	var curEv *c13Ev
	var curStart time.Time
	go func() {
		for {
			time.Sleep(200 * time.Millisecond)
			if ev := curEv; ev != nil && time.Since(curStart) > 90*time.Second {
				b, _ := json.Marshal(*ev)
				ops.Write(b)
				ops.WriteString("\n")
				impl.WriteString("hang log=0 keys=0 list=ok\n")
				ops.Flush()
				impl.Flush()
				os.Exit(0)
			}
		}
	}()
	exec := func(evs []c13Ev) {
		for _, ev := range evs {
			e := ev
			curStart, curEv = time.Now(), &e
			done, line := w.runSafe(ev)
			curEv = nil
			b, _ := json.Marshal(done)
			ops.Write(b)
			ops.WriteString("\n")
			impl.WriteString(line + "\n")
		}
	}

	if replay := os.Getenv("VERIF_REPLAY"); replay != "" {
		evs, err := c13ReadEvents(replay)
		if err != nil {
			t.Fatal(err)
		}
		exec(evs)
		return
	}
	if corpus := os.Getenv("VERIF_CORPUS"); corpus != "" {
		files, _ := filepath.Glob(filepath.Join(corpus, "*.jsonl"))
		sort.Strings(files)
		for _, f := range files {
			evs, err := c13ReadEvents(f)
			if err != nil {
				t.Fatal(err)
			}
			exec(evs)
		}
	}
	rng := rand.New(rand.NewSource(seed*7919 + 13))
	g := &c13Gen{rng: rng}
	// fixed sequences, every cut point, every configuration
	fixed := [][]c13Ev{
		{do("create", "s1", "", "")},
		{do("create", "s1", "", ""), do("addsvc", "s1", "A", ""), do("addkey", "s1", "", ""), do("deact", "s1", "", "")},
		{do("create", "s1", "", ""), do("addsvc", "s1", "A", ""), do("updsvc", "s1", "A", "B"), do("delsvc", "s1", "B", ""), do("delsvc", "s1", "C", "")},
	}
	// idempotent repeats: the second attempt writes a version whose content equals the latest one; did:nuts refuses a repeated
	// deactivation, so that one FAILS at the publish step. Every cut for the short one, fault-free for the long one.
	repeats := []c13Ev{do("create", "s1", "", ""), do("deact", "s1", "", ""), do("deact", "s1", "", "")}
	longRepeats := []c13Ev{do("create", "s1", "", ""), do("addsvc", "s1", "A", ""), do("addsvc", "s1", "A", ""), do("delsvc", "s1", "A", ""), do("delsvc", "s1", "A", ""),
		do("updsvc", "s1", "B", "B"), do("updsvc", "s1", "B", "B"), do("deact", "s1", "", ""), do("deact", "s1", "", ""), do("deact", "s1", "", "")}
	for c, m := range c13Configs {
		for _, v := range c13Variants(fmt.Sprintf("p%d", c), repeats, m, rng, true) {
			exec(v)
		}
		exec(c13Variants(fmt.Sprintf("q%d", c), longRepeats, m, rng, false)[0])
	}
	// v1 naming (NutsLegacyNamingOption): the subject name is only known once the did:nuts document exists; which method the
	// MethodManagers map visits first is random, so many rounds (fault-free; both methods, then the single-method nodes)
	// (Go starts a map iteration at a random slot of the bucket: with two keys the one inserted first comes first in 7 of 8 runs.
	// The managers are therefore registered in both insertion orders, alternating.)
	for round := 0; round < 18; round++ {
		m := c13Configs[0]
		if round%2 == 1 {
			m = []string{"web", "nuts"}
		}
		if round >= 16 {
			m = c13Configs[round-15]
		}
		legacy := []c13Ev{do("createleg", "L", "", ""), do("addsvc", "L", "A", ""), do("addkey", "L", "", ""), do("deact", "L", "", "")}
		exec(c13Variants(fmt.Sprintf("l%d", round), legacy, m, rng, false)[0])
	}
	rng2 := rand.New(rand.NewSource(seed*7919 + 77)) // own stream: the older worlds keep their inputs
	c13RequestWorlds(rng2, thorough, exec)
	c13CleanupWorlds(rng2, thorough, exec)
	c13SortWorld(rng2, thorough, exec)
	c13CtxWorlds(thorough, exec)
	c13NameWorlds(thorough, exec)
	for i, seq := range fixed {
		for c, m := range c13Configs {
			// every cut with both methods; on the single-method nodes every cut of the create, a third of the cuts of the longer ones (quick)
			for _, v := range c13Variants(fmt.Sprintf("f%d.%d", i, c), seq, m, rng, thorough || c == 0 || i == 0) {
				exec(v)
			}
		}
	}
	for i := 0; i < nSeq; i++ {
		seq := g.baseSeq(6)
		m := c13Configs[0]
		if r := rng.Intn(6); r == 4 {
			m = c13Configs[1]
		} else if r == 5 {
			m = c13Configs[2]
		}
		for _, v := range c13Variants(fmt.Sprintf("r%d", i), seq, m, rng, thorough) {
			exec(v)
		}
	}
}

// ---- request layer: option lists, key-agreement refusals, preferred order ------------------------------------------------

func copt(u string, opts ...string) c13Ev {
	return c13Ev{Op: "do", Kind: "createopt", U: u, Subj: u, Opts: opts, Fault: "none"}
}

var c13Prefs = []string{"", "web,nuts", "-", "web", "nuts", "key,web", "nuts,web,nuts", "web,nuts,web,key"}

// c13RequestWorlds: `Create` with every shape of option list (names that exist / are free / are ill-formed, v1 naming before and
// after a name, the encryption-key option, an unknown option, repeats), `AddVerificationMethod` with a key-agreement usage, on
// every configuration and with varying `PreferredOrder`; a refused request must leave everything as it was.
func c13RequestWorlds(rng *rand.Rand, thorough bool, exec func([]c13Ev)) {
	bad := []string{"s:", "s:a:b", "s:did:nuts:x", "s:a b", "s:a\n", "s:\u00e9", "s:a/b", "s:a+b", "s:a,b", "s:@", "s:[", "s:a~", "s:^", "s:`", "s:{", "s:a|b"}
	good := []string{"s:s1", "s:s2", "s:s3", "s:A.b_c-9", "s:-", "s:_", "s:.", "s:Zz09", "s:azAZ"}
	n := 0
	world := func(methods []string, pref string, evs []c13Ev) {
		n++
		evs = append([]c13Ev{{Op: "cfg", Methods: methods, Pref: pref, Tag: fmt.Sprintf("req:w%d", n)}}, evs...)
		evs = append(evs, c13Ev{Op: "tick", D: 70}, c13Ev{Op: "sweep"})
		exec(evs)
	}
	q := 0
	u := func() string { q++; return fmt.Sprintf("q%d", q) }
	for ci, m := range [][]string{{"nuts", "web"}, {"web", "nuts"}, {"nuts"}, {"web"}} {
		pref := c13Prefs[(ci*3)%len(c13Prefs)]
		fixed := []c13Ev{
			copt(u(), "s:s1"), copt(u(), "s:s1"), copt(u(), "s:s1", "legacy"), copt(u(), "legacy", "s:s2"), copt(u(), "s:s2"),
			do("addkeyka", "s1", "", ""), do("addsvc", "s1", "A", ""), do("addkeyka", "nobody", "", ""),
			copt(u(), "enc"), copt(u(), "s:s3", "enc"), copt(u(), "enc", "s:s1"), copt(u(), "unk"), copt(u(), "s:s3", "unk"), copt(u(), "unk", "s:s3"),
			copt(u(), "s:s3", "s:s4"), copt(u(), "s:s3"), copt(u(), "s:s4"), copt(u(), "s:s5", "s:a:b"), copt(u(), "s:a:b", "s:s5"), copt(u(), "s:s5"),
			copt(u()), copt(u(), "legacy"), copt(u(), "legacy", "legacy", "enc"),
			do("addkey", "s1", "", ""), do("addkeyka", "s1", "", ""), do("deact", "s2", "", ""), do("addkeyka", "s2", "", ""),
		}
		world(m, pref, fixed)
		// ill-formed and well-formed names, one world
		var names []c13Ev
		for _, b := range bad {
			names = append(names, copt(u(), b))
		}
		for _, g := range good {
			names = append(names, copt(u(), g))
		}
		if thorough || ci == 0 || ci == 3 {
			world(m, c13Prefs[(ci*3+1)%len(c13Prefs)], names)
		}
		// a did:nuts Commit failure / a stop on a Create with options: nothing stays, the name can be taken afterwards
		for _, f := range []struct {
			f string
			k int
		}{{"fail", 0}, {"stop", 0}, {"stop", 1}, {"stop", 2}, {"logerr", 0}, {"logstop", 1}} {
			if !thorough && rng.Intn(3) != 0 {
				continue
			}
			e := copt(u(), "s:s1")
			e.Fault, e.K = f.f, f.k
			// the same cut on AddVerificationMethod with a key-agreement usage (an operation where did:web is off, a refusal elsewhere)
			ka := do("addkeyka", "s1", "", "")
			ka.Fault, ka.K = f.f, f.k
			world(m, c13Prefs[rng.Intn(len(c13Prefs))], []c13Ev{copt(u(), "s:s1"), ka, {Op: "tick", D: 70}, {Op: "sweep"}, do("addkeyka", "s1", "", ""), do("addkey", "s1", "", "")})
			world(m, c13Prefs[rng.Intn(len(c13Prefs))], []c13Ev{do("addsvc", "s1", "A", ""), e, {Op: "tick", D: 70}, {Op: "sweep"}, copt(u(), "s:s1"), do("addkeyka", "s1", "", ""), do("addsvc", "s1", "B", "")})
		}
	}
	rounds := 4
	if thorough {
		rounds = 60
	}
	pool := append(append([]string{"enc", "legacy", "unk", "legacy", "s:s1", "s:s2"}, good...), bad[:6]...)
	for r := 0; r < rounds; r++ {
		m := [][]string{{"nuts", "web"}, {"web", "nuts"}, {"nuts"}, {"web"}}[rng.Intn(4)]
		var evs []c13Ev
		for i := 0; i < 8+rng.Intn(8); i++ {
			switch p := rng.Intn(10); {
			case p < 6:
				var opts []string
				for k := rng.Intn(4); k > 0; k-- {
					opts = append(opts, pool[rng.Intn(len(pool))])
				}
				evs = append(evs, copt(u(), opts...))
			case p < 8:
				evs = append(evs, do("addkeyka", []string{"s1", "s2", "s3"}[rng.Intn(3)], "", ""))
			case p < 9:
				evs = append(evs, do("addsvc", []string{"s1", "s2"}[rng.Intn(2)], []string{"A", "B"}[rng.Intn(2)], ""))
			default:
				evs = append(evs, do("addkey", []string{"s1", "s2"}[rng.Intn(2)], "", ""))
			}
		}
		world(m, c13Prefs[rng.Intn(len(c13Prefs))], evs)
	}
}

// c13SortWorld: sortDIDsByMethod / sortDIDDocumentsByMethod on lists of DIDs of up to five methods (pairwise different methods: the only
// inputs on which Go's unspecified sort.Slice is determined — theorem list_dids_order_unique —, plus repeats of one and the same DID)
// under preferred orders with unlisted, repeated and foreign entries.
func c13SortWorld(rng *rand.Rand, thorough bool, exec func([]c13Ev)) {
	methods := []string{"nuts", "web", "key", "jwk", "x509"}
	prefPool := []string{"nuts", "web", "key", "jwk", "x509", "other"}
	n := 60
	if thorough {
		n = 1500
	}
	evs := []c13Ev{{Op: "cfg", Methods: []string{"nuts", "web"}, Tag: "sort:0"}}
	for i := 0; i < n; i++ {
		var pref []string
		for k := rng.Intn(5); k > 0; k-- {
			pref = append(pref, prefPool[rng.Intn(len(prefPool))])
		}
		p := strings.Join(pref, ",")
		if len(pref) == 0 {
			p = "-"
			if rng.Intn(3) == 0 {
				p = ""
			}
		}
		perm := rng.Perm(len(methods))
		ev := c13Ev{Op: "sort", Pref: p}
		for _, mi := range perm[:rng.Intn(len(methods)+1)] {
			m := methods[mi]
			id := "did:" + m + ":" + fmt.Sprintf("%c%d", 'a'+rng.Intn(26), rng.Intn(100))
			ev.Methods, ev.IDs = append(ev.Methods, m), append(ev.IDs, id)
			if rng.Intn(6) == 0 { // the same DID once more (another document with that ID)
				ev.Methods, ev.IDs = append(ev.Methods, m), append(ev.IDs, id)
			}
		}
		if rng.Intn(2) == 0 {
			rng.Shuffle(len(ev.IDs), func(a, b int) {
				ev.IDs[a], ev.IDs[b] = ev.IDs[b], ev.IDs[a]
				ev.Methods[a], ev.Methods[b] = ev.Methods[b], ev.Methods[a]
			})
		}
		evs = append(evs, ev)
	}
	exec(evs)
}

// c13CleanupWorlds: the clean-up transaction of an operation fails with a DB error (with and without a failed did:nuts Commit
// before it): the caller gets the DB error, versions and change records stay; an early sweep must not touch them, the sweep past
// the threshold resolves them like a process stop; then the operation is repeated.
func c13CleanupWorlds(rng *rand.Rand, thorough bool, exec func([]c13Ev)) {
	n := 0
	for _, m := range [][]string{{"nuts", "web"}, {"web", "nuts"}, {"nuts"}, {"web"}} {
		ops := []c13Ev{do("create", "s1", "", ""), do("addsvc", "s1", "A", ""), do("addsvc", "s1", "A", ""), do("updsvc", "s1", "A", "B"), do("delsvc", "s1", "A", ""),
			do("addkey", "s1", "", ""), do("deact", "s1", "", "")}
		for oi, op := range ops {
			for _, f := range []string{"tx2err", "failtx2"} {
				if !thorough && rng.Intn(3) != 0 {
					continue
				}
				n++
				evs := []c13Ev{{Op: "cfg", Methods: m, Tag: fmt.Sprintf("tx2:%d:%s", n, f)}}
				if oi > 0 {
					evs = append(evs, do("create", "s1", "", ""), do("addsvc", "s1", "A", ""))
				} else {
					evs = append(evs, do("addsvc", "s1", "Z", "")) // names s1 for the observations
				}
				bad := op
				bad.Fault = f
				evs = append(evs, bad, c13Ev{Op: "sweep"}, c13Ev{Op: "tick", D: 70}, c13Ev{Op: "sweep"}, op, do("addsvc", "s1", "C", ""), c13Ev{Op: "tick", D: 70}, c13Ev{Op: "sweep"})
				exec(evs)
			}
		}
	}
}

// c13CtxWorlds: the request context ends right after did:nuts has published (client disconnect / deadline), before the
// remaining method managers are committed and before the clean-up transaction. Nothing after the first transaction may
// depend on the request being alive: the run must look exactly like the fault-free one (own `plain` world per sequence).
func c13CtxWorlds(thorough bool, exec func([]c13Ev)) {
	seqs := [][]c13Ev{
		{do("create", "s1", "", "")},
		{do("create", "s1", "", ""), do("addsvc", "s1", "A", ""), do("addkey", "s1", "", ""), do("deact", "s1", "", "")},
		{do("create", "s1", "", ""), do("addsvc", "s1", "A", ""), do("updsvc", "s1", "A", "B"), do("delsvc", "s1", "B", ""), do("create", "s2", "", ""), do("addkey", "s2", "", "")},
	}
	cfgs := [][]string{{"nuts", "web"}, {"web", "nuts"}, {"nuts"}}
	for si, seq := range seqs {
		for ci, m := range cfgs {
			if !thorough && ci == 2 && si != 1 {
				continue
			}
			sid := fmt.Sprintf("x%d.%d", si, ci)
			tail := []c13Ev{{Op: "tick", D: 70}, {Op: "sweep"}}
			exec(append(append([]c13Ev{{Op: "cfg", Methods: m, Tag: "plain:" + sid}}, seq...), tail...))
			for j := range seq {
				// the commit order is random per call: two tries per cut
				for try := 0; try < 2; try++ {
					v := append([]c13Ev{{Op: "cfg", Methods: m, Tag: fmt.Sprintf("ctx:%d:%s", j, sid)}}, seq[:j]...)
					bad := seq[j]
					bad.Fault = "okctx"
					v = append(v, bad)
					v = append(v, seq[j+1:]...)
					exec(append(v, tail...))
				}
			}
		}
	}
}

// c13NameWorlds: subject names that differ only in case or only where one of them has '_' / '.' / '-' (all allowed by the
// subject pattern; '_' and '%' are wildcards and case is ignored where a store compares with LIKE). Every name is its own subject:
// each gets its own DIDs, and an operation (completed, failed, rolled back, repeated) on one changes nothing of the others.
func c13NameWorlds(thorough bool, exec func([]c13Ev)) {
	fail := func(e c13Ev) c13Ev { e.Fault = "fail"; return e }
	stop := func(e c13Ev, k int) c13Ev { e.Fault, e.K = "stop", k; return e }
	for ci, m := range [][]string{{"nuts", "web"}, {"web", "nuts"}, {"nuts"}, {"web"}} {
		if !thorough && ci == 2 {
			continue
		}
		for vi, names := range [][4]string{{"a_1", "a-1", "A_1", "a.1"}, {"a-1", "a_1", "a.1", "A-1"}, {"Zz_", "zz_", "ZZ_", "zz-"}} {
			if !thorough && vi > 0 && ci > 0 {
				continue
			}
			n0, n1, n2, n3 := names[0], names[1], names[2], names[3]
			evs := []c13Ev{{Op: "cfg", Methods: m, Tag: fmt.Sprintf("names:%d.%d", ci, vi)},
				do("create", n0, "", ""), do("create", n1, "", ""), do("create", n2, "", ""), do("create", n0, "", ""),
				do("addsvc", n0, "A", ""), do("addkey", n1, "", ""),
				fail(do("addsvc", n0, "B", "")), {Op: "tick", D: 70}, {Op: "sweep"}, do("addsvc", n0, "B", ""),
				stop(do("addsvc", n1, "C", ""), 0), {Op: "tick", D: 70}, {Op: "sweep"}, do("addsvc", n1, "C", ""),
				do("create", n3, "", ""), do("updsvc", n2, "A", "B"), do("delsvc", n0, "A", ""), fail(do("addkey", n2, "", "")), do("addkey", n2, "", ""),
				do("deact", n0, "", ""), do("addsvc", n1, "A", ""), do("addsvc", n3, "A", ""), do("deact", n2, "", ""),
				{Op: "tick", D: 70}, {Op: "sweep"}}
			exec(evs)
		}
	}
}

// ---- concurrent-request leg ----------------------------------------------------------------------------------------
// Requests for ONE subject name interleaved at query granularity: a gorm query callback starts the rival request at the
// g-th query of the running request that is not part of an open SQL transaction (the only moments at which the store lets
// another request in); a rival can be interleaved by a third request the same way. If no such moment exists the rival runs
// afterwards. Plus a goroutine variant. Real managers (did:web + did:nuts on the real didstore). One JSON line per scenario.

type c13Gate struct {
	depth   int
	target  []int // per depth: index of the non-transaction query at which the next request starts (-1: none)
	seen    []int
	fired   []bool
	launch  func(depth int)
}

type c13ConcLine struct {
	Scenario string         `json:"scenario"`
	Pre      bool           `json:"pre"` // the subject existed before the interleaved requests
	Gates    []int          `json:"gates"`
	Fired    []bool         `json:"fired"`
	Requests []string       `json:"requests"`
	Results  []string       `json:"results"`
	PerMeth  map[string]int `json:"dids_per_method"`
	Versions []string       `json:"versions"`
	Log      int64          `json:"log"`
}

func TestVerifC13Conc(t *testing.T) {
	logrus.SetLevel(logrus.PanicLevel)
	outDir := os.Getenv("VERIF_OUT")
	if outDir == "" {
		t.Skip("VERIF_OUT not set")
	}
	eng := storage.NewTestStorageEngine(t)
	if err := eng.Start(); err != nil {
		t.Fatal(err)
	}
	db := eng.GetSQLDatabase()
	w := &c13World{t: t, ctx: audit.TestContext(), eng: eng, db: db, ks: nutsCrypto.NewDatabaseCryptoInstance(db),
		store: didstore.TestStore(t, eng)}
	w.reset([]string{"nuts", "web"})
	gate := &c13Gate{}
	if err := db.Callback().Query().After("gorm:after_query").Register("c13:gate", func(tx *gorm.DB) {
		d := gate.depth
		if d >= len(gate.target) || gate.target[d] < 0 || gate.fired[d] {
			return
		}
		if _, inTx := tx.Statement.ConnPool.(gorm.TxCommitter); inTx {
			return
		}
		if gate.seen[d] == gate.target[d] {
			gate.fired[d] = true
			gate.launch(d + 1)
			return
		}
		gate.seen[d]++
	}); err != nil {
		t.Fatal(err)
	}
	f, err := os.Create(filepath.Join(outDir, "conc.jsonl"))
	if err != nil {
		t.Fatal(err)
	}
	defer f.Close()
	do := func(req, subject string) string {
		var err error
		switch req {
		case "create":
			_, _, err = w.mgr.Create(w.ctx, didsubject.DefaultCreationOptions().With(didsubject.SubjectCreationOption{Subject: subject}))
		case "deact":
			err = w.mgr.Deactivate(w.ctx, subject)
		case "addkey":
			_, err = w.mgr.AddVerificationMethod(w.ctx, subject, orm.AssertionKeyUsage())
		case "addsvc":
			_, err = w.mgr.CreateService(w.ctx, subject, c13Service("A"))
		}
		return c13ErrClass(err)
	}
	finish := func(line *c13ConcLine, subject string) {
		line.PerMeth = map[string]int{}
		dids, err := w.mgr.ListDIDs(w.ctx, subject)
		if err == nil {
			for _, id := range dids {
				line.PerMeth[id.Method]++
				var versions []int
				db.Table("did_document_version").Where("did = ?", id.String()).Order("version").Pluck("version", &versions)
				line.Versions = append(line.Versions, fmt.Sprintf("%s%v", id.Method, versions))
			}
		}
		line.Log = w.count("did_change_log")
		b, _ := json.Marshal(line)
		f.Write(append(b, '\n'))
	}
	type scen struct {
		name string
		pre  bool
		reqs []string
	}
	scens := []scen{
		{"create|create", false, []string{"create", "create"}},
		{"create|create|create", false, []string{"create", "create", "create"}},
		{"deact|create", true, []string{"deact", "create"}},
		{"addkey|create", true, []string{"addkey", "create"}},
		{"addsvc|create|create", true, []string{"addsvc", "create", "create"}},
		{"create|deact", false, []string{"create", "deact"}},
	}
	n := 0
	for _, sc := range scens {
		for g0 := 0; g0 < 12; g0++ {
			maxG1 := 0
			if len(sc.reqs) > 2 {
				maxG1 = 2
			}
			anyFired := false
			for g1 := 0; g1 <= maxG1; g1++ {
				n++
				subject := fmt.Sprintf("c%d", n)
				w.freshManagers()
				if sc.pre {
					*gate = c13Gate{}
					if r := do("create", subject); r != "ok" {
						t.Fatalf("pre create: %s", r)
					}
				}
				line := c13ConcLine{Scenario: sc.name, Pre: sc.pre, Requests: sc.reqs, Results: make([]string, len(sc.reqs))}
				targets := []int{g0, -1}
				if len(sc.reqs) > 2 {
					targets = []int{g0, g1, -1}
				}
				*gate = c13Gate{target: targets, seen: make([]int, len(targets)), fired: make([]bool, len(targets))}
				ran := make([]bool, len(sc.reqs))
				var run func(i int)
				run = func(i int) {
					if i >= len(sc.reqs) || ran[i] {
						return
					}
					ran[i] = true
					prev := gate.depth
					gate.depth = i
					line.Results[i] = do(sc.reqs[i], subject)
					gate.depth = prev
					// no moment outside a transaction: the next request comes afterwards
					gate.depth = len(targets)
					run(i + 1)
					gate.depth = prev
				}
				gate.launch = run
				run(0)
				line.Gates = targets[:len(targets)-1]
				line.Fired = gate.fired[:len(targets)-1]
				*gate = c13Gate{}
				finish(&line, subject)
				if line.Fired[0] {
					anyFired = true
				}
			}
			if !anyFired {
				break // the running request has no more moments outside a transaction
			}
		}
	}
	// goroutine variant (scheduling dependent): undecorated real managers
	*gate = c13Gate{}
	for round := 0; round < 4; round++ {
		n++
		subject := fmt.Sprintf("g%d", n)
		w.freshManagers()
		const requests = 6
		results := make([]string, requests)
		start := make(chan struct{})
		doneCh := make(chan struct{}, requests)
		for i := 0; i < requests; i++ {
			go func(i int) {
				defer func() { doneCh <- struct{}{} }()
				<-start
				_, _, err := w.mgr.Create(context.WithoutCancel(w.ctx), didsubject.DefaultCreationOptions().With(didsubject.SubjectCreationOption{Subject: subject}))
				results[i] = c13ErrClass(err)
			}(i)
		}
		close(start)
		for i := 0; i < requests; i++ {
			<-doneCh
		}
		line := c13ConcLine{Scenario: "goroutines:create x6", Requests: []string{"create", "create", "create", "create", "create", "create"}, Results: results}
		finish(&line, subject)
	}
}
