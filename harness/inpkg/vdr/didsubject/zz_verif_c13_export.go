//go:build verif

package didsubject

import "github.com/nuts-foundation/go-did/did"

// add-only export for the C13 correspondence harness (external test package): the two unexported sort helpers

func VerifC13SortDIDs(list []did.DID, methodOrder []string) { sortDIDsByMethod(list, methodOrder) }

func VerifC13SortDocuments(list []did.Document, methodOrder []string) {
	sortDIDDocumentsByMethod(list, methodOrder)
}
