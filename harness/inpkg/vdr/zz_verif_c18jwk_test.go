//go:build verif

package vdr

// C18 deepening round 3: did:jwk on the resolver itself (vdr/didjwk/resolver.go) with hand-built did.DID values, the
// library verdicts on the DECODED bytes computed independently of the resolver, and a generator that walks the decision
// table: encoding shape (raw std / padded / URL alphabet / CR LF / left-over character / dirty trailing bits / foreign
// characters) x key text (public EC / OKP / RSA, private keys, symmetric, off-curve and over-long EC coordinates, no key).

import (
	"crypto/ecdsa"
	"crypto/ed25519"
	"crypto/elliptic"
	"crypto/rsa"
	"encoding/base64"
	"encoding/hex"
	"encoding/json"
	"errors"
	"fmt"
	"math/big"
	"math/rand"
	"reflect"
	"strings"
	"time"

	godid "github.com/nuts-foundation/go-did"
	"github.com/lestrrat-go/jwx/v2/jwk"
	"github.com/nuts-foundation/go-did/did"
	"github.com/nuts-foundation/nuts-node/crypto/hash"
	"github.com/nuts-foundation/nuts-node/storage/orm"
	"github.com/nuts-foundation/nuts-node/vdr/didjwk"
	"github.com/nuts-foundation/nuts-node/vdr/didsubject"
	"github.com/nuts-foundation/nuts-node/vdr/resolver"
)

type wJwkLib struct {
	Parse     bool `json:"parse,omitempty"`
	RawErr    bool `json:"rawerr,omitempty"`
	Priv      bool `json:"priv,omitempty"`
	PubRawErr bool `json:"pubrawerr,omitempty"`
	EC        bool `json:"ec,omitempty"`
	OnCurve   bool `json:"oncurve,omitempty"`
	VMErr     bool `json:"vmerr,omitempty"`
}

func wJwkClass(err string) string {
	switch {
	case strings.Contains(err, "unsupported DID method"):
		return "method"
	case strings.Contains(err, "failed to decode base64"):
		return "base64"
	case strings.Contains(err, "failed to parse JWK"):
		return "parse"
	case strings.Contains(err, "rawPrivateKeyOf() failed"):
		return "rawpriv"
	case strings.Contains(err, "private keys are forbidden"):
		return "private"
	case strings.Contains(err, "failed to get PublicRawKeyOf"):
		return "pubraw"
	case strings.Contains(err, "not a point on its curve"):
		return "curve"
	case strings.Contains(err, "failed to create verification method"):
		return "vm"
	}
	return "other:" + err
}

// wOnCurve: 0 <= x,y < p and y^2 = x^3 - 3x + b (mod p), with plain big.Int arithmetic
func wOnCurve(k *ecdsa.PublicKey) bool {
	if k.X == nil || k.Y == nil {
		return false
	}
	pr := k.Curve.Params()
	if k.X.Sign() < 0 || k.Y.Sign() < 0 || k.X.Cmp(pr.P) >= 0 || k.Y.Cmp(pr.P) >= 0 {
		return false
	}
	l := new(big.Int).Mul(k.Y, k.Y)
	l.Mod(l, pr.P)
	rr := new(big.Int).Mul(k.X, k.X)
	rr.Mul(rr, k.X)
	rr.Sub(rr, new(big.Int).Mul(big.NewInt(3), k.X))
	rr.Add(rr, pr.B)
	rr.Mod(rr, pr.P)
	return l.Cmp(rr) == 0
}

// wJwkVerdicts: what the libraries say about the decoded bytes (jwx parser, raw keys, go-did), not using the resolver
func wJwkVerdicts(id did.DID, raw []byte) (lib *wJwkLib) {
	lib = &wJwkLib{}
	defer func() {
		if r := recover(); r != nil {
			lib.VMErr = true
		}
	}()
	k, err := jwk.ParseKey(raw)
	if err != nil {
		return
	}
	lib.Parse = true
	var rawKey, rawPub any
	if err := k.Raw(&rawKey); err != nil {
		lib.RawErr = true
		return
	}
	pk, err := jwk.PublicKeyOf(k)
	if err != nil {
		lib.RawErr = true
		return
	}
	if err := pk.Raw(&rawPub); err != nil {
		lib.RawErr = true
		return
	}
	switch rawKey.(type) {
	case *ecdsa.PrivateKey, ed25519.PrivateKey, *rsa.PrivateKey:
		lib.Priv = true
	case *ecdsa.PublicKey, ed25519.PublicKey, *rsa.PublicKey, []byte:
		lib.Priv = false
	default:
		lib.Priv = !reflect.DeepEqual(rawKey, rawPub)
	}
	pub, err := jwk.PublicRawKeyOf(k)
	if err != nil {
		lib.PubRawErr = true
		return
	}
	if ec, ok := pub.(*ecdsa.PublicKey); ok {
		lib.EC = true
		lib.OnCurve = wOnCurve(ec)
		if !lib.OnCurve {
			return
		}
	}
	if lib.Priv {
		return
	}
	kid := did.DIDURL{DID: id}
	kid.Fragment = "0"
	if _, err := did.NewVerificationMethod(kid, godid.JsonWebKey2020, id, pub); err != nil {
		lib.VMErr = true
	}
	return
}

func wExecJwk(op *wOp) string {
	id := did.DID{Method: wunhx(op.M), ID: wunhx(op.ID)}
	raw, derr := base64.RawStdEncoding.DecodeString(id.ID)
	decs := "err"
	op.Lib = &wJwkLib{}
	if derr == nil {
		decs = hex.EncodeToString(raw)
		op.Lib = wJwkVerdicts(id, raw)
	}
	doc, _, err := didjwk.NewResolver().Resolve(id, nil)
	class := "ok"
	if err != nil {
		class = wJwkClass(err.Error())
	} else {
		b := doc.ID.String() == id.String() && (id.Method != "jwk" || wKeyBound(id, doc))
		op.KeyBound = &b
		j, _ := json.Marshal(doc)
		op.Digest = hash.SHA256Sum(j).String()[:12]
		// a second resolver instance, same identifier: same document
		doc2, _, err2 := didjwk.Resolver{}.Resolve(id, nil)
		op.Again = "differs"
		if err2 == nil {
			if j2, _ := json.Marshal(doc2); string(j2) == string(j) {
				op.Again = "same"
			}
		}
	}
	return fmt.Sprintf("jwk %s dec=%s", class, decs)
}

func wB64u(b []byte) string { return base64.RawURLEncoding.EncodeToString(b) }

// wJwkText: a key text of the decision table
func wJwkText(r *rand.Rand) (string, string) {
	seed := make([]byte, 64)
	r.Read(seed)
	curves := []elliptic.Curve{elliptic.P256(), elliptic.P384(), elliptic.P521()}
	names := []string{"P-256", "P-384", "P-521"}
	ci := r.Intn(3)
	ecKey := func() *ecdsa.PrivateKey {
		k, _ := ecdsa.GenerateKey(curves[ci], strings.NewReader(strings.Repeat(string(seed), 16)))
		return k
	}
	marshal := func(raw interface{}) string {
		key, err := jwk.FromRaw(raw)
		if err != nil {
			panic(err)
		}
		b, _ := json.Marshal(key)
		return string(b)
	}
	size := (curves[ci].Params().BitSize + 7) / 8
	pad := func(x *big.Int, n int) []byte { return x.FillBytes(make([]byte, n)) }
	switch r.Intn(16) {
	case 0, 1:
		return marshal(ecKey().Public()), "ec-public"
	case 2:
		return marshal(ed25519.NewKeyFromSeed(seed[:32]).Public()), "okp-public"
	case 3:
		return marshal(ecKey()), "ec-private"
	case 4:
		return marshal(ed25519.NewKeyFromSeed(seed[:32])), "okp-private"
	case 5:
		return fmt.Sprintf(`{"kty":"oct","k":"%s"}`, wB64u(seed[:16])), "oct"
	case 6: // random coordinates: not on the curve
		buf := make([]byte, 2*size)
		r.Read(buf)
		buf[0], buf[size] = 0, 0 // below p
		return fmt.Sprintf(`{"kty":"EC","crv":"%s","x":"%s","y":"%s"}`, names[ci], wB64u(buf[:size]), wB64u(buf[size:])), "ec-off-curve"
	case 7: // a valid point with y + p (same residue, out of range) or with a leading extra byte
		k := ecKey()
		y := new(big.Int).Add(k.Y, curves[ci].Params().P)
		if r.Intn(2) == 0 {
			return fmt.Sprintf(`{"kty":"EC","crv":"%s","x":"%s","y":"%s"}`, names[ci], wB64u(pad(k.X, size)), wB64u(y.Bytes())), "ec-y-plus-p"
		}
		return fmt.Sprintf(`{"kty":"EC","crv":"%s","x":"%s","y":"%s"}`, names[ci], wB64u(append([]byte{1}, pad(k.X, size)...)), wB64u(pad(k.Y, size))), "ec-x-overlong"
	case 8: // valid point, private scalar added by hand (member order differs from the library's)
		k := ecKey()
		return fmt.Sprintf(`{"d":"%s","kty":"EC","crv":"%s","x":"%s","y":"%s"}`, wB64u(pad(k.D, size)), names[ci], wB64u(pad(k.X, size)), wB64u(pad(k.Y, size))), "ec-private-hand"
	case 9: // point on ANOTHER curve than the one named
		k := ecKey()
		return fmt.Sprintf(`{"kty":"EC","crv":"%s","x":"%s","y":"%s"}`, names[(ci+1)%3], wB64u(pad(k.X, size)), wB64u(pad(k.Y, size))), "ec-other-curve"
	case 10:
		n := make([]byte, 128)
		r.Read(n)
		n[0] |= 0x80
		n[127] |= 1
		if r.Intn(2) == 0 {
			return fmt.Sprintf(`{"kty":"RSA","n":"%s","e":"AQAB"}`, wB64u(n)), "rsa-public"
		}
		return fmt.Sprintf(`{"kty":"RSA","n":"%s","e":"AQAB","d":"%s"}`, wB64u(n), wB64u(seed)), "rsa-private-partial"
	case 11:
		return []string{`{}`, `not json`, `{"kty":"EC"}`, `{"kty":"XX","x":"AA"}`, `[]`, `{"kty":"EC","crv":"P-256","x":"AA"}`, `{"kty":"OKP","crv":"Ed25519","x":"AA"}`, ``, `null`, `"kty"`}[r.Intn(10)], "no-key"
	case 12:
		k := ecKey()
		return fmt.Sprintf(`{"kty":"EC","crv":"%s","x":"%s","y":"%s","use":"sig","kid":"k%d"}`, names[ci], wB64u(pad(k.X, size)), wB64u(pad(k.Y, size)), r.Intn(9)), "ec-public-extra-members"
	case 13: // x = 0 / y = 0 / empty coordinates
		return fmt.Sprintf(`{"kty":"EC","crv":"%s","x":"%s","y":"%s"}`, names[ci], []string{"", "AA", wB64u(make([]byte, size))}[r.Intn(3)], []string{"", "AA", wB64u(make([]byte, size))}[r.Intn(3)]), "ec-zero"
	}
	return marshal(ecKey().Public()), "ec-public"
}

func wJwkSystematic(r *rand.Rand) wOp {
	text, kind := wJwkText(r)
	id := base64.RawStdEncoding.EncodeToString([]byte(text))
	shape := "raw-std"
	method := "jwk"
	switch r.Intn(14) {
	case 0:
		id, shape = base64.StdEncoding.EncodeToString([]byte(text)), "padded"
	case 1:
		// make sure the URL alphabet shows: '>' and '?' bytes encode to '+' / '/' resp. '-' / '_'
		text2 := strings.Replace(text, "{", "{ \"a\":\">>>???\",", 1)
		id, shape = base64.RawURLEncoding.EncodeToString([]byte(text2)), "url-alphabet"
	case 2:
		p := r.Intn(len(id) + 1)
		id, shape = id[:p]+[]string{"\n", "\r", "\r\n"}[r.Intn(3)]+id[p:], "crlf-inside"
	case 3:
		id, shape = id+string("ABCDwxyz0189+/"[r.Intn(14)]), "one-more-character"
	case 4:
		if len(id)%4 != 0 && len(id) > 0 { // other low bits in the last character
			const alpha = "ABCDEFGHIJKLMNOPQRSTUVWXYZabcdefghijklmnopqrstuvwxyz0123456789+/"
			i := strings.IndexByte(alpha, id[len(id)-1])
			id, shape = id[:len(id)-1]+string(alpha[i|1+r.Intn(2)]), "dirty-trailing-bits"
		}
	case 5:
		p := r.Intn(len(id) + 1)
		id, shape = id[:p]+string(" %.=-_~:\x00\xff"[r.Intn(10)])+id[p:], "foreign-character"
	case 6:
		method, shape = []string{"key", "JWK", "jwk ", "web", ""}[r.Intn(5)], "other-method"
	case 7:
		if len(id) > 4 {
			id, shape = id[:len(id)-1-r.Intn(3)], "truncated"
		}
	}
	return wOp{Op: "jwk", M: whx(method), ID: whx(id), Tag: "jwk-systematic:" + shape + ":" + kind}
}

// ---------- vdr/resolver/did.go as general code: chains of any length, router registrations (scripted member resolvers)

type wStub struct {
	out   string
	idx   int
	asked *[]int
}

func (s wStub) Resolve(id did.DID, _ *resolver.ResolveMetadata) (*did.Document, *resolver.DocumentMetadata, error) {
	*s.asked = append(*s.asked, s.idx)
	switch s.out {
	case "ok":
		return &did.Document{ID: id, Service: []did.Service{{Type: fmt.Sprint(s.idx)}}}, &resolver.DocumentMetadata{}, nil
	case "nf":
		return nil, nil, resolver.ErrNotFound
	case "nfw":
		return nil, nil, fmt.Errorf("lookup of %s: %w", id, resolver.ErrNotFound)
	case "deact":
		return nil, nil, resolver.ErrDeactivated
	case "deactw":
		return nil, nil, fmt.Errorf("wrapped: %w", resolver.ErrDeactivated)
	case "noctl":
		return nil, nil, resolver.ErrNoActiveController
	case "unsup":
		return nil, nil, resolver.ErrDIDMethodNotSupported
	}
	return nil, nil, errors.New("storage: connection lost")
}

func wStubResult(doc *did.Document, err error, asked []int) string {
	seq := true
	for i, a := range asked {
		seq = seq && a == i
	}
	as := fmt.Sprint(len(asked))
	if !seq {
		as = strings.ReplaceAll(fmt.Sprint(asked), " ", ",")
	}
	if err == nil {
		return fmt.Sprintf("ok:%s asked=%s isdeact=false", doc.Service[0].Type, as)
	}
	cls := "fail:err"
	switch msg := err.Error(); {
	case err == resolver.ErrNotFound:
		cls = "nf"
	case errors.Is(err, resolver.ErrNotFound):
		cls = "nf-wrapped"
	case strings.Contains(msg, "has been deactivated"):
		cls = "fail:deact"
	case strings.Contains(msg, "no active controllers"):
		cls = "fail:noctl"
	case strings.Contains(msg, "not supported"):
		cls = "fail:unsup"
	}
	return fmt.Sprintf("%s asked=%s isdeact=%v", cls, as, errors.Is(err, resolver.ErrDeactivated))
}

func wExecChain(op *wOp) string {
	var asked []int
	var c resolver.ChainedDIDResolver
	for i, o := range op.Outs {
		c.Resolvers = append(c.Resolvers, wStub{out: o, idx: i, asked: &asked})
	}
	doc, _, err := c.Resolve(did.DID{Method: "web", ID: "chain.example"}, nil)
	return "chain " + wStubResult(doc, err, asked)
}

func wExecRouter(op *wOp) string {
	var asked []int
	r := &resolver.DIDResolverRouter{}
	for i, g := range op.Regs {
		r.Register(wunhx(g.M), wStub{out: g.Out, idx: i, asked: &asked})
	}
	doc, _, err := r.Resolve(did.DID{Method: wunhx(op.M), ID: "router.example"}, nil)
	if errors.Is(err, resolver.ErrDIDMethodNotSupported) && len(asked) == 0 {
		return "router unsupported"
	}
	res := wStubResult(doc, err, nil)
	return fmt.Sprintf("router %s asked=%s", strings.Split(res, " ")[0], strings.ReplaceAll(fmt.Sprint(asked), " ", ","))
}

func wChainOps(r *rand.Rand, n int) []wOp {
	var ops []wOp
	outs := []string{"nf", "nf", "nf", "nfw", "nfw", "ok", "ok", "deact", "deactw", "noctl", "err", "unsup"}
	methods := []string{"web", "web", "web", "WEB", "Web", "web ", "jwk", "nuts", ""}
	for k := 0; k < n; k++ {
		if r.Intn(3) != 0 {
			op := wOp{Op: "chain", Tag: "chain"}
			for l := r.Intn(5); l > 0; l-- { // a run of members that do not know the DID first
				op.Outs = append(op.Outs, []string{"nf", "nfw"}[r.Intn(2)])
			}
			for l := r.Intn(4); l > 0; l-- {
				op.Outs = append(op.Outs, outs[r.Intn(len(outs))])
			}
			ops = append(ops, op)
			continue
		}
		op := wOp{Op: "router", Tag: "router", M: whx(methods[r.Intn(len(methods))])}
		for l := r.Intn(6); l > 0; l-- {
			op.Regs = append(op.Regs, wReg{M: whx(methods[r.Intn(len(methods))]), Out: []string{"ok", "ok", "nf", "deact", "err"}[r.Intn(5)]})
		}
		if len(op.Regs) > 0 && r.Intn(3) != 0 { // mostly a method that IS registered (possibly several times, possibly case variants too)
			op.M = op.Regs[r.Intn(len(op.Regs))].M
		}
		ops = append(ops, op)
	}
	return ops
}

// ---------- resolution at a point in time: didsubject.Resolver with ResolveMetadata.ResolveTime on the node's SQL store

type wVer struct {
	A bool  `json:"a"`
	T int64 `json:"t"` // updated_at, seconds after the base
}

var wRTBase = time.Now().Unix() - 5000000
var wRTSeen = map[*wNode]map[string]bool{}

func wExecRTime(n *wNode, op *wOp) string {
	id := did.DID{Method: "web", ID: wunhx(op.ID)}
	if wRTSeen[n] == nil {
		wRTSeen[n] = map[string]bool{}
	}
	if !wRTSeen[n][id.String()] {
		wRTSeen[n][id.String()] = true
		for i, v := range op.Vers {
			var vms []orm.VerificationMethod
			if v.A {
				vms = []orm.VerificationMethod{{ID: fmt.Sprintf("%s#k%d", id.String(), i), KeyTypes: 31, Data: []byte("{}")}}
			}
			ver, err := n.db.CreateOrUpdate(orm.DID{ID: id.String(), Subject: "s-" + id.String()}, vms, nil)
			if err != nil {
				panic("sql create: " + err.Error())
			}
			if err := n.gdb.Model(&orm.DidDocument{}).Where("id = ?", ver.ID).Update("updated_at", wRTBase+v.T).Error; err != nil {
				panic("sql stamp: " + err.Error())
			}
		}
	}
	var md *resolver.ResolveMetadata
	if op.At != nil {
		ts := time.Unix(wRTBase+*op.At, 0)
		md = &resolver.ResolveMetadata{ResolveTime: &ts, AllowDeactivated: op.Allow}
	} else if op.Allow {
		md = &resolver.ResolveMetadata{AllowDeactivated: true}
	}
	doc, meta, err := didsubject.Resolver{DB: n.gdb}.Resolve(id, md)
	if err != nil {
		return "rtime err:" + wErr(err)
	}
	return fmt.Sprintf("rtime ok:%s:%d:%v", whx(doc.ID.String()), meta.Updated.Unix()-wRTBase, meta.Deactivated)
}

func wRTimeOps(r *rand.Rand, n int, node int) []wOp {
	var ops []wOp
	for k := 0; k < n; k++ {
		var vers []wVer
		t := int64(r.Intn(50))
		for l := 1 + r.Intn(4); l > 0; l-- {
			vers = append(vers, wVer{A: r.Intn(3) != 0, T: t})
			switch r.Intn(6) {
			case 0: // same second
			case 1: // a later version stamped EARLIER (clock of another instance behind)
				t -= int64(1 + r.Intn(20))
				if t < 0 {
					t = 0
				}
			default:
				t += int64(1 + r.Intn(100))
			}
		}
		id := fmt.Sprintf("rt%d-%d.example:T", node, k)
		for q := 0; q < 3; q++ {
			op := wOp{Op: "rtime", ID: whx(id), Vers: vers, Allow: r.Intn(3) == 0, Tag: "web-resolve-time"}
			switch r.Intn(5) {
			case 0: // no resolve time: latest
			case 1:
				at := vers[r.Intn(len(vers))].T // exactly the second of a version
				op.At = &at
			case 2:
				at := vers[r.Intn(len(vers))].T - 1
				op.At = &at
			default:
				at := int64(r.Intn(int(t) + 60))
				op.At = &at
			}
			ops = append(ops, op)
		}
	}
	return ops
}
