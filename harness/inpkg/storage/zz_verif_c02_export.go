//go:build verif

package storage

// Add-only helper for the C02/C05 correspondence harnesses (injected with `go test -overlay`, never written to /repo).
// The in-memory session database is the real one (SessionStoreImpl over eko/gocache over patrickmn/go-cache);
// the helper only keeps a handle on the go-cache client so a harness can AGE the stored entries: advancing the clock
// by d is realised by moving every entry's expiry d earlier (time translation). time.Now() itself cannot be
// replaced in this code base.

import (
	"context"
	"fmt"
	"time"

	"github.com/eko/gocache/lib/v4/store"

	"github.com/eko/gocache/lib/v4/cache"
	"github.com/eko/gocache/store/go_cache/v4"
	gocacheclient "github.com/patrickmn/go-cache"
)

// VerifSessionDB is an InMemorySessionDatabase plus a handle on its go-cache client.
type VerifSessionDB struct {
	*InMemorySessionDatabase
	client *gocacheclient.Cache
}

// NewVerifSessionDB builds the database exactly like NewInMemorySessionDatabase does.
func NewVerifSessionDB() *VerifSessionDB {
	client := gocacheclient.New(defaultSessionDataTTL, sessionStorePruneInterval)
	return &VerifSessionDB{
		InMemorySessionDatabase: &InMemorySessionDatabase{underlying: cache.New[[]byte](go_cache.NewGoCache(client))},
		client:                  client,
	}
}

// Age makes every stored entry d older: its expiry moves d earlier, entries whose expiry passes are dropped
// (exactly what go-cache would answer after d has elapsed). rewrite may adjust time stamps inside a value.
func (v *VerifSessionDB) Age(d time.Duration, rewrite func(fullKey string, value []byte) []byte) {
	now := time.Now().UnixNano()
	for k, item := range v.client.Items() {
		if item.Expiration == 0 {
			continue
		}
		remaining := item.Expiration - now - int64(d)
		if remaining <= 0 {
			v.client.Delete(k)
			continue
		}
		val := item.Object
		if b, ok := val.([]byte); ok && rewrite != nil {
			val = rewrite(k, b)
		}
		v.client.Set(k, val, time.Duration(remaining))
	}
}

// Keys lists the full keys of all unexpired entries (for store-content observation).
func (v *VerifSessionDB) Keys() []string {
	var res []string
	for k := range v.client.Items() {
		res = append(res, k)
	}
	return res
}

// ---- gated session database (schedule exploration) ---------------------------------------------------------------------
// VerifGatedSessionDB is a pass-through wrapper around a real SessionDatabase: every SessionStore METHOD call is announced
// to Gate (store prefix, method name, key) before it is forwarded unchanged. A harness uses the announcement to park the
// calling goroutine and so to force a particular interleaving of two requests. One method call is one atomic step - which is
// what the mutex inside GetAndDelete / PutIfAbsent guarantees (C05); Get followed by Delete are two steps.

type VerifGatedSessionDB struct {
	Inner SessionDatabase
	Gate  func(prefix string, method string, key string)
}

func (d *VerifGatedSessionDB) GetStore(ttl time.Duration, keys ...string) SessionStore {
	prefix := ""
	for i, k := range keys {
		if i > 0 {
			prefix += "/"
		}
		prefix += k
	}
	return verifGatedStore{inner: d.Inner.GetStore(ttl, keys...), prefix: prefix, db: d}
}

func (d *VerifGatedSessionDB) getFullKey(prefixes []string, key string) string {
	return d.Inner.getFullKey(prefixes, key)
}

func (d *VerifGatedSessionDB) Close() { d.Inner.Close() }

type verifGatedStore struct {
	inner  SessionStore
	prefix string
	db     *VerifGatedSessionDB
}

func (s verifGatedStore) gate(method, key string) {
	if s.db.Gate != nil {
		s.db.Gate(s.prefix, method, key)
	}
}

func (s verifGatedStore) Delete(key string) error { s.gate("Delete", key); return s.inner.Delete(key) }
func (s verifGatedStore) Exists(key string) bool  { s.gate("Exists", key); return s.inner.Exists(key) }
func (s verifGatedStore) Get(key string, target interface{}) error {
	s.gate("Get", key)
	return s.inner.Get(key, target)
}
func (s verifGatedStore) Put(key string, value interface{}, options ...SessionOption) error {
	s.gate("Put", key)
	return s.inner.Put(key, value, options...)
}
func (s verifGatedStore) GetAndDelete(key string, target interface{}) error {
	s.gate("GetAndDelete", key)
	return s.inner.GetAndDelete(key, target)
}
func (s verifGatedStore) PutIfAbsent(key string, value interface{}, options ...SessionOption) (bool, error) {
	s.gate("PutIfAbsent", key)
	return s.inner.PutIfAbsent(key, value, options...)
}


// ---- gated underlying cache (C02 wave 9) --------------------------------------------------------------------------------------
// NewVerifGatedCacheDB is the real InMemorySessionDatabase (real GetStore, real SessionStoreImpl methods) over a go-cache client whose
// Get / Set are announced to gate before they are forwarded unchanged: a harness can park a request BETWEEN the Get and the Put that
// PutIfAbsent / GetAndDelete consist of, which is where the database-wide mutex has to keep other requests out.
type verifGatedCache struct {
	store.StoreInterface
	gate func(method, key string)
}

func (g verifGatedCache) Get(ctx context.Context, key any) (any, error) {
	g.gate("Get", fmt.Sprint(key))
	return g.StoreInterface.Get(ctx, key)
}

func (g verifGatedCache) Set(ctx context.Context, key any, value any, options ...store.Option) error {
	g.gate("Set", fmt.Sprint(key))
	return g.StoreInterface.Set(ctx, key, value, options...)
}

func NewVerifGatedCacheDB(gate func(method, key string)) *InMemorySessionDatabase {
	client := gocacheclient.New(defaultSessionDataTTL, sessionStorePruneInterval)
	return &InMemorySessionDatabase{underlying: cache.New[[]byte](verifGatedCache{go_cache.NewGoCache(client), gate})}
}
