//go:build verif

package storage

import (
	"fmt"
	"math/rand"
	"os"
	"path/filepath"
	"sort"
	"strconv"
	"strings"
	"testing"
	"time"
)

// ---- the consumers of one-time secrets, written call for call like auth/api/iam (the store-call sequence of the
// real functions is a regenerated fact compared with the model's programs; the real handlers are driven by the
// iam-level harness).  Here they run on the real SessionStoreImpl over the real back-end.

var vc05Prefix = map[string][]string{
	"code": {"oauth", "code"}, "reqobj": {"oauth", "requestobject"}, "vpnonce": {"oauth", "nonce"},
	"redirect": {"user", "redirect"}, "s2s": {"s2s", "nonce"}, "jti": {"nonceonce"},
}

func vc05Store(db SessionDatabase, scn *VerifC05Scn, kind string) SessionStore {
	return db.GetStore(time.Duration(scn.TTL[kind])*time.Second, vc05Prefix[kind]...)
}

func vc05Consumer(db func() SessionDatabase, scn *VerifC05Scn, r VerifC05Req) func() string {
	st := func() SessionStore { return vc05Store(db(), scn, r.Kind) }
	check := func(v string) string {
		if v != r.Want {
			return "mismatch"
		}
		if !r.Post {
			return "post-check"
		}
		return "ok"
	}
	switch r.Kind {
	case "code": // openid4vp.go handleAccessTokenRequest
		return func() (res string) {
			defer func() { _ = st().Delete(r.ID) }()
			if !r.Pre {
				return "missing-param"
			}
			var v string
			if err := st().GetAndDelete(r.ID, &v); err != nil {
				return "not-found"
			}
			return check(v)
		}
	case "reqobj": // api.go RequestJWTByGet / RequestJWTByPost
		return func() string {
			var v string
			if err := st().GetAndDelete(r.ID, &v); err != nil {
				return "not-found"
			}
			return check(v)
		}
	case "vpnonce": // openid4vp.go validatePresentationNonce
		return func() string {
			if !r.Pre {
				_ = st().Delete(r.ID)
				return "missing-param"
			}
			var v string
			if err := st().GetAndDelete(r.ID, &v); err != nil {
				return "not-found"
			}
			if v != r.Want {
				return "mismatch"
			}
			return "ok"
		}
	case "redirect": // user.go handleUserLanding
		return func() string {
			var v string
			if err := st().GetAndDelete(r.ID, &v); err != nil {
				return "not-found"
			}
			return "ok"
		}
	case "s2s": // s2s_vptoken.go validateS2SPresentationNonce
		return func() string {
			fresh, err := st().PutIfAbsent(r.ID, true)
			if err != nil {
				return "store-error"
			}
			if !fresh {
				return "used"
			}
			return "ok"
		}
	case "jti": // dpop.go ValidateDPoPProof
		return func() string {
			fresh, err := st().PutIfAbsent(r.ID, struct{}{})
			if err != nil {
				return "store-error"
			}
			if !fresh {
				return "used"
			}
			return "ok"
		}
	}
	return func() string { return "unknown-kind" }
}

func vc05StorageLevel(b *VerifC05Backend, scn *VerifC05Scn) ([]func() string, error) {
	for _, i := range scn.Init {
		var v interface{} = i.Val
		if i.Kind == "s2s" {
			v = true
		} else if i.Kind == "jti" {
			v = struct{}{}
		}
		if err := vc05Store(b.DB, scn, i.Kind).Put(i.ID, v); err != nil {
			return nil, err
		}
	}
	var fns []func() string
	for i, r := range scn.Threads {
		i := i
		fns = append(fns, vc05Consumer(func() SessionDatabase { return b.DBFor(i) }, scn, r))
	}
	return fns, nil
}

var vc05TTL = map[string]int{"code": 60, "reqobj": 900, "vpnonce": 60, "redirect": 5, "s2s": 10, "jti": 900}

func vc05Scn(name, backend string, strict bool, init []VerifC05Init, threads ...VerifC05Req) *VerifC05Scn {
	return &VerifC05Scn{Op: "run", Name: name, Level: "storage", Backend: backend, Strict: strict, TTL: vc05TTL, Init: init, Threads: threads}
}

// request variants per kind: the honest request and the ways a request can fail
func vc05Variants(kind, id string) []VerifC05Req {
	good := VerifC05Req{Kind: kind, ID: id, Want: "clientA", Pre: true, Post: true}
	v := []VerifC05Req{good}
	switch kind {
	case "code":
		v = append(v, VerifC05Req{Kind: kind, ID: id, Want: "clientB", Pre: true, Post: true},
			VerifC05Req{Kind: kind, ID: id, Want: "clientA", Pre: false, Post: true},
			VerifC05Req{Kind: kind, ID: id, Want: "clientA", Pre: true, Post: false})
	case "reqobj":
		v = append(v, VerifC05Req{Kind: kind, ID: id, Want: "clientB", Pre: true, Post: true},
			VerifC05Req{Kind: kind, ID: id, Want: "clientA", Pre: true, Post: false})
	case "vpnonce":
		v = append(v, VerifC05Req{Kind: kind, ID: id, Want: "clientB", Pre: true, Post: true},
			VerifC05Req{Kind: kind, ID: id, Want: "clientA", Pre: false, Post: true})
	}
	return v
}

func TestVerifC05(t *testing.T) {
	outDir := os.Getenv("VERIF_OUT")
	if outDir == "" {
		t.Skip("VERIF_OUT not set")
	}
	seed, _ := strconv.ParseInt(os.Getenv("VERIF_SEED"), 10, 64)
	thorough := os.Getenv("VERIF_TIER") == "thorough"
	maxRuns, _ := strconv.Atoi(os.Getenv("VERIF_MAXRUNS"))
	if maxRuns == 0 {
		maxRuns = 40000
	}
	rng := rand.New(rand.NewSource(seed*7919 + 5))
	w, err := VerifC05NewWriter(outDir)
	if err != nil {
		t.Fatal(err)
	}
	defer w.Close()

	if rp := os.Getenv("VERIF_REPLAY"); rp != "" {
		scns, err := VerifC05ReadScenarios(rp, "storage")
		if err != nil {
			t.Fatal(err)
		}
		for _, s := range scns {
			w.Replay(vc05StorageLevel, s)
		}
		return
	}
	// past witnesses and the Lean witness schedules first
	if cd := os.Getenv("VERIF_CORPUS"); cd != "" {
		files, _ := filepath.Glob(filepath.Join(cd, "*.jsonl"))
		sort.Strings(files)
		for _, fn := range files {
			scns, err := VerifC05ReadScenarios(fn, "storage")
			if err != nil {
				t.Fatalf("%s: %v", fn, err)
			}
			for _, s := range scns {
				w.Replay(vc05StorageLevel, s)
			}
		}
	}

	kinds := []string{"code", "reqobj", "vpnonce", "redirect", "s2s", "jti"}
	var scns, lenScns []*VerifC05Scn
	add := func(s *VerifC05Scn) { scns = append(scns, s) }
	for _, k := range kinds {
		vs := vc05Variants(k, "s1")
		init := []VerifC05Init{{Kind: k, ID: "s1", Val: "clientA"}}
		burn := k != "s2s" && k != "jti"
		// two requests presenting the same secret: every pair of variants, secret present (burn kinds) / fresh (mark kinds)
		for i, a := range vs {
			for _, b := range vs[i:] {
				if burn {
					add(vc05Scn(k+"-2", "mem", false, init, a, b))
				} else {
					add(vc05Scn(k+"-2", "mem", false, nil, a, b))
				}
			}
		}
		// secret absent (burn) / already used (mark)
		if burn {
			add(vc05Scn(k+"-2-absent", "mem", false, nil, vs[0], vs[0]))
		} else {
			add(vc05Scn(k+"-2-used", "mem", false, init, vs[0], vs[0]))
		}
		// a back-end whose Delete reports a missing key (memcached), emulated in the gate
		add(vc05Scn(k+"-2-strict", "mem", true, init, vs[0], vs[rng.Intn(len(vs))]))
		// the redis back-end (in-process miniredis)
		add(vc05Scn(k+"-2-redis", "redis", false, init, vs[0], vs[rng.Intn(len(vs))]))
		// two different secrets do not disturb each other
		other := vc05Variants(k, "s2")[0]
		add(vc05Scn(k+"-2-distinct", "mem", false, append([]VerifC05Init{{Kind: k, ID: "s2", Val: "clientA"}}, init...), vs[0], other))
	}
	// the session database as the real engine builds it (Configure) and hands it out (GetSessionDatabase, called on every access)
	VerifC05Engines["engine-mem"] = NewTestStorageEngine(t)
	engRedis, _ := NewTestStorageEngineRedis(t)
	VerifC05Engines["engine-redis"] = engRedis
	for _, k := range kinds {
		vs := vc05Variants(k, "s1")
		init := []VerifC05Init{{Kind: k, ID: "s1", Val: "clientA"}}
		if k == "s2s" || k == "jti" {
			init = nil
		}
		add(vc05Scn(k+"-2-engine", []string{"engine-mem", "engine-redis"}[rng.Intn(2)], false, init, vs[0], vs[rng.Intn(len(vs))]))
	}
	add(vc05Scn("code-2-engine", "engine-mem", false, []VerifC05Init{{Kind: "code", ID: "s1", Val: "clientA"}}, vc05Variants("code", "s1")[0], vc05Variants("code", "s1")[0]))
	add(vc05Scn("s2s-2-engine", "engine-redis", false, nil, vc05Variants("s2s", "s1")[0], vc05Variants("s2s", "s1")[0]))
	// several nodes sharing one redis: every thread is served by its own node (own in-process mutex)
	for _, k := range kinds {
		vs := vc05Variants(k, "s1")
		init := []VerifC05Init{{Kind: k, ID: "s1", Val: "clientA"}}
		if k == "s2s" || k == "jti" {
			init = nil
		}
		add(vc05Scn(k+"-2-multinode", "redis-multinode", false, init, vs[0], vs[0]))
	}
	// store faults: the Get / Set / Delete of one request fails; nobody may be honoured because of it (fail closed)
	for _, k := range kinds {
		vs := vc05Variants(k, "s1")
		init := []VerifC05Init{{Kind: k, ID: "s1", Val: "clientA"}}
		faults := []string{"get", "del"}
		if k == "s2s" || k == "jti" {
			faults = []string{"get", "set"}
		}
		for _, f := range faults {
			bad := vs[0]
			bad.Fail = f
			if k == "s2s" || k == "jti" {
				add(vc05Scn(k+"-2-fault-"+f, "mem", false, nil, bad, vs[0]))
				add(vc05Scn(k+"-2-fault-"+f+"-used", "mem", false, init, bad, vs[0]))
			} else {
				add(vc05Scn(k+"-2-fault-"+f, "mem", false, init, bad, vs[rng.Intn(len(vs))]))
			}
		}
	}
	// secrets of several length classes, presented twice in a row
	for _, k := range kinds {
		for _, n := range []int{1, 43, 240, 241, 250, 256, 1000} {
			id := strings.Repeat("k", n)
			good := vc05Variants(k, id)[0]
			var init []VerifC05Init
			if k != "s2s" && k != "jti" {
				init = []VerifC05Init{{Kind: k, ID: id, Val: "clientA"}}
			}
			sc := vc05Scn(fmt.Sprintf("%s-2-len%d", k, n), []string{"mem", "redis"}[rng.Intn(2)], false, init, good, good)
			sc.Sched = []int{0, 0, 0, 0, 0, 1, 1, 1, 1, 1}
			lenScns = append(lenScns, sc)
		}
	}
	// mixed kinds presenting the same id (different namespaces)
	add(vc05Scn("mixed-2", "mem", false, []VerifC05Init{{Kind: "code", ID: "s1", Val: "clientA"}}, vc05Variants("code", "s1")[0], vc05Variants("s2s", "s1")[0]))

	// three requests
	var three []*VerifC05Scn
	for _, k := range kinds {
		vs := vc05Variants(k, "s1")
		init := []VerifC05Init{{Kind: k, ID: "s1", Val: "clientA"}}
		if k == "s2s" || k == "jti" {
			init = nil
		}
		three = append(three, vc05Scn(k+"-3", "mem", false, init, vs[0], vs[0], vs[0]))
		if len(vs) > 1 {
			three = append(three, vc05Scn(k+"-3-mixed", "mem", false, init, vs[0], vs[rng.Intn(len(vs))], vs[1+rng.Intn(len(vs)-1)]))
		}
	}
	if thorough {
		scns = append(scns, three...)
		// four requests; requests of different kinds contending for the one database mutex; three nodes on one redis
		for _, k := range kinds {
			vs := vc05Variants(k, "s1")
			init := []VerifC05Init{{Kind: k, ID: "s1", Val: "clientA"}}
			if k == "s2s" || k == "jti" {
				init = nil
			}
			scns = append(scns, vc05Scn(k+"-4", "mem", false, init, vs[0], vs[rng.Intn(len(vs))], vs[0], vs[len(vs)-1]))
			scns = append(scns, vc05Scn(k+"-3-multinode", "redis-multinode", false, init, vs[0], vs[0], vs[rng.Intn(len(vs))]))
			scns = append(scns, vc05Scn(k+"-3-strict", "mem", true, init, vs[0], vs[0], vs[rng.Intn(len(vs))]))
		}
		codeInit := []VerifC05Init{{Kind: "code", ID: "s1", Val: "clientA"}}
		scns = append(scns, vc05Scn("mixed-3", "mem", false, codeInit, vc05Variants("code", "s1")[0], vc05Variants("code", "s1")[2], vc05Variants("s2s", "s1")[0]))
		scns = append(scns, vc05Scn("mixed-4", "redis", false, codeInit, vc05Variants("code", "s1")[0], vc05Variants("jti", "s1")[0], vc05Variants("jti", "s1")[0], vc05Variants("code", "s1")[1]))
	} else {
		// quick: one three-thread scenario of a cheap kind, chosen by the seed
		cheap := []*VerifC05Scn{}
		for _, s := range three {
			if s.Threads[0].Kind != "code" {
				cheap = append(cheap, s)
			}
		}
		scns = append(scns, cheap[rng.Intn(len(cheap))])
	}

	for _, s := range lenScns {
		w.Replay(vc05StorageLevel, s)
	}
	for _, s := range scns {
		// quick tier: scenarios of three and more requests get a smaller budget (the large ones are enumerated in the thorough tier)
		budget := maxRuns
		if !thorough && len(s.Threads) >= 3 && budget > 700 {
			budget = 700
		}
		n, cut := w.Explore(vc05StorageLevel, s, budget)
		if cut {
			// too many schedules to enumerate: add random walks through the schedule tree
			w.Sample(vc05StorageLevel, s, budget/2, rng.Intn)
		}
		w.Count(s, n, cut)
	}

	// sequential replays around the TTL (clock control: miniredis)
	for _, k := range kinds {
		ttl := vc05TTL[k]
		vs := vc05Variants(k, "s1")
		init := []VerifC05Init{{Kind: k, ID: "s1", Val: "clientA"}}
		for _, dt := range []int{ttl - 1, ttl, ttl + 1, 1 + rng.Intn(2*ttl)} {
			var sched []int
			if k == "s2s" || k == "jti" {
				// first use, wait, replay, wait, replay
				s := vc05Scn(k+"-ttl", "redis", false, nil, vs[0], vs[0], vs[0])
				sched = []int{0, 0, 0, -dt, 1, 1, 1, -dt, 2, 2, 2}
				s.Sched = sched
				w.Replay(vc05StorageLevel, s)
			} else {
				s := vc05Scn(k+"-ttl", "redis", false, init, vs[0], vs[0])
				s.Sched = []int{-dt, 0, 0, 0, 0, -1, 1, 1, 1, 1}
				w.Replay(vc05StorageLevel, s)
			}
		}
	}
	t.Logf("C05 storage harness: %d runs, %d goroutine dumps, %d diverged re-executions repeated", w.Runs, w.Dumps, VerifC05Diverged)
}
