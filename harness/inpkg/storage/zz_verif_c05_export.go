//go:build verif

// C05 verification support (injected with `go test -overlay`, never part of the repository):
// a gating store.StoreInterface that parks every worker goroutine before each underlying Get/Set/Delete,
// a controlled executor (one thread runs at a time, the schedule decides which), and an exhaustive
// schedule explorer.  Used by the in-package harnesses of `storage` and `auth/api/iam`.
package storage

import (
	"bufio"
	"bytes"
	"context"
	"encoding/json"
	"fmt"
	"os"
	"path/filepath"
	"runtime"
	"sort"
	"strconv"
	"strings"
	"sync"
	"sync/atomic"
	"time"

	"github.com/alicebob/miniredis/v2"
	"github.com/bradfitz/gomemcache/memcache"
	"github.com/eko/gocache/lib/v4/cache"
	"github.com/eko/gocache/lib/v4/store"
	"github.com/eko/gocache/store/go_cache/v4"
	redisstore "github.com/eko/gocache/store/redis/v4"
	gocacheclient "github.com/patrickmn/go-cache"
	"github.com/redis/go-redis/v9"
)

const (
	vc05NotStarted = iota
	vc05Running
	vc05Parked
	vc05Blocked
	vc05Finished
	vc05Spare // slot for a goroutine that a worker may spawn (adopted when it reaches the gate)
)

type vc05Event struct {
	tid     int
	parked  bool // else finished
	op, key string
	outcome string
}

type vc05Thread struct {
	fn      func() string
	state   int
	goid    int64
	op, key string
	lastRes string
	resume  chan struct{}
	outcome string
	fail    string // injected store fault: "get" | "set" | "del" — that underlying call of this thread returns an error
	ext     bool   // park this thread at handler-level points too (calls of collaborators between store operations)
	bg      bool   // a goroutine spawned by a worker, adopted at the gate: each of its store calls is a step of its own
}

// VerifC05Exec runs n thread functions under a schedule: exactly one worker goroutine runs at a time.
type VerifC05Exec struct {
	threads []*vc05Thread
	events  chan vc05Event
	byGoid  sync.Map
	Sched   []int    // the steps actually taken (including lock acquisitions that happened by themselves)
	Choices []int    // the steps asked for (what the explorer branches on)
	order   []int
	Trace   []string // one entry per step
	Dumps   int      // number of goroutine dumps needed (blocked-thread detection)
	Faults  []string // per thread, see vc05Thread.fail
	Ext     []bool   // per thread, see vc05Thread.ext
	spare   int32
	lastNum int
}

func VerifC05NewExec() *VerifC05Exec {
	return &VerifC05Exec{events: make(chan vc05Event, 64)}
}

func (x *VerifC05Exec) SetThreads(fns []func() string) {
	x.threads = nil
	for i, f := range fns {
		t := &vc05Thread{fn: f, resume: make(chan struct{})}
		if i < len(x.Faults) {
			t.fail = x.Faults[i]
		}
		if i < len(x.Ext) {
			t.ext = x.Ext[i]
		}
		x.threads = append(x.threads, t)
	}
	for i := 0; i < 3; i++ {
		x.threads = append(x.threads, &vc05Thread{state: vc05Spare, resume: make(chan struct{}), bg: true})
	}
	x.spare = int32(len(fns))
}

func vc05Goid() int64 {
	var buf [64]byte
	n := runtime.Stack(buf[:], false)
	// "goroutine 123 [running]:"
	f := bytes.Fields(buf[:n])
	if len(f) < 2 {
		return -1
	}
	id, _ := strconv.ParseInt(string(f[1]), 10, 64)
	return id
}

func (x *VerifC05Exec) current() *vc05Thread {
	if x == nil {
		return nil
	}
	v, ok := x.byGoid.Load(vc05Goid())
	if !ok {
		return nil
	}
	return x.threads[v.(int)]
}

// vc05ParentGoid: the goroutine that created the current one ("created by … in goroutine N"), -1 if unknown
func vc05ParentGoid() int64 {
	buf := make([]byte, 1<<16)
	n := runtime.Stack(buf, false)
	i := bytes.LastIndex(buf[:n], []byte(" in goroutine "))
	if i < 0 {
		return -1
	}
	rest := buf[i+len(" in goroutine ") : n]
	j := 0
	for j < len(rest) && rest[j] >= '0' && rest[j] <= '9' {
		j++
	}
	id, err := strconv.ParseInt(string(rest[:j]), 10, 64)
	if err != nil {
		return -1
	}
	return id
}

// adopt: a goroutine that is not a worker but was spawned by one (or by an adopted one) becomes a thread of its own
func (x *VerifC05Exec) adopt() *vc05Thread {
	if x == nil || len(x.threads) == 0 {
		return nil
	}
	if _, ok := x.byGoid.Load(vc05ParentGoid()); !ok {
		return nil
	}
	slot := int(atomic.AddInt32(&x.spare, 1)) - 1
	if slot >= len(x.threads) {
		return nil
	}
	t := x.threads[slot]
	gid := vc05Goid()
	atomic.StoreInt64(&t.goid, gid)
	x.byGoid.Store(gid, slot)
	return t
}

// park is called by the gate on a worker goroutine before an underlying store call
func (x *VerifC05Exec) park(op, key string) *vc05Thread {
	t := x.current()
	if t == nil {
		if t = x.adopt(); t == nil {
			return nil
		}
	}
	if op == "ext" && !t.ext {
		return nil
	}
	tid, _ := x.byGoid.Load(atomic.LoadInt64(&t.goid))
	x.events <- vc05Event{tid: tid.(int), parked: true, op: op, key: key}
	<-t.resume
	return t
}

// opDone: result of the call a thread was parked at; a background goroutine's step ends here
func (x *VerifC05Exec) opDone(t *vc05Thread, res string) {
	if t == nil {
		return
	}
	t.lastRes = res
	if t.bg {
		tid, _ := x.byGoid.Load(atomic.LoadInt64(&t.goid))
		x.events <- vc05Event{tid: tid.(int), outcome: "bg"}
	}
}

// VerifC05ExtPark parks the calling worker (if it takes part in handler-level scheduling) at a collaborator call
func VerifC05ExtPark(x *VerifC05Exec) {
	if x == nil {
		return
	}
	if t := x.park("ext", "handler"); t != nil {
		t.lastRes = "ok"
	}
}

func (x *VerifC05Exec) runThread(i int) {
	t := x.threads[i]
	gid := vc05Goid()
	atomic.StoreInt64(&t.goid, gid)
	x.byGoid.Store(gid, i)
	out := "panic"
	defer func() {
		if r := recover(); r != nil {
			out = "panic"
		}
		x.events <- vc05Event{tid: i, outcome: out}
	}()
	out = t.fn()
}

func (x *VerifC05Exec) handle(ev vc05Event) {
	t := x.threads[ev.tid]
	if ev.parked {
		t.state, t.op, t.key = vc05Parked, ev.op, ev.key
	} else {
		t.state, t.outcome = vc05Finished, ev.outcome
	}
	x.order = append(x.order, ev.tid)
}

func vc05GoroutineWaitsOnMutex(dump []byte, goid int64) bool {
	marker := []byte("goroutine " + strconv.FormatInt(goid, 10) + " [")
	i := bytes.Index(dump, marker)
	if i < 0 {
		return false
	}
	rest := dump[i+len(marker):]
	j := bytes.IndexByte(rest, ']')
	if j < 0 {
		return false
	}
	st := string(rest[:j])
	// waiting for a lock, or for another request to finish (Cond / WaitGroup: e.g. request coalescing).  The runtime itself uses
	// semaphores too (a goroutine that wants to start a GC cycle while the world is stopped for our dump): only a semacquire that
	// comes from sync.WaitGroup counts.
	if strings.HasPrefix(st, "sync.Mutex.Lock") || strings.HasPrefix(st, "sync.RWMutex.Lock") || strings.HasPrefix(st, "sync.RWMutex.RLock") ||
		strings.HasPrefix(st, "sync.Cond.Wait") {
		return true
	}
	if strings.HasPrefix(st, "semacquire") {
		block := rest
		if k := bytes.Index(block, []byte("\n\n")); k >= 0 {
			block = block[:k]
		}
		return bytes.Contains(block, []byte("sync.(*WaitGroup).Wait"))
	}
	return false
}

// settle waits until every started, unfinished thread is parked at a gate or blocked on a mutex
func (x *VerifC05Exec) settle() {
	spins := 0
	buf := make([]byte, 1<<16)
	deadline := time.Now().Add(90 * time.Second) // watchdog only: a worker that neither parks, finishes nor blocks (generous: busy machines)
	for {
	drain:
		for {
			select {
			case ev := <-x.events:
				x.handle(ev)
				spins = 0
			default:
				break drain
			}
		}
		pending := false
		for _, t := range x.threads {
			if t.state == vc05Running || t.state == vc05Blocked {
				pending = true
			}
		}
		if !pending {
			if x.stragglers(&buf) {
				continue
			}
			return
		}
		spins++
		if spins < 50 {
			runtime.Gosched()
			continue
		}
		if spins%8 != 0 {
			time.Sleep(5 * time.Microsecond)
			continue
		}
		var n int
		for {
			n = runtime.Stack(buf, true)
			if n < len(buf) {
				break
			}
			buf = make([]byte, 2*len(buf))
		}
		x.Dumps++
		allBlocked := true
		for _, t := range x.threads {
			if t.state != vc05Running && t.state != vc05Blocked {
				continue
			}
			gid := atomic.LoadInt64(&t.goid)
			if gid > 0 && vc05GoroutineWaitsOnMutex(buf[:n], gid) {
				t.state = vc05Blocked
			} else {
				t.state = vc05Running
				allBlocked = false
			}
		}
		if allBlocked && len(x.events) == 0 {
			if x.stragglers(&buf) {
				continue
			}
			return
		}
		if time.Now().After(deadline) {
			panic("verif C05: threads neither park, finish nor block: " + string(buf[:n]))
		}
	}
}

// stragglers: goroutines spawned by a worker that have not reached the gate yet (they will become threads of their own).
// Returns true if it waited and something may have changed.
func (x *VerifC05Exec) stragglers(buf *[]byte) bool {
	if n := runtime.NumGoroutine(); n == x.lastNum {
		return false
	}
	for try := 0; try < 1000; try++ {
		var n int
		for {
			n = runtime.Stack(*buf, true)
			if n < len(*buf) {
				break
			}
			*buf = make([]byte, 2*len(*buf))
		}
		x.Dumps++
		waiting := false
		for _, block := range bytes.Split((*buf)[:n], []byte("\n\n")) {
			i := bytes.LastIndex(block, []byte(" in goroutine "))
			if i < 0 || !bytes.HasPrefix(block, []byte("goroutine ")) {
				continue
			}
			rest := block[i+len(" in goroutine "):]
			j := 0
			for j < len(rest) && rest[j] >= '0' && rest[j] <= '9' {
				j++
			}
			parent, _ := strconv.ParseInt(string(rest[:j]), 10, 64)
			if _, ok := x.byGoid.Load(parent); !ok {
				continue
			}
			f := bytes.Fields(block[:bytes.IndexByte(block, '\n')+1])
			if len(f) < 2 {
				continue
			}
			self, _ := strconv.ParseInt(string(f[1]), 10, 64)
			if _, ok := x.byGoid.Load(self); !ok {
				waiting = true // spawned by one of ours and not yet at the gate (nor gone)
			}
		}
		if !waiting || len(x.events) > 0 {
			x.lastNum = runtime.NumGoroutine()
			return len(x.events) > 0
		}
		time.Sleep(20 * time.Microsecond)
	}
	x.lastNum = runtime.NumGoroutine()
	return false
}

func (x *VerifC05Exec) stateString(t *vc05Thread) string {
	switch t.state {
	case vc05Parked:
		return "@" + t.op + " " + t.key
	case vc05Blocked:
		return "blocked"
	case vc05Finished:
		return "done:" + t.outcome
	case vc05NotStarted:
		return "new"
	}
	return "running"
}

// Enabled lists the threads that can take a step
func (x *VerifC05Exec) Enabled() []int {
	var r []int
	for i, t := range x.threads {
		if (t.state == vc05NotStarted && t.fn != nil) || t.state == vc05Parked {
			r = append(r, i)
		}
	}
	return r
}

func (x *VerifC05Exec) AllFinished() bool {
	for _, t := range x.threads {
		if t.state != vc05Finished && t.state != vc05Spare {
			return false
		}
	}
	return true
}

// Step lets thread i perform the store call it is parked at (or start) and run to its next store call.
// A step of a thread that cannot move is recorded as a no-op.
func (x *VerifC05Exec) Step(i int) {
	x.Choices = append(x.Choices, i)
	if i < 0 || i >= len(x.threads) {
		x.Sched = append(x.Sched, i)
		x.Trace = append(x.Trace, fmt.Sprintf("%d:noop", i))
		return
	}
	t := x.threads[i]
	wasBlocked := map[int]bool{}
	for j, u := range x.threads {
		if u.state == vc05Blocked {
			wasBlocked[j] = true
		}
	}
	did := ""
	switch t.state {
	case vc05NotStarted:
		t.state = vc05Running
		x.order = nil
		go x.runThread(i)
	case vc05Parked:
		did = t.op
		t.state = vc05Running
		t.lastRes = ""
		x.order = nil
		t.resume <- struct{}{}
	default:
		x.Sched = append(x.Sched, i)
		x.Trace = append(x.Trace, fmt.Sprintf("%d:noop", i))
		return
	}
	x.settle()
	if did != "" {
		did = did + ":" + t.lastRes
	}
	x.Sched = append(x.Sched, i)
	x.Trace = append(x.Trace, fmt.Sprintf("%d:%s>%s", i, did, x.stateString(t)))
	// threads that were blocked and moved on by themselves (they obtained the lock): record as their own step
	seen := map[int]bool{}
	for _, j := range x.order {
		if j != i && wasBlocked[j] && !seen[j] && x.threads[j].state != vc05Blocked {
			seen[j] = true
			x.Sched = append(x.Sched, j)
			x.Trace = append(x.Trace, fmt.Sprintf("%d:>%s", j, x.stateString(x.threads[j])))
		}
	}
}

// Finish runs the remaining threads to completion (lowest enabled thread first)
func (x *VerifC05Exec) Finish() bool {
	for {
		e := x.Enabled()
		if len(e) == 0 {
			return x.AllFinished()
		}
		x.Step(e[0])
	}
}

func (x *VerifC05Exec) Outcomes() []string {
	var r []string
	for _, t := range x.threads {
		if t.state == vc05Spare {
			continue
		}
		if t.state == vc05Finished {
			r = append(r, t.outcome)
		} else {
			r = append(r, "stuck:"+x.stateString(t))
		}
	}
	return r
}

// ---------------------------------------------------------------------------------------------------------

// VerifC05Gate wraps the real store of a session database
type VerifC05Gate struct {
	Inner  store.StoreInterface
	Exec   *VerifC05Exec
	Strict bool                  // emulate a back-end whose Delete reports a missing key (memcached)
	Watch  func(key string) bool // nil: every key
	Ext    func(key string) bool // unwatched keys whose store calls are handler-level parking points
	Norm   func(key string) string
	Calls  *[]string // if set: every underlying call ("op:normalised key"), in order (request-level call-sequence correspondence)
	seenMu sync.Mutex
	seen   map[string]bool // every full key any caller used (gated or not)
}

// SeenKeys lists every full key that reached the underlying store so far (as the back-end sees them)
func (g *VerifC05Gate) SeenKeys() []string {
	g.seenMu.Lock()
	defer g.seenMu.Unlock()
	var r []string
	for k := range g.seen {
		r = append(r, k)
	}
	sort.Strings(r)
	return r
}

var _ store.StoreInterface = (*VerifC05Gate)(nil)

func (g *VerifC05Gate) gate(op string, key any) *vc05Thread {
	k, _ := key.(string)
	g.seenMu.Lock()
	if g.seen == nil {
		g.seen = map[string]bool{}
	}
	g.seen[k] = true
	if g.Calls != nil {
		kk := k
		if g.Norm != nil {
			kk = g.Norm(k)
		}
		*g.Calls = append(*g.Calls, op+":"+kk)
	}
	g.seenMu.Unlock()
	if g.Watch != nil && !g.Watch(k) {
		// not a key of the scenario's secrets: a collaborator call as far as the one-time stores go (e.g. storing the access token)
		if g.Ext != nil && g.Ext(k) {
			if t := g.Exec.park("ext", "handler"); t != nil {
				t.lastRes = "ok"
			}
		}
		return nil
	}
	if g.Norm != nil {
		k = g.Norm(k)
	}
	return g.Exec.park(op, k)
}

var errVerifC05Injected = fmt.Errorf("verif: injected store failure")

func (g *VerifC05Gate) Get(ctx context.Context, key any) (any, error) {
	t := g.gate("get", key)
	if t != nil && t.fail == "get" {
		g.Exec.opDone(t, "fail")
		return nil, errVerifC05Injected
	}
	v, err := g.Inner.Get(ctx, key)
	if err == nil {
		g.Exec.opDone(t, "hit")
	} else {
		g.Exec.opDone(t, "miss")
	}
	return v, err
}

func (g *VerifC05Gate) GetWithTTL(ctx context.Context, key any) (any, time.Duration, error) {
	t := g.gate("get", key)
	v, d, err := g.Inner.GetWithTTL(ctx, key)
	if t != nil {
		if err == nil {
			t.lastRes = "hit"
		} else {
			t.lastRes = "miss"
		}
	}
	return v, d, err
}

func (g *VerifC05Gate) Set(ctx context.Context, key any, value any, options ...store.Option) error {
	t := g.gate("set", key)
	if t != nil && t.fail == "set" {
		g.Exec.opDone(t, "fail")
		return errVerifC05Injected
	}
	err := g.Inner.Set(ctx, key, value, options...)
	if err == nil {
		g.Exec.opDone(t, "ok")
	} else {
		g.Exec.opDone(t, "err")
	}
	return err
}

func (g *VerifC05Gate) Delete(ctx context.Context, key any) error {
	t := g.gate("del", key)
	if t != nil && t.fail == "del" {
		g.Exec.opDone(t, "fail")
		return errVerifC05Injected
	}
	var err error
	if g.Strict {
		if _, gerr := g.Inner.Get(ctx, key); gerr != nil {
			err = memcache.ErrCacheMiss
		}
	}
	if err == nil {
		err = g.Inner.Delete(ctx, key)
	}
	if err == nil {
		g.Exec.opDone(t, "ok")
	} else {
		g.Exec.opDone(t, "err")
	}
	return err
}

func (g *VerifC05Gate) Invalidate(ctx context.Context, options ...store.InvalidateOption) error {
	return g.Inner.Invalidate(ctx, options...)
}
func (g *VerifC05Gate) Clear(ctx context.Context) error { return g.Inner.Clear(ctx) }
func (g *VerifC05Gate) GetType() string                 { return g.Inner.GetType() }

// VerifC05Backend is a real session database over a gated real store
type VerifC05Backend struct {
	DB      SessionDatabase
	Nodes   []SessionDatabase // several nodes sharing one store (each with its own in-process state); nil: one node
	Dyn     func() SessionDatabase // if set: how a request obtains the database on every access (the engine's accessor)
	Gate    *VerifC05Gate
	Advance func(d time.Duration) // clock control (redis back-end only)
	Close   func()
	Keys    func() []string // keys currently visible in the underlying store (normalised)
}

// VerifC05MemBackend: the real InMemorySessionDatabase (go-cache) with the gate between cache.Cache and the go-cache store
func VerifC05MemBackend(x *VerifC05Exec, strict bool, watch func(string) bool) *VerifC05Backend {
	// the database as its constructor builds it (no janitor goroutine: prune interval 0), then the gate is put
	// between cache.Cache and a go-cache store built the same way
	sessionStorePruneInterval = 0
	db := NewInMemorySessionDatabase()
	client := gocacheclient.New(defaultSessionDataTTL, 0)
	g := &VerifC05Gate{Inner: go_cache.NewGoCache(client), Exec: x, Strict: strict, Watch: watch}
	db.underlying = cache.New[[]byte](g)
	return &VerifC05Backend{DB: db, Gate: g, Close: func() {},
		Keys: func() []string {
			var r []string
			for k := range client.Items() { // Items() returns unexpired items only
				r = append(r, k)
			}
			sort.Strings(r)
			return r
		}}
}

var vc05Mini struct {
	sync.Mutex
	m *miniredis.Miniredis
	c *redis.Client
}

// VerifC05RedisBackend: the real redis session database against an in-process miniredis (flushed per use);
// miniredis gives clock control through FastForward.
func VerifC05RedisBackend(x *VerifC05Exec, watch func(string) bool) (*VerifC05Backend, error) {
	vc05Mini.Lock()
	defer vc05Mini.Unlock()
	if vc05Mini.m == nil {
		m, err := miniredis.Run()
		if err != nil {
			return nil, err
		}
		vc05Mini.m = m
		vc05Mini.c = redis.NewClient(&redis.Options{Addr: m.Addr()})
	}
	m, c := vc05Mini.m, vc05Mini.c
	m.FlushAll()
	dbi := NewRedisSessionDatabase(c, "").(redisSessionDatabase)
	g := &VerifC05Gate{Inner: redisstore.NewRedis(c), Exec: x, Watch: watch,
		Norm: func(k string) string { return strings.ReplaceAll(k, ".", "/") }}
	dbi.underlying = cache.New[string](g)
	dbi.client = nil // shared client: never closed by the database
	return &VerifC05Backend{DB: dbi, Gate: g, Close: func() {},
		Advance: func(d time.Duration) { m.FastForward(d) },
		Keys: func() []string {
			r := m.Keys()
			for i := range r {
				r[i] = strings.ReplaceAll(r[i], ".", "/")
			}
			sort.Strings(r)
			return r
		}}, nil
}

// VerifC05Engines: real storage engines (built and configured once by the test, the way the node does it), by back-end name
var VerifC05Engines = map[string]Engine{}

// VerifC05EngineBackend: the session database the REAL engine built in Configure and hands out through GetSessionDatabase();
// only its underlying store is replaced by a gated fresh one (same construction as the database's own)
func VerifC05EngineBackend(x *VerifC05Exec, name string, watch func(string) bool) (*VerifC05Backend, error) {
	eng, ok := VerifC05Engines[name].(*engine)
	if !ok {
		return nil, fmt.Errorf("no engine registered for %s", name)
	}
	switch db := eng.sessionDatabase.(type) {
	case *InMemorySessionDatabase:
		client := gocacheclient.New(defaultSessionDataTTL, 0)
		g := &VerifC05Gate{Inner: go_cache.NewGoCache(client), Exec: x, Watch: watch}
		db.underlying = cache.New[[]byte](g)
		return &VerifC05Backend{DB: db, Gate: g, Close: func() {}, Dyn: eng.GetSessionDatabase,
			Keys: func() []string {
				var r []string
				for k := range client.Items() {
					r = append(r, k)
				}
				sort.Strings(r)
				return r
			}}, nil
	case redisSessionDatabase:
		if err := db.client.FlushAll(context.Background()).Err(); err != nil {
			return nil, err
		}
		g := &VerifC05Gate{Inner: redisstore.NewRedis(db.client), Exec: x, Watch: watch,
			Norm: func(k string) string { return strings.ReplaceAll(k, ".", "/") }}
		db.underlying = cache.New[string](g)
		eng.sessionDatabase = db
		c := db.client
		return &VerifC05Backend{DB: db, Gate: g, Close: func() {}, Dyn: eng.GetSessionDatabase,
			Keys: func() []string {
				r, _ := c.Keys(context.Background(), "*").Result()
				for i := range r {
					r[i] = strings.ReplaceAll(r[i], ".", "/")
				}
				sort.Strings(r)
				return r
			}}, nil
	}
	return nil, fmt.Errorf("engine %s has an unexpected session database %T", name, eng.sessionDatabase)
}

// DBFor returns the session database of the node that serves thread i
func (b *VerifC05Backend) DBFor(i int) SessionDatabase {
	if b.Dyn != nil {
		return b.Dyn()
	}
	if len(b.Nodes) == 0 {
		return b.DB
	}
	return b.Nodes[i%len(b.Nodes)]
}

// VerifC05RedisMultiNode: n nodes (n redis session databases as their constructor builds them, each with its own
// in-process state) sharing one in-process miniredis through one gate
func VerifC05RedisMultiNode(x *VerifC05Exec, watch func(string) bool, n int) (*VerifC05Backend, error) {
	b, err := VerifC05RedisBackend(x, watch)
	if err != nil {
		return nil, err
	}
	for i := 0; i < n; i++ {
		dbi := NewRedisSessionDatabase(vc05Mini.c, "").(redisSessionDatabase)
		dbi.underlying = cache.New[string](b.Gate)
		dbi.client = nil
		b.Nodes = append(b.Nodes, dbi)
	}
	b.DB = b.Nodes[0]
	return b, nil
}

// ---------------------------------------------------------------------------------------------------------

// VerifC05Run is one complete execution
type VerifC05Run struct {
	Sched    []int
	Trace    []string
	Outcomes []string
	Final    string
	Dumps    int
}

// VerifC05Setup builds a fresh world bound to the executor: returns the thread functions, an observer for the final
// store and an optional clock (negative schedule entries -n advance it by n units)
type VerifC05Setup func(x *VerifC05Exec) (threads []func() string, final func() string, tick func(n int), cleanup func())

func vc05Execute(setup VerifC05Setup, prefix []int, onChoice func(x *VerifC05Exec, enabled []int) int) VerifC05Run {
	x := VerifC05NewExec()
	fns, final, tick, cleanup := setup(x)
	x.SetThreads(fns)
	for _, s := range prefix {
		if s < 0 {
			if tick != nil {
				tick(-s)
			}
			x.Choices = append(x.Choices, s)
			x.Sched = append(x.Sched, s)
			x.Trace = append(x.Trace, fmt.Sprintf("tick%d", -s))
			continue
		}
		x.Step(s)
	}
	for {
		e := x.Enabled()
		if len(e) == 0 {
			break
		}
		x.Step(onChoice(x, e))
	}
	r := VerifC05Run{Sched: x.Sched, Trace: x.Trace, Outcomes: x.Outcomes(), Final: final(), Dumps: x.Dumps}
	if cleanup != nil {
		cleanup()
	}
	return r
}

// VerifC05Replay runs the given schedule (entries that cannot move are no-ops) and then finishes the threads
func VerifC05Replay(setup VerifC05Setup, sched []int) VerifC05Run {
	return vc05Execute(setup, sched, func(_ *VerifC05Exec, e []int) int { return e[0] })
}

// VerifC05Explore enumerates every maximal schedule (depth-first, re-executing the prefix for each alternative).
// Returns the number of runs and whether maxRuns cut the enumeration short.
// A re-execution of a prefix must reproduce the steps the parent run took (same recorded schedule, including the lock
// acquisitions that happened by themselves); a run that does not (scheduling noise on a loaded machine) is discarded and repeated.
func VerifC05Explore(setup VerifC05Setup, maxRuns int, visit func(VerifC05Run)) (int, bool) {
	type item struct {
		choices []int // the steps to ask for
		expect  []int // the recorded schedule of the parent run up to the branching point
	}
	stack := []item{{}}
	runs := 0
	for len(stack) > 0 {
		if maxRuns > 0 && runs >= maxRuns {
			return runs, true
		}
		it := stack[len(stack)-1]
		stack = stack[:len(stack)-1]
		depth := len(it.choices)
		var r VerifC05Run
		var pending []item
		for attempt := 0; attempt < 5; attempt++ {
			pending = pending[:0]
			r = vc05Execute(setup, it.choices, func(x *VerifC05Exec, e []int) int {
				// alternatives at this point are explored later, each from a fresh execution
				if len(x.Choices) >= depth {
					for _, alt := range e[1:] {
						pending = append(pending, item{
							choices: append(append([]int{}, x.Choices...), alt),
							expect:  append([]int{}, x.Sched...)})
					}
				}
				return e[0]
			})
			ok := len(r.Sched) >= len(it.expect)
			for i := 0; ok && i < len(it.expect); i++ {
				ok = r.Sched[i] == it.expect[i]
			}
			if ok {
				break
			}
			VerifC05Diverged++
		}
		stack = append(stack, pending...)
		runs++
		visit(r)
	}
	return runs, false
}

// VerifC05Diverged counts re-executions that did not reproduce their parent's prefix and were repeated
var VerifC05Diverged int

// ---------------------------------------------------------------------------------------------------------
// scenarios and the op-line protocol shared by the storage-level and iam-level harnesses

type VerifC05Req struct {
	Kind string `json:"kind"`
	ID   string `json:"id"`
	Want string `json:"want"`
	Pre  bool   `json:"pre"`
	Post bool   `json:"post"`
	Fail string `json:"fail,omitempty"` // injected store fault for this request: get | set | del
	Fmt  string `json:"fmt,omitempty"`  // how the request carries the secret (presentation format / entry point variant); not modelled
}

type VerifC05Init struct {
	Kind string `json:"kind"`
	ID   string `json:"id"`
	Val  string `json:"val"`
	Fmt  string `json:"fmt,omitempty"` // variant of the stored object (request object: request_uri_method post); not modelled
}

type VerifC05Scn struct {
	Op      string         `json:"op"`
	Name    string         `json:"scn"`
	Level   string         `json:"level"`   // "storage": consumers replicated on the SessionStore API; "iam": the real handlers
	Backend string         `json:"backend"` // mem | redis | redis-multinode (one node per thread, one shared redis)
	Strict  bool           `json:"strict"`
	TTL     map[string]int `json:"ttl,omitempty"` // seconds per kind; absent: the constants of the source (iam level)
	Init    []VerifC05Init `json:"init"`
	Threads []VerifC05Req  `json:"threads"`
	Sched   []int          `json:"sched"`
}

// VerifC05Level builds, for one scenario on a fresh back-end, the seeded store and the thread functions
type VerifC05Level func(b *VerifC05Backend, scn *VerifC05Scn) ([]func() string, error)

func (scn *VerifC05Scn) watch() func(string) bool {
	ids := map[string]bool{}
	for _, i := range scn.Init {
		ids[i.ID] = true
	}
	for _, r := range scn.Threads {
		ids[r.ID] = true
	}
	return func(k string) bool {
		k = strings.ReplaceAll(k, ".", "/")
		if i := strings.LastIndexByte(k, '/'); i >= 0 {
			return ids[k[i+1:]]
		}
		return ids[k]
	}
}

func (scn *VerifC05Scn) setup(level VerifC05Level) VerifC05Setup {
	return func(x *VerifC05Exec) ([]func() string, func() string, func(int), func()) {
		w := scn.watch()
		var b *VerifC05Backend
		if scn.Backend == "redis" {
			var err error
			if b, err = VerifC05RedisBackend(x, w); err != nil {
				panic(err)
			}
		} else if strings.HasPrefix(scn.Backend, "engine-") {
			var err error
			if b, err = VerifC05EngineBackend(x, scn.Backend, w); err != nil {
				panic(err)
			}
		} else if scn.Backend == "redis-multinode" {
			var err error
			if b, err = VerifC05RedisMultiNode(x, w, len(scn.Threads)); err != nil {
				panic(err)
			}
		} else {
			b = VerifC05MemBackend(x, scn.Strict, w)
		}
		fns, err := level(b, scn)
		if err != nil {
			panic(err)
		}
		x.Faults, x.Ext = nil, nil
		for _, r := range scn.Threads {
			x.Faults = append(x.Faults, r.Fail)
			// handler-level parking points exist where the real handlers are driven and the model knows them
			x.Ext = append(x.Ext, scn.Level == "iam" && (r.Kind == "code" || r.Kind == "reqobj"))
		}
		if scn.Level == "iam" {
			b.Gate.Ext = func(k string) bool { return strings.HasPrefix(strings.ReplaceAll(k, ".", "/"), "serveraccesstoken/") }
		}
		final := func() string {
			var r []string
			for _, k := range b.Keys() {
				if w(k) {
					r = append(r, k)
				}
			}
			return strings.Join(r, ",")
		}
		var tick func(int)
		if b.Advance != nil {
			tick = func(n int) { b.Advance(time.Duration(n) * time.Second) }
		}
		return fns, final, tick, b.Close
	}
}

func vc05Line(r VerifC05Run) string {
	succ := 0
	for _, o := range r.Outcomes {
		if o == "ok" {
			succ++
		}
	}
	return fmt.Sprintf("succ=%d out=%s store=[%s] trace=%s", succ, strings.Join(r.Outcomes, ","), r.Final, strings.Join(r.Trace, " | "))
}

// VerifC05Writer writes ops.jsonl / impl.out
type VerifC05Writer struct {
	ops, impl *bufio.Writer
	fo, fi    *os.File
	Runs      int
	Dumps     int
}

func VerifC05NewWriter(dir string) (*VerifC05Writer, error) {
	fo, err := os.Create(filepath.Join(dir, "ops.jsonl"))
	if err != nil {
		return nil, err
	}
	fi, err := os.Create(filepath.Join(dir, "impl.out"))
	if err != nil {
		return nil, err
	}
	return &VerifC05Writer{ops: bufio.NewWriterSize(fo, 1<<20), impl: bufio.NewWriterSize(fi, 1<<20), fo: fo, fi: fi}, nil
}

func (w *VerifC05Writer) Close() {
	w.ops.Flush()
	w.impl.Flush()
	w.fo.Close()
	w.fi.Close()
}

func (w *VerifC05Writer) emit(scn *VerifC05Scn, r VerifC05Run) {
	c := *scn
	c.Op = "run"
	c.Sched = r.Sched
	b, _ := json.Marshal(c)
	w.ops.Write(b)
	w.ops.WriteByte('\n')
	w.impl.WriteString(vc05Line(r))
	w.impl.WriteByte('\n')
	w.Runs++
	w.Dumps += r.Dumps
}

// Replay runs exactly the schedule of the scenario
func (w *VerifC05Writer) Replay(level VerifC05Level, scn *VerifC05Scn) {
	w.emit(scn, VerifC05Replay(scn.setup(level), scn.Sched))
}

// Explore runs every maximal schedule of the scenario (at most maxRuns)
func (w *VerifC05Writer) Explore(level VerifC05Level, scn *VerifC05Scn, maxRuns int) (int, bool) {
	return VerifC05Explore(scn.setup(level), maxRuns, func(r VerifC05Run) { w.emit(scn, r) })
}

// Sample runs n schedules chosen at random (for scenarios too large to enumerate)
func (w *VerifC05Writer) Sample(level VerifC05Level, scn *VerifC05Scn, n int, pick func(k int) int) {
	setup := scn.setup(level)
	for i := 0; i < n; i++ {
		w.emit(scn, vc05Execute(setup, nil, func(_ *VerifC05Exec, e []int) int { return e[pick(len(e))] }))
	}
}

// Comment writes a pair of lines that both sides copy verbatim (scenario statistics)
func (w *VerifC05Writer) Comment(text string) {
	b, _ := json.Marshal(map[string]string{"op": "note", "text": text})
	w.ops.Write(b)
	w.ops.WriteByte('\n')
	w.impl.WriteString("note " + text + "\n")
}

// Count records how many maximal schedules the explorer found for a scenario; the model enumerates its own schedule tree
// and must find the same number (when the enumeration was not cut short)
func (w *VerifC05Writer) Count(scn *VerifC05Scn, n int, truncated bool) {
	c := *scn
	c.Op = "count"
	c.Sched = nil
	// With three or more requests on one mutex, which waiter obtains it next is the Go runtime's choice (arrival order as a rule,
	// not a guarantee): the number of schedules is then compared only when at most one request can be waiting.
	if len(scn.Threads) >= 3 && scn.Backend != "redis-multinode" {
		truncated = true
	}
	b, _ := json.Marshal(struct {
		VerifC05Scn
		N         int  `json:"n"`
		Truncated bool `json:"truncated"`
	}{c, n, truncated})
	w.ops.Write(b)
	w.ops.WriteByte('\n')
	w.impl.WriteString(fmt.Sprintf("count scenario=%s threads=%d schedules=%d truncated=%v\n", scn.Name, len(scn.Threads), n, truncated))
}

// Setup exposes the scenario's fresh back-end + thread functions outside the scheduler (for scripted, sequential probes)
func (scn *VerifC05Scn) Build(level VerifC05Level) (*VerifC05Backend, []func() string, error) {
	b := VerifC05MemBackend(nil, scn.Strict, nil)
	fns, err := level(b, scn)
	return b, fns, err
}

// Raw writes an arbitrary op with its implementation line
func (w *VerifC05Writer) Raw(op map[string]interface{}, line string) {
	b, _ := json.Marshal(op)
	w.ops.Write(b)
	w.ops.WriteByte('\n')
	w.impl.WriteString(line + "\n")
}

// VerifC05ReadScenarios reads op lines (one JSON scenario with schedule per line)
func VerifC05ReadScenarios(path string, level string) ([]*VerifC05Scn, error) {
	f, err := os.Open(path)
	if err != nil {
		return nil, err
	}
	defer f.Close()
	var r []*VerifC05Scn
	sc := bufio.NewScanner(f)
	sc.Buffer(make([]byte, 1<<20), 1<<24)
	for sc.Scan() {
		line := strings.TrimSpace(sc.Text())
		if line == "" {
			continue
		}
		var s VerifC05Scn
		if err := json.Unmarshal([]byte(line), &s); err != nil {
			return nil, err
		}
		if s.Op != "run" || (level != "" && s.Level != level) {
			continue
		}
		r = append(r, &s)
	}
	return r, sc.Err()
}
