/-
  C03 — types shared by the regenerated facts (NutsModel/Facts/C03.lean) and the models.
  Core Lean only.
-/
namespace Nuts.C03

/-- a `regexp/syntax` tree as printed by the extractor (Go's parse of the pattern literal) -/
inductive Rx where
  | bot | eot
  | cls (ranges : List (Nat × Nat))
  | lit (runes : List Nat)
  | cat (l : List Rx) | alt (l : List Rx)
  | plus (r : Rx) | star (r : Rx) | quest (r : Rx)
  | rep (min max : Nat) (r : Rx)
  deriving Repr, Inhabited

/-- one function of the repository that can obtain or mention a private-key typed value (go/ast inventory) -/
structure Fn where
  file : String
  path : List String          -- `file` split at '/'
  name : String
  exported : Bool
  kinds : List String
  results : List String
  privResults : List String   -- the result types that are (or can hold) a private key
  deriving Repr, DecidableEq, Inhabited

end Nuts.C03
