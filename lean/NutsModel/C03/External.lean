/-
  C03 (deepening round) — the external secret-store backend: which request target a key name produces.
  Mirrors  crypto/storage/external/client.go : GetPrivateKey / PrivateKeyExists / SavePrivateKey / DeletePrivateKey
             (`c.httpClient.<Op>WithResponse(ctx, url.PathEscape(keyName), …)`)
           crypto/storage/external/generated.go : New<Op>Request (`"/secrets/%s"` of the styled parameter, resolved
             against the configured server address)
  net/url.PathEscape is modelled by hand (tied by correspondence on generated names); the generated client's
  `runtime.StyleParamWithLocation(…, ParamLocationPath, key)` escapes the already escaped value ONCE MORE (third-party
  contract, observed on the wire by the harness' recording server); reference resolution keeps a single non-dot segment.
  Core Lean only.
-/
import NutsModel.C03.Kid

namespace Nuts.C03

/-- bytes `url.PathEscape` leaves alone: unreserved (RFC 3986 §2.3) and `$ & + = : @` -/
def pathKeep (c : Nat) : Bool :=
  (48 ≤ c && c ≤ 57) || (65 ≤ c && c ≤ 90) || (97 ≤ c && c ≤ 122) ||
  c == 45 || c == 95 || c == 46 || c == 126 ||           -- - _ . ~
  c == 36 || c == 38 || c == 43 || c == 61 || c == 58 || c == 64   -- $ & + = : @

/-- upper-case hex digit of a nibble -/
def hexUp (n : Nat) : Nat := if n < 10 then 48 + n else 55 + n

def pathEscapeByte (c : Nat) : Bytes := if pathKeep c then [c] else [PCT, hexUp (c / 16), hexUp (c % 16)]

/-- `url.PathEscape` -/
def pathEscape (s : Bytes) : Bytes := s.flatMap pathEscapeByte

/-- value of a hex digit (either case); `none` for anything else -/
def hexVal (c : Nat) : Option Nat :=
  if 48 ≤ c && c ≤ 57 then some (c - 48)
  else if 65 ≤ c && c ≤ 70 then some (c - 55)
  else if 97 ≤ c && c ≤ 102 then some (c - 87)
  else none

/-- what a server makes of an escaped segment (`url.PathUnescape`): `none` on a malformed escape -/
def pathUnescape : Bytes → Option Bytes
  | [] => some []
  | c :: rest =>
    if c = PCT then
      match rest with
      | h1 :: h2 :: rest' =>
        match hexVal h1, hexVal h2, pathUnescape rest' with
        | some a, some b, some r => some ((a * 16 + b) :: r)
        | _, _, _ => none
      | _ => none
    else (pathUnescape rest).map (c :: ·)

/-- the path the relative reference `./secrets/<seg>` is resolved against: generated.go `NewClient` appends a `/` to a
    server address that does not end in one (so the whole configured path is kept as a directory) -/
def baseDir (p : Bytes) : Bytes :=
  match p.getLast? with
  | some c => if c = SLASH then p else p ++ [SLASH]
  | none => [SLASH]

def secretsSeg : Bytes := [115, 101, 99, 114, 101, 116, 115]   -- "secrets"

/-- the segment that stands for the key name on the wire -/
def externalSegment (name : Bytes) : Bytes := pathEscape (pathEscape name)

/-- request target of Lookup / Store / Delete for a key name, server address path `basePath` -/
def externalTarget (basePath name : Bytes) : Bytes :=
  baseDir basePath ++ secretsSeg ++ SLASH :: externalSegment name

end Nuts.C03
