/-
  C03 (deepening round 3) — the PEM codec every stored key passes through on the way out of a file / Vault entry.
  Mirrors  crypto/util/pem.go : PemToPrivateKey (switch over block.Type, no default clause; PKCS#8 type switch, no default
                                 clause: what is not a signer type yields (nil, nil)), PemToPublicKey (two block types,
                                 default = ErrWrongPublicKey).
  The switch tables are REGENERATED (Facts.C03.pemPrivateCases / pemPublicCases / pemPrivateKeyTypes); this file interprets
  them. pem.Decode and the x509 parsers are third-party: their answers are inputs.
  Core Lean only.
-/
namespace Nuts.C03

/-- what an x509 parser answered: a value of a Go dynamic type, or an error -/
inductive Parsed where
  | ok (goType : String)
  | err
  deriving Repr, DecidableEq, Inhabited

/-- (signer, err) of PemToPrivateKey / (key, err) of PemToPublicKey -/
inductive PemOut where
  | key (goType : String)   -- non-nil result of that dynamic type
  | nilNil                  -- (nil, nil): the code that exists has no default clause
  | wrongKey                -- ErrWrongPrivateKey / ErrWrongPublicKey
  | parseErr                -- the parser's error, passed on
  deriving Repr, DecidableEq, Inhabited

def isCase (t : String) (c : String × String) : Bool := c.1 == t

/-- `PemToPrivateKey`: `block` = type of the first PEM block (none: pem.Decode found none);
    a case row is (block type, "direct" | "typeswitch") -/
def pemToPrivateKey (cases : List (String × String)) (signerTypes : List String) (block : Option String) (p : Parsed) : PemOut :=
  match block with
  | none => .wrongKey
  | some t =>
    match cases.find? (isCase t) with
    | none => .nilNil
    | some (_, how) =>
      match p with
      | .err => .parseErr
      | .ok ty =>
        if how == "direct" then .key ty
        else if signerTypes.contains ty then .key ty else .nilNil

/-- `PemToPublicKey` -/
def pemToPublicKey (cases : List String) (block : Option String) (p : Parsed) : PemOut :=
  match block with
  | none => .wrongKey
  | some t =>
    if cases.contains t then (match p with | .err => .parseErr | .ok ty => .key ty) else .wrongKey

end Nuts.C03
