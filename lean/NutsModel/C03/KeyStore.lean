/-
  C03 — the key store as a state machine.
  Mirrors  crypto/crypto.go     : New, Delete, Link, Exists, Resolve, List, Migrate, findKeyReferenceByKid
           crypto/jwx.go        : getPrivateKey, Crypto.SignJWT / SignJWS / DecryptJWE (key selection only)
           crypto/dpop.go       : SignDPoP (key selection only)
           crypto/decryptor.go  : Decrypt
           crypto/storage/spi/wrapper.go : the validating wrapper in front of the backend
           crypto/storage/fs/fs.go + spi.GenerateAndStore : backend behaviour (one entry per key name, O_EXCL create)
  Key material is abstract: the n-th generated key pair is the number n; `pub`/signatures are parameters of the
  theorems, never axioms. `valid` is the wrapper's validateKID (NutsModel/C03/Kid.lean) — a parameter here.
  Core Lean only.
-/
import NutsModel.Base

namespace Nuts.C03

/-- the error values the callers can tell apart -/
inductive KErr where
  | privateKeyNotFound      -- crypto.ErrPrivateKeyNotFound
  | spiNotFound             -- spi.ErrNotFound (possibly wrapped in fs.fileOpenError)
  | invalidKid              -- wrapper.validateKID: "invalid key ID: …"
  | keyExists               -- GenerateAndStore: "key with the given ID already exists"
  | naming                  -- the caller's KIDNamingFunc failed
  | wrongKey                -- ECIES / JWE decryption with a key the message was not encrypted for
  | duplicatedKey           -- gorm.ErrDuplicatedKey: `Save` of a row whose primary key is the zero value is an INSERT
  | noKidHeader             -- DecryptJWE: "kid header not found"
  deriving Repr, DecidableEq, Inhabited

def KErr.name : KErr → String
  | .privateKeyNotFound => "ErrPrivateKeyNotFound"
  | .spiNotFound => "spi.ErrNotFound"
  | .invalidKid => "invalid-key-id"
  | .keyExists => "key-exists"
  | .naming => "naming-func-error"
  | .wrongKey => "wrong-key"
  | .duplicatedKey => "duplicated-key"
  | .noKidHeader => "no-kid-header"

abbrev KRes (α : Type) := Except KErr α

instance {ε α : Type} [DecidableEq ε] [DecidableEq α] : DecidableEq (Except ε α)
  | .ok a, .ok b => if h : a = b then isTrue (by rw [h]) else isFalse (fun e => h (by cases e; rfl))
  | .error a, .error b => if h : a = b then isTrue (by rw [h]) else isFalse (fun e => h (by cases e; rfl))
  | .ok _, .error _ => isFalse (fun e => by cases e)
  | .error _, .ok _ => isFalse (fun e => by cases e)

structure KeyRef where
  keyName : String
  version : String
  deriving Repr, DecidableEq, Inhabited

/-- `refs` is the SQL table key_reference (kid is the primary key; `Save` upserts), `backend` the key files of the
    storage backend (key name ↦ key pair), `nextKey` the key generator. `published` is GHOST state: the key pair
    whose public key the store returned from `New` for that kid (what the caller publishes in a DID document). -/
structure Store where
  refs : List (String × KeyRef) := []
  backend : List (String × Nat) := []
  nextKey : Nat := 0
  published : List (String × Nat) := []
  deriving Repr, Inhabited

namespace Store
def ref (s : Store) (kid : String) : Option KeyRef := alGet s.refs kid
def key (s : Store) (name : String) : Option Nat := alGet s.backend name
def pubd (s : Store) (kid : String) : Option Nat := alGet s.published kid
end Store

section
variable (valid : String → Bool)

/-! ### the validating wrapper + backend (`client.backend`) -/

/-- wrapper.GetPrivateKey → fs.GetPrivateKey (the version argument is ignored by the fs backend) -/
def wGet (s : Store) (name _version : String) : KRes Nat :=
  if !valid name then .error .invalidKid
  else match s.key name with
    | some k => .ok k
    | none => .error .spiNotFound

/-- wrapper.DeletePrivateKey → fs.DeletePrivateKey -/
def wDelete (s : Store) (name : String) : KRes Store :=
  if !valid name then .error .invalidKid
  else match s.key name with
    | some _ => .ok { s with backend := alDel s.backend name }
    | none => .error .spiNotFound

/-- wrapper.NewPrivateKey does NOT validate; fs.NewPrivateKey = spi.GenerateAndStore on the unwrapped backend:
    generate, refuse an existing name, save. -/
def wNew (s : Store) (name : String) : KRes (Store × Nat) :=
  let k := s.nextKey
  let s := { s with nextKey := k + 1 }
  match s.key name with
  | some _ => .error .keyExists
  | none => .ok ({ s with backend := alPut s.backend name k }, k)

/-! ### crypto.Crypto -/

/-- findKeyReferenceByKid -/
def findRef (s : Store) (kid : String) : KRes KeyRef :=
  match s.ref kid with
  | some r => .ok r
  | none => .error .privateKeyNotFound

/-- gorm `tx.Save(&KeyReference{KID: kid, …})`: an upsert on the primary key — except that a zero primary key
    (kid = "") makes gorm issue a plain INSERT, which fails when the row exists. -/
def saveRef (s : Store) (kid : String) (r : KeyRef) : KRes Store :=
  if kid = "" ∧ (s.ref kid).isSome then .error .duplicatedKey
  else .ok { s with refs := alPut s.refs kid r }

/-- getPrivateKey (jwx.go): reference, then backend; spi.ErrNotFound is mapped to ErrPrivateKeyNotFound -/
def getPrivateKey (s : Store) (kid : String) : KRes Nat :=
  match findRef s kid with
  | .error e => .error e
  | .ok r =>
    match wGet valid s r.keyName r.version with
    | .ok k => .ok k
    | .error .spiNotFound => .error .privateKeyNotFound
    | .error e => .error e

/-- Resolve (crypto.go): its own copy of the same lookup, returns the public half -/
def resolve (s : Store) (kid : String) : KRes Nat :=
  match findRef s kid with
  | .error e => .error e
  | .ok r =>
    match wGet valid s r.keyName r.version with
    | .ok k => .ok k
    | .error .spiNotFound => .error .privateKeyNotFound
    | .error e => .error e

/-- Exists: only the reference table is consulted -/
def keyExists (s : Store) (kid : String) : Bool := (s.ref kid).isSome

/-- List: the kids of the reference table (SQL order; compared as a set) -/
def list (s : Store) : List String := s.refs.map (·.1)

/-- the signing entry points SignJWT / SignJWS / SignDPoP: which key pair signs -/
def signKey (s : Store) (kid : String) : KRes Nat := getPrivateKey valid s kid

/-- Decrypt (decryptor.go): reference, backend (errors NOT mapped), ECIES with that key.
    `encFor` is the key pair the ciphertext was encrypted for. -/
def decrypt (s : Store) (kid : String) (encFor : Nat) : KRes Nat :=
  match findRef s kid with
  | .error e => .error e
  | .ok r =>
    match wGet valid s r.keyName r.version with
    | .error e => .error e
    | .ok k => if k = encFor then .ok k else .error .wrongKey

/-- DecryptJWE: kid from the protected header, getPrivateKey, jwe.Decrypt -/
def decryptJWE (s : Store) (kid : String) (encFor : Nat) : KRes Nat :=
  if kid = "" then .error .noKidHeader else
  match getPrivateKey valid s kid with
  | .error e => .error e
  | .ok k => if k = encFor then .ok k else .error .wrongKey

/-- New: fresh key under `keyName` (uuid.New()), kid from the caller's naming function, upsert the reference.
    A naming failure leaves the generated key in the backend without a reference. -/
def new (s : Store) (keyName : String) (naming : Option String) : Store × KRes (String × KeyRef × Nat) :=
  match wNew s keyName with
  | .error e => ({ s with nextKey := s.nextKey + 1 }, .error e)
  | .ok (s1, k) =>
    match naming with
    | none => (s1, .error .naming)
    | some kid =>
      let r : KeyRef := { keyName := keyName, version := "1" }
      match saveRef s1 kid r with
      | .error e => (s1, .error e)
      | .ok s2 => ({ s2 with published := alPut s2.published kid k }, .ok (kid, r, k))

/-- Delete: the reference row goes first; the backend entry is removed by key NAME; a backend failure is returned
    but the row stays deleted (no enclosing SQL transaction unless the caller brought one). -/
def delete (s : Store) (kid : String) : Store × KRes Unit :=
  match findRef s kid with
  | .error e => (s, .error e)
  | .ok r =>
    let s1 := { s with refs := alDel s.refs kid, published := alDel s.published kid }
    match wDelete valid s1 r.keyName with
    | .ok s2 => (s2, .ok ())
    | .error e => (s1, .error e)

/-- Link: `Save`, nothing is validated here. Ghost: whatever was published for that kid is no longer claimed. -/
def link (s : Store) (kid keyName version : String) : Store × KRes Unit :=
  match saveRef s kid { keyName := keyName, version := version } with
  | .error e => (s, .error e)
  | .ok s1 => ({ s1 with published := alDel s1.published kid }, .ok ())

/-- Migrate: every backend key (name, "1") without a reference row with that key_name/version gets kid := name. -/
def migrateOne (s : Store) (name : String) : Store :=
  if s.refs.any (fun p => p.2.keyName == name && p.2.version == "1") then s
  else (link s name name "1").1     -- a failing Save is logged and skipped

def migrate (s : Store) : Store := (s.backend.map (·.1)).foldl migrateOne s

/-! ### operations as data (for `∀ history` theorems and the driver) -/

inductive Op where
  | new (keyName : String) (naming : Option String)
  | link (kid keyName version : String)
  | delete (kid : String)
  | migrate
  deriving Repr, DecidableEq, Inhabited

def step (s : Store) : Op → Store
  | .new n f => (new s n f).1
  | .link k n v => (link s k n v).1
  | .delete k => (delete valid s k).1
  | .migrate => migrate s

def run (s : Store) (ops : List Op) : Store := ops.foldl (step valid) s

/-- `uuid.New()` contract: the name chosen by `New` is not in use — neither an entry of the backend nor the
    key name of any reference row. -/
def FreshName (s : Store) (name : String) : Prop :=
  s.key name = none ∧ ∀ p ∈ s.refs, p.2.keyName ≠ name

/-- a history in which every `New` draws a fresh key name -/
def FreshHist : Store → List Op → Prop
  | _, [] => True
  | s, op :: rest =>
    (match op with | .new n _ => FreshName s n | _ => True) ∧ FreshHist (step valid s op) rest

end

end Nuts.C03
