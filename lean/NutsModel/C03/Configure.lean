/-
  C03 (deepening round 2) — which key-store backend does the engine install, and is it behind the validating wrapper?
  Mirrors  crypto/crypto.go : (*Crypto).Configure (switch over client.config.Storage, strict-mode rule, default clause),
                              setupFSBackend / setupVaultBackend / setupAzureKeyVaultBackend / setupStorageAPIBackend
                              (constructor, error return, client.backend = spi.NewValidatedKIDBackendWrapper(…, spi.KidPattern))
           crypto/storage/azure/keyvault.go : New, createCredential (guards before the SDK is touched)
           crypto/storage/vault/vault.go    : NewVaultKVStorage, checkConnection (token lookup -> outcome)
           crypto/storage/external/client.go: NewAPIClient (address must parse)
  The switch clauses and the setup functions are REGENERATED from the source (Facts.C03.configureSwitch / setupFns);
  `configure` interprets them. Third-party code is a parameter: what the Azure SDK constructors, the Vault client's
  lookup, url.ParseRequestURI and MkdirAll answered is supplied by the harness.
  Core Lean only.
-/
namespace Nuts.C03

/-- result of a backend constructor as far as `Configure` can tell -/
inductive Ctor where
  | ok
  | err (text : String)
  deriving Repr, DecidableEq, Inhabited

/-- what a setup function assigned to `client.backend` -/
structure Backend where
  ctor : String      -- the constructor whose result is wrapped
  wrapper : String   -- the callee whose result is assigned
  inner : String     -- "ctor-result" iff the wrapped value is the constructor's result
  pattern : String   -- second argument of the wrapper
  deriving Repr, DecidableEq, Inhabited

inductive CfgOut where
  | ok (b : Backend)
  | error (text : String)
  | stuck (why : String)   -- a generated row the interpreter has no rule for
  deriving Repr, DecidableEq, Inhabited

/-- (is default clause, case values, steps of the body) -/
abbrev CfgCase := Bool × List String × List (String × String)
/-- (function, constructor, text put before a constructor error, wrapper callee, wrapped value, pattern) -/
abbrev SetupFn := String × String × String × String × String × String

def isCaseOf (tag : String) (c : CfgCase) : Bool := !c.1 && c.2.1.contains tag
def isDefault (c : CfgCase) : Bool := c.1

/-- Go `switch tag { case …: … default: … }` over constants: the clause listing the tag, else the default clause -/
def selectCase (sw : List CfgCase) (tag : String) : Option CfgCase :=
  match sw.find? (isCaseOf tag) with
  | some c => some c
  | none => sw.find? isDefault

def isFn (fn : String) (r : SetupFn) : Bool := r.1 == fn

/-- `client.setupXBackend(…)`: construct, return the (wrapped) error, else assign the wrapped backend -/
def setup (fns : List SetupFn) (ctorRes : String → Ctor) (fn : String) : CfgOut :=
  match fns.find? (isFn fn) with
  | none => .stuck ("no setup function " ++ fn)
  | some (_, ctor, wrap, wrapper, inner, pattern) =>
    match ctorRes ctor with
    | .err t => .error (wrap ++ t)
    | .ok => .ok { ctor := ctor, wrapper := wrapper, inner := inner, pattern := pattern }

/-- the statements of one clause, in order -/
def runSteps (fns : List SetupFn) (ctorRes : String → Ctor) (strict : Bool) : List (String × String) → CfgOut
  | [] => .stuck "clause ends without return"
  | (k, a) :: rest =>
    if k == "strict-error" then (if strict then .error a else runSteps fns ctorRes strict rest)
    else if k == "call" then setup fns ctorRes a
    else if k == "error" then .error a
    else .stuck k

/-- `(*Crypto).Configure` -/
def configure (sw : List CfgCase) (fns : List SetupFn) (storage : String) (strict : Bool) (ctorRes : String → Ctor) : CfgOut :=
  match selectCase sw storage with
  | none => .stuck "no clause"
  | some c => runSteps fns ctorRes strict c.2.2

/-- Configure as a transformer of `client.backend`: only a successful setup function assigns it -/
def configureSt (sw : List CfgCase) (fns : List SetupFn) (prev : Option Backend) (storage : String) (strict : Bool)
    (ctorRes : String → Ctor) : Option Backend × Option String :=
  match configure sw fns storage strict ctorRes with
  | .ok b => (some b, none)
  | .error t => (prev, some t)
  | .stuck w => (prev, some ("stuck: " ++ w))

/-- the installed backend validates key names iff it is the validating wrapper around the constructed backend, with KidPattern -/
def backendValidates (b : Backend) : Bool :=
  b.wrapper == "spi.NewValidatedKIDBackendWrapper" && b.pattern == "spi.KidPattern" && b.inner == "ctor-result"

/-- is a call `client.backend.Get/Exists/Save/Delete(name)` forwarded to the constructed backend? -/
def forwarded {α} (valid : α → Bool) (b : Backend) (name : α) : Bool := !backendValidates b || valid name

/-! ### the constructors, as far as they decide themselves -/

/-- `azure.New`: URL guard, credential type switch, then the two SDK constructors (their errors are inputs) -/
def azureNew (credTypes : List String) (url credType : String) (sdkCred sdkClient : Option String) : Ctor :=
  if url == "" then .err "missing Azure Key Vault URL"
  else if !credTypes.contains credType then .err ("unsupported Azure Key Vault credential type: " ++ credType)
  else match sdkCred with
    | some e => .err e
    | none => match sdkClient with
      | some e => .err ("unable to create Azure Key Vault client: " ++ e)
      | none => .ok

/-- what `client.ReadWithContext("auth/token/lookup-self")` gave -/
inductive Lookup where
  | err (text : String) | nilSecret | emptyData | data
  deriving Repr, DecidableEq, Inhabited

/-- `vault.NewVaultKVStorage` = configureVaultClient (error is an input) ; checkConnection -/
def vaultNew (clientErr : Option String) (lk : Lookup) : Ctor :=
  match clientErr with
  | some e => .err e
  | none => match lk with
    | .err t => .err ("unable to connect to Vault: unable to retrieve token status: " ++ t)
    | .nilSecret => .err "could not read token information on auth/token/lookup-self"
    | .emptyData => .err "could not read token information on auth/token/lookup-self"
    | .data => .ok

/-- `external.NewAPIClient`: only `url.ParseRequestURI(config.Address)` can fail -/
def externalNew (parseErr : Option String) : Ctor :=
  match parseErr with
  | some e => .err e
  | none => .ok

end Nuts.C03
