/-
  C03 — what ends up in the protected header of a JWS / JWT the node signs.
  Mirrors  crypto/jwx.go : SignJWS (package level), Crypto.SignJWS, SignJWT (package level), Crypto.SignJWT,
           crypto/memory.go : MemoryJWTSigner.SignJWS / SignJWT,
           crypto/dpop/dpop.go : jwkIsPrivateKey,  vdr/didjwk/resolver.go : rawPrivateKeyOf (decision only).
  The jwx library is a contract (exercised by the harness): `Headers.Set` type-checks the registered header names,
  `jwk.Key.Raw(&x)` succeeds iff the raw key is assignable to x, `jws.Sign` writes `alg`.
  Core Lean only.
-/
import NutsModel.Base

namespace Nuts.C03

/-- a caller supplied header value, as far as `Headers.Set` and the jwk rule can tell values apart -/
inductive HVal where
  | str (s : String)          -- a Go string
  | strList                   -- []string
  | jwk (rawType : String) (id : String)   -- a jwk.Key; rawType = Go type of its raw key (`%T`), id = a label
  | other (ty : String)       -- any other Go value (number, map, []interface{}, …)
  deriving Repr, DecidableEq, Inhabited

abbrev Headers := List (String × HVal)

/-- registered header names whose value must be a Go string (jws/headers_gen.go) -/
def stringHeaders : List String := ["cty", "jku", "kid", "typ", "x5t", "x5t#S256", "x5u"]

/-- signature algorithm names jwa accepts for the `alg` header -/
def knownAlgs : List String :=
  ["ES256", "ES256K", "ES384", "ES512", "EdDSA", "HS256", "HS384", "HS512", "none", "PS256", "PS384", "PS512", "RS256", "RS384", "RS512"]

/-- `jws.Headers.Set(name, value)` succeeds? -/
def settable (name : String) (v : HVal) : Bool :=
  if name = "alg" then (match v with | .str s => knownAlgs.contains s | _ => false)
  else if name = "crit" then (match v with | .strList => true | _ => false)
  else if name = "jwk" then (match v with | .jwk _ _ => true | _ => false)
  else if name = "x5c" then false
  else if stringHeaders.contains name then (match v with | .str _ => true | _ => false)
  else true

/-- Go types of raw keys that implement crypto.Signer (everything `jwk.Key.Raw` can return for a private
    EC / RSA / Ed25519 JWK). x25519.PrivateKey and []byte (oct) do not. -/
def signerTypes : List String := ["*ecdsa.PrivateKey", "*rsa.PrivateKey", "ed25519.PrivateKey"]

def assignableToSigner (rawType : String) : Bool := signerTypes.contains rawType

inductive JErr where
  | setHeader        -- "unable to set header …"
  | privateJwk       -- "refusing to sign JWS with private key in JWK header"
  | keyNotFound      -- ErrPrivateKeyNotFound (key store methods)
  | invalidHeaders   -- SignJWT: "invalid JWT headers: …"
  deriving Repr, DecidableEq, Inhabited

def JErr.name : JErr → String
  | .setHeader => "set-header" | .privateJwk => "private-jwk-refused" | .keyNotFound => "ErrPrivateKeyNotFound"
  | .invalidHeaders => "invalid-jwt-headers"

/-- Go map semantics for the header map: the last write to a name wins -/
def hput (h : Headers) (name : String) (v : HVal) : Headers := alPut h name v
def hget (h : Headers) (name : String) : Option HVal := alGet h name

/-- package-level `SignJWS(ctx, payload, protectedHeaders, privateKey, detached)`: the protected header of the
    result (without `alg`, which jws.Sign writes from the signing key) or the refusal.
    `protectedHeaders` is a Go map: names are unique (see `dedup`). -/
def signJWSHeaders (h : Headers) : Except JErr Headers :=
  if h.any (fun p => !settable p.1 p.2) then .error .setHeader
  else
    match hget h "jwk" with
    | some (.jwk rawType _) =>
      let h' := alDel h "kid"                      -- headers.Remove(jwk.KeyIDKey)
      if assignableToSigner rawType then .error .privateJwk else .ok (alDel h' "alg")
    | _ => .ok (alDel h "alg")

/-- a Go map built from a list of assignments: later entries overwrite earlier ones -/
def dedup (h : Headers) : Headers := h.foldl (fun acc p => hput acc p.1 p.2) []

/-- `Crypto.SignJWS(ctx, payload, headers, kid, detached)` / `MemoryJWTSigner.SignJWS`: `headers["kid"] = kid`
    (the caller's map is written), then the package-level function. `found` = the key store has the key. -/
def storeSignJWSHeaders (found : Bool) (h : Headers) (kid : String) : Except JErr Headers :=
  if !found then .error .keyNotFound
  else signJWSHeaders (hput (dedup h) "kid" (.str kid))

/-- package-level `SignJWT`: `convertHeaders` sets every header; then the same jwk rule as SignJWS (a `jwk` header whose
    raw key is assignable to crypto.Signer is refused); `kid` is NOT removed here; jwt.Sign supplies `typ: JWT`. -/
def signJWTHeaders (h : Headers) : Except JErr Headers :=
  if h.any (fun p => !settable p.1 p.2) then .error .invalidHeaders
  else
    match hget h "jwk" with
    | some (.jwk rawType _) =>
      if assignableToSigner rawType then .error .privateJwk
      else
        let out := alDel h "alg"
        .ok (if (hget out "typ").isNone then hput out "typ" (.str "JWT") else out)
    | _ =>
      let out := alDel h "alg"
      .ok (if (hget out "typ").isNone then hput out "typ" (.str "JWT") else out)

/-- `Crypto.SignJWT` / `MemoryJWTSigner.SignJWT`: headers are copied, `kid` is set, then the package-level function -/
def storeSignJWTHeaders (found : Bool) (h : Headers) (kid : String) : Except JErr Headers :=
  if !found then .error .keyNotFound
  else signJWTHeaders (hput (dedup h) "kid" (.str kid))

/-- `MemoryJWTSigner`'s own guard: `if kid != m.Key.KeyID() { return "", ErrPrivateKeyNotFound }` — the signer holds
    exactly the key id its JWK carries (an unnamed JWK has key id "": it answers to the empty kid only) -/
def memHolds (keyId kid : String) : Bool := !(kid != keyId)

/-- `MemoryJWTSigner.SignJWS`: the kid guard, `headers["kid"] = kid`, the package-level function -/
def memSignJWSHeaders (keyId : String) (h : Headers) (kid : String) : Except JErr Headers :=
  storeSignJWSHeaders (memHolds keyId kid) h kid

/-- `MemoryJWTSigner.SignJWT`: headers copied, the kid guard, `kid` set, the package-level function -/
def memSignJWTHeaders (keyId : String) (h : Headers) (kid : String) : Except JErr Headers :=
  storeSignJWTHeaders (memHolds keyId kid) h kid

/-- `dpop.jwkIsPrivateKey`: Raw into rsa.PrivateKey / ecdsa.PrivateKey / ed25519.PrivateKey values -/
def dpopPrivateTypes : List String := ["*rsa.PrivateKey", "*ecdsa.PrivateKey", "ed25519.PrivateKey", "[]uint8"]
def dpopJwkIsPrivate (rawType : String) : Bool := dpopPrivateTypes.contains rawType

/-- `didjwk.Resolver.Resolve` on a did:jwk that embeds a JWK of that raw type (observed contract of
    `rawPrivateKeyOf`: generic comparison of the raw key with its public half) -/
def didJwkOutcome (rawType : String) : String :=
  if ["*rsa.PrivateKey", "*ecdsa.PrivateKey", "ed25519.PrivateKey", "x25519.PrivateKey"].contains rawType then "forbidden-private"
  else if rawType = "[]uint8" then "resolved-WITH-SECRET"    -- a symmetric key has no public half: echoed as is
  else "resolved"

/-! ### the audit record of a signing request: written FIRST (before any header is looked at), and worded from the
   `kid` header / the issuer and subject claims only -/

/-- `fmt.Sprintf("%s", protectedHeaders["kid"])` for the header values the harness generates as `kid`;
    `none` = a value whose Go rendering is not modelled (numbers, maps, lists) -/
def kidText (h : Headers) : Option String :=
  match hget h "kid" with
  | some (.str s) => some s
  | none => some "%!s(<nil>)"
  | _ => none

/-- package-level SignJWS / SignJWT: exactly one record, whatever happens afterwards (header error, refusal, success).
    Fields of the record are the standard ones (actor, operation, event, module): no header content. -/
def signAudit (jwt : Bool) (iss sub : String) (h : Headers) : Option (List (String × String)) :=
  (kidText h).map fun k =>
    if jwt then [("SignJWT", "Signing a JWT with key: " ++ k ++ " (issuer: " ++ iss ++ ", subject: " ++ sub ++ ")")]
    else [("SignJWS", "Signing a JWS with key: " ++ k)]

/-- key store / in-memory signer: nothing is written when the key is not found; else `kid` is the requested kid -/
def storeSignAudit (jwt : Bool) (iss sub : String) (found : Bool) (h : Headers) (kid : String) : Option (List (String × String)) :=
  if !found then some [] else signAudit jwt iss sub (hput (dedup h) "kid" (.str kid))

end Nuts.C03
