/-
  C03 (deepening round) — the crypto REST wrapper: request body -> validation -> key store call -> HTTP status.
  Mirrors  crypto/api/v1/api.go : SignJwtRequest/SignJwsRequest/EncryptJweRequest/DecryptJweRequest.validate,
                                  Wrapper.SignJwt, Wrapper.SignJws, Wrapper.DecryptJwe, Wrapper.ResolveStatusCode
           core/echo_errors.go  : InvalidInputError (predefined status), GetHTTPStatusCode (table, else 500)
  composed with the key store state machine (KeyStore.lean) and the header handling (Jws.lean).
  The `validate()` check lists, the status table and the status of InvalidInputError are REGENERATED from the source
  (Facts.C03.apiValidate / apiStatusMap / apiInvalidInputStatus); this model interprets them.
  Contracts (exercised by the harness, not modelled): encoding/json decoding of the body into the generated request
  structs (a JSON value that is not a string can never become a `jwk.Key` / `[]string` header value), jwe.Parse.
  Core Lean only.
-/
import NutsModel.C03.KeyStore
import NutsModel.C03.Jws

namespace Nuts.C03

/-- a body field after `encoding/json` decoding, as far as `len(x) == 0` and `x == nil` can tell:
    `absent` / `null` leave the Go zero value (nil map, nil slice, ""), `empty` is `""` / `{}` / a zero-length
    non-nil slice, `present` has length > 0 -/
inductive Fld where
  | absent | null | empty | present
  deriving Repr, DecidableEq, Inhabited

def Fld.lenZero : Fld → Bool
  | .present => false
  | _ => true

def Fld.isNil : Fld → Bool
  | .absent => true
  | .null => true
  | _ => false

/-- one `if … { return err }` of a `validate()` method, as printed by the extractor -/
structure Check where
  field : String
  test : String      -- "len0" | "nil" | "haskey" | "parse:did.ParseDIDURL"
  arg : String       -- haskey: the header name
  ctor : String      -- errors.New | fmt.Errorf | fmt.Errorf%w (text then ends where the wrapped parser error starts)
  msg : String
  deriving Repr, DecidableEq, Inhabited

def Check.ofTuple (t : String × String × String × String × String) : Check := ⟨t.1, t.2.1, t.2.2.1, t.2.2.2.1, t.2.2.2.2⟩

/-- a decoded request body. `kid` = the Kid / Receiver string; `headers` = the decoded Headers map (JSON values);
    `parseOk` = did.ParseDIDURL(Receiver) succeeds (third-party parser: supplied, not modelled) -/
structure ApiReq where
  flds : List (String × Fld) := []
  kid : String := ""
  headers : Headers := []
  parseOk : Bool := true
  deriving Repr, Inhabited

def ApiReq.fld (r : ApiReq) (name : String) : Fld :=
  match alGet r.flds name with
  | some f => f
  | none => .absent          -- a field the body does not mention keeps its zero value

/-- does the check fire? `none` = a test the model does not know (the extractor printed `unknown:…`) -/
def checkFires (r : ApiReq) (c : Check) : Option Bool :=
  if c.test = "len0" then some (r.fld c.field).lenZero
  else if c.test = "nil" then some (r.fld c.field).isNil
  else if c.test = "haskey" then some (hget r.headers c.arg).isSome
  else if c.test = "parse:did.ParseDIDURL" then some (!r.parseOk)
  else none

/-- the text of the error a check returns (the `%w` part of a wrapped parser error is not modelled) -/
def Check.text (c : Check) : String := c.msg

/-- `validate()`: the checks in source order, first failure wins. outer `none` = model not applicable -/
def validateReq : List Check → ApiReq → Option (Option String)
  | [], _ => some none
  | c :: cs, r =>
    match checkFires r c with
    | none => none
    | some true => some (some c.text)
    | some false => validateReq cs r

structure ApiCfg where
  validate : List (String × List Check)
  statusMap : List (String × Nat)
  invalidInput : Nat
  deriving Repr, Inhabited

/-- the configuration from the regenerated facts -/
def ApiCfg.ofFacts (v : List (String × List (String × String × String × String × String))) (m : List (String × Nat)) (inv : Nat) : ApiCfg :=
  { validate := v.map (fun p => (p.1, p.2.map Check.ofTuple)), statusMap := m, invalidInput := inv }

def ApiCfg.checks (cfg : ApiCfg) (ty : String) : Option (List Check) := alGet cfg.validate ty

/-- core.GetHTTPStatusCode for an error of the key store: the wrapper's table by `errors.Is`, else 500 -/
def apiErrStatus (cfg : ApiCfg) : KErr → Nat
  | .privateKeyNotFound =>
    match alGet cfg.statusMap "crypto.ErrPrivateKeyNotFound" with
    | some c => c
    | none => 500
  | _ => 500

inductive ApiResp where
  | token (key : Nat) (hdr : Headers)            -- 200, text/plain: a token signed by key pair `key` with that protected header
  | plain (key : Nat)                            -- 200, JSON: the plaintext decrypted with key pair `key`
  | problem (status : Nat) (detail : String)     -- application/problem+json
  | notApplicable (why : String)
  deriving Repr, DecidableEq, Inhabited

/-- the response without the identity of the key pair that produced it (what an observer who cannot verify signatures sees
    besides the signature bytes) -/
def ApiResp.noKey : ApiResp → ApiResp
  | .token _ h => .token 0 h
  | .plain _ => .plain 0
  | r => r

section
variable (valid : String → Bool) (cfg : ApiCfg) (keyDir : String)

def errDetail (s : Store) (q : Req) (e : KErr) : String :=
  match errText keyDir s q e with
  | some t => t
  | none => "class:" ++ e.name

/-- `Wrapper.SignJwt`: validate, `w.C.SignJWT(ctx, claims, nil, kid)` -/
def apiSignJwt (s : Store) (r : ApiReq) : ApiResp :=
  match cfg.checks "SignJwtRequest" with
  | none => .notApplicable "no validate() for SignJwtRequest"
  | some cs =>
    match validateReq cs r with
    | none => .notApplicable "unknown check"
    | some (some m) => .problem cfg.invalidInput ("invalid sign request: " ++ m)
    | some none =>
      match signKey valid s r.kid with
      | .error e => .problem (apiErrStatus cfg e) (errDetail keyDir s (.sign "jwt" r.kid "" "") e)
      | .ok k =>
        match storeSignJWTHeaders true [] r.kid with
        | .ok out => .token k out
        | .error e => .problem 500 ("class:" ++ e.name)

/-- `Wrapper.SignJws`: validate, `headers["kid"] = kid`, `w.C.SignJWS(ctx, payload, headers, kid, detached)`
    (which fetches the key FIRST and only then looks at the headers) -/
def apiSignJws (s : Store) (r : ApiReq) : ApiResp :=
  match cfg.checks "SignJwsRequest" with
  | none => .notApplicable "no validate() for SignJwsRequest"
  | some cs =>
    match validateReq cs r with
    | none => .notApplicable "unknown check"
    | some (some m) => .problem cfg.invalidInput ("invalid sign request: " ++ m)
    | some none =>
      let h := hput (dedup r.headers) "kid" (.str r.kid)
      match signKey valid s r.kid with
      | .error e => .problem (apiErrStatus cfg e) (errDetail keyDir s (.sign "jws" r.kid "" "") e)
      | .ok k =>
        match storeSignJWSHeaders true h r.kid with
        | .ok out => .token k out
        | .error e => .problem 500 ("class:" ++ e.name)

/-- what `jwe.Parse` made of the message -/
inductive JweMsg where
  | garbage                                -- does not parse
  | jwe (kid : String) (encFor : Nat)      -- protected `kid` header (may be ""), encrypted for key pair `encFor`
  deriving Repr, DecidableEq, Inhabited

/-- `Wrapper.DecryptJwe`: validate, `w.C.DecryptJWE(ctx, message)`, errors wrapped with `%w` (so the table still applies) -/
def apiDecryptJwe (s : Store) (r : ApiReq) (m : JweMsg) : ApiResp :=
  match cfg.checks "DecryptJweRequest" with
  | none => .notApplicable "no validate() for DecryptJweRequest"
  | some cs =>
    match validateReq cs r with
    | none => .notApplicable "unknown check"
    | some (some t) => .problem cfg.invalidInput ("invalid decrypt request: " ++ t)
    | some none =>
      match m with
      | .garbage => .problem 500 "failed to decrypt JWE: class:parse-error"
      | .jwe kid encFor =>
        match decryptJWE valid s kid encFor with
        | .ok k => .plain k
        | .error e => .problem (apiErrStatus cfg e) ("failed to decrypt JWE: " ++ errDetail keyDir s (.decryptJWE kid encFor) e)

/-- `EncryptJweRequest.validate` only (the handler resolves a PUBLIC key: no key store key is touched) -/
def apiEncryptValidate (r : ApiReq) : ApiResp :=
  match cfg.checks "EncryptJweRequest" with
  | none => .notApplicable "no validate() for EncryptJweRequest"
  | some cs =>
    match validateReq cs r with
    | none => .notApplicable "unknown check"
    | some (some t) => .problem cfg.invalidInput ("invalid encrypt request: " ++ t)
    | some none => .problem 0 "validated"

end

/-! ### DPoP proofs: `Crypto.SignDPoP(ctx, token dpop.DPoP, kid)` -> `(*dpop.DPoP).Sign(kid, key, alg)`
   The token is passed BY VALUE but its `Headers` (a jws.Headers interface value) are SHARED with the caller's token:
   what one call writes into the headers is what the next call on the same token starts from; the "already signed"
   marker (`t.raw`) is set on the copy only. `Sign` derives the `jwk` header from the signing key on EVERY call and
   overwrites whatever the token carried (a jwk of a previous signing, a jwk the caller put there). -/

/-- the public JWK of key pair `k` as a header value -/
def pubJwk (k : Nat) : HVal := .jwk "public" ("K" ++ toString k)

/-- `(*DPoP).Sign`: `t.Headers.Set("jwk", FromRaw(key.Public()))` — unconditional -/
def dpopSignHeaders (h : Headers) (k : Nat) : Headers := hput h "jwk" (pubJwk k)

/-- one `SignDPoP` call on a token whose shared headers are `h`: the protected header that is signed (= the shared
    headers afterwards) and the key pair that signs; an unknown kid changes nothing -/
def signDPoP (valid : String → Bool) (s : Store) (h : Headers) (kid : String) : Headers × KRes (Nat × Headers) :=
  match signKey valid s kid with
  | .error e => (h, .error e)
  | .ok k => (dpopSignHeaders h k, .ok (k, dpopSignHeaders h k))

/-- the same token handed to `SignDPoP` for a list of kids, one after the other -/
def signDPoPSeq (valid : String → Bool) (s : Store) : Headers → List String → List (String × KRes (Nat × Headers))
  | _, [] => []
  | h, kid :: rest =>
    let (h', r) := signDPoP valid s h kid
    (kid, r) :: signDPoPSeq valid s h' rest

/-- a header value that came out of `encoding/json` (string, or any other JSON value): never a `jwk.Key`, never `[]string` -/
def HVal.isJson : HVal → Bool
  | .str _ => true
  | .other _ => true
  | _ => false

end Nuts.C03
