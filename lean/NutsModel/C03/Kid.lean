/-
  C03 — key-name validation and storage path construction.
  Mirrors  crypto/storage/spi/interface.go : KidPattern
           crypto/storage/spi/wrapper.go   : validateKID
           crypto/storage/fs/fs.go         : getEntryFileName, getEntryPath   (filepath.Join)
           crypto/storage/vault/vault.go   : privateKeyPath                   (filepath.Base, filepath.Clean)
  and the unix implementation of Go's path/filepath Clean / Join / Base at byte level.
  Strings are `List Nat` (bytes). Core Lean only.
-/
import NutsModel.C03.Types

namespace Nuts.C03

abbrev Bytes := List Nat
abbrev Ranges := List (Nat × Nat)

def SLASH : Nat := 47
def DOT : Nat := 46
def PCT : Nat := 37
def USCORE : Nat := 95

def inRanges (rs : Ranges) (b : Nat) : Bool := rs.any (fun r => r.1 ≤ b && b ≤ r.2)

/-- the shape of `spi.KidPattern`: `^(?:[cls]|%[hex]{2})+$`; gives the two character classes -/
def kidClasses : Rx → Option (Ranges × Ranges)
  | .cat [.bot, .plus (.alt [.cls c, .cat [.lit [37], .rep 2 2 (.cls h)]]), .eot] => some (c, h)
  | _ => none

/-- one or more tokens, each a class byte or `%` + two hex bytes. Deterministic because `%` is not in the class
    (a fact theorem); Go's regexp works on runes, bytes ≥ 0x80 are never in an ASCII class. -/
def kidTokens (cls hex : Ranges) : Bytes → Bool
  | [] => true
  | b :: rest =>
    if inRanges cls b then kidTokens cls hex rest
    else if b = PCT then
      match rest with
      | h1 :: h2 :: rest' => inRanges hex h1 && inRanges hex h2 && kidTokens cls hex rest'
      | _ => false
    else false

def kidMatches (cls hex : Ranges) (s : Bytes) : Bool := !s.isEmpty && kidTokens cls hex s

/-- `wrapper.validateKID`: the pattern must match and the name must not be one of the literally refused names -/
def validateKID (cls hex : Ranges) (refused : List Bytes) (s : Bytes) : Bool :=
  kidMatches cls hex s && !refused.contains s

/-- `wrapper.validateKID` as configured by the source: pattern classes taken from the regenerated pattern tree.
    `none` = the pattern no longer has the shape this model describes. -/
def validName? (rx : Rx) (refused : List Bytes) (s : Bytes) : Option Bool :=
  match kidClasses rx with
  | some (cls, hex) => some (validateKID cls hex refused s)
  | none => none

/-! ### what the pattern tree means: textbook regular-expression semantics -/

mutual
/-- textbook language of a pattern tree (anchors are handled by `FullMatch`) -/
def Rx.M : Rx → Bytes → Prop
  | .cls rs, s => ∃ b, s = [b] ∧ inRanges rs b = true
  | .lit l, s => s = l
  | .cat l, s => Rx.MCat l s
  | .alt l, s => Rx.MAlt l s
  | .plus r, s => ∃ parts : List Bytes, parts ≠ [] ∧ s = parts.flatten ∧ ∀ p ∈ parts, Rx.M r p
  | .star r, s => ∃ parts : List Bytes, s = parts.flatten ∧ ∀ p ∈ parts, Rx.M r p
  | .quest r, s => s = [] ∨ Rx.M r s
  | .rep n m r, s => ∃ parts : List Bytes, n ≤ parts.length ∧ parts.length ≤ m ∧ s = parts.flatten ∧ ∀ p ∈ parts, Rx.M r p
  | .bot, _ => False
  | .eot, _ => False
def Rx.MCat : List Rx → Bytes → Prop
  | [], s => s = []
  | r :: rs, s => ∃ a b, s = a ++ b ∧ Rx.M r a ∧ Rx.MCat rs b
def Rx.MAlt : List Rx → Bytes → Prop
  | [], _ => False
  | r :: rs, s => Rx.M r s ∨ Rx.MAlt rs s
end

/-- `^x$` without flags: the whole string is in the language of x -/
def Rx.FullMatch : Rx → Bytes → Prop
  | .cat [.bot, x, .eot], s => x.M s
  | _, _ => False


/-- the pattern tree `kidClasses` recognises -/
def kidShape (cls hex : Ranges) : Rx := .plus (.alt [.cls cls, .cat [.lit [37], .rep 2 2 (.cls hex)]])

/-! ### path/filepath (unix) -/

/-- split on '/' (always at least one component) -/
def splitSlash : Bytes → List Bytes
  | [] => [[]]
  | b :: rest =>
    if b = SLASH then [] :: splitSlash rest
    else match splitSlash rest with
      | [] => [[b]]            -- unreachable: splitSlash is never empty
      | c :: cs => (b :: c) :: cs

/-- the lexical processing of `filepath.Clean`: the stack of kept components (top first) -/
def cleanStep (rooted : Bool) (st : List Bytes) (c : Bytes) : List Bytes :=
  if c = [] ∨ c = [DOT] then st
  else if c = [DOT, DOT] then
    match st with
    | [] => if rooted then [] else [c]
    | top :: st' => if top = [DOT, DOT] then c :: st else st'
  else c :: st

def cleanComps (rooted : Bool) (comps : List Bytes) : List Bytes :=
  (comps.foldl (cleanStep rooted) []).reverse

def isRooted : Bytes → Bool
  | b :: _ => b = SLASH
  | [] => false

def joinSlash : List Bytes → Bytes
  | [] => []
  | [c] => c
  | c :: cs => c ++ SLASH :: joinSlash cs

/-- a lexically normalised path: absolute or relative, and the list of its components -/
structure CPath where
  rooted : Bool
  comps : List Bytes
  deriving Repr, DecidableEq

def CPath.render (p : CPath) : Bytes :=
  if p.rooted then SLASH :: joinSlash p.comps
  else if p.comps = [] then [DOT] else joinSlash p.comps

/-- the entry `n` of directory `d` -/
def CPath.child (d : CPath) (n : Bytes) : CPath := { d with comps := d.comps ++ [n] }

def cleanP (p : Bytes) : CPath := { rooted := isRooted p, comps := cleanComps (isRooted p) (splitSlash p) }

/-- `filepath.Clean` -/
def clean (p : Bytes) : Bytes := (cleanP p).render

/-- `filepath.Join(a, b)`: empty elements are dropped, the rest joined with '/' and cleaned; all empty gives "" -/
def join2 (a b : Bytes) : Bytes :=
  if a = [] then (if b = [] then [] else clean b)
  else if b = [] then clean a
  else clean (a ++ SLASH :: b)

def dropTrailingSlashes (p : Bytes) : Bytes := (p.reverse.dropWhile (· = SLASH)).reverse

def lastComp (p : Bytes) : Bytes := ((p.reverse.takeWhile (· ≠ SLASH))).reverse

/-- `filepath.Base` -/
def base (p : Bytes) : Bytes :=
  if p = [] then [DOT]
  else
    let q := dropTrailingSlashes p
    if q = [] then [SLASH] else lastComp q

/-- `fs.getEntryFileName`: `fmt.Sprintf("%s_%s", kid, entryType)` -/
def fsEntryFileName (kid entryType : Bytes) : Bytes := kid ++ USCORE :: entryType

/-- `fs.getEntryPath`: `filepath.Join(fsc.fspath, getEntryFileName(kid, entryType))` -/
def fsEntryPath (dir kid entryType : Bytes) : Bytes := join2 dir (fsEntryFileName kid entryType)

/-- `vault.privateKeyPath`: `filepath.Clean(fmt.Sprintf("%s/%s/%s", prefix, privateKeyPathName, filepath.Base(kid)))` -/
def vaultKeyPath (pfx pathName kid : Bytes) : Bytes :=
  clean (pfx ++ SLASH :: (pathName ++ SLASH :: base kid))

/-- a single path component that names an entry of a directory: non-empty, no separator, no NUL, not `.`/`..` -/
def IsEntryName (n : Bytes) : Prop := n ≠ [] ∧ n ≠ [DOT] ∧ n ≠ [DOT, DOT] ∧ SLASH ∉ n ∧ 0 ∉ n

instance (n : Bytes) : Decidable (IsEntryName n) := by unfold IsEntryName; infer_instance

end Nuts.C03
