/-
  C03 (deepening round) — how the fs backend turns the files of the key directory back into key NAMES.
  Mirrors  crypto/storage/fs/fs.go : ListPrivateKeys (the walk callback):
      if !info.IsDir() && strings.HasSuffix(info.Name(), string(privateKeyEntry)) {
          upper := len(info.Name()) - len(privateKeyEntry) - 1
          if upper > 0 { result = append(result, KeyNameVersion{KeyName: info.Name()[:upper], Version: "1"}) } }
  `filepath.Walk` descends into sub-directories and hands over the BASE name: a file in a sub-directory is listed under
  its base name. The byte before the suffix is cut off WITHOUT being compared with '_' (the code that exists).
  The names listed here become kids in `Crypto.Migrate` (KeyStore.lean: migrate).
  Core Lean only.
-/
import NutsModel.C03.Kid

namespace Nuts.C03

/-- `strings.HasSuffix` -/
def hasSuffix (n suf : Bytes) : Bool :=
  decide (suf.length ≤ n.length) && (n.drop (n.length - suf.length) == suf)

/-- the walk callback on one regular file's base name: the key name it is listed under, if any.
    `upper` is a Go `int`: it can be negative (file name = suffix exactly), hence the subtraction in `Int`. -/
def fsListName (fileName et : Bytes) : Option Bytes :=
  if hasSuffix fileName et then
    let upper : Int := (fileName.length : Int) - (et.length : Int) - 1
    if upper > 0 then some (fileName.take upper.toNat) else none
  else none

/-- ListPrivateKeys over the regular files of the tree (relative paths, walk order): base name of each -/
def fsListNames (paths : List Bytes) (et : Bytes) : List Bytes :=
  paths.filterMap fun p => fsListName (base p) et

end Nuts.C03
