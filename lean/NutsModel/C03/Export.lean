/-
  C03 (deepening round 3) — the operator command that moves every key of a key DIRECTORY into another backend.
  Mirrors  crypto/cmd/cmd.go : exportToOtherStorage (the loop: list, get from the source, save into the target;
                                 "key already exists" is skipped, the first other error ends the run; the NAMES of the
                                 exported keys and the error are what the command prints),
                               fsToOtherStorage (source = the fs backend WITHOUT the validating wrapper),
                               fs2VaultCommand (target = spi.NewValidatedKIDBackendWrapper(vault, spi.KidPattern)).
  The names come from `fs.ListPrivateKeys` (FsList.lean: fsListNames) — file names of the directory tree, NOT validated
  on the way in; the only gate between a file name and a Vault path is the wrapper around the target.
  Keys are abstract numbers. What the source / the backend behind the wrapper answered is an input.
  The two error wordings are regenerated (Facts.C03.exportGetErr / exportSaveErr: text before the name, between name and
  cause, after the cause).
  Core Lean only.
-/
import NutsModel.C03.Kid
import NutsModel.C03.FsList

namespace Nuts.C03

/-- what `source.GetPrivateKey(name, version)` answered -/
inductive SrcGet where
  | key (k : Nat)
  | err (text : String)
  deriving Repr, DecidableEq, Inhabited

/-- what `target.SavePrivateKey(name, key)` answered, as far as the loop tells answers apart -/
inductive SaveOut where
  | ok
  | dup                    -- errors.Is(err, spi.ErrKeyAlreadyExists)
  | err (text : String)
  deriving Repr, DecidableEq, Inhabited

/-- `fmt.Errorf("<a>%s<b>%w<c>", name, cause)` -/
def errFmt (parts : String × String × String) (name cause : String) : String :=
  parts.1 ++ name ++ parts.2.1 ++ cause ++ parts.2.2

/-- result of the command: exported names (in order), the error that ended it, the target afterwards -/
structure ExportRes (σ : Type) where
  exported : List Bytes
  error : Option String
  target : σ

/-- `exportToOtherStorage`: the loop over the listed names. `acc` = `result` so far. -/
def exportLoop {σ : Type} (getErr saveErr : String × String × String) (txt : Bytes → String)
    (get : Bytes → SrcGet) (save : σ → Bytes → Nat → σ × SaveOut) : List Bytes → σ → List Bytes → ExportRes σ
  | [], t, acc => { exported := acc, error := none, target := t }
  | n :: rest, t, acc =>
    match get n with
    | .err e => { exported := acc, error := some (errFmt getErr (txt n) e), target := t }
    | .key k =>
      match save t n k with
      | (t', .dup) => exportLoop getErr saveErr txt get save rest t' acc
      | (t', .err e) => { exported := acc, error := some (errFmt saveErr (txt n) e), target := t' }
      | (t', .ok) => exportLoop getErr saveErr txt get save rest t' (acc ++ [n])

/-- the target as the command sees it: entries name -> key -/
abbrev Tgt := List (Bytes × Nat)

def tgtHas (t : Tgt) (n : Bytes) : Bool := (t.map (·.1)).contains n

/-- `wrapper.SavePrivateKey` around a backend: validate the name first; then the backend (its own failure is the input
    `fault`; an existing entry is `ErrKeyAlreadyExists`; else the entry is created) -/
def wrappedSave (valid : Bytes → Bool) (txt : Bytes → String) (fault : Bytes → Option String)
    (t : Tgt) (n : Bytes) (k : Nat) : Tgt × SaveOut :=
  if !valid n then (t, .err ("invalid key ID: " ++ txt n))
  else match fault n with
    | some e => (t, .err e)
    | none => if tgtHas t n then (t, .dup) else (t ++ [(n, k)], .ok)

/-- the source of `fsToOtherStorage`: `fs.GetPrivateKey(name)` reads the TOP-LEVEL file `<name>_private.pem` of the
    directory — which need not be the file the name was listed from (sub-directory, other separator byte).
    `content` = what that file decodes to (input), `missing` = the error for an absent file. -/
def fsSourceGet (paths : List Bytes) (et : Bytes) (content : Bytes → SrcGet) (missing : Bytes → String) (n : Bytes) : SrcGet :=
  if paths.contains (fsEntryFileName n et) then content n else .err (missing n)

/-- `wrapper.SavePrivateKey` around the Vault backend: `vaultKVStorage.SavePrivateKey` writes without looking — an
    existing entry is overwritten (a second entry for the name = a second write), never `ErrKeyAlreadyExists` -/
def wrappedPut (valid : Bytes → Bool) (txt : Bytes → String) (fault : Bytes → Option String)
    (t : Tgt) (n : Bytes) (k : Nat) : Tgt × SaveOut :=
  if !valid n then (t, .err ("invalid key ID: " ++ txt n))
  else match fault n with
    | some e => (t, .err e)
    | none => (t ++ [(n, k)], .ok)

/-- a target that stores a key only under a name the validation accepted, and only by appending (name, key) -/
def GatedSave (valid : Bytes → Bool) (save : Tgt → Bytes → Nat → Tgt × SaveOut) : Prop :=
  ∀ t n k t' o, save t n k = (t', o) → (t' = t ∧ o ≠ .ok) ∨ (o = .ok ∧ t' = t ++ [(n, k)] ∧ valid n = true)

/-- `fs2vault <dir>` / `fsToOtherStorage`: list the directory tree, export into the target -/
def fs2target (getErr saveErr : String × String × String) (txt : Bytes → String)
    (paths : List Bytes) (et : Bytes) (content : Bytes → SrcGet) (missing : Bytes → String)
    (save : Tgt → Bytes → Nat → Tgt × SaveOut) (t : Tgt) : ExportRes Tgt :=
  exportLoop getErr saveErr txt (fsSourceGet paths et content missing) save (fsListNames paths et) t []

end Nuts.C03
