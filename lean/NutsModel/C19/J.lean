/-
  C19 — shared value types of the C19 models.  Core Lean only.
  `J` is a decoded JSON value as Go's encoding/json (and jwx's `token.Get`) hands it to the code:
  string | float64 | bool | nil | []interface{} | map[string]interface{}.
  Numbers keep their literal text (no model function looks inside a number).
-/
import NutsModel.Base
namespace Nuts.C19

inductive J where
  | null
  | bool (b : Bool)
  | num (lit : String)
  | str (s : String)
  | arr (xs : List J)
  | obj (kvs : List (String × J))
  deriving Repr, Inhabited

namespace J
def tag : J → String
  | null => "null" | bool _ => "bool" | num _ => "num" | str _ => "str" | arr _ => "arr" | obj _ => "obj"

/-- Go map semantics after `json.Unmarshal`: the last duplicate member wins. -/
def lookupLast (kvs : List (String × J)) (k : String) : Option J :=
  kvs.foldl (fun acc p => if p.1 == k then some p.2 else acc) none

/-- Go `v == ""` on an `interface{}`: true only for the string "". -/
def isEmptyString : J → Bool
  | str s => s == ""
  | _ => false
end J

/-- Go `strings.HasPrefix(s, p)` (on the characters; kernel-evaluable, unlike `String.startsWith`) -/
def hasPrefix (s p : String) : Bool := p.toList.isPrefixOf s.toList

end Nuts.C19
