/-
  C19 — model of vdr/didweb: util.go DIDToURL, percentDecodeString, percentDecodeChar, isHex, unhex and web.go Resolve
  (everything between the DID value and the library calls).  Go strings are BYTE strings: `Bytes = List Nat` (each < 256).
  Third party, supplied as data by the harness: url.Parse / URL.Hostname / net.ParseIP (table `UrlParse`), http.NewRequest,
  the HTTP exchange, mime.ParseMediaType, io.ReadAll, resolver.RejectNullKeyEntries' verdict, go-did's Document.UnmarshalJSON
  (ok | error | PANIC) and DID.Equals.  url.PathUnescape is re-implemented (`pathUnescape`) and compared on every run.
  Every partial Go operation is a `Res.panic` site: the slice `s[i : i+3]` and the three index expressions of percentDecodeChar.
-/
import NutsModel.Base
namespace Nuts.C19.DidWeb
open Nuts

abbrev Bytes := List Nat

structure Cfg where
  /-- the `n` of the guard `i+n < len(s)` in front of `s[i : i+3]` (source today: 2); `none` = no such guard -/
  sliceGuard : Option Nat
  /-- percentDecodeChar starts with `if len(encoded) != 3 { return ' ', false }` -/
  charLenGuard : Bool
  /-- the `case` list of percentDecodeChar's `switch c` (characters that are decoded) -/
  decodeSet : List Nat
  /-- the `case` list of Resolve's `switch ct` -/
  contentTypes : List String
  /-- `resolver.RejectNullKeyEntries(data)` is called before `document.UnmarshalJSON(data)` -/
  nullGuard : Bool
  deriving Repr, DecidableEq

/-- `~ ! $ & ' ( ) * + , ; = : @` -/
def subDelims : List Nat := [126, 33, 36, 38, 39, 40, 41, 42, 43, 44, 59, 61, 58, 64]

def Cfg.fixed : Cfg :=
  { sliceGuard := some 2, charLenGuard := true, decodeSet := subDelims,
    contentTypes := ["application/did+ld+json", "application/did+json", "application/json"], nullGuard := true }

/-- util.go isHex -/
def isHex (c : Nat) : Bool := (48 ≤ c && c ≤ 57) || (65 ≤ c && c ≤ 70) || (97 ≤ c && c ≤ 102)

/-- util.go unhex (Go `byte` arithmetic: wraps modulo 256) -/
def unhex (c : Nat) : Nat :=
  if 48 ≤ c && c ≤ 57 then c - 48 else
  if 65 ≤ c && c ≤ 70 then c - 65 + 10 else (c + 256 - 97 + 10) % 256

/-- util.go percentDecodeChar: `(c, true)` = `some c` -/
def percentDecodeChar (c : Cfg) (enc : Bytes) : Res (Option Nat) :=
  if c.charLenGuard && enc.length != 3 then .ok none else
  match enc with
  | [] => .panic "percentDecodeChar:encoded[0]"
  | e0 :: t =>
    if e0 != 37 then .ok none else
    match t with
    | [] => .panic "percentDecodeChar:encoded[1]"
    | [_] => .panic "percentDecodeChar:encoded[2]"
    | a :: b :: _ =>
      if !isHex a || !isHex b then .ok none else
      let ch := (unhex a * 16 + unhex b) % 256
      if c.decodeSet.contains ch then .ok (some ch) else .ok none

/-- does the guard in front of the slice let position `i` through, `rest` = the bytes after `s[i]` -/
def sliceGuardPasses (c : Cfg) (rest : Bytes) : Bool :=
  match c.sliceGuard with
  | some n => n ≤ rest.length      -- i+n < len(s)
  | none => true

def consOk (x : Nat) : Res Bytes → Res Bytes
  | .ok l => .ok (x :: l)
  | .err e => .err e
  | .panic s => .panic s

/-- util.go percentDecodeString: the `for i := 0; i < len(s); i++` loop, by recursion on the bytes from `s[i]` on;
    `skip` = how many of the next bytes the loop jumps over (`i += 2` after a decoded triple) -/
def percentDecodeFrom (c : Cfg) : Nat → Bytes → Res Bytes
  | _, [] => .ok []
  | skip + 1, _ :: rest => percentDecodeFrom c skip rest
  | 0, x :: rest =>
    if x == 37 && sliceGuardPasses c rest then
      if rest.length < 2 then .panic "percentDecodeString:s[i:i+3]" else
      match percentDecodeChar c (x :: rest.take 2) with
      | .ok (some ch) => consOk ch (percentDecodeFrom c 2 rest)      -- i += 2; continue
      | .ok none => consOk x (percentDecodeFrom c 0 rest)
      | .err e => .err e
      | .panic s => .panic s
    else consOk x (percentDecodeFrom c 0 rest)

def percentDecode (c : Cfg) (s : Bytes) : Res Bytes := percentDecodeFrom c 0 s

def mapCons (x : Nat) : Option Bytes → Option Bytes
  | some l => some (x :: l)
  | none => none

/-- net/url PathUnescape (= unescape(s, encodePath)): every `%` must be followed by two hex digits; `none` = EscapeError -/
def pathUnescapeFrom : Nat → Bytes → Option Bytes
  | _, [] => some []
  | skip + 1, _ :: rest => pathUnescapeFrom skip rest
  | 0, x :: rest =>
    if x == 37 then
      match rest with
      | a :: b :: _ =>
        if isHex a && isHex b then mapCons ((unhex a * 16 + unhex b) % 256) (pathUnescapeFrom 2 rest) else none
      | _ => none
    else mapCons x (pathUnescapeFrom 0 rest)

def pathUnescape (s : Bytes) : Option Bytes := pathUnescapeFrom 0 s

/-- `strings.Index(id.ID, ":")` and the two slices `id.ID[:idx]`, `id.ID[idx:]` (`none` = index −1) -/
def splitColon : Bytes → Bytes × Option Bytes
  | [] => ([], none)
  | x :: rest => if x == 58 then ([], some (x :: rest)) else ((x :: (splitColon rest).1), (splitColon rest).2)

/-- `strings.ReplaceAll(path, ":", "/")` -/
def replaceColons (p : Bytes) : Bytes := p.map (fun x => if x == 58 then 47 else x)

/-- `strings.HasSuffix(path, "/")` -/
def endsWithSlash (p : Bytes) : Bool := p.getLast? == some 47

/-- `strings.Contains(path, "//")` -/
def hasDoubleSlash : Bytes → Bool
  | a :: b :: rest => (a == 47 && b == 47) || hasDoubleSlash (b :: rest)
  | _ => false

/-- what the code reads from `url.Parse(targetURL)`: Host, Path, and whether `net.ParseIP(Hostname())` is non-nil -/
structure Parsed where
  host : Bytes
  path : Bytes
  isIP : Bool
  deriving Repr, DecidableEq

/-- `url.Parse` as a function of the target URL; `none` = error -/
abbrev UrlParse := Bytes → Option Parsed

def httpsPrefix : Bytes := [104, 116, 116, 112, 115, 58, 47, 47]

/-- DIDToURL up to `targetURL`: (unescapedID, unescapedPath) -/
def didTarget (c : Cfg) (method : String) (id : Bytes) : Res (Bytes × Bytes) :=
  if method != "web" then .err "method" else
  let sp := splitColon id
  let baseID := sp.1
  let pathR : Res Bytes :=
    match sp.2 with
    | none => .ok []
    | some p =>
      let p' := replaceColons p
      if endsWithSlash p' || hasDoubleSlash p' then .err "empty-path" else .ok p'
  match pathR with
  | .err e => .err e
  | .panic s => .panic s
  | .ok path =>
    match pathUnescape baseID with
    | none => .err "unescape"
    | some uid =>
      match percentDecode c path with
      | .err e => .err e
      | .panic s => .panic s
      | .ok upath => .ok (uid, upath)

def targetURL (t : Bytes × Bytes) : Bytes := httpsPrefix ++ t.1 ++ t.2

/-- util.go DIDToURL -/
def didToURL (c : Cfg) (up : UrlParse) (method : String) (id : Bytes) : Res Parsed :=
  match didTarget c method id with
  | .err e => .err e
  | .panic s => .panic s
  | .ok t =>
    match up (targetURL t) with
    | none => .err "urlparse"
    | some p =>
      if p.host != t.1 then .err "domain" else
      if p.isIP then .err "ip" else .ok p

inductive Lib where
  | ok | err | panic
  deriving Repr, DecidableEq

structure Http where
  /-- http.NewRequest succeeded -/
  reqOk : Bool
  /-- HttpClient.Do returned no error -/
  doOk : Bool
  status : Int
  /-- mime.ParseMediaType of the Content-Type header: `none` = error -/
  ct : Option String
  readOk : Bool
  /-- resolver.RejectNullKeyEntries(data) returns an error -/
  nullEntries : Bool
  /-- go-did's Document.UnmarshalJSON on the body -/
  unmarshal : Lib
  /-- document.ID.Equals(id) -/
  idEquals : Bool
  deriving Repr, DecidableEq

def wellKnown : Bytes := [47, 46, 119, 101, 108, 108, 45, 107, 110, 111, 119, 110]
def didJson : Bytes := [47, 100, 105, 100, 46, 106, 115, 111, 110]

/-- the Path of the request URL -/
def requestPath (p : Parsed) : Bytes := (if p.path.length == 0 then wellKnown else p.path) ++ didJson

/-- web.go Resolver.Resolve; result = Path of the URL that was fetched -/
def resolve (c : Cfg) (up : UrlParse) (method : String) (id : Bytes) (h : Http) : Res Bytes :=
  if method != "web" then .err "method" else
  match didToURL c up method id with
  | .err e => .err e
  | .panic s => .panic s
  | .ok p =>
    if !h.reqOk then .err "request" else
    if !h.doOk then .err "http" else
    if !(decide (200 ≤ h.status) && decide (h.status < 300)) then .err "status" else
    match h.ct with
    | none => .err "content-type-invalid"
    | some ct =>
      if !c.contentTypes.contains ct then .err "content-type" else
      if !h.readOk then .err "read" else
      if c.nullGuard && h.nullEntries then .err "unmarshal" else
      match h.unmarshal with
      | .panic => .panic "Resolve>did.Document.UnmarshalJSON"
      | .err => .err "unmarshal"
      | .ok => if !h.idEquals then .err "id-mismatch" else .ok (requestPath p)

def sites : List (String × String) :=
  [ ("slice:percentDecodeString:s[i : i+3]", "percentDecodeString:s[i:i+3]"),
    ("index:percentDecodeChar:encoded[0]", "percentDecodeChar:encoded[0]"),
    ("index:percentDecodeChar:encoded[1]", "percentDecodeChar:encoded[1]"),
    ("index:percentDecodeChar:encoded[2]", "percentDecodeChar:encoded[2]") ]

end Nuts.C19.DidWeb
