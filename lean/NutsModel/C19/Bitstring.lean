/-
  C19 — model of vcr/revocation/bitstring.go: bit, setBit, isSet over ANY Int index and ANY length.
  (Semantics of revocation are C11's; this file is only about totality.)  A bitstring is a list of bytes
  (each a Nat < 256).  Go `/` and `%` on `int` truncate toward zero: `Int.tdiv` / `Int.tmod`.
  `expand` (base64 + gzip) is third-party and not modelled.
-/
import NutsModel.Base
namespace Nuts.C19.Bitstring
open Nuts

/-- `byte(x)` for an `int` x: the low 8 bits -/
def toByte (x : Int) : Nat := (x % 256).toNat

/-- `b>>(7-r)&1 == 1` with b, r bytes; `7-r` wraps in uint8; shifting a byte by ≥ 8 gives 0 -/
def isSet (b r : Nat) : Bool :=
  let sh := (7 + 256 - r % 256) % 256
  (b % 256) / 2 ^ sh % 2 == 1

/-- `1 << (7 - r)` as a byte (0 when the shift count is ≥ 8) -/
def mask (r : Nat) : Nat :=
  let sh := (7 + 256 - r % 256) % 256
  2 ^ sh % 256

def bit (bs : List Nat) (idx : Int) : Res Bool :=
  let q := idx.tdiv 8
  let r := toByte (idx.tmod 8)
  if idx < 0 ∨ q ≥ bs.length then .err "ErrIndexNotInBitstring" else
  match bs[q.toNat]? with
  | none => .panic "bit:(*bs)[q]"
  | some b => .ok (isSet b r)

/-- `setBit`: returns the new bitstring (the Go code mutates in place; on error nothing is written) -/
def setBit (bs : List Nat) (idx : Int) (value : Bool) : Res (List Nat) :=
  let q := idx.tdiv 8
  let r := toByte (idx.tmod 8)
  if idx < 0 ∨ q ≥ bs.length then .err "ErrIndexNotInBitstring" else
  match bs[q.toNat]? with
  | none => .panic "setBit:(*bs)[q]"
  | some b =>
    if isSet b r != value then .ok (bs.set q.toNat (Nat.xor (b % 256) (mask r)))
    else .ok bs

def sites : List (String × String) :=
  [ ("index:bit:(*bs)[q]", "bit:(*bs)[q]"),
    ("index:setBit:(*bs)[q]", "setBit:(*bs)[q]") ]

end Nuts.C19.Bitstring
