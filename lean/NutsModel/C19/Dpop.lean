/-
  C19 — model of crypto/dpop/dpop.go: Parse, HTU, HTM, Match, strip.
  jwx (jws.ParseString, jwt.ParseString, Thumbprint) and net/url.Parse are third-party: what they returned
  for the input at hand is DATA (`ParseIn`, `UrlParse`) supplied by the harness, never computed here.
  Every partial Go operation is a `Res.panic` site.  `Cfg` says which of the partial operations the source
  performs in the checked form; it is computed from the regenerated partial-operation inventory (Facts.C19).
-/
import NutsModel.C19.J
namespace Nuts.C19.Dpop
open Nuts

structure Cfg where
  /-- `HTU()` uses `s, _ := v.(string)` instead of `v.(string)` -/
  htuChecked : Bool
  /-- `HTM()` likewise -/
  htmChecked : Bool
  /-- `Parse` rejects `htu`/`htm` claims that are not strings -/
  parseTypeChecks : Bool
  /-- `strip` looks at the error of `url.Parse` instead of discarding it -/
  stripChecksErr : Bool
  deriving Repr, DecidableEq

/-- the source as it was before the repair -/
def Cfg.unfixed : Cfg := ⟨false, false, false, false⟩
/-- the source after the repair -/
def Cfg.fixed : Cfg := ⟨true, true, true, true⟩

/-- what jwx reports about the compact/JSON serialisation handed to `Parse` -/
structure ParseIn where
  jwsOk : Bool          -- jws.ParseString err == nil
  nSigs : Nat           -- len(message.Signatures())
  algSupported : Bool   -- slices.Contains(jwx.SupportedAlgorithms, headers.Algorithm())
  typ : String          -- headers.Type()
  hasJwk : Bool         -- headers.JWK() != nil
  jwkPrivate : Bool     -- jwkIsPrivateKey(headers.JWK())
  algFitsKey : Bool := true  -- jwx.AlgorithmFitsKey(headers.Algorithm(), headers.JWK()) (curve / Ed25519 key length)
  jwtOk : Bool          -- jwt.ParseString(s, WithKey(alg, jwk)) err == nil
  iatZero : Bool        -- token.IssuedAt().IsZero()
  htu : Option J        -- token.Get("htu")
  htm : Option J        -- token.Get("htm")
  jtiLen : Nat          -- len(token.JwtID())
  deriving Repr

/-- the parsed token: the two private claims and nothing else matter afterwards -/
structure Token where
  htu : Option J
  htm : Option J
  deriving Repr

def maxJtiLength : Nat := 256

/-- `if v, ok := token.Get(key); !ok || v == ""` (+ the type check of the repaired source) -/
def claimCheck (c : Cfg) (name : String) (v : Option J) : Res Unit :=
  match v with
  | none => .err ("missing " ++ name)
  | some j =>
    if j.isEmptyString then .err ("missing " ++ name)
    else if c.parseTypeChecks then
      match j with
      | .str _ => .ok ()
      | _ => .err ("invalid " ++ name)
    else .ok ()

/-- the checks of Parse on the JWS and its protected header, up to and including signature verification -/
def parseHeader (i : ParseIn) : Res Unit :=
  if !i.jwsOk then .err "jws" else
  if i.nSigs != 1 then .err "nsig" else
  -- message.Signatures()[0]
  if i.nSigs == 0 then .panic "Parse:Signatures()[0]" else
  if !i.algSupported then .err "alg" else
  if i.typ != "dpop+jwt" then .err "typ" else
  if !i.hasJwk then .err "nojwk" else
  if i.jwkPrivate then .err "privjwk" else
  if !i.algFitsKey then .err "algfit" else
  if !i.jwtOk then .err "jwt" else .ok ()

/-- the checks of Parse on the claims -/
def parseClaims (c : Cfg) (i : ParseIn) : Res Token :=
  if i.iatZero then .err "iat" else
  match claimCheck c "htu" i.htu with
  | .err e => .err e
  | .panic s => .panic s
  | .ok () =>
  match claimCheck c "htm" i.htm with
  | .err e => .err e
  | .panic s => .panic s
  | .ok () =>
  if i.jtiLen == 0 then .err "jti" else
  if i.jtiLen > maxJtiLength then .err "jtilong" else
  .ok { htu := i.htu, htm := i.htm }

def parse (c : Cfg) (i : ParseIn) : Res Token :=
  match parseHeader i with
  | .err e => .err e
  | .panic s => .panic s
  | .ok () => parseClaims c i

/-- `if v, ok := t.Token.Get(key); ok { return v.(string) }; return ""` -/
def claimString (checked : Bool) (site : String) (v : Option J) : Res String :=
  match v with
  | none => .ok ""
  | some (.str s) => .ok s
  | some _ => if checked then .ok "" else .panic site

def htu (c : Cfg) (t : Token) : Res String := claimString c.htuChecked "HTU:v.(string)" t.htu
def htm (c : Cfg) (t : Token) : Res String := claimString c.htmChecked "HTM:v.(string)" t.htm

/-- what `net/url.Parse` did with a raw string: `none` = (nil, err); `some s` = the string the rest of
    `strip` produces from the parsed URL (scheme:=https, port dropped, query and fragment dropped) -/
abbrev UrlParse := String → Option String

/-- `strip`: the unrepaired source dereferences the nil `*url.URL` -/
def strip (c : Cfg) (up : UrlParse) (raw : String) : Res String :=
  match up raw with
  | some s => .ok s
  | none => if c.stripChecksErr then .err "url" else .panic "strip:url.Scheme(nil *url.URL)"

/-- `Match(jkt, method, url)`; `tpEq` = (base64(thumbprint(jwk)) == jkt). -/
def matchDpop (c : Cfg) (up : UrlParse) (t : Token) (tpEq : Bool) (method url : String) : Res Bool :=
  if !tpEq then .err "jkt mismatch" else
  match htm c t with
  | .panic s => .panic s
  | .err e => .err e
  | .ok m =>
  if method != m then
    -- the error message evaluates t.HTM() once more
    match htm c t with
    | .panic s => .panic s
    | _ => .err "method mismatch"
  else
  match htu c t with
  | .panic s => .panic s
  | .err e => .err e
  | .ok u =>
  match strip c up u with
  | .panic s => .panic s
  | .err _ => .err "invalid htu"
  | .ok left =>
  match strip c up url with
  | .panic s => .panic s
  | .err _ => .err "invalid url"
  | .ok right => if left != right then .err "url mismatch" else .ok true

/-- the API entry point `ValidateDPoPProof` up to and including `Match`: Parse, then Match on the result. -/
def validate (c : Cfg) (up : UrlParse) (i : ParseIn) (tpEq : Bool) (method url : String) : Res Bool :=
  match parse c i with
  | .err e => .err ("parse:" ++ e)
  | .panic s => .panic s
  | .ok t => matchDpop c up t tpEq method url

/-- the `Res.panic` sites of this file, with the Go expression each one stands for (kind:function:expr, the
    format of the regenerated inventory).  `reachable` = the model can actually return it under `Cfg.unfixed`. -/
def sites : List (String × String) :=
  [ ("index:Parse:message.Signatures()[0]", "Parse:Signatures()[0]"),
    ("assert:HTU:v.(string)", "HTU:v.(string)"),
    ("assert:HTM:v.(string)", "HTM:v.(string)"),
    ("discard:strip:url.Parse()", "strip:url.Scheme(nil *url.URL)") ]

end Nuts.C19.Dpop
