/-
  C19 — model of the vcr/credential helpers every handler runs on a presentation received from a wallet / a peer BEFORE its
  signature is verified: util.go ResolveSubjectDID, PresenterIsCredentialSubject and resolver.go PresentationSigner, ParseLDProof.
  DIDs are their canonical strings ("" = the empty DID).  Data supplied by the harness: go-did's vc.SubjectDID() per credential,
  the presentation format, crypto.JWTKidAlg's result, did.ParseDIDURL's result, UnmarshalProofValue's result.
-/
import NutsModel.Base
namespace Nuts.C19.Cred
open Nuts

structure Cfg where
  /-- ResolveSubjectDID returns `err` when credential.SubjectDID() fails (else it dereferences the nil `sid`) -/
  subjectErrChecked : Bool
  /-- ParseLDProof demands `len(proofs) != 1` (a weaker test lets `proofs[0]` run on an empty slice) -/
  proofCountExact : Bool
  deriving Repr, DecidableEq

def Cfg.fixed : Cfg := ⟨true, true⟩

/-- the loop of ResolveSubjectDID; `acc` = subjectID so far; an element is `none` when SubjectDID() returned an error -/
def resolveLoop (c : Cfg) : String → List (Option String) → Res String
  | acc, [] => .ok acc
  | _, none :: _ => if c.subjectErrChecked then .err "subject" else .panic "ResolveSubjectDID:*sid"
  | acc, some d :: rest => if acc != "" && acc != d then .err "not-same-subject" else resolveLoop c d rest

/-- util.go ResolveSubjectDID -/
def resolveSubjectDID (c : Cfg) (subjects : List (Option String)) : Res String := resolveLoop c "" subjects

inductive Format where
  | jwt | ldp | other
  deriving Repr, DecidableEq

structure VP where
  format : Format
  /-- crypto.JWTKidAlg(raw): none = error, some kid -/
  kid : Option String
  /-- UnmarshalProofValue(&proofs) succeeded -/
  proofsOk : Bool
  nProofs : Nat
  /-- did.ParseDIDURL of the kid / of proofs[0].verificationMethod: none = error, some d = the DID part ("" = empty) -/
  parsedDID : Option String
  /-- vc.SubjectDID() of every credential in the presentation -/
  subjects : List (Option String)
  deriving Repr, DecidableEq

/-- resolver.go ParseLDProof: ok = the proof exists -/
def parseLDProof (c : Cfg) (vp : VP) : Res Unit :=
  if !vp.proofsOk then .err "proof-unmarshal" else
  if c.proofCountExact then (if vp.nProofs != 1 then .err "proof-count" else .ok ())
  else if vp.nProofs > 1 then .err "proof-count"
  else if vp.nProofs == 0 then .panic "ParseLDProof:proofs[0]" else .ok ()

/-- resolver.go PresentationSigner -/
def presentationSigner (c : Cfg) (vp : VP) : Res String :=
  match vp.format with
  | .jwt =>
    match vp.kid with
    | none => .err "jws"
    | some kid =>
      if kid == "" then .err "no-kid" else
      match vp.parsedDID with
      | none => .err "kid-not-did"
      | some d => .ok d
  | .ldp =>
    match parseLDProof c vp with
    | .err e => .err e
    | .panic s => .panic s
    | .ok _ =>
      match vp.parsedDID with
      | none => .err "verification-method"
      | some d => if d == "" then .err "verification-method" else .ok d
  | .other => .err "format"

/-- util.go PresenterIsCredentialSubject: `ok none` = (nil, nil) -/
def presenterIsCredentialSubject (c : Cfg) (vp : VP) : Res (Option String) :=
  match presentationSigner c vp with
  | .err e => .err e
  | .panic s => .panic s
  | .ok signer =>
    match resolveSubjectDID c vp.subjects with
    | .err e => .err e
    | .panic s => .panic s
    | .ok subj => if subj != signer then .ok none else .ok (some signer)

def sites : List (String × String) :=
  [ ("deref:ResolveSubjectDID:*sid", "ResolveSubjectDID:*sid"), ("index:ParseLDProof:proofs[0]", "ParseLDProof:proofs[0]") ]

end Nuts.C19.Cred
