/-
  C19 — model of auth/api/iam/openid4vp.go `withCallbackURI` and of the error values that reach it in
  `handleAuthorizeResponseSubmission` (validation.go: validatePresentationAudience, openid4vp.go:
  validatePresentationNonce / extractChallenge).  A Go `error` is either an `oauth.OAuth2Error` or something else.
  `credential.ParseLDProof(presentation)` is a function of the presentation (data: `ldProofOk`).
-/
import NutsModel.Base
namespace Nuts.C19.Callback
open Nuts

inductive GoErr where
  | oauth2 (code : String)
  | raw (msg : String)
  deriving Repr, DecidableEq

structure Cfg where
  /-- `withCallbackURI` uses the checked form of `err.(oauth.OAuth2Error)` -/
  assertChecked : Bool
  /-- `handleAuthorizeResponseSubmission` rejects an envelope without presentations (`len(pexEnvelope.Presentations) == 0`;
      pe.ParseEnvelope("[]") succeeds with none) -/
  envelopeGuard : Bool := true
  deriving Repr, DecidableEq

/-- `withCallbackURI(err, uri)`: `oauthErr := err.(oauth.OAuth2Error)` -/
def withCallbackURI (c : Cfg) (e : GoErr) : Res GoErr :=
  match e with
  | .oauth2 code => .ok (.oauth2 code)
  | .raw m => if c.assertChecked then .ok (.oauth2 ("server_error:" ++ m)) else .panic "withCallbackURI:err.(oauth.OAuth2Error)"

inductive Format where | jwt | jsonld | other
  deriving Repr, DecidableEq

/-- a presentation as the two validators see it -/
structure Pres where
  format : Format
  /-- credential.ParseLDProof(presentation) err == nil (only looked at for JSON-LD) -/
  ldProofOk : Bool
  /-- nonce / challenge found -/
  nonce : String
  /-- audience / domain matches the verifier -/
  audOk : Bool
  deriving Repr

/-- `extractChallenge`: error only when the LD proof does not parse -/
def extractChallengeErr (p : Pres) : Bool := p.format == .jsonld && !p.ldProofOk

/-- the distinct non-empty nonces, in order of first appearance (`nonces` of validatePresentationNonce) -/
def noncesOf (ps : List Pres) : List String := ((ps.map (·.nonce)).filter (· != "")).eraseDups

/-- `validatePresentationNonce`: any extraction error, missing or differing nonce gives an OAuth2Error; then `nonces[0]` is
    looked up in the nonce store (`storeOk` = it is known and belongs to the state, otherwise OAuth2Error as well).
    With NO presentation at all the loop collects no error and `nonces[0]` indexes an empty slice. -/
def validatePresentationNonce (ps : List Pres) (storeOk : Bool) : Res (Option GoErr) :=
  if ps.any extractChallengeErr then .ok (some (.oauth2 "invalid_request")) else
  if ps.any (fun p => p.nonce == "") then .ok (some (.oauth2 "invalid_request")) else
  if (noncesOf ps).length > 1 then .ok (some (.oauth2 "invalid_request")) else
  match noncesOf ps with
  | [] => .panic "validatePresentationNonce:nonces[0]"
  | _ :: _ => if !storeOk then .ok (some (.oauth2 "invalid_request")) else .ok none

/-- `validatePresentationAudience`: returns the RAW ParseLDProof error for a JSON-LD VP whose proof does not parse -/
def validatePresentationAudience (p : Pres) : Option GoErr :=
  if p.format == .jsonld && !p.ldProofOk then some (.raw "ParseLDProof") else
  if p.audOk then none else some (.oauth2 "invalid_request")

/-- the loop `for _, presentation := range pexEnvelope.Presentations` (signer check modelled as data `signerOk`) -/
def audienceLoop (c : Cfg) : List (Pres × Bool) → Res (Option GoErr)
  | [] => .ok none
  | (p, signerOk) :: rest =>
    if !signerOk then
      -- withCallbackURI(oauthError(...), callbackURI)
      match withCallbackURI c (.oauth2 "invalid_request") with
      | .ok e => .ok (some e) | .err e => .err e | .panic s => .panic s
    else
    match validatePresentationAudience p with
    | some e =>
      match withCallbackURI c e with
      | .ok e' => .ok (some e') | .err x => .err x | .panic s => .panic s
    | none => audienceLoop c rest

/-- the part of `handleAuthorizeResponseSubmission` between session lookup and signature verification -/
def handleSubmission (c : Cfg) (ps : List (Pres × Bool)) (storeOk : Bool) : Res (Option GoErr) :=
  -- `if err != nil || len(pexEnvelope.Presentations) == 0 { return oauthError(InvalidRequest, "invalid vp_token") }`
  if c.envelopeGuard && ps.isEmpty then .ok (some (.oauth2 "invalid_request")) else
  match validatePresentationNonce (ps.map (·.1)) storeOk with
  | .panic s => .panic s
  | .err x => .err x
  | .ok (some e) =>
    match withCallbackURI c e with
    | .ok e' => .ok (some e') | .err x => .err x | .panic s => .panic s
  | .ok none => audienceLoop c ps

def sites : List (String × String) :=
  [ ("assert:withCallbackURI:err.(oauth.OAuth2Error)", "withCallbackURI:err.(oauth.OAuth2Error)"),
    ("index:validatePresentationNonce:nonces[0]", "validatePresentationNonce:nonces[0]") ]

end Nuts.C19.Callback
