/-
  C19 — model of vdr/didkey/resolver.go Resolve: the checks between the DID string and the library calls.
  base58, binary.ReadUvarint, elliptic.UnmarshalCompressed, x509 and go-did's NewVerificationMethod are third-party: data.
-/
import NutsModel.Base
namespace Nuts.C19.DidKey
open Nuts

structure Cfg where
  /-- `len(encodedKey) == 0 ||` precedes `encodedKey[0] != 'z'` -/
  emptyGuard : Bool
  deriving Repr, DecidableEq

def Cfg.fixed : Cfg := ⟨true⟩

/-- multicodec codes the resolver switches on -/
def bls12381g2 : Nat := 0xeb
def x25519 : Nat := 0xec
def ed25519 : Nat := 0xed
def secp256k1 : Nat := 0xe7
def p256 : Nat := 0x1200
def p384 : Nat := 0x1201
def p521 : Nat := 0x1202
def rsa : Nat := 0x1205

structure In where
  method : String
  /-- id.ID as characters -/
  encodedKey : List Char
  /-- base58 decoding of encodedKey[1:] succeeded -/
  b58Ok : Bool
  /-- binary.ReadUvarint: none = error -/
  keyType : Option Nat
  /-- number of bytes after the varint -/
  keyLength : Nat
  /-- x509.ParsePKCS1PublicKey: none = error, some n = key size in bytes -/
  rsaSize : Option Nat
  /-- did.NewVerificationMethod succeeded (it gets whatever the point decoding produced, nil coordinates included) -/
  vmOk : Bool
  deriving Repr

/-- the `switch multicodec.Code(keyType)` with its length checks -/
def codecCheck (i : In) (kt : Nat) : Res Unit :=
  let vm : Res Unit := if i.vmOk then .ok () else .err "vm"
  if kt == bls12381g2 then .err "bls" else
  if kt == x25519 then (if i.keyLength != 32 then .err "length" else vm) else
  if kt == ed25519 then (if i.keyLength != 32 then .err "length" else vm) else
  if kt == secp256k1 then .err "secp256k1" else
  if kt == p256 then (if i.keyLength != 33 then .err "length" else vm) else
  if kt == p384 then (if i.keyLength != 49 then .err "length" else vm) else
  if kt == p521 then vm else
  if kt == rsa then
    match i.rsaSize with
    | none => .err "pkcs1"
    | some n => if n < 256 then .err "rsa-small" else vm
  else .err "unsupported"

/-- after the 'z' check -/
def decode (i : In) : Res Unit :=
  if !i.b58Ok then .err "base58" else
  match i.keyType with
  | none => .err "multicodec"
  | some kt => codecCheck i kt

def resolve (c : Cfg) (i : In) : Res Unit :=
  if i.method != "key" then .err "method" else
  -- `if len(encodedKey) == 0 || encodedKey[0] != 'z'`
  match i.encodedKey with
  | [] => if c.emptyGuard then .err "z" else .panic "Resolve:encodedKey[0]"
  | ch :: _ => if ch != 'z' then .err "z" else decode i

def sites : List (String × String) := [ ("index:Resolve:encodedKey[0]", "Resolve:encodedKey[0]") ]

end Nuts.C19.DidKey
