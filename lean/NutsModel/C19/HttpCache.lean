/-
  C19 — model of http/client/caching.go responseCache: the make-room loop of insert() (the loop that hung before b991549),
  pop(), the ordered insertion, get() and CachingRoundTripper.RoundTrip for GET requests.  The expiry list is `list`
  (h.head … next), `index` is entriesByURL flattened in insertion order (the per-URL slices are its filters; entries are
  identified by `id` = the pointer), `cur` = currentSizeBytes (Go int: Int).  time.Now() is an argument.
  The Go loop `for cond { _ = h.pop() }` is `step` (one iteration; `none` = the loop exits): termination is a theorem about
  `step` (a strictly decreasing measure), not a by-product of the encoding; `makeRoom` is its closed form used by the driver.
-/
import NutsModel.Base
namespace Nuts.C19.HttpCache
open Nuts

structure Cfg where
  /-- the loop condition starts with `h.head != nil &&` -/
  headGuard : Bool
  /-- the comparison is `>` (false: `>=`, the spelling before the repair) -/
  strict : Bool
  deriving Repr, DecidableEq

def Cfg.fixed : Cfg := ⟨true, true⟩
def Cfg.before : Cfg := ⟨false, false⟩

structure Entry where
  id : Nat
  url : String
  size : Nat
  exp : Int
  deriving Repr, DecidableEq

structure St where
  list : List Entry
  index : List Entry
  cur : Int
  max : Int
  deriving Repr, DecidableEq

def St.empty (max : Int) : St := ⟨[], [], 0, max⟩

/-- removal of the entry with this pointer from its entriesByURL slice -/
def removeId (id : Nat) : List Entry → List Entry
  | [] => []
  | e :: rest => if e.id == id then rest else e :: removeId id rest

/-- responseCache.pop: on an empty list it changes NOTHING -/
def pop (s : St) : St :=
  match s.list with
  | [] => s
  | e :: rest => { s with list := rest, index := removeId e.id s.index, cur := s.cur - e.size }

/-- `h.currentSizeBytes+len(entry.responseData) > h.maxBytes` (or `>=`) -/
def over (c : Cfg) (cur len max : Int) : Bool := if c.strict then decide (cur + len > max) else decide (cur + len ≥ max)

def loopCond (c : Cfg) (len : Int) (s : St) : Bool := (!c.headGuard || !s.list.isEmpty) && over c s.cur len s.max

/-- ONE iteration of `for cond { _ = h.pop() }`; `none` = the loop exits -/
def step (c : Cfg) (len : Int) (s : St) : Option St := if loopCond c len s then some (pop s) else none

/-- n iterations; `none` = the loop has exited within n iterations (with `exitState`) -/
def iter (c : Cfg) (len : Int) : Nat → St → Option St
  | 0, s => some s
  | n + 1, s => match step c len s with
    | none => none
    | some s' => iter c len n s'

inductive Out where
  | done (s : St)
  /-- the loop condition holds and the body changes nothing: the loop spins for ever (with the cache mutex held) -/
  | hang
  deriving Repr, DecidableEq

/-- closed form of the loop, by recursion on the expiry list -/
def makeRoomL (c : Cfg) (len max : Int) : List Entry → List Entry → Int → Out
  | [], idx, cur => if !c.headGuard && over c cur len max then .hang else .done ⟨[], idx, cur, max⟩
  | e :: rest, idx, cur =>
    if over c cur len max then makeRoomL c len max rest (removeId e.id idx) (cur - e.size) else .done ⟨e :: rest, idx, cur, max⟩

def makeRoom (c : Cfg) (len : Int) (s : St) : Out := makeRoomL c len s.max s.list s.index s.cur

/-- the ordered insertion (after the repair): before the head when it expires first, else after the last entry that expires
    before it (entries with the SAME expiry: after the head, before the others — as the Go scan does) -/
def insertAfterHead (e : Entry) : List Entry → List Entry
  | [] => [e]
  | n :: rest => if n.exp < e.exp then n :: insertAfterHead e rest else e :: n :: rest

def insertOrdered (e : Entry) : List Entry → List Entry
  | [] => [e]
  | h :: rest => if e.exp < h.exp then e :: h :: rest else h :: insertAfterHead e rest

/-- responseCache.insert -/
def insert (c : Cfg) (e : Entry) (s : St) : Out :=
  if (e.size : Int) > s.max then .done s else
  match makeRoom c e.size s with
  | .hang => .hang
  | .done s' => .done { s' with list := insertOrdered e s'.list, index := s'.index ++ [e], cur := s'.cur + e.size }

/-- removeExpiredEntries: pops while the head has expired -/
def removeExpired (now : Int) : List Entry → St → St
  | [], s => s
  | e :: rest, s => if e.exp < now then removeExpired now rest (pop s) else s

/-- responseCache.get (method and raw query are part of `url` here: the harness only sends GET) -/
def get (now : Int) (url : String) (s : St) : St × Bool :=
  let s' := removeExpired now s.list s
  (s', s'.index.any (fun e => e.url == url))

/-- RoundTrip of a GET: hit, or fetch and (when cacheable) insert. `cacheable = none`: the response is not cacheable -/
def roundTrip (c : Cfg) (now : Int) (url : String) (fresh : Option Entry) (s : St) : Out × Bool :=
  let g := get now url s
  if g.2 then (.done g.1, true) else
  match fresh with
  | none => (.done g.1, false)
  | some e => (insert c e g.1, false)

def sumSizes (l : List Entry) : Int := l.foldr (fun e acc => (e.size : Int) + acc) 0

end Nuts.C19.HttpCache
