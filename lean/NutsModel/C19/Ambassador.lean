/-
  C19 — model of vdr/didnuts/ambassador.go handleNetworkEvent → callback: the order of the steps that run on a DID document
  received as DAG transaction payload, up to the hand-over to handleCreate/handleUpdateDIDDocument (whose model is C09's).
  Data supplied by the harness: checkTransactionIntegrity's three getters, resolver.RejectNullKeyEntries' verdict on the raw
  payload, go-did's Document.UnmarshalJSON on the payload (ok | error | PANIC), NetworkDocumentValidator's verdict, and the
  outcome class of the create/update handler.
-/
import NutsModel.C19.DidWeb
namespace Nuts.C19.Ambassador
open Nuts
open Nuts.C19.DidWeb (Lib)

structure Cfg where
  /-- `resolver.RejectNullKeyEntries(payload)` is called before `json.Unmarshal(payload, &nextDIDDocument)` -/
  nullGuard : Bool
  deriving Repr, DecidableEq

def Cfg.fixed : Cfg := ⟨true⟩

inductive Handled where
  /-- handler returned nil -/
  | ok
  /-- a stoabs.ErrDatabase: the event is retried -/
  | dbErr
  /-- any other error: dag.EventFatal, not retried -/
  | otherErr
  deriving Repr, DecidableEq

structure In where
  payloadTypeOk : Bool
  payloadHashSet : Bool
  signingTimeSet : Bool
  /-- resolver.RejectNullKeyEntries(payload) returns an error -/
  nullEntries : Bool
  unmarshal : Lib
  validateOk : Bool
  handled : Handled
  deriving Repr, DecidableEq

/-- ambassador.callback -/
def callback (c : Cfg) (i : In) : Res Handled :=
  if !i.payloadTypeOk then .err "integrity" else
  if !i.payloadHashSet then .err "integrity" else
  if !i.signingTimeSet then .err "integrity" else
  if c.nullGuard && i.nullEntries then .err "unmarshal" else
  match i.unmarshal with
  | .panic => .panic "callback>did.Document.UnmarshalJSON"
  | .err => .err "unmarshal"
  | .ok =>
    if !i.validateOk then .err "validate" else
    match i.handled with
    | .ok => .ok .ok
    | .dbErr => .err "database"
    | .otherErr => .err "handle"

/-- ambassador.handleNetworkEvent: (finished, retry?) — `fatal` = dag.EventFatal (never retried) -/
inductive Event where
  | done | retry | fatal
  deriving Repr, DecidableEq

def handleNetworkEvent (c : Cfg) (i : In) : Res Event :=
  match callback c i with
  | .ok _ => .ok .done
  | .err e => if e == "database" then .ok .retry else .ok .fatal
  | .panic s => .panic s

def sites : List (String × String) := [ ("guardcall:ambassador.callback:resolver.RejectNullKeyEntries", "callback>did.Document.UnmarshalJSON") ]

end Nuts.C19.Ambassador
