/-
  C19 — model of vdr/resolver/key.go (ResolveKeyByID, baseUrl) and vdr/resolver/service.go (Resolve, ResolveEx).
  The DID resolver, go-did parsing and URI parsing are third-party / other packages: their results are data
  (`Env`).  `@context` entries are decoded JSON values (`J`).
-/
import NutsModel.C19.J
namespace Nuts.C19.Resolver
open Nuts

structure Cfg where
  /-- `baseUrl` uses `valStr, ok := val.(string)` instead of `val.(string)` -/
  baseChecked : Bool
  /-- `ResolveKeyByID` / `ResolveKey` skip relationships whose embedded `*VerificationMethod` is nil -/
  nilVMChecked : Bool
  deriving Repr, DecidableEq

def Cfg.unfixed : Cfg := ⟨false, false⟩
def Cfg.fixed : Cfg := ⟨true, true⟩

/-- `baseUrl(doc)`: first context that is a JSON object with an `@base` member.
    `reflect.ValueOf(ctx).Kind() == reflect.Map` holds exactly for `J.obj` on decoded JSON, for which
    `ctx.(map[string]interface{})` succeeds. -/
def baseUrl (c : Cfg) : List J → Res (Option String)
  | [] => .ok none
  | .obj kvs :: rest =>
    match J.lookupLast kvs "@base" with
    | none => baseUrl c rest
    | some (.str s) => .ok (some s)
    | some _ => if c.baseChecked then baseUrl c rest else .panic "baseUrl:val.(string)"
  | _ :: rest => baseUrl c rest

/-- what go-did's `rel.PublicKey()` does for a verification method (third-party: data).
    `libPanic`: the library call itself panics (go-did v0.15.0 does for a JsonWebKey2020 method without publicKeyJwk). -/
inductive KeyRes where | ok | err | libPanic
  deriving Repr, DecidableEq

/-- a verification relationship as `ResolveKeyByID` sees it: `rel.ID.String()` and what `rel.PublicKey()` does -/
structure Rel where
  /-- the embedded `*VerificationMethod` is nil (go-did unmarshals a JSON `null` relationship to that) -/
  vmNil : Bool := false
  id : String
  key : KeyRes
  deriving Repr

def publicKey (fn : String) (r : Rel) : Res String :=
  match r.key with
  | .ok => .ok r.id
  | .err => .err "PublicKey"
  | .libPanic => .panic (fn ++ ">did.VerificationMethod.PublicKey:PublicKey()(go-did)")

structure KeyDoc where
  context : List J
  /-- relationships per RelationType 0..4 (Authentication … CapabilityDelegation) -/
  rels : Nat → List Rel

/-- the loop over relationships; `base` is the `*string` result of baseUrl -/
def findKey (c : Cfg) (keyID : String) (base : Option String) : List Rel → Res String
  | [] => .err "ErrKeyNotFound"
  | r :: rest =>
    -- `rel.ID` goes through the embedded pointer
    if r.vmNil then (if c.nilVMChecked then findKey c keyID base rest else .panic "ResolveKeyByID:rel.ID(nil *VerificationMethod)") else
    if r.id == keyID then publicKey "ResolveKeyByID" r
    else
      match base with
      | some b =>
        -- `*baseUrl` is dereferenced only under `baseUrl != nil`
        if hasPrefix r.id "#" then
          if b ++ r.id == keyID then publicKey "ResolveKeyByID" r
          else findKey c keyID base rest
        else findKey c keyID base rest
      | none => findKey c keyID base rest

/-- `ResolveKeyByID(keyID, metadata, relationType)`.
    `didOk` = GetDIDFromURL(keyID) succeeded; `doc` = what the DID resolver returned (`none` = error). -/
def resolveKeyByID (c : Cfg) (keyID : String) (didOk : Bool) (doc : Option KeyDoc) (relationType : Nat) : Res String :=
  if !didOk then .err "invalid key ID" else
  match doc with
  | none => .err "resolve"
  | some d =>
    match baseUrl c d.context with
    | .panic s => .panic s
    | .err e => .err e
    | .ok base =>
      if relationType ≥ 5 then .err "unable to locate RelationType" else
      findKey c keyID base (d.rels relationType)

/-- `ResolveKey(id, validAt, relationType)`: the first relationship of the type.
    (repaired source: the first one whose verification method is not nil) -/
def firstKey (c : Cfg) : List Rel → Res String
  | [] => .err "ErrKeyNotFound"
  | r :: rest =>
    if r.vmNil then (if c.nilVMChecked then firstKey c rest else .panic "ResolveKey:keys[0].PublicKey()(nil *VerificationMethod)")
    else publicKey "ResolveKey" r

def resolveKey (c : Cfg) (doc : Option KeyDoc) (relationType : Nat) : Res String :=
  match doc with
  | none => .err "resolve"
  | some d =>
    if relationType ≥ 5 then .err "unable to locate RelationType" else
    -- `keys[0]` is read under `len(keys) == 0 → ErrKeyNotFound`
    firstKey c (d.rels relationType)

/-! ### service.go -/

structure Svc where
  typ : String
  endpoint : J
  /-- go-did's `UnmarshalServiceEndpoint(&endpointURL)`: `some url` when it returns nil (a string, a one-element
      array holding a string, or null → ""), `none` when it fails (third-party: data) -/
  endpointStr : Option String
  deriving Repr, Inhabited

/-- results of the calls into other packages, as functions of their argument -/
structure Env where
  /-- GetDIDFromURL(endpoint): the DID (as string) of a DID URL, `none` = error -/
  didOf : String → Option String
  /-- Resolver.Resolve(did, nil): the services of the document, `none` = error -/
  resolve : String → Option (List Svc)
  /-- endpoint.Query().Get("type") -/
  queryType : String → String
  /-- ssi.ParseURI(endpointURL) succeeds -/
  uriOk : String → Bool
  /-- ValidateServiceReference(uri) == nil -/
  refOk : String → Bool

def isServiceReference (s : String) : Bool := hasPrefix s "did:"

def findSvc (t : String) : List Svc → Option Svc
  | [] => none
  | s :: rest => if s.typ == t then some s else findSvc t rest

/-- `ResolveEx(endpoint, depth, maxDepth, cache)`.  The document cache only saves calls to the resolver (the
    resolver is a function here), so it is not part of the state; `cacheNil` models a caller passing a nil map
    (`documentCache[...] = document` on a nil map panics).  Second component: number of loop iterations
    (= calls of ResolveEx), the quantity the depth limit bounds. -/
def resolveEx (env : Env) (cacheNil : Bool) (endpoint : String) (depth maxDepth : Int) : Res Svc × Nat :=
  if _h : depth ≥ maxDepth then (.err "ErrServiceReferenceToDeep", 1) else
  match env.didOf endpoint with
  | none => (.err "GetDIDFromURL", 1)
  | some did =>
    match env.resolve did with
    | none => (.err "resolve", 1)
    | some services =>
      if cacheNil then (.panic "ResolveEx:documentCache[k]=v(nil map)", 1) else
      match findSvc (env.queryType endpoint) services with
      | none => (.err "ErrServiceNotFound", 1)
      | some svc =>
        match svc.endpointStr with
        | some url =>
          if isServiceReference url then
            if !env.uriOk url then (.err "ParseURI", 1) else
            if !env.refOk url then (.err "ValidateServiceReference", 1) else
            let r := resolveEx env cacheNil url (depth + 1) maxDepth
            (r.1, r.2 + 1)
          else (.ok svc, 1)
        | none => (.ok svc, 1)
termination_by (maxDepth - depth).toNat
decreasing_by omega

/-- `Resolve(query, maxDepth)` = `ResolveEx(query, 0, maxDepth, map[string]*did.Document{})` -/
def resolve (env : Env) (query : String) (maxDepth : Int) : Res Svc × Nat :=
  resolveEx env false query 0 maxDepth

def sites : List (String × String) :=
  [ ("assert:baseUrl:val.(string)", "baseUrl:val.(string)"),
    ("field:ResolveKeyByID:rel.ID", "ResolveKeyByID:rel.ID(nil *VerificationMethod)"),
    ("field:ResolveKey:keys[0].PublicKey()", "ResolveKey:keys[0].PublicKey()(nil *VerificationMethod)"),
    ("call:ResolveKeyByID:rel.PublicKey()", "ResolveKeyByID>did.VerificationMethod.PublicKey:PublicKey()(go-did)"),
    ("call:ResolveKey:key.PublicKey()", "ResolveKey>did.VerificationMethod.PublicKey:PublicKey()(go-did)"),
    ("mapwrite:ResolveEx:documentCache[referencedDID.String()]", "ResolveEx:documentCache[k]=v(nil map)") ]

end Nuts.C19.Resolver
