/-
  C19 — what the models read from the regenerated facts (NutsModel/Facts/C19.lean, produced by extract/c19.go
  from /repo's current source): which partial operations each modelled Go function contains today, and the
  `Cfg` of each model derived from that inventory.  The EXPECTED inventory (with the disposition of every entry)
  is `expected` below; Props/C19.lean proves `Facts.C19.partialOps = expected…` by `decide`, so a newly introduced
  unchecked assertion / index / unbounded loop in a modelled function breaks the build.
-/
import NutsModel.Facts.C19
import NutsModel.C19.Dpop
import NutsModel.C19.Resolver
import NutsModel.C19.Bitstring
import NutsModel.C19.Iblt
import NutsModel.C19.Callback
import NutsModel.C19.StatusList
import NutsModel.C19.DidKey
import NutsModel.C19.DidWeb
import NutsModel.C19.Ambassador
import NutsModel.C19.HttpCache
import NutsModel.C19.Cred
import NutsModel.C19.CredMore
import NutsModel.C19.JsonLd
import NutsModel.C19.Jwx
namespace Nuts.C19.Sites
open Nuts

/-- the inventory of one function (`none` if the extractor did not report the function at all) -/
def opsOf? (key : String) : Option (List String) :=
  (Facts.C19.partialOps.find? (fun p => p.1 == key)).map (·.2)

def has (key op : String) : Bool :=
  match opsOf? key with
  | some l => l.contains op
  | none => false

def count (key op : String) : Nat :=
  match opsOf? key with
  | some l => l.count op
  | none => 0

/-- what happens with a partial operation of the source in the model -/
inductive Disp where
  /-- it is the `Res.panic` site with this name -/
  | site (name : String)
  /-- it cannot fail; why -/
  | total (why : String)
  /-- the function is not inside a model: the operation is only SAMPLED, by this harness entry point (crash/timeout oracle) -/
  | sampled (entryPoint : String)
  deriving Repr, DecidableEq

structure Entry where
  go : String
  disp : Disp
  deriving Repr

/-- the EXPECTED inventory: per modelled Go function, its partial operations in source order, each with its disposition -/
def expected : List (String × List Entry) := [
  ("crypto/dpop/dpop.go:Parse", [
    ⟨"lencheck:len(message.Signatures()) != 1", .total "guard of Signatures()[0] (model: nSigs != 1)"⟩,
    ⟨"index:message.Signatures()[0]", .site "Parse:Signatures()[0]"⟩,
    ⟨"nilcheck:headers.JWK() == nil", .total "guard: Match later calls t.Headers.JWK().Thumbprint"⟩,
    ⟨"assertok:v.(string)", .total "checked assertion (Cfg.parseTypeChecks)"⟩,
    ⟨"assertok:v.(string)", .total "checked assertion (Cfg.parseTypeChecks)"⟩,
    ⟨"lencheck:len(token.JwtID()) > maxJtiLength", .total "jti length limit (model: jtiLen > maxJtiLength)"⟩]),
  ("crypto/dpop/dpop.go:DPoP.HTU", [
    ⟨"assertok:v.(string)", .total "checked assertion (Cfg.htuChecked); the unchecked form is site HTU:v.(string)"⟩]),
  ("crypto/dpop/dpop.go:DPoP.HTM", [
    ⟨"assertok:v.(string)", .total "checked assertion (Cfg.htmChecked); the unchecked form is site HTM:v.(string)"⟩]),
  ("crypto/dpop/dpop.go:DPoP.Match", [
    ⟨"discard:t.Headers.JWK().Thumbprint(crypto.SHA256)", .total "JWK() is non-nil for every token Parse returns (nil check in Parse); a Thumbprint error only makes the comparison fail"⟩]),
  ("crypto/dpop/dpop.go:strip", [
    ⟨"index:strings.Split(url.Host, \":\")[0]", .total "strings.Split with a non-empty separator returns at least one element"⟩]),
  ("vdr/resolver/key.go:DIDKeyResolver.ResolveKeyByID", [
    ⟨"range:relationships", .total "bounded loop"⟩,
    ⟨"nilcheck:rel.VerificationMethod == nil", .total "guard (Cfg.nilVMChecked); without it: site ResolveKeyByID:rel.ID(nil *VerificationMethod)"⟩,
    ⟨"nilcheck:baseUrl != nil", .total "guard of *baseUrl"⟩,
    ⟨"deref:*baseUrl", .total "under baseUrl != nil (model: match on Option)"⟩]),
  ("vdr/resolver/key.go:DIDKeyResolver.baseUrl", [
    ⟨"range:context", .total "bounded loop"⟩,
    ⟨"index:context[i]", .total "i ranges over context"⟩,
    ⟨"assert:ctx.(map[string]interface{})", .total "under reflect Kind()==Map; every map kind in a JSON-decoded @context is map[string]interface{} (J.obj)"⟩,
    ⟨"index:m[\"@base\"]", .total "map read"⟩,
    ⟨"assertok:val.(string)", .total "checked assertion (Cfg.baseChecked); the unchecked form is site baseUrl:val.(string)"⟩]),
  ("vdr/resolver/key.go:DIDKeyResolver.ResolveKey", [
    ⟨"range:keys", .total "bounded loop"⟩,
    ⟨"nilcheck:key.VerificationMethod == nil", .total "guard (Cfg.nilVMChecked); without it: site ResolveKey:keys[0].PublicKey()(nil *VerificationMethod)"⟩]),
  ("vdr/resolver/service.go:DIDServiceResolver.Resolve", []),
  ("vdr/resolver/service.go:DIDServiceResolver.ResolveEx", [
    ⟨"index:documentCache[referencedDID.String()]", .total "map read"⟩,
    ⟨"nilcheck:document == nil", .total "cache miss test"⟩,
    ⟨"indexw:documentCache[referencedDID.String()]", .site "ResolveEx:documentCache[k]=v(nil map)"⟩,
    ⟨"range:document.Service", .total "bounded loop; document is non-nil when the resolver returns no error (contract of DIDResolver)"⟩,
    ⟨"nilcheck:service == nil", .total "guard of *service"⟩,
    ⟨"nilcheck:service.UnmarshalServiceEndpoint(&endpointURL) == nil", .total "error test"⟩,
    ⟨"deref:*resolvedEndpointURI", .total "after err == nil of ssi.ParseURI"⟩,
    ⟨"deref:*resolvedEndpointURI", .total "after err == nil of ssi.ParseURI"⟩,
    ⟨"deref:*service", .total "under service != nil"⟩,
    ⟨"rec:s.ResolveEx", .total "recursion with depth+1 under depth < maxDepth: measure maxDepth - depth (service_resolve_terminates)"⟩]),
  ("vcr/revocation/bitstring.go:bitstring.bit", [
    ⟨"lencheck:q >= len(*bs)", .total "guard of (*bs)[q]"⟩,
    ⟨"deref:*bs", .total "receiver is the address of a local value at every call site"⟩,
    ⟨"deref:*bs", .total "receiver is the address of a local value at every call site"⟩,
    ⟨"index:(*bs)[q]", .site "bit:(*bs)[q]"⟩]),
  ("vcr/revocation/bitstring.go:bitstring.setBit", [
    ⟨"lencheck:q >= len(*bs)", .total "guard of (*bs)[q]"⟩,
    ⟨"deref:*bs", .total "receiver is the address of a local value at every call site"⟩,
    ⟨"deref:*bs", .total "receiver is the address of a local value at every call site"⟩,
    ⟨"index:(*bs)[q]", .site "setBit:(*bs)[q]"⟩,
    ⟨"deref:*bs", .total "receiver is the address of a local value at every call site"⟩,
    ⟨"indexw:(*bs)[q]", .site "setBit:(*bs)[q]"⟩]),
  ("vcr/revocation/bitstring.go:isSet", []),
  ("network/dag/tree/iblt.go:Iblt.Insert", [
    ⟨"range:i.bucketIndices(keyHash)", .total "bounded loop over the result of bucketIndices (iblt_bucket_indices_total)"⟩,
    ⟨"index:i.buckets[h]", .site "Insert/Delete:i.buckets[h]"⟩]),
  ("network/dag/tree/iblt.go:Iblt.Delete", [
    ⟨"range:i.bucketIndices(keyHash)", .total "bounded loop over the result of bucketIndices (iblt_bucket_indices_total)"⟩,
    ⟨"index:i.buckets[h]", .site "Insert/Delete:i.buckets[h]"⟩]),
  ("network/dag/tree/iblt.go:Iblt.Subtract", [
    ⟨"range:i.buckets", .total "bounded loop"⟩,
    ⟨"index:i.buckets[idx]", .site "Subtract:i.buckets[idx]"⟩,
    ⟨"index:o.buckets[idx]", .site "Subtract:o.buckets[idx]"⟩]),
  ("network/dag/tree/iblt.go:Iblt.validate", [
    ⟨"assertok:other.(*Iblt)", .total "checked assertion"⟩]),
  ("network/dag/tree/iblt.go:Iblt.Decode", [
    ⟨"for:", .total "UNBOUNDED loop: modelled with fuel, termination is theorem iblt_decode_terminates"⟩,
    ⟨"range:i.buckets", .total "bounded loop"⟩,
    ⟨"index:i.buckets[idx]", .site "Decode:i.buckets[idx]"⟩,
    ⟨"index:i.buckets[idx]", .site "Decode:i.buckets[idx]"⟩,
    ⟨"index:i.buckets[idx]", .site "Decode:i.buckets[idx]"⟩,
    ⟨"index:i.buckets[idx]", .site "Decode:i.buckets[idx]"⟩,
    ⟨"index:i.buckets[idx]", .site "Decode:i.buckets[idx]"⟩,
    ⟨"index:pures[txRef]", .total "map read"⟩,
    ⟨"indexw:pures[txRef]", .total "map write on a map made in the function"⟩,
    ⟨"index:i.buckets[idx]", .site "Decode:i.buckets[idx]"⟩]),
  ("network/dag/tree/iblt.go:Iblt.Empty", [
    ⟨"range:i.buckets", .total "bounded loop"⟩,
    ⟨"index:i.buckets[idx]", .total "idx ranges over i.buckets (model: Array.all)"⟩]),
  ("network/dag/tree/iblt.go:Iblt.bucketIndices", [
    ⟨"for:len(indices) < k && step < ibltMaxChain", .total "bounded by ibltMaxChain (model: recursion on the remaining steps)"⟩,
    ⟨"divmod:next % numBuckets", .site "bucketIndices:next % numBuckets"⟩,
    ⟨"index:bucketUsed[bucketID]", .total "map read"⟩,
    ⟨"indexw:bucketUsed[bucketID]", .total "map write on a map made in the function"⟩,
    ⟨"for:len(indices) < k && off < numBuckets", .total "bounded by numBuckets (model: recursion on the remaining offsets)"⟩,
    ⟨"divmod:(bucketID + off) % numBuckets", .site "bucketIndices:(bucketID + off) % numBuckets"⟩,
    ⟨"index:bucketUsed[probe]", .total "map read"⟩,
    ⟨"indexw:bucketUsed[probe]", .total "map write on a map made in the function"⟩]),
  ("network/dag/tree/iblt.go:Iblt.UnmarshalBinary", [
    ⟨"divmod:len(data) / bucketBytes", .total "bucketBytes is the constant 44"⟩,
    ⟨"lencheck:len(data) != numBuckets * bucketBytes", .total "the only error of UnmarshalBinary; precedes every assignment"⟩,
    ⟨"for:j < i.numBuckets()", .total "bounded loop"⟩,
    ⟨"index:i.buckets[j]", .total "j < len(i.buckets) is the loop condition (model: Array.push)"⟩,
    ⟨"rec:i.buckets[j].UnmarshalBinary", .total "not recursion: the method of bucket"⟩]),
  ("network/dag/tree/iblt.go:bucket.UnmarshalBinary", [
    ⟨"lencheck:len(data) != bucketBytes", .total "guard of the array-pointer conversion"⟩,
    ⟨"conv:(*[bucketBytes]byte)(data)", .site "bucket.UnmarshalBinary:(*[bucketBytes]byte)(data)"⟩,
    ⟨"slice:d[:4]", .total "constant bounds on an array of 44"⟩,
    ⟨"slice:d[4:12]", .total "constant bounds on an array of 44"⟩,
    ⟨"slice:d[12:]", .total "constant bounds on an array of 44"⟩,
    ⟨"conv:(*hash.SHA256Hash)(d[12:])", .total "d[12:] has the 32 elements of the target array"⟩,
    ⟨"deref:*keySum", .total "result of the conversion above, never nil"⟩]),
  ("auth/api/iam/openid4vp.go:withCallbackURI", [
    ⟨"assert:err.(oauth.OAuth2Error)", .site "withCallbackURI:err.(oauth.OAuth2Error)"⟩]),
  ("auth/api/iam/openid4vp.go:Wrapper.handleAuthorizeResponseSubmission", [
    ⟨"nilcheck:request.Body.State == nil", .total "guard of *request.Body.State"⟩,
    ⟨"nilcheck:request.Body.VpToken == nil", .total "guard of *request.Body.VpToken"⟩,
    ⟨"deref:*request.Body.VpToken", .total "under the nil check above"⟩,
    ⟨"lencheck:len(pexEnvelope.Presentations) == 0", .total "GUARD of nonces[0] in validatePresentationNonce (Cfg.envelopeGuard): pe.ParseEnvelope(\"[]\") succeeds with no presentations"⟩,
    ⟨"deref:*request.Body.State", .total "under the nil check above"⟩,
    ⟨"deref:*session.OwnSubject", .total "every OAuthSession the node stores under a client state has OwnSubject set (not input)"⟩,
    ⟨"deref:*session.OwnSubject", .total "every OAuthSession the node stores under a client state has OwnSubject set (not input)"⟩,
    ⟨"nilcheck:request.Body.PresentationSubmission == nil", .total "guard of *request.Body.PresentationSubmission"⟩,
    ⟨"deref:*request.Body.PresentationSubmission", .total "under the nil check above"⟩,
    ⟨"range:pexEnvelope.Presentations", .total "bounded loop"⟩,
    ⟨"deref:*subjectDID", .total "validatePresentationSigner returns a non-nil DID when it returns no error"⟩,
    ⟨"range:pexEnvelope.Presentations", .total "bounded loop"⟩,
    ⟨"deref:*submission", .total "after err == nil of ParsePresentationSubmission"⟩,
    ⟨"deref:*pexEnvelope", .total "after err == nil of ParseEnvelope"⟩,
    ⟨"discard:session.OpenID4VPVerifier.next()", .total "second result unused"⟩,
    ⟨"nilcheck:nextWalletOwnerType != nil", .total "flow control"⟩,
    ⟨"deref:*callbackURI", .total "session.redirectURI() of a stored session"⟩]),
  ("auth/api/iam/openid4vp.go:Wrapper.validatePresentationNonce", [
    ⟨"range:presentations", .total "bounded loop"⟩,
    ⟨"lencheck:len(nonces) > 1", .total "error: differing nonces"⟩,
    ⟨"lencheck:len(errs) > 0", .total "error return"⟩,
    ⟨"range:nonces", .total "bounded loop"⟩,
    ⟨"index:nonces[0]", .site "validatePresentationNonce:nonces[0]"⟩]),
  ("auth/api/iam/openid4vp.go:extractChallenge", [
    ⟨"discard:presentation.JWT().Get(\"nonce\")", .total "missing claim gives nil, then the checked assertion gives \"\""⟩,
    ⟨"assertok:nonceRaw.(string)", .total "checked assertion"⟩,
    ⟨"nilcheck:proof.Challenge != nil", .total "guard of *proof.Challenge"⟩,
    ⟨"deref:*proof.Challenge", .total "under the nil check"⟩,
    ⟨"deref:*proof.Challenge", .total "under the nil check"⟩]),
  ("auth/api/iam/validation.go:Wrapper.validatePresentationAudience", [
    ⟨"nilcheck:proof.Domain != nil", .total "guard of *proof.Domain"⟩,
    ⟨"deref:*proof.Domain", .total "under the nil check"⟩,
    ⟨"range:audience", .total "bounded loop"⟩]),
  ("auth/api/iam/openid4vp.go:Wrapper.getClientMetadataFromRequest", [
    ⟨"nilcheck:metadata == nil", .sampled "iam.handleAuthorizeRequestFromVerifier"⟩]),
  ("auth/api/iam/openid4vp.go:Wrapper.getPresentationDefinitionFromRequest", [
    ⟨"guardcall:pe.ParsePresentationDefinition", .sampled "iam.handleAuthorizeRequestFromVerifier"⟩]),
  ("auth/client/iam/client.go:HTTPClient.PresentationDefinition", [
    ⟨"assertok:err.(oauth.OAuth2Error)", .sampled "iamclient.PresentationDefinition"⟩,
    ⟨"guardcall:checkNoNullEntries", .sampled "iamclient.PresentationDefinition"⟩]),
  ("auth/client/iam/client.go:checkNoNullEntries", [
    ⟨"range:definition.InputDescriptors", .sampled "iamclient.PresentationDefinition"⟩,
    ⟨"nilcheck:descriptor == nil", .sampled "iamclient.PresentationDefinition"⟩,
    ⟨"range:requirements", .sampled "iamclient.PresentationDefinition"⟩,
    ⟨"nilcheck:requirement == nil", .sampled "iamclient.PresentationDefinition"⟩]),
  ("vcr/pe/util.go:ParseEnvelope", [
    ⟨"nilcheck:jsonArray != nil", .sampled "pe.ParseEnvelope (JWT claim combinations) / iam.HandleAuthorizeResponse"⟩,
    ⟨"deref:*presentation", .sampled "pe.ParseEnvelope (JWT claim combinations) / iam.HandleAuthorizeResponse"⟩]),
  ("vcr/pe/util.go:parseJSONArrayEnvelope", [
    ⟨"range:arr", .sampled "pe.ParseEnvelope (JWT claim combinations) / iam.HandleAuthorizeResponse"⟩,
    ⟨"deref:*presentation", .sampled "pe.ParseEnvelope (JWT claim combinations) / iam.HandleAuthorizeResponse"⟩]),
  ("vcr/pe/util.go:parseJSONObjectOrStringEnvelope", [
    ⟨"index:token.PrivateClaims()[\"vp\"]", .sampled "pe.ParseEnvelope (JWT claim combinations) / iam.HandleAuthorizeResponse"⟩,
    ⟨"assertok:token.PrivateClaims()[\"vp\"].(map[string]interface{})", .sampled "pe.ParseEnvelope (JWT claim combinations) / iam.HandleAuthorizeResponse"⟩,
    ⟨"range:innerVPAsMap", .sampled "pe.ParseEnvelope (JWT claim combinations) / iam.HandleAuthorizeResponse"⟩,
    ⟨"indexw:asMap[key]", .sampled "pe.ParseEnvelope (JWT claim combinations) / iam.HandleAuthorizeResponse"⟩,
    ⟨"indexw:asMap[\"id\"]", .sampled "pe.ParseEnvelope (JWT claim combinations) / iam.HandleAuthorizeResponse"⟩]),
  ("vcr/pe/util.go:tryParseJSONArray", [
    ⟨"assertok:asInterface.([]interface{})", .sampled "pe.ParseEnvelope (JWT claim combinations) / iam.HandleAuthorizeResponse"⟩]),
  ("network/transport/v2/conversation.go:conversationManager.check", [
    ⟨"defer:cMan.mutex.RUnlock", .sampled "v2.envelope (reply-type-confusion matrix: every request type × every reply handler, live conversation id)"⟩,
    ⟨"index:cMan.conversations[cid.String()]", .sampled "v2.envelope (reply-type-confusion matrix: every request type × every reply handler, live conversation id)"⟩]),
  ("network/transport/v2/conversation.go:Envelope_TransactionListQuery.checkResponse", [
    ⟨"assertok:other.(*Envelope_TransactionList)", .sampled "v2.envelope (reply-type-confusion matrix: every request type × every reply handler, live conversation id)"⟩,
    ⟨"range:envelope.TransactionListQuery.Refs", .sampled "v2.envelope (reply-type-confusion matrix: every request type × every reply handler, live conversation id)"⟩,
    ⟨"indexw:refs[ref]", .sampled "v2.envelope (reply-type-confusion matrix: every request type × every reply handler, live conversation id)"⟩,
    ⟨"range:txs", .sampled "v2.envelope (reply-type-confusion matrix: every request type × every reply handler, live conversation id)"⟩,
    ⟨"index:refs[tx.Ref()]", .sampled "v2.envelope (reply-type-confusion matrix: every request type × every reply handler, live conversation id)"⟩]),
  ("network/transport/v2/conversation.go:Envelope_TransactionRangeQuery.checkResponse", [
    ⟨"assertok:other.(*Envelope_TransactionList)", .sampled "v2.envelope (reply-type-confusion matrix: every request type × every reply handler, live conversation id)"⟩,
    ⟨"range:txs", .sampled "v2.envelope (reply-type-confusion matrix: every request type × every reply handler, live conversation id)"⟩]),
  ("network/transport/v2/conversation.go:Envelope_State.checkResponse", [
    ⟨"assertok:other.(*Envelope_TransactionSet)", .sampled "v2.envelope (reply-type-confusion matrix: every request type × every reply handler, live conversation id)"⟩]),
  ("network/transport/v2/conversation.go:Envelope_TransactionList.parseTransactions", [
    ⟨"index:data[dataKey]", .sampled "v2.envelope (reply-type-confusion matrix: every request type × every reply handler, live conversation id)"⟩,
    ⟨"assertok:data[dataKey].([]dag.Transaction)", .sampled "v2.envelope (reply-type-confusion matrix: every request type × every reply handler, live conversation id)"⟩,
    ⟨"range:envelope.TransactionList.Transactions", .sampled "v2.envelope (reply-type-confusion matrix: every request type × every reply handler, live conversation id)"⟩,
    ⟨"indexw:data[dataKey]", .sampled "v2.envelope (reply-type-confusion matrix: every request type × every reply handler, live conversation id)"⟩]),
  ("network/transport/v2/transactionlist_handler.go:protocol.handleTransactionList", [
    ⟨"assert:envelope.Message.(*Envelope_TransactionList)", .sampled "v2.envelope"⟩,
    ⟨"range:txs", .sampled "v2.envelope"⟩,
    ⟨"nilcheck:ctx.Err() != nil", .sampled "v2.envelope"⟩,
    ⟨"lencheck:len(tx.PAL()) == 0", .sampled "v2.envelope"⟩,
    ⟨"lencheck:len(msg.Transactions[i].Payload) == 0", .sampled "v2.envelope"⟩,
    ⟨"index:msg.Transactions[i]", .sampled "v2.envelope"⟩,
    ⟨"index:msg.Transactions[i]", .sampled "v2.envelope"⟩]),
  ("vcr/pe/presentation_definition.go:PresentationDefinition.Match", [
    ⟨"guardcall:presentationDefinition.checkNoNilEntries", .sampled "pe.match+validate (parallel-array invariant of Match; the PE model is C12)"⟩,
    ⟨"lencheck:len(presentationDefinition.SubmissionRequirements) > 0", .sampled "pe.match+validate (parallel-array invariant of Match; the PE model is C12)"⟩]),
  ("vcr/pe/presentation_definition.go:PresentationDefinition.matchBasic", [
    ⟨"range:candidates", .sampled "pe.match+validate (parallel-array invariant of Match; the PE model is C12)"⟩,
    ⟨"nilcheck:candidate.VC == nil", .sampled "pe.match+validate (parallel-array invariant of Match; the PE model is C12)"⟩,
    ⟨"lencheck:len(descriptorsNotMatched) > 0", .sampled "pe.match+validate (parallel-array invariant of Match; the PE model is C12)"⟩,
    ⟨"range:candidates", .sampled "pe.match+validate (parallel-array invariant of Match; the PE model is C12)"⟩,
    ⟨"indexw:matchingCredentials[i]", .sampled "pe.match+validate (parallel-array invariant of Match; the PE model is C12)"⟩,
    ⟨"deref:*candidate.VC", .sampled "pe.match+validate (parallel-array invariant of Match; the PE model is C12)"⟩]),
  ("vcr/pe/presentation_definition.go:PresentationDefinition.matchSubmissionRequirements", [
    ⟨"range:presentationDefinition.SubmissionRequirements", .sampled "pe.match+validate (parallel-array invariant of Match; the PE model is C12)"⟩,
    ⟨"range:submissionRequirement.groups()", .sampled "pe.match+validate (parallel-array invariant of Match; the PE model is C12)"⟩,
    ⟨"indexw:availableGroups[group]", .sampled "pe.match+validate (parallel-array invariant of Match; the PE model is C12)"⟩,
    ⟨"range:presentationDefinition.groups()", .sampled "pe.match+validate (parallel-array invariant of Match; the PE model is C12)"⟩,
    ⟨"index:availableGroups[group.Name]", .sampled "pe.match+validate (parallel-array invariant of Match; the PE model is C12)"⟩,
    ⟨"range:candidates", .sampled "pe.match+validate (parallel-array invariant of Match; the PE model is C12)"⟩,
    ⟨"range:match.InputDescriptor.Group", .sampled "pe.match+validate (parallel-array invariant of Match; the PE model is C12)"⟩,
    ⟨"index:availableGroups[group]", .sampled "pe.match+validate (parallel-array invariant of Match; the PE model is C12)"⟩,
    ⟨"indexw:availableGroups[group]", .sampled "pe.match+validate (parallel-array invariant of Match; the PE model is C12)"⟩,
    ⟨"range:presentationDefinition.SubmissionRequirements", .sampled "pe.match+validate (parallel-array invariant of Match; the PE model is C12)"⟩,
    ⟨"label:outer", .sampled "pe.match+validate (parallel-array invariant of Match; the PE model is C12)"⟩,
    ⟨"range:uniqueVCs", .sampled "pe.match+validate (parallel-array invariant of Match; the PE model is C12)"⟩,
    ⟨"range:candidates", .sampled "pe.match+validate (parallel-array invariant of Match; the PE model is C12)"⟩,
    ⟨"nilcheck:candidate.VC != nil", .sampled "pe.match+validate (parallel-array invariant of Match; the PE model is C12)"⟩,
    ⟨"deref:*candidate.VC", .sampled "pe.match+validate (parallel-array invariant of Match; the PE model is C12)"⟩,
    ⟨"branch:continue outer", .sampled "pe.match+validate (parallel-array invariant of Match; the PE model is C12)"⟩]),
  ("vcr/pe/presentation_submission.go:PresentationSubmission.Validate", [
    ⟨"lencheck:len(envelope.Presentations) == 0", .sampled "pe.match+validate"⟩,
    ⟨"range:envelope.Presentations", .sampled "pe.match+validate"⟩,
    ⟨"deref:*signer", .sampled "pe.match+validate"⟩,
    ⟨"range:signInstruction.Mappings", .sampled "pe.match+validate"⟩,
    ⟨"indexw:expectedCredentials[mapping.Id]", .sampled "pe.match+validate"⟩,
    ⟨"index:signInstruction.VerifiableCredentials[i]", .sampled "pe.match+validate"⟩,
    ⟨"lencheck:len(actualCredentials) != len(expectedCredentials)", .sampled "pe.match+validate"⟩,
    ⟨"range:expectedCredentials", .sampled "pe.match+validate"⟩,
    ⟨"index:actualCredentials[inputDescriptorID]", .sampled "pe.match+validate"⟩]),
  ("vcr/pe/presentation_submission.go:PresentationSubmission.Resolve", [
    ⟨"range:s.DescriptorMap", .sampled "pe.match+validate"⟩,
    ⟨"index:result[inputDescriptor.Id]", .sampled "pe.match+validate"⟩,
    ⟨"indexw:result[inputDescriptor.Id]", .sampled "pe.match+validate"⟩,
    ⟨"deref:*resolvedCredential", .sampled "pe.match+validate"⟩]),
  ("vcr/pe/presentation_submission.go:PresentationSubmissionBuilder.Build", [
    ⟨"range:b.wallets", .sampled "pe.match+validate"⟩,
    ⟨"index:b.holders[i]", .sampled "pe.match+validate"⟩,
    ⟨"index:b.holders[i]", .sampled "pe.match+validate"⟩,
    ⟨"nilcheck:selectedDID == nil", .sampled "pe.match+validate"⟩,
    ⟨"index:b.holders[0]", .sampled "pe.match+validate"⟩,
    ⟨"deref:*selectedDID", .sampled "pe.match+validate"⟩,
    ⟨"lencheck:len(signInstruction.Mappings) == 1", .sampled "pe.match+validate"⟩,
    ⟨"index:signInstruction.Mappings[0]", .sampled "pe.match+validate"⟩]),
  ("discovery/module.go:Module.Search", [
    ⟨"index:m.allDefinitions[serviceID]", .sampled "pe.match+validate (the indexing loop of Search is replayed on Match results; the discovery model is C16)"⟩,
    ⟨"range:matchingVPs", .sampled "pe.match+validate (the indexing loop of Search is replayed on Match results; the discovery model is C16)"⟩,
    ⟨"for:i < len(inputDescriptorMappingObjects)", .sampled "pe.match+validate (the indexing loop of Search is replayed on Match results; the discovery model is C16)"⟩,
    ⟨"index:inputDescriptorMappingObjects[i]", .sampled "pe.match+validate (the indexing loop of Search is replayed on Match results; the discovery model is C16)"⟩,
    ⟨"indexw:credentialMap[inputDescriptorMappingObjects[i].Id]", .sampled "pe.match+validate (the indexing loop of Search is replayed on Match results; the discovery model is C16)"⟩,
    ⟨"index:submissionVCs[i]", .sampled "pe.match+validate (the indexing loop of Search is replayed on Match results; the discovery model is C16)"⟩]),
  ("discovery/module.go:Module.Register", [
    ⟨"index:m.serverDefinitions[serviceID]", .sampled "discovery.Register (definitions with optional members absent × registration/retraction presentations with undeterminable signer, missing id/claims)"⟩,
    ⟨"index:m.allDefinitions[serviceID]", .sampled "discovery.Register (definitions with optional members absent × registration/retraction presentations with undeterminable signer, missing id/claims)"⟩,
    ⟨"index:m.allDefinitions[serviceID]", .sampled "discovery.Register (definitions with optional members absent × registration/retraction presentations with undeterminable signer, missing id/claims)"⟩,
    ⟨"deref:*record", .sampled "discovery.Register (definitions with optional members absent × registration/retraction presentations with undeterminable signer, missing id/claims)"⟩,
    ⟨"rec:m.httpClient.Register", .sampled "discovery.Register (definitions with optional members absent × registration/retraction presentations with undeterminable signer, missing id/claims)"⟩]),
  ("discovery/module.go:Module.verifyRegistration", [
    ⟨"nilcheck:presentation.ID == nil", .sampled "discovery.Register (definitions with optional members absent × registration/retraction presentations with undeterminable signer, missing id/claims)"⟩,
    ⟨"lencheck:len(definition.DIDMethods) > 0", .sampled "discovery.Register (definitions with optional members absent × registration/retraction presentations with undeterminable signer, missing id/claims)"⟩]),
  ("discovery/module.go:Module.validateRegistration", [
    ⟨"range:presentation.VerifiableCredential", .sampled "discovery.Register (definitions with optional members absent × registration/retraction presentations with undeterminable signer, missing id/claims)"⟩,
    ⟨"nilcheck:cred.ID == nil", .sampled "discovery.Register (definitions with optional members absent × registration/retraction presentations with undeterminable signer, missing id/claims)"⟩,
    ⟨"range:presentation.VerifiableCredential", .sampled "discovery.Register (definitions with optional members absent × registration/retraction presentations with undeterminable signer, missing id/claims)"⟩,
    ⟨"nilcheck:cred.ExpirationDate != nil", .sampled "discovery.Register (definitions with optional members absent × registration/retraction presentations with undeterminable signer, missing id/claims)"⟩,
    ⟨"deref:*cred.ExpirationDate", .sampled "discovery.Register (definitions with optional members absent × registration/retraction presentations with undeterminable signer, missing id/claims)"⟩,
    ⟨"range:presentation.VerifiableCredential", .sampled "discovery.Register (definitions with optional members absent × registration/retraction presentations with undeterminable signer, missing id/claims)"⟩]),
  ("discovery/module.go:Module.validateRetraction", [
    ⟨"lencheck:len(presentation.VerifiableCredential) > 0", .sampled "discovery.Register (definitions with optional members absent × registration/retraction presentations with undeterminable signer, missing id/claims)"⟩,
    ⟨"discard:presentation.JWT().Get(\"retract_jti\")", .sampled "discovery.Register (definitions with optional members absent × registration/retraction presentations with undeterminable signer, missing id/claims)"⟩,
    ⟨"assertok:retractJTIRaw.(string)", .sampled "discovery.Register (definitions with optional members absent × registration/retraction presentations with undeterminable signer, missing id/claims)"⟩,
    ⟨"discard:credential.PresentationSigner(presentation)", .sampled "discovery.Register (definitions with optional members absent × registration/retraction presentations with undeterminable signer, missing id/claims)"⟩]),
  ("discovery/client.go:clientUpdater.updateService", [
    ⟨"range:presentations", .sampled "discovery.client.updateService (lists a remote Discovery Server returns)"⟩,
    ⟨"nilcheck:presentation.ID == nil", .sampled "discovery.client.updateService (lists a remote Discovery Server returns)"⟩,
    ⟨"deref:*record", .sampled "discovery.client.updateService (lists a remote Discovery Server returns)"⟩]),
  ("discovery/store.go:storePresentation", [
    ⟨"range:presentation.VerifiableCredential", .sampled "discovery.client.updateService / discovery.Register"⟩,
    ⟨"nilcheck:verifiableCredential.ID == nil", .sampled "discovery.client.updateService / discovery.Register"⟩]),
  ("http/client/client.go:StrictHTTPClient.WithRedirectCheck", [
    ⟨"deref:*s.client", .sampled "httpclient.fetch (stalling servers × every constructor and its WithRedirectCheck copy)"⟩]),
  ("http/client/client.go:StrictHTTPClient.Do", [
    ⟨"nilcheck:result.Body != nil", .sampled "httpclient.fetch (stalling servers × every constructor and its WithRedirectCheck copy)"⟩,
    ⟨"rec:s.client.Do", .sampled "httpclient.fetch (stalling servers × every constructor and its WithRedirectCheck copy)"⟩]),
  ("vcr/revocation/statuslist2021_verifier.go:StatusList2021.Verify", [
    ⟨"nilcheck:credentialToVerify.CredentialStatus == nil", .total "no status, nothing to verify"⟩,
    ⟨"range:statuses", .total "bounded loop (model: verifyEntries)"⟩]),
  ("vcr/revocation/statuslist2021_verifier.go:StatusList2021.statusList", [
    ⟨"nilcheck:cr.Expires != nil", .total "guard of *cr.Expires"⟩,
    ⟨"deref:*cr.Expires", .total "under cr.Expires != nil in the same condition"⟩,
    ⟨"nilcheck:cr.Expires != nil", .total "guard of *cr.Expires"⟩,
    ⟨"deref:*cr.Expires", .total "under cr.Expires != nil in the same condition"⟩]),
  ("vcr/revocation/statuslist2021_verifier.go:StatusList2021.update", [
    ⟨"deref:*cred", .total "download returns a non-nil credential when it returns no error"⟩,
    ⟨"nilcheck:cred.ExpirationDate != nil", .total "GUARD of cred.ExpirationDate.IsZero() (Cfg.expirationNilGuard); without it: site update:cred.ExpirationDate.IsZero()(nil)"⟩]),
  ("vcr/revocation/statuslist2021_verifier.go:StatusList2021.download", [
    ⟨"defer:<*ast.FuncLit>", .sampled "revocation.Verify / revocation.statusListCredential"⟩]),
  ("vcr/revocation/statuslist2021_verifier.go:StatusList2021.verify", []),
  ("vcr/revocation/statuslist2021_verifier.go:StatusList2021.validate", [
    ⟨"lencheck:len(cred.Type) > 2", .total "error: other types"⟩,
    ⟨"nilcheck:cred.ID == nil", .total "error: id required"⟩,
    ⟨"nilcheck:cred.Proof == nil", .total "error: proof required"⟩,
    ⟨"nilcheck:cred.CredentialStatus != nil", .total "error: status list credential with a status"⟩,
    ⟨"lencheck:len(target) != 1", .total "GUARD of target[0] (Cfg.singleSubjectGuard)"⟩,
    ⟨"index:target[0]", .site "validate:target[0]"⟩]),
  ("vcr/revocation/bitstring.go:bitstring.Scan", [
    ⟨"nilcheck:value == nil", .sampled "revocation.bitstring.Scan / revocation.statusListCredential"⟩,
    ⟨"deref:*bs", .sampled "revocation.bitstring.Scan / revocation.statusListCredential"⟩,
    ⟨"deref:*bs", .sampled "revocation.bitstring.Scan / revocation.statusListCredential"⟩]),
  ("vcr/revocation/bitstring.go:expand", []),
  ("vdr/didkey/resolver.go:Resolver.Resolve", [
    ⟨"lencheck:len(encodedKey) == 0", .total "GUARD of encodedKey[0] (DidKey.Cfg.emptyGuard)"⟩,
    ⟨"index:encodedKey[0]", .site "Resolve:encodedKey[0]"⟩,
    ⟨"slice:encodedKey[1:]", .total "encodedKey has at least one character here"⟩,
    ⟨"discard:io.ReadAll(reader)", .total "reading from a bytes.Reader does not fail"⟩,
    ⟨"lencheck:keyLength != 32", .total "exact length of X25519 / Ed25519 keys (model: DidKey.codecCheck keyLength != 32); a longer key would be handed to crypto/ed25519, which panics on it"⟩,
    ⟨"lencheck:keyLength != 32", .total "exact length of X25519 / Ed25519 keys (model: DidKey.codecCheck keyLength != 32); a longer key would be handed to crypto/ed25519, which panics on it"⟩,
    ⟨"discard:unmarshalEC(elliptic.P521(), -1, mcBytes)", .total "expectedLen -1: unmarshalEC cannot return an error; invalid points give nil coordinates, which NewVerificationMethod rejects (data vmOk)"⟩]),
  ("vdr/didkey/resolver.go:unmarshalEC", [
    ⟨"lencheck:expectedLen != -1", .total "P-521 is decoded without a length check"⟩,
    ⟨"lencheck:len(pubKeyBytes) != expectedLen", .total "length error (model: keyLength tests)"⟩]),
  ("vdr/didjwk/resolver.go:Resolver.Resolve", [
    ⟨"nilcheck:rawPrivateKey != nil", .sampled "didjwk.Resolve"⟩,
    ⟨"assertok:publicRawKey.(*ecdsa.PublicKey)", .sampled "didjwk.Resolve"⟩,
    ⟨"nilcheck:ecKey.X == nil", .sampled "didjwk.Resolve"⟩,
    ⟨"nilcheck:ecKey.Y == nil", .sampled "didjwk.Resolve"⟩]),
  ("vdr/didweb/web.go:Resolver.Resolve", [
    ⟨"lencheck:len(baseURL.Path) == 0", .total "test (model: DidWeb.requestPath)"⟩,
    ⟨"guardcall:resolver.RejectNullKeyEntries", .total "guard of document.UnmarshalJSON (Cfg.nullGuard); without it: site Resolve>did.Document.UnmarshalJSON (go-did dereferences null key entries)"⟩]),
  ("vcr/credential/util.go:ResolveSubjectDID", [
    ⟨"range:credentials", .total "bounded loop (model: Cred.resolveLoop)"⟩,
    ⟨"deref:*sid", .site "ResolveSubjectDID:*sid"⟩,
    ⟨"deref:*sid", .site "ResolveSubjectDID:*sid"⟩]),
  ("vcr/credential/util.go:PresenterIsCredentialSubject", [
    ⟨"deref:*signerDID", .total "after err == nil of PresentationSigner, which returns a non-nil DID on every ok path (model: Cred.presentationSigner)"⟩]),
  ("vcr/credential/util.go:PresentationIssuanceDate", []),
  ("vcr/credential/util.go:PresentationExpirationDate", [
    ⟨"nilcheck:ldProof.Expires == nil", .total "GUARD of *ldProof.Expires (CredMore.Cfg.expiresNilChecked)"⟩,
    ⟨"deref:*ldProof.Expires", .site "PresentationExpirationDate:*ldProof.Expires"⟩]),
  ("vcr/credential/util.go:AutoCorrectSelfAttestedCredential", [
    ⟨"lencheck:len(credential.Proof) > 0", .total "test: signed credentials are returned untouched (model: CredMore.autoCorrect)"⟩,
    ⟨"nilcheck:credential.ID == nil", .total "test (ACIn.idNil)"⟩,
    ⟨"discard:ssi.ParseURI(uuid.NewString())", .total "own input: a fresh UUID always parses"⟩,
    ⟨"lencheck:len(credentialSubject) == 1", .total "GUARD of credentialSubject[0] (CredMore.Cfg.subjLenExact)"⟩,
    ⟨"nilcheck:credentialSubject[0] == nil", .total "GUARD of the write into credentialSubject[0] (CredMore.Cfg.nilMapGuard): the discarded unmarshal error leaves a nil map for a scalar subject"⟩,
    ⟨"index:credentialSubject[0]", .site "AutoCorrectSelfAttestedCredential:credentialSubject[0]"⟩,
    ⟨"indexw:credentialSubject[0]", .total "same index, under the length guard"⟩,
    ⟨"index:credentialSubject[0]", .total "same index, under the length guard"⟩,
    ⟨"index:credentialSubject[0][\"id\"]", .total "map read (nil map reads are total in Go)"⟩,
    ⟨"index:credentialSubject[0]", .total "same index, under the length guard"⟩,
    ⟨"indexw:credentialSubject[0][\"id\"]", .site "AutoCorrectSelfAttestedCredential:credentialSubject[0][id]=nil-map"⟩,
    ⟨"indexw:credential.CredentialSubject[0]", .site "AutoCorrectSelfAttestedCredential:credential.CredentialSubject[0]"⟩,
    ⟨"index:credentialSubject[0]", .total "same index, under the length guard"⟩]),
  ("vcr/credential/util.go:FilterOnDIDMethod", [
    ⟨"lencheck:len(didMethods) == 0", .total "test: no methods given = no filtering (CredMore.Cfg.emptyMethodsPass)"⟩,
    ⟨"label:outer", .total "label of the credential loop"⟩,
    ⟨"range:credentials", .total "bounded loop (model: CredMore.filterFrom)"⟩,
    ⟨"range:bl", .total "bounded loop (model: CredMore.subjectsPass)"⟩,
    ⟨"branch:continue outer", .total "skips the credential (model: subjectsPass = false)"⟩]),
  ("vcr/credential/resolver.go:PresentationSigner", []),
  ("vcr/credential/resolver.go:ParseLDProof", [
    ⟨"lencheck:len(proofs) != 1", .total "guard of proofs[0] (Cfg.proofCountExact)"⟩,
    ⟨"index:proofs[0]", .site "ParseLDProof:proofs[0]"⟩]),
  ("vcr/credential/validator.go:validateNutsCredentialID", [
    ⟨"nilcheck:credential.ID == nil", .sampled "credential.vc"⟩]),
  ("vcr/verifier/verifier.go:verifier.Verify", [
    ⟨"lencheck:len(credentialToVerify.Type) > 2", .sampled "verifier.Verify / verifier.VerifyVP"⟩,
    ⟨"nilcheck:credentialToVerify.ID != nil", .sampled "verifier.Verify / verifier.VerifyVP"⟩,
    ⟨"deref:*credentialToVerify.ID", .sampled "verifier.Verify / verifier.VerifyVP"⟩,
    ⟨"discard:json.Marshal(credentialToVerify)", .sampled "verifier.Verify / verifier.VerifyVP"⟩,
    ⟨"range:credentialToVerify.Type", .sampled "verifier.Verify / verifier.VerifyVP"⟩,
    ⟨"nilcheck:validAt != nil", .sampled "verifier.Verify / verifier.VerifyVP"⟩,
    ⟨"deref:*validAt", .sampled "verifier.Verify / verifier.VerifyVP"⟩,
    ⟨"deref:*issuerDID", .sampled "verifier.Verify / verifier.VerifyVP"⟩,
    ⟨"rec:v.credentialStatus.Verify", .sampled "verifier.Verify / verifier.VerifyVP"⟩]),
  ("vcr/verifier/verifier.go:verifier.doVerifyVP", [
    ⟨"nilcheck:subjectDID == nil", .sampled "verifier.Verify / verifier.VerifyVP"⟩,
    ⟨"lencheck:len(presentation.VerifiableCredential) > 0", .sampled "verifier.Verify / verifier.VerifyVP"⟩,
    ⟨"nilcheck:subjectDID != nil", .sampled "verifier.Verify / verifier.VerifyVP"⟩,
    ⟨"nilcheck:presentation.Holder != nil", .sampled "verifier.Verify / verifier.VerifyVP"⟩,
    ⟨"range:presentation.VerifiableCredential", .sampled "verifier.Verify / verifier.VerifyVP"⟩,
    ⟨"nilcheck:presentation.Holder != nil", .sampled "verifier.Verify / verifier.VerifyVP"⟩]),
  ("crypto/jwx.go:JWTKidAlg", [
    ⟨"lencheck:len(j.Signatures()) != 1", .total "guard of j.Signatures()[0] (Jwx.Cfg.kidAlgSigGuard)"⟩,
    ⟨"index:j.Signatures()[0]", .site "JWTKidAlg:j.Signatures()[0]"⟩]),
  ("crypto/jwx.go:ParseJWT", []),
  ("crypto/jwx.go:ParseJWS", [
    ⟨"lencheck:len(signatures) != 1", .total "guard of signatures[0] (Jwx.Cfg.jwsSigGuard)"⟩,
    ⟨"index:signatures[0]", .site "ParseJWS:signatures[0]"⟩]),
  ("jsonld/ldutils.go:LDUtil.Canonicalize", [
    ⟨"defer:recoverProcessorPanic", .total "GUARD of the json-gold processor (JsonLd.Cfg.canonicalize, derived from Facts.jsonldProcessorCallers / jsonldRecoverers); without a DIRECT recover: site Canonicalize>ld"⟩,
    ⟨"discard:json.Marshal(input)", .total "a marshal error leaves nil bytes: json.Unmarshal then fails (In.jsonOk = false)"⟩]),
  ("vdr/didnuts/validators.go:verificationMethodValidator.Validate", [
    ⟨"range:document.VerificationMethod", .sampled "didnuts.validate+findKeyByThumbprint"⟩]),
  ("vdr/didnuts/validators.go:verificationMethodValidator.verifyThumbprint", [
    ⟨"nilcheck:keyAsJWK == nil", .sampled "didnuts.validate+findKeyByThumbprint"⟩,
    ⟨"guardcall:checkPublicKey", .sampled "didnuts.validate+findKeyByThumbprint"⟩]),
  ("vdr/didnuts/ambassador.go:ambassador.findKeyByThumbprint", [
    ⟨"range:didDocumentAuthKeys", .sampled "didnuts.accepted-doc-then-findKeyByThumbprint"⟩,
    ⟨"nilcheck:key.VerificationMethod == nil", .sampled "didnuts.accepted-doc-then-findKeyByThumbprint"⟩,
    ⟨"nilcheck:keyAsJWK == nil", .sampled "didnuts.accepted-doc-then-findKeyByThumbprint"⟩,
    ⟨"guardcall:checkPublicKey", .sampled "didnuts.accepted-doc-then-findKeyByThumbprint"⟩]),
  ("vdr/didnuts/ambassador.go:ambassador.callback", [
    ⟨"guardcall:resolver.RejectNullKeyEntries", .sampled "didnuts.validate+findKeyByThumbprint (guard + unmarshal + validator as in callback)"⟩]),
  ("vdr/didnuts/validators.go:nilEntryValidator.Validate", [
    ⟨"range:document.VerificationMethod", .sampled "didnuts.validate+findKeyByThumbprint"⟩,
    ⟨"nilcheck:method == nil", .sampled "didnuts.validate+findKeyByThumbprint"⟩,
    ⟨"range:[]did.VerificationRelationships{}", .sampled "didnuts.validate+findKeyByThumbprint"⟩,
    ⟨"range:relationships", .sampled "didnuts.validate+findKeyByThumbprint"⟩,
    ⟨"nilcheck:relationship.VerificationMethod == nil", .sampled "didnuts.validate+findKeyByThumbprint"⟩]),
  ("vdr/didnuts/validators.go:NetworkDocumentValidator", [
    ⟨"lit:nilEntryValidator{}", .sampled "didnuts.validate+findKeyByThumbprint"⟩,
    ⟨"lit:did.W3CSpecValidator{}", .sampled "didnuts.validate+findKeyByThumbprint"⟩,
    ⟨"lit:verificationMethodValidator{}", .sampled "didnuts.validate+findKeyByThumbprint"⟩,
    ⟨"lit:basicServiceValidator{}", .sampled "didnuts.validate+findKeyByThumbprint"⟩]),
  ("vdr/resolver/nullentries.go:RejectNullKeyEntries", [
    ⟨"for:decoder.More()", .sampled "didweb.Resolve / didnuts.validate+findKeyByThumbprint"⟩,
    ⟨"assertok:nameToken.(string)", .sampled "didweb.Resolve / didnuts.validate+findKeyByThumbprint"⟩,
    ⟨"range:entries", .sampled "didweb.Resolve / didnuts.validate+findKeyByThumbprint"⟩]),
  ("network/transport/v2/handlers.go:protocol.Handle", [
    ⟨"assert:raw.(*Envelope)", .sampled "v2.Handle"⟩,
    ⟨"range:allowedErrors", .sampled "v2.Handle"⟩]),
  ("network/transport/v2/handlers.go:protocol.handle", [
    ⟨"deref:*Envelope_Gossip", .sampled "v2.Handle"⟩,
    ⟨"deref:*Envelope_TransactionList", .sampled "v2.Handle"⟩,
    ⟨"select:", .sampled "v2.Handle"⟩,
    ⟨"send:p.listHandler.ch", .sampled "v2.Handle"⟩,
    ⟨"deref:*Envelope_TransactionListQuery", .sampled "v2.Handle"⟩,
    ⟨"deref:*Envelope_TransactionPayloadQuery", .sampled "v2.Handle"⟩,
    ⟨"deref:*Envelope_TransactionPayload", .sampled "v2.Handle"⟩,
    ⟨"deref:*Envelope_TransactionRangeQuery", .sampled "v2.Handle"⟩,
    ⟨"deref:*Envelope_State", .sampled "v2.Handle"⟩,
    ⟨"deref:*Envelope_TransactionSet", .sampled "v2.Handle"⟩,
    ⟨"deref:*Envelope_DiagnosticsBroadcast", .sampled "v2.Handle"⟩]),
  ("network/transport/v2/handlers.go:protocol.handleTransactionPayload", [
    ⟨"lencheck:len(msg.Data) == 0", .sampled "v2.Handle"⟩,
    ⟨"nilcheck:p.privatePayloadReceiver == nil", .sampled "v2.Handle"⟩]),
  ("network/transport/v2/handlers.go:protocol.handleTransactionPayloadQuery", [
    ⟨"lencheck:len(tx.PAL()) > 0", .sampled "v2.Handle"⟩,
    ⟨"nilcheck:pal == nil", .sampled "v2.Handle"⟩]),
  ("network/transport/v2/handlers.go:protocol.handleTransactionRangeQuery", []),
  ("network/transport/v2/handlers.go:protocol.handleGossip", [
    ⟨"range:msg.Transactions", .sampled "v2.Handle"⟩,
    ⟨"indexw:refs[i]", .sampled "v2.Handle"⟩,
    ⟨"lencheck:len(refs) > 0", .sampled "v2.Handle"⟩,
    ⟨"range:refs", .sampled "v2.Handle"⟩,
    ⟨"indexw:refs[i]", .sampled "v2.Handle"⟩,
    ⟨"slice:refs[:i]", .sampled "v2.Handle"⟩,
    ⟨"lencheck:len(refs) > 0", .sampled "v2.Handle"⟩,
    ⟨"lencheck:len(refs) == 0", .sampled "v2.Handle"⟩]),
  ("network/transport/v2/handlers.go:protocol.handleTransactionListQuery", [
    ⟨"range:msg.Refs", .sampled "v2.Handle"⟩,
    ⟨"indexw:requestedRefs[i]", .sampled "v2.Handle"⟩,
    ⟨"lencheck:len(requestedRefs) == 0", .sampled "v2.Handle"⟩,
    ⟨"range:requestedRefs", .sampled "v2.Handle"⟩,
    ⟨"nilcheck:ctx.Err() != nil", .sampled "v2.Handle"⟩,
    ⟨"index:unsorted[i]", .sampled "v2.Handle"⟩,
    ⟨"index:unsorted[j]", .sampled "v2.Handle"⟩]),
  ("network/transport/v2/handlers.go:protocol.handleState", [
    ⟨"discard:p.state.IBLT(msg.LC)", .sampled "v2.Handle"⟩]),
  ("network/transport/v2/handlers.go:protocol.handleTransactionSet", [
    ⟨"assert:envelope.Message.(*Envelope_TransactionSet)", .sampled "v2.Handle"⟩,
    ⟨"discard:p.state.IBLT(minLC)", .sampled "v2.Handle"⟩,
    ⟨"discard:p.state.XOR(dag.MaxLamportClock)", .sampled "v2.Handle"⟩,
    ⟨"lencheck:len(missing) > 0", .sampled "v2.Handle"⟩]),
  ("vdr/didweb/util.go:DIDToURL", [
    ⟨"slice:id.ID[:subpathIdx]", .total "under subpathIdx != -1, subpathIdx = strings.Index(id.ID, \":\") <= len (model: DidWeb.splitColon)"⟩,
    ⟨"slice:id.ID[subpathIdx:]", .total "under subpathIdx != -1, subpathIdx = strings.Index(id.ID, \":\") <= len (model: DidWeb.splitColon)"⟩,
    ⟨"nilcheck:parsedIP != nil", .total "test of the result of net.ParseIP"⟩]),
  ("vdr/didweb/util.go:percentDecodeString", [
    ⟨"for:i < len(s)", .total "i strictly increases (i++ and i += 2): model recursion on the remaining bytes (didweb_percent_decode_length)"⟩,
    ⟨"lencheck:i + 2 < len(s)", .total "guard of the slice (Cfg.sliceGuard = some 2); weaker or absent: site percentDecodeString:s[i:i+3]"⟩,
    ⟨"index:s[i]", .total "under the loop condition i < len(s)"⟩,
    ⟨"slice:s[i:i + 3]", .site "percentDecodeString:s[i:i+3]"⟩,
    ⟨"index:s[i]", .total "under the loop condition i < len(s)"⟩]),
  ("vdr/didweb/util.go:percentDecodeChar", [
    ⟨"lencheck:len(encoded) != 3", .total "guard of the three index expressions (Cfg.charLenGuard)"⟩,
    ⟨"index:encoded[0]", .site "percentDecodeChar:encoded[0]"⟩,
    ⟨"index:encoded[1]", .site "percentDecodeChar:encoded[1]"⟩,
    ⟨"index:encoded[2]", .site "percentDecodeChar:encoded[2]"⟩]),
  ("vdr/didweb/util.go:isHex", []),
  ("vdr/didweb/util.go:unhex", []),
  ("http/client/caching.go:responseCache.insert", [
    ⟨"lencheck:len(entry.responseData) > h.maxBytes", .total "sanity check (model: HttpCache.insert)"⟩,
    ⟨"defer:h.mux.Unlock", .total "the mutex is released on every return; a loop that does not terminate keeps it for ever"⟩,
    ⟨"for:h.head != nil && h.currentSizeBytes + len(entry.responseData) > h.maxBytes", .total "every iteration pops one entry off a non-empty expiry list: measure = its length (httpcache_make_room_terminates); without `h.head != nil` the loop spins on an empty list (httpcache_unguarded_loop_spins)"⟩,
    ⟨"nilcheck:h.head == nil", .total "test"⟩,
    ⟨"for:current.next != nil && current.next.expirationTime.Before(entry.expirationTime)", .total "walks the acyclic expiry list (model: structural recursion insertAfterHead)"⟩,
    ⟨"indexw:h.entriesByURL[entry.requestURL.String()]", .total "entriesByURL is made by newCache, never nil"⟩,
    ⟨"index:h.entriesByURL[entry.requestURL.String()]", .total "map read"⟩]),
  ("http/client/caching.go:responseCache.pop", [
    ⟨"nilcheck:h.head == nil", .total "guard of h.head.requestURL: pop on an empty list changes nothing (model: HttpCache.pop)"⟩,
    ⟨"index:h.entriesByURL[requestURL]", .total "map read"⟩,
    ⟨"range:entries", .total "bounded loop"⟩,
    ⟨"indexw:h.entriesByURL[requestURL]", .total "entriesByURL is made by newCache, never nil"⟩,
    ⟨"slice:entries[:i]", .total "i ranges over entries"⟩,
    ⟨"slice:entries[i + 1:]", .total "i ranges over entries: i+1 <= len"⟩,
    ⟨"lencheck:len(h.entriesByURL[requestURL]) == 0", .total "test"⟩,
    ⟨"index:h.entriesByURL[requestURL]", .total "map read"⟩]),
  ("http/client/caching.go:responseCache.removeExpiredEntries", [
    ⟨"for:current != nil", .total "every iteration pops the head or breaks (model: structural recursion removeExpired)"⟩]),
  ("http/client/caching.go:responseCache.get", [
    ⟨"defer:h.mux.Unlock", .total "released on return"⟩,
    ⟨"index:h.entriesByURL[httpRequest.URL.String()]", .total "map read"⟩,
    ⟨"range:entries", .total "bounded loop"⟩]),
  ("http/client/caching.go:CachingRoundTripper.RoundTrip", [
    ⟨"nilcheck:response != nil", .total "test"⟩,
    ⟨"rec:r.wrappedTransport.RoundTrip", .total "not a self call: the wrapped transport (same method name)"⟩]),
  ("http/client/caching.go:CachingRoundTripper.cacheResponse", [
    ⟨"lencheck:len(reasons) > 0", .total "test"⟩])]

def expectedOps : List (String × List String) := expected.map fun p => (p.1, p.2.map (·.go))

/-- the panic sites the expected inventory refers to -/
def expectedSites : List String :=
  (expected.flatMap fun p => p.2.filterMap fun e => match e.disp with | .site n => some n | _ => none).eraseDups

/-! ### model configurations as the source stands today -/

def dpopCfg : Dpop.Cfg :=
  { htuChecked := !has "crypto/dpop/dpop.go:DPoP.HTU" "assert:v.(string)"
    htmChecked := !has "crypto/dpop/dpop.go:DPoP.HTM" "assert:v.(string)"
    parseTypeChecks := count "crypto/dpop/dpop.go:Parse" "assertok:v.(string)" == 2
    stripChecksErr := !has "crypto/dpop/dpop.go:strip" "discard:url.Parse(raw)" }

def resolverCfg : Resolver.Cfg :=
  { baseChecked := !has "vdr/resolver/key.go:DIDKeyResolver.baseUrl" "assert:val.(string)"
    nilVMChecked := has "vdr/resolver/key.go:DIDKeyResolver.ResolveKeyByID" "nilcheck:rel.VerificationMethod == nil"
      && has "vdr/resolver/key.go:DIDKeyResolver.ResolveKey" "nilcheck:key.VerificationMethod == nil" }

def callbackCfg : Callback.Cfg :=
  { assertChecked := !has "auth/api/iam/openid4vp.go:withCallbackURI" "assert:err.(oauth.OAuth2Error)"
    envelopeGuard := has "auth/api/iam/openid4vp.go:Wrapper.handleAuthorizeResponseSubmission" "lencheck:len(pexEnvelope.Presentations) == 0" }

def statusListCfg : StatusList.Cfg :=
  { singleSubjectGuard := has "vcr/revocation/statuslist2021_verifier.go:StatusList2021.validate" "lencheck:len(target) != 1"
    expirationNilGuard := has "vcr/revocation/statuslist2021_verifier.go:StatusList2021.update" "nilcheck:cred.ExpirationDate != nil" }

def didKeyCfg : DidKey.Cfg :=
  { emptyGuard := has "vdr/didkey/resolver.go:Resolver.Resolve" "lencheck:len(encodedKey) == 0" }

/-- the guard in front of `s[i : i+3]` as the source spells it today -/
def didWebSliceGuard : Option Nat :=
  match Facts.C19.didwebSliceGuards.head? with
  | some "s[i] == '%' && i + 2 < len(s)" => some 2
  | some "s[i] == '%' && i + 1 < len(s)" => some 1
  | some "s[i] == '%' && i + 3 < len(s)" => some 3
  | some "s[i] == '%' && i < len(s)" => some 0
  | _ => none

def didWebCfg : DidWeb.Cfg :=
  { sliceGuard := didWebSliceGuard
    charLenGuard := has "vdr/didweb/util.go:percentDecodeChar" "lencheck:len(encoded) != 3"
    decodeSet := Facts.C19.didwebDecodeSet
    contentTypes := Facts.C19.didwebContentTypes
    nullGuard := has "vdr/didweb/web.go:Resolver.Resolve" "guardcall:resolver.RejectNullKeyEntries" }

def ambassadorCfg : Ambassador.Cfg :=
  { nullGuard := Facts.C19.didDocUnmarshals.contains
      "vdr/didnuts/ambassador.go:ambassador.callback:json.Unmarshal(payload, &nextDIDDocument):after-RejectNullKeyEntries" }

/-- what is known about every place that unmarshals bytes into a did.Document: `true` = the bytes come from a peer / a remote
    server, the null-entry check MUST precede; `false` = bytes the node (or its operator's CLI) produced itself -/
def docUnmarshalSites : List (String × Bool) := [
  ("storage/orm/did_document.go:DidDocument.ToDIDDocument:json.Unmarshal([]byte(sqlDoc.Raw), &document)", false),
  ("storage/orm/did_document.go:MigrationDocument.ToORMDocument:json.Unmarshal(migration.Raw, doc)", false),
  ("vdr/api/v1/client.go:readDIDDocument:json.Unmarshal(data, &document)", false),
  ("vdr/cmd/cmd.go:updateCmd:json.Unmarshal(bytes, &didDoc)", false),
  ("vdr/didnuts/ambassador.go:ambassador.callback:json.Unmarshal(payload, &nextDIDDocument)", true),
  ("vdr/didnuts/didstore/reader.go:readDocument:json.Unmarshal(documentBytes, &document)", false),
  ("vdr/didweb/web.go:Resolver.Resolve:document.UnmarshalJSON(data)", true)]

def expectedDocUnmarshals : List String :=
  docUnmarshalSites.map fun p => p.1 ++ (if p.2 then ":after-RejectNullKeyEntries" else ":UNGUARDED")

/-- the make-room loop of responseCache.insert as the source spells it today -/
def httpCacheCfg : HttpCache.Cfg :=
  { headGuard := has "http/client/caching.go:responseCache.insert" "for:h.head != nil && h.currentSizeBytes + len(entry.responseData) > h.maxBytes"
      || has "http/client/caching.go:responseCache.insert" "for:h.head != nil && h.currentSizeBytes + len(entry.responseData) >= h.maxBytes"
    strict := has "http/client/caching.go:responseCache.insert" "for:h.head != nil && h.currentSizeBytes + len(entry.responseData) > h.maxBytes"
      || has "http/client/caching.go:responseCache.insert" "for:h.currentSizeBytes + len(entry.responseData) > h.maxBytes" }

def credCfg : Cred.Cfg :=
  { subjectErrChecked := has "vcr/credential/util.go:ResolveSubjectDID" "range:credentials"
      && !has "vcr/credential/util.go:ResolveSubjectDID" "discard:credential.SubjectDID()"
    proofCountExact := has "vcr/credential/resolver.go:ParseLDProof" "lencheck:len(proofs) != 1" }

def credMoreCfg : CredMore.Cfg :=
  { expiresNilChecked := has "vcr/credential/util.go:PresentationExpirationDate" "nilcheck:ldProof.Expires == nil"
    nilMapGuard := has "vcr/credential/util.go:AutoCorrectSelfAttestedCredential" "nilcheck:credentialSubject[0] == nil"
    subjLenExact := has "vcr/credential/util.go:AutoCorrectSelfAttestedCredential" "lencheck:len(credentialSubject) == 1"
    emptyMethodsPass := has "vcr/credential/util.go:FilterOnDIDMethod" "lencheck:len(didMethods) == 0" }

def jsonldGuard (key : String) : JsonLd.Guard :=
  match Facts.C19.jsonldProcessorCallers.find? (fun p => p.1 == key) with
  | some p => JsonLd.guardOf Facts.C19.jsonldRecoverers p.2
  | none => .absent

def jsonldCfg : JsonLd.Cfg :=
  { canonicalize := jsonldGuard "jsonld/ldutils.go:LDUtil.Canonicalize"
    readBytes := jsonldGuard "jsonld/reader.go:Reader.ReadBytes"
    allFieldsDefined := jsonldGuard "jsonld/jsonld.go:AllFieldsDefined"
    noOtherCaller := Facts.C19.jsonldProcessorCallers.map (·.1) ==
      ["jsonld/jsonld.go:AllFieldsDefined", "jsonld/ldutils.go:LDUtil.Canonicalize", "jsonld/reader.go:Reader.ReadBytes"] }

def jwxCfg : Jwx.Cfg :=
  { kidAlgSigGuard := has "crypto/jwx.go:JWTKidAlg" "lencheck:len(j.Signatures()) != 1"
    jwsSigGuard := has "crypto/jwx.go:ParseJWS" "lencheck:len(signatures) != 1" }

def ibltCfg : Iblt.Cfg :=
  { k := Facts.C19.ibltK
    chainBounded := has "network/dag/tree/iblt.go:Iblt.bucketIndices" "for:len(indices) < k && step < ibltMaxChain"
    maxChain := Facts.C19.ibltMaxChain }

end Nuts.C19.Sites
