/-
  C19 — what the models read from the regenerated facts (NutsModel/Facts/C19.lean, produced by extract/c19.go
  from /repo's current source): which partial operations each modelled Go function contains today, and the
  `Cfg` of each model derived from that inventory.  The EXPECTED inventory (with the disposition of every entry)
  is `expected` below; Props/C19.lean proves `Facts.C19.partialOps = expected…` by `decide`, so a newly introduced
  unchecked assertion / index / unbounded loop in a modelled function breaks the build.
-/
import NutsModel.Facts.C19
import NutsModel.C19.Dpop
import NutsModel.C19.Resolver
import NutsModel.C19.Bitstring
import NutsModel.C19.Iblt
import NutsModel.C19.Callback
namespace Nuts.C19.Sites
open Nuts

/-- the inventory of one function (`none` if the extractor did not report the function at all) -/
def opsOf? (key : String) : Option (List String) :=
  (Facts.C19.partialOps.find? (fun p => p.1 == key)).map (·.2)

def has (key op : String) : Bool :=
  match opsOf? key with
  | some l => l.contains op
  | none => false

def count (key op : String) : Nat :=
  match opsOf? key with
  | some l => l.count op
  | none => 0

/-- what happens with a partial operation of the source in the model -/
inductive Disp where
  /-- it is the `Res.panic` site with this name -/
  | site (name : String)
  /-- it cannot fail; why -/
  | total (why : String)
  deriving Repr, DecidableEq

structure Entry where
  go : String
  disp : Disp
  deriving Repr

/-- the EXPECTED inventory: per modelled Go function, its partial operations in source order, each with its disposition -/
def expected : List (String × List Entry) := [
  ("crypto/dpop/dpop.go:Parse", [
    ⟨"lencheck:len(message.Signatures()) != 1", .total "guard of Signatures()[0] (model: nSigs != 1)"⟩,
    ⟨"index:message.Signatures()[0]", .site "Parse:Signatures()[0]"⟩,
    ⟨"nilcheck:headers.JWK() == nil", .total "guard: Match later calls t.Headers.JWK().Thumbprint"⟩,
    ⟨"assertok:v.(string)", .total "checked assertion (Cfg.parseTypeChecks)"⟩,
    ⟨"assertok:v.(string)", .total "checked assertion (Cfg.parseTypeChecks)"⟩,
    ⟨"lencheck:len(token.JwtID()) > maxJtiLength", .total "jti length limit (model: jtiLen > maxJtiLength)"⟩]),
  ("crypto/dpop/dpop.go:DPoP.HTU", [
    ⟨"assertok:v.(string)", .total "checked assertion (Cfg.htuChecked); the unchecked form is site HTU:v.(string)"⟩]),
  ("crypto/dpop/dpop.go:DPoP.HTM", [
    ⟨"assertok:v.(string)", .total "checked assertion (Cfg.htmChecked); the unchecked form is site HTM:v.(string)"⟩]),
  ("crypto/dpop/dpop.go:DPoP.Match", [
    ⟨"discard:t.Headers.JWK().Thumbprint(crypto.SHA256)", .total "JWK() is non-nil for every token Parse returns (nil check in Parse); a Thumbprint error only makes the comparison fail"⟩]),
  ("crypto/dpop/dpop.go:strip", [
    ⟨"index:strings.Split(url.Host, \":\")[0]", .total "strings.Split with a non-empty separator returns at least one element"⟩]),
  ("vdr/resolver/key.go:DIDKeyResolver.ResolveKeyByID", [
    ⟨"range:relationships", .total "bounded loop"⟩,
    ⟨"nilcheck:rel.VerificationMethod == nil", .total "guard (Cfg.nilVMChecked); without it: site ResolveKeyByID:rel.ID(nil *VerificationMethod)"⟩,
    ⟨"nilcheck:baseUrl != nil", .total "guard of *baseUrl"⟩,
    ⟨"deref:*baseUrl", .total "under baseUrl != nil (model: match on Option)"⟩]),
  ("vdr/resolver/key.go:DIDKeyResolver.baseUrl", [
    ⟨"range:context", .total "bounded loop"⟩,
    ⟨"index:context[i]", .total "i ranges over context"⟩,
    ⟨"assert:ctx.(map[string]interface{})", .total "under reflect Kind()==Map; every map kind in a JSON-decoded @context is map[string]interface{} (J.obj)"⟩,
    ⟨"index:m[\"@base\"]", .total "map read"⟩,
    ⟨"assertok:val.(string)", .total "checked assertion (Cfg.baseChecked); the unchecked form is site baseUrl:val.(string)"⟩]),
  ("vdr/resolver/key.go:DIDKeyResolver.ResolveKey", [
    ⟨"range:keys", .total "bounded loop"⟩,
    ⟨"nilcheck:key.VerificationMethod == nil", .total "guard (Cfg.nilVMChecked); without it: site ResolveKey:keys[0].PublicKey()(nil *VerificationMethod)"⟩]),
  ("vdr/resolver/service.go:DIDServiceResolver.Resolve", []),
  ("vdr/resolver/service.go:DIDServiceResolver.ResolveEx", [
    ⟨"index:documentCache[referencedDID.String()]", .total "map read"⟩,
    ⟨"nilcheck:document == nil", .total "cache miss test"⟩,
    ⟨"indexw:documentCache[referencedDID.String()]", .site "ResolveEx:documentCache[k]=v(nil map)"⟩,
    ⟨"range:document.Service", .total "bounded loop; document is non-nil when the resolver returns no error (contract of DIDResolver)"⟩,
    ⟨"nilcheck:service == nil", .total "guard of *service"⟩,
    ⟨"nilcheck:service.UnmarshalServiceEndpoint(&endpointURL) == nil", .total "error test"⟩,
    ⟨"deref:*resolvedEndpointURI", .total "after err == nil of ssi.ParseURI"⟩,
    ⟨"deref:*resolvedEndpointURI", .total "after err == nil of ssi.ParseURI"⟩,
    ⟨"deref:*service", .total "under service != nil"⟩,
    ⟨"rec:s.ResolveEx", .total "recursion with depth+1 under depth < maxDepth: measure maxDepth - depth (service_resolve_terminates)"⟩]),
  ("vcr/revocation/bitstring.go:bitstring.bit", [
    ⟨"lencheck:q >= len(*bs)", .total "guard of (*bs)[q]"⟩,
    ⟨"deref:*bs", .total "receiver is the address of a local value at every call site"⟩,
    ⟨"deref:*bs", .total "receiver is the address of a local value at every call site"⟩,
    ⟨"index:(*bs)[q]", .site "bit:(*bs)[q]"⟩]),
  ("vcr/revocation/bitstring.go:bitstring.setBit", [
    ⟨"lencheck:q >= len(*bs)", .total "guard of (*bs)[q]"⟩,
    ⟨"deref:*bs", .total "receiver is the address of a local value at every call site"⟩,
    ⟨"deref:*bs", .total "receiver is the address of a local value at every call site"⟩,
    ⟨"index:(*bs)[q]", .site "setBit:(*bs)[q]"⟩,
    ⟨"deref:*bs", .total "receiver is the address of a local value at every call site"⟩,
    ⟨"indexw:(*bs)[q]", .site "setBit:(*bs)[q]"⟩]),
  ("vcr/revocation/bitstring.go:isSet", []),
  ("network/dag/tree/iblt.go:Iblt.Insert", [
    ⟨"range:i.bucketIndices(keyHash)", .total "bounded loop over the result of bucketIndices (iblt_bucket_indices_total)"⟩,
    ⟨"index:i.buckets[h]", .site "Insert/Delete:i.buckets[h]"⟩]),
  ("network/dag/tree/iblt.go:Iblt.Delete", [
    ⟨"range:i.bucketIndices(keyHash)", .total "bounded loop over the result of bucketIndices (iblt_bucket_indices_total)"⟩,
    ⟨"index:i.buckets[h]", .site "Insert/Delete:i.buckets[h]"⟩]),
  ("network/dag/tree/iblt.go:Iblt.Subtract", [
    ⟨"range:i.buckets", .total "bounded loop"⟩,
    ⟨"index:i.buckets[idx]", .site "Subtract:i.buckets[idx]"⟩,
    ⟨"index:o.buckets[idx]", .site "Subtract:o.buckets[idx]"⟩]),
  ("network/dag/tree/iblt.go:Iblt.validate", [
    ⟨"assertok:other.(*Iblt)", .total "checked assertion"⟩]),
  ("network/dag/tree/iblt.go:Iblt.Decode", [
    ⟨"for:", .total "UNBOUNDED loop: modelled with fuel, termination is theorem iblt_decode_terminates"⟩,
    ⟨"range:i.buckets", .total "bounded loop"⟩,
    ⟨"index:i.buckets[idx]", .site "Decode:i.buckets[idx]"⟩,
    ⟨"index:i.buckets[idx]", .site "Decode:i.buckets[idx]"⟩,
    ⟨"index:i.buckets[idx]", .site "Decode:i.buckets[idx]"⟩,
    ⟨"index:i.buckets[idx]", .site "Decode:i.buckets[idx]"⟩,
    ⟨"index:i.buckets[idx]", .site "Decode:i.buckets[idx]"⟩,
    ⟨"index:pures[txRef]", .total "map read"⟩,
    ⟨"indexw:pures[txRef]", .total "map write on a map made in the function"⟩,
    ⟨"index:i.buckets[idx]", .site "Decode:i.buckets[idx]"⟩]),
  ("network/dag/tree/iblt.go:Iblt.Empty", [
    ⟨"range:i.buckets", .total "bounded loop"⟩,
    ⟨"index:i.buckets[idx]", .total "idx ranges over i.buckets (model: Array.all)"⟩]),
  ("network/dag/tree/iblt.go:Iblt.bucketIndices", [
    ⟨"for:len(indices) < k && step < ibltMaxChain", .total "bounded by ibltMaxChain (model: recursion on the remaining steps)"⟩,
    ⟨"divmod:next % numBuckets", .site "bucketIndices:next % numBuckets"⟩,
    ⟨"index:bucketUsed[bucketID]", .total "map read"⟩,
    ⟨"indexw:bucketUsed[bucketID]", .total "map write on a map made in the function"⟩,
    ⟨"for:len(indices) < k && off < numBuckets", .total "bounded by numBuckets (model: recursion on the remaining offsets)"⟩,
    ⟨"divmod:(bucketID + off) % numBuckets", .site "bucketIndices:(bucketID + off) % numBuckets"⟩,
    ⟨"index:bucketUsed[probe]", .total "map read"⟩,
    ⟨"indexw:bucketUsed[probe]", .total "map write on a map made in the function"⟩]),
  ("network/dag/tree/iblt.go:Iblt.UnmarshalBinary", [
    ⟨"divmod:len(data) / bucketBytes", .total "bucketBytes is the constant 44"⟩,
    ⟨"lencheck:len(data) != numBuckets * bucketBytes", .total "the only error of UnmarshalBinary; precedes every assignment"⟩,
    ⟨"for:j < i.numBuckets()", .total "bounded loop"⟩,
    ⟨"index:i.buckets[j]", .total "j < len(i.buckets) is the loop condition (model: Array.push)"⟩,
    ⟨"rec:i.buckets[j].UnmarshalBinary", .total "not recursion: the method of bucket"⟩]),
  ("network/dag/tree/iblt.go:bucket.UnmarshalBinary", [
    ⟨"lencheck:len(data) != bucketBytes", .total "guard of the array-pointer conversion"⟩,
    ⟨"conv:(*[bucketBytes]byte)(data)", .site "bucket.UnmarshalBinary:(*[bucketBytes]byte)(data)"⟩,
    ⟨"slice:d[:4]", .total "constant bounds on an array of 44"⟩,
    ⟨"slice:d[4:12]", .total "constant bounds on an array of 44"⟩,
    ⟨"slice:d[12:]", .total "constant bounds on an array of 44"⟩,
    ⟨"conv:(*hash.SHA256Hash)(d[12:])", .total "d[12:] has the 32 elements of the target array"⟩,
    ⟨"deref:*keySum", .total "result of the conversion above, never nil"⟩]),
  ("auth/api/iam/openid4vp.go:withCallbackURI", [
    ⟨"assert:err.(oauth.OAuth2Error)", .site "withCallbackURI:err.(oauth.OAuth2Error)"⟩]),
  ("auth/api/iam/openid4vp.go:Wrapper.handleAuthorizeResponseSubmission", [
    ⟨"nilcheck:request.Body.State == nil", .total "guard of *request.Body.State"⟩,
    ⟨"nilcheck:request.Body.VpToken == nil", .total "guard of *request.Body.VpToken"⟩,
    ⟨"deref:*request.Body.VpToken", .total "under the nil check above"⟩,
    ⟨"lencheck:len(pexEnvelope.Presentations) == 0", .total "GUARD of nonces[0] in validatePresentationNonce (Cfg.envelopeGuard): pe.ParseEnvelope(\"[]\") succeeds with no presentations"⟩,
    ⟨"deref:*request.Body.State", .total "under the nil check above"⟩,
    ⟨"deref:*session.OwnSubject", .total "every OAuthSession the node stores under a client state has OwnSubject set (not input)"⟩,
    ⟨"deref:*session.OwnSubject", .total "every OAuthSession the node stores under a client state has OwnSubject set (not input)"⟩,
    ⟨"nilcheck:request.Body.PresentationSubmission == nil", .total "guard of *request.Body.PresentationSubmission"⟩,
    ⟨"deref:*request.Body.PresentationSubmission", .total "under the nil check above"⟩,
    ⟨"range:pexEnvelope.Presentations", .total "bounded loop"⟩,
    ⟨"deref:*subjectDID", .total "validatePresentationSigner returns a non-nil DID when it returns no error"⟩,
    ⟨"range:pexEnvelope.Presentations", .total "bounded loop"⟩,
    ⟨"deref:*submission", .total "after err == nil of ParsePresentationSubmission"⟩,
    ⟨"deref:*pexEnvelope", .total "after err == nil of ParseEnvelope"⟩,
    ⟨"discard:session.OpenID4VPVerifier.next()", .total "second result unused"⟩,
    ⟨"nilcheck:nextWalletOwnerType != nil", .total "flow control"⟩,
    ⟨"deref:*callbackURI", .total "session.redirectURI() of a stored session"⟩]),
  ("auth/api/iam/openid4vp.go:Wrapper.validatePresentationNonce", [
    ⟨"range:presentations", .total "bounded loop"⟩,
    ⟨"lencheck:len(nonces) > 1", .total "error: differing nonces"⟩,
    ⟨"lencheck:len(errs) > 0", .total "error return"⟩,
    ⟨"range:nonces", .total "bounded loop"⟩,
    ⟨"index:nonces[0]", .site "validatePresentationNonce:nonces[0]"⟩]),
  ("auth/api/iam/openid4vp.go:extractChallenge", [
    ⟨"discard:presentation.JWT().Get(\"nonce\")", .total "missing claim gives nil, then the checked assertion gives \"\""⟩,
    ⟨"assertok:nonceRaw.(string)", .total "checked assertion"⟩,
    ⟨"nilcheck:proof.Challenge != nil", .total "guard of *proof.Challenge"⟩,
    ⟨"deref:*proof.Challenge", .total "under the nil check"⟩,
    ⟨"deref:*proof.Challenge", .total "under the nil check"⟩]),
  ("auth/api/iam/validation.go:Wrapper.validatePresentationAudience", [
    ⟨"nilcheck:proof.Domain != nil", .total "guard of *proof.Domain"⟩,
    ⟨"deref:*proof.Domain", .total "under the nil check"⟩,
    ⟨"range:audience", .total "bounded loop"⟩])]

def expectedOps : List (String × List String) := expected.map fun p => (p.1, p.2.map (·.go))

/-- the panic sites the expected inventory refers to -/
def expectedSites : List String :=
  (expected.flatMap fun p => p.2.filterMap fun e => match e.disp with | .site n => some n | .total _ => none).eraseDups

/-! ### model configurations as the source stands today -/

def dpopCfg : Dpop.Cfg :=
  { htuChecked := !has "crypto/dpop/dpop.go:DPoP.HTU" "assert:v.(string)"
    htmChecked := !has "crypto/dpop/dpop.go:DPoP.HTM" "assert:v.(string)"
    parseTypeChecks := count "crypto/dpop/dpop.go:Parse" "assertok:v.(string)" == 2
    stripChecksErr := !has "crypto/dpop/dpop.go:strip" "discard:url.Parse(raw)" }

def resolverCfg : Resolver.Cfg :=
  { baseChecked := !has "vdr/resolver/key.go:DIDKeyResolver.baseUrl" "assert:val.(string)"
    nilVMChecked := has "vdr/resolver/key.go:DIDKeyResolver.ResolveKeyByID" "nilcheck:rel.VerificationMethod == nil"
      && has "vdr/resolver/key.go:DIDKeyResolver.ResolveKey" "nilcheck:key.VerificationMethod == nil" }

def callbackCfg : Callback.Cfg :=
  { assertChecked := !has "auth/api/iam/openid4vp.go:withCallbackURI" "assert:err.(oauth.OAuth2Error)"
    envelopeGuard := has "auth/api/iam/openid4vp.go:Wrapper.handleAuthorizeResponseSubmission" "lencheck:len(pexEnvelope.Presentations) == 0" }

def ibltCfg : Iblt.Cfg :=
  { k := Facts.C19.ibltK
    chainBounded := has "network/dag/tree/iblt.go:Iblt.bucketIndices" "for:len(indices) < k && step < ibltMaxChain"
    maxChain := Facts.C19.ibltMaxChain }

end Nuts.C19.Sites
