/-
  C19 — what the models read from the regenerated facts (NutsModel/Facts/C19.lean, produced by extract/c19.go
  from /repo's current source): which partial operations each modelled Go function contains today, and the
  `Cfg` of each model derived from that inventory.  The EXPECTED inventory (with the disposition of every entry)
  is `expected` below; Props/C19.lean proves `Facts.C19.partialOps = expected…` by `decide`, so a newly introduced
  unchecked assertion / index / unbounded loop in a modelled function breaks the build.
-/
import NutsModel.Facts.C19
import NutsModel.C19.Dpop
import NutsModel.C19.Resolver
import NutsModel.C19.Bitstring
import NutsModel.C19.Iblt
import NutsModel.C19.Callback
namespace Nuts.C19.Sites
open Nuts

/-- the inventory of one function (`none` if the extractor did not report the function at all) -/
def opsOf? (key : String) : Option (List String) :=
  (Facts.C19.partialOps.find? (fun p => p.1 == key)).map (·.2)

def has (key op : String) : Bool :=
  match opsOf? key with
  | some l => l.contains op
  | none => false

def count (key op : String) : Nat :=
  match opsOf? key with
  | some l => l.count op
  | none => 0

/-! ### model configurations as the source stands today -/

def dpopCfg : Dpop.Cfg :=
  { htuChecked := !has "crypto/dpop/dpop.go:DPoP.HTU" "assert:v.(string)"
    htmChecked := !has "crypto/dpop/dpop.go:DPoP.HTM" "assert:v.(string)"
    parseTypeChecks := count "crypto/dpop/dpop.go:Parse" "assertok:v.(string)" == 2
    stripChecksErr := !has "crypto/dpop/dpop.go:strip" "discard:url.Parse(raw)" }

def resolverCfg : Resolver.Cfg :=
  { baseChecked := !has "vdr/resolver/key.go:DIDKeyResolver.baseUrl" "assert:val.(string)"
    nilVMChecked := has "vdr/resolver/key.go:DIDKeyResolver.ResolveKeyByID" "nilcheck:rel.VerificationMethod == nil"
      && has "vdr/resolver/key.go:DIDKeyResolver.ResolveKey" "nilcheck:key.VerificationMethod == nil" }

def callbackCfg : Callback.Cfg :=
  { assertChecked := !has "auth/api/iam/openid4vp.go:withCallbackURI" "assert:err.(oauth.OAuth2Error)" }

def ibltCfg : Iblt.Cfg :=
  { k := Facts.C19.ibltK
    chainBounded := has "network/dag/tree/iblt.go:Iblt.bucketIndices" "for:len(indices) < k && step < ibltMaxChain"
    maxChain := Facts.C19.ibltMaxChain }

end Nuts.C19.Sites
