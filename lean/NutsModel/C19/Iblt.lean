/-
  C19 — model of network/dag/tree/iblt.go: UnmarshalBinary, validate/Subtract, bucketIndices, Insert/Delete,
  Decode, Empty, and of the peer-facing sequence in network/transport/v2/handlers.go:handleTransactionSet
  (UnmarshalBinary → Subtract → Decode).
  murmur3 (github.com/twmb/murmur3) is third-party: the three ways the code uses it are the fields of `Hash`
  (a parameter; NutsModel/C19/Murmur.lean gives the concrete instance used by the driver and by the witness).
  Go loops: bounded `for` loops are structural recursion on the remaining iterations; the two unbounded loops
  (`for {` in Decode, `for len(indices) < int(i.k)` in the unrepaired bucketIndices) take explicit fuel and return
  `none` when it runs out — "terminates" is then the THEOREM that some fuel suffices (Props/C19.lean).
-/
import NutsModel.Base
namespace Nuts.C19.Iblt
open Nuts

abbrev Key := BitVec 256

structure Bucket where
  count : BitVec 32      -- int32, wraps
  hashSum : BitVec 64
  keySum : Key
  deriving DecidableEq, Repr, Inhabited

def Bucket.zero : Bucket := ⟨0, 0, 0⟩
def Bucket.isEmpty (b : Bucket) : Bool := b == Bucket.zero

/-- the three uses of murmur3 -/
structure Hash where
  /-- `murmur3.SeedSum64(i.hc, key.Slice())` -/
  hashKey : Key → BitVec 64
  /-- `murmur3.SeedSum32(i.hk, LE64(hash))` — first value of the chain -/
  first : BitVec 64 → BitVec 32
  /-- `murmur3.SeedSum32(i.hk, LE32(next))` — the chain step -/
  next : BitVec 32 → BitVec 32

structure Cfg where
  /-- ibltK -/
  k : Nat
  /-- bucketIndices bounds the hash chain and falls back to linear probing (repaired source) -/
  chainBounded : Bool
  /-- ibltMaxChain (only meaningful when chainBounded) -/
  maxChain : Nat
  deriving Repr, DecidableEq

def two32 : Nat := 4294967296

def addIndex (ind : List Nat) (b : Nat) : List Nat := if ind.contains b then ind else ind ++ [b]

/-! ### bucketIndices, repaired source -/

/-- `for step := 0; len(indices) < k && step < ibltMaxChain; step++ { bucketID = next % numBuckets; … }`.
    Returns the indices and the last bucketID. -/
def chainPhase (H : Hash) (n k : Nat) : (stepsLeft : Nat) → BitVec 32 → Nat → List Nat → Res (List Nat × Nat)
  | 0, _, last, ind => .ok (ind, last)
  | s + 1, nx, last, ind =>
    if ind.length ≥ k then .ok (ind, last) else
    if n = 0 then .panic "bucketIndices:next % numBuckets" else
    let b := nx.toNat % n
    chainPhase H n k s (H.next nx) b (addIndex ind b)

/-- `for off := uint32(1); len(indices) < k && off < numBuckets; off++ { b := (bucketID + off) % numBuckets; … }` -/
def probePhase (n k last : Nat) : (offsLeft : Nat) → (off : Nat) → List Nat → Res (List Nat)
  | 0, _, ind => .ok ind
  | s + 1, off, ind =>
    if ind.length ≥ k then .ok ind else
    if n = 0 then .panic "bucketIndices:(bucketID + off) % numBuckets" else
    let b := ((last + off) % two32) % n
    probePhase n k last s (off + 1) (addIndex ind b)

def bucketIndicesNew (c : Cfg) (H : Hash) (numBuckets : Nat) (hash : BitVec 64) : Res (List Nat) :=
  let n := numBuckets % two32                 -- uint32(i.numBuckets())
  let k := if c.k % two32 > n then n else c.k  -- if uint32(k) > numBuckets { k = int(numBuckets) }
  match chainPhase H n k c.maxChain (H.first hash) 0 [] with
  | .ok (ind, last) => probePhase n k last (n - 1) 1 ind
  | .err e => .err e
  | .panic s => .panic s

/-! ### bucketIndices, source before the repair: `for len(indices) < int(i.k) { … }` has no bound -/

def chainOld (H : Hash) (n k : Nat) : (fuel : Nat) → BitVec 32 → List Nat → Option (Res (List Nat))
  | 0, _, ind => if ind.length ≥ k then some (.ok ind) else none
  | f + 1, nx, ind =>
    if ind.length ≥ k then some (.ok ind) else
    if n = 0 then some (.panic "bucketIndices:next % numBuckets") else
    chainOld H n k f (H.next nx) (addIndex ind (nx.toNat % n))

def bucketIndicesOld (c : Cfg) (H : Hash) (fuel : Nat) (numBuckets : Nat) (hash : BitVec 64) : Option (Res (List Nat)) :=
  chainOld H (numBuckets % two32) c.k fuel (H.first hash) []

/-- fuel the driver gives the unrepaired loop before it reports `hang` -/
def oldFuel : Nat := 100000

def bucketIndices (c : Cfg) (H : Hash) (numBuckets : Nat) (hash : BitVec 64) : Res (List Nat) :=
  if c.chainBounded then bucketIndicesNew c H numBuckets hash
  else match bucketIndicesOld c H oldFuel numBuckets hash with
    | some r => r
    | none => .err "HANG:bucketIndices"

/-! ### Insert / Delete -/

def Bucket.upd (b : Bucket) (dc : BitVec 32) (key : Key) (h : BitVec 64) : Bucket :=
  ⟨b.count + dc, b.hashSum ^^^ h, b.keySum ^^^ key⟩

/-- `for _, h := range indices { i.buckets[h].insert/delete(key, keyHash) }` -/
def applyAt (bs : Array Bucket) (dc : BitVec 32) (key : Key) (h : BitVec 64) : List Nat → Res (Array Bucket)
  | [] => .ok bs
  | i :: rest =>
    if hlt : i < bs.size then applyAt (bs.set i (bs[i].upd dc key h)) dc key h rest
    else .panic "Insert/Delete:i.buckets[h]"

def insDel (c : Cfg) (H : Hash) (bs : Array Bucket) (dc : BitVec 32) (key : Key) : Res (Array Bucket) :=
  let kh := H.hashKey key
  match bucketIndices c H bs.size kh with
  | .ok ind => applyAt bs dc key kh ind
  | .err e => .err e
  | .panic s => .panic s

def insert (c : Cfg) (H : Hash) (bs : Array Bucket) (key : Key) : Res (Array Bucket) := insDel c H bs 1 key
def delete (c : Cfg) (H : Hash) (bs : Array Bucket) (key : Key) : Res (Array Bucket) := insDel c H bs (-1) key

/-! ### Decode -/

structure DState where
  buckets : Array Bucket
  pures : List Key
  /-- newest first (Go appends) -/
  remaining : List Key
  missing : List Key
  passes : Nat
  deriving Repr

def isPure (H : Hash) (b : Bucket) : Bool :=
  (b.count == 1 || b.count == -1) && H.hashKey b.keySum == b.hashSum

/-- the inner `for idx := range i.buckets` of one pass; `upd` is the Go variable `updated` -/
def pass (c : Cfg) (H : Hash) : (todo : Nat) → (idx : Nat) → DState → Bool → Res (DState × Bool)
  | 0, _, s, upd => .ok (s, upd)
  | t + 1, idx, s, upd =>
    match s.buckets[idx]? with
    | none => .panic "Decode:i.buckets[idx]"
    | some b =>
      if isPure H b then
        let tx := b.keySum
        if s.pures.contains tx then .err "ErrDecodeLoop" else
        if b.count == 1 then
          match delete c H s.buckets tx with
          | .ok bs => pass c H t (idx + 1) { s with buckets := bs, pures := tx :: s.pures, remaining := tx :: s.remaining } true
          | .err e => .err e
          | .panic p => .panic p
        else
          match insert c H s.buckets tx with
          | .ok bs => pass c H t (idx + 1) { s with buckets := bs, pures := tx :: s.pures, missing := tx :: s.missing } true
          | .err e => .err e
          | .panic p => .panic p
      else pass c H t (idx + 1) s upd

def allEmpty (bs : Array Bucket) : Bool := bs.all Bucket.isEmpty

/-- the outer `for { … }` of Decode; `none` = the fuel ran out before the loop returned -/
def decodeLoop (c : Cfg) (H : Hash) : (fuel : Nat) → DState → Option (Res DState)
  | 0, _ => none
  | f + 1, s =>
    match pass c H s.buckets.size 0 s false with
    | .ok (s', true) => decodeLoop c H f { s' with passes := s'.passes + 1 }
    | .ok (s', false) =>
      let s'' := { s' with passes := s'.passes + 1 }
      some (if allEmpty s''.buckets then .ok s'' else .err "ErrDecodeNotPossible")
    | .err e => some (.err e)
    | .panic p => some (.panic p)

def DState.init (bs : Array Bucket) : DState := ⟨bs, [], [], [], 0⟩

/-- number of distinct keys: every pass that continues adds a new key to `pures` -/
def keySpace : Nat := 2 ^ 256

def decode (c : Cfg) (H : Hash) (bs : Array Bucket) : Option (Res DState) :=
  decodeLoop c H (keySpace + 1) (DState.init bs)

/-! ### UnmarshalBinary -/

def bucketBytes : Nat := 44

/-- little-endian bytes to Nat -/
def leNat : List Nat → Nat
  | [] => 0
  | b :: rest => b % 256 + 256 * leNat rest

/-- `bucket.UnmarshalBinary(data)` -/
def bucketUnmarshal (data : List Nat) : Res Bucket :=
  if data.length ≠ bucketBytes then .err "invalid data length" else
  -- d := (*[bucketBytes]byte)(data) panics when len(data) < bucketBytes
  if data.length < bucketBytes then .panic "bucket.UnmarshalBinary:(*[bucketBytes]byte)(data)" else
  .ok ⟨BitVec.ofNat 32 (leNat (data.take 4)), BitVec.ofNat 64 (leNat ((data.drop 4).take 8)),
       BitVec.ofNat 256 (leNat (data.drop 12))⟩

/-- `for j := 0; j < numBuckets; j++ { i.buckets[j].UnmarshalBinary(buf.Next(bucketBytes)) }` -/
def unmarshalLoop : (todo : Nat) → List Nat → Array Bucket → Res (Array Bucket)
  | 0, _, acc => .ok acc
  | t + 1, buf, acc =>
    match bucketUnmarshal (buf.take bucketBytes) with
    | .ok b => unmarshalLoop t (buf.drop bucketBytes) (acc.push b)
    | .err e => .err ("unmarshalling failed - " ++ e)
    | .panic s => .panic s

def unmarshal (data : List Nat) : Res (Array Bucket) :=
  let n := data.length / bucketBytes
  if data.length ≠ n * bucketBytes then .err "invalid data length" else
  unmarshalLoop n data #[]

/-! ### validate / Subtract -/

structure Table where
  hc : Nat
  hk : Nat
  k : Nat
  buckets : Array Bucket
  deriving Repr

def validate (i o : Table) : Res Unit :=
  if i.buckets.size ≠ o.buckets.size then .err "number of buckets do not match" else
  if i.hc ≠ o.hc then .err "hc do not match" else
  if i.hk ≠ o.hk then .err "hk do not match" else
  if i.k ≠ o.k then .err "unequal number of k" else .ok ()

def Bucket.sub (b o : Bucket) : Bucket := ⟨b.count - o.count, b.hashSum ^^^ o.hashSum, b.keySum ^^^ o.keySum⟩

/-- `for idx := range i.buckets { i.buckets[idx].subtract(&o.buckets[idx]) }` -/
def subtractLoop (ob : Array Bucket) : (todo : Nat) → (idx : Nat) → Array Bucket → Res (Array Bucket)
  | 0, _, ib => .ok ib
  | t + 1, idx, ib =>
    match ib[idx]?, ob[idx]? with
    | some b, some o => subtractLoop ob t (idx + 1) (ib.setIfInBounds idx (b.sub o))
    | none, _ => .panic "Subtract:i.buckets[idx]"
    | _, none => .panic "Subtract:o.buckets[idx]"

def subtract (i o : Table) : Res Table :=
  match validate i o with
  | .ok () =>
    match subtractLoop o.buckets i.buckets.size 0 i.buckets with
    | .ok bs => .ok { i with buckets := bs }
    | .err e => .err e
    | .panic s => .panic s
  | .err e => .err e
  | .panic s => .panic s

/-- `handleTransactionSet`: peerIblt.UnmarshalBinary(msg.IBLT); iblt.Subtract(peerIblt); iblt.Decode().
    `own` is the node's IBLT for the clock range (a copy: the stored tree is not touched). -/
def handleSet (c : Cfg) (H : Hash) (own : Table) (data : List Nat) : Option (Res DState) :=
  match unmarshal data with
  | .err e => some (.err e)
  | .panic s => some (.panic s)
  | .ok pb =>
    match subtract own { hc := own.hc, hk := own.hk, k := own.k, buckets := pb } with
    | .err e => some (.err e)
    | .panic s => some (.panic s)
    | .ok diff => decode c H diff.buckets

def sites : List (String × String) :=
  [ ("mod:bucketIndices:next % numBuckets", "bucketIndices:next % numBuckets"),
    ("mod:bucketIndices:(bucketID + off) % numBuckets", "bucketIndices:(bucketID + off) % numBuckets"),
    ("index:Insert:i.buckets[h]", "Insert/Delete:i.buckets[h]"),
    ("index:Delete:i.buckets[h]", "Insert/Delete:i.buckets[h]"),
    ("index:Decode:i.buckets[idx]", "Decode:i.buckets[idx]"),
    ("conv:bucket.UnmarshalBinary:(*[bucketBytes]byte)(data)", "bucket.UnmarshalBinary:(*[bucketBytes]byte)(data)"),
    ("index:Subtract:i.buckets[idx]", "Subtract:i.buckets[idx]"),
    ("index:Subtract:o.buckets[idx]", "Subtract:o.buckets[idx]") ]

end Nuts.C19.Iblt
