/-
  C19 — model of vcr/revocation/statuslist2021_verifier.go: validate (the checks on a downloaded StatusList2021Credential and
  their order), update (download → verify → subject id → expand → record) and the per-entry part of Verify
  (purpose match, strconv.Atoi, bitstring.bit).  go-did accessors (ContainsContext, IsType, UnmarshalCredentialSubject …),
  HTTP, the signature check, gzip/base64 and SQL are third-party / other components: what they returned is DATA.
-/
import NutsModel.C19.Bitstring
namespace Nuts.C19.StatusList
open Nuts

structure Cfg where
  /-- validate returns on `len(target) != 1` before it reads `target[0]` -/
  singleSubjectGuard : Bool
  /-- update tests `cred.ExpirationDate != nil` before `cred.ExpirationDate.IsZero()` -/
  expirationNilGuard : Bool
  deriving Repr, DecidableEq

def Cfg.fixed : Cfg := ⟨true, true⟩

structure Subject where
  id : String
  typ : String
  purpose : String
  encodedList : String
  deriving Repr, DecidableEq, Inhabited

/-- what the go-did accessors say about the downloaded credential -/
structure Cred where
  hasVCContext : Bool
  hasSLContext : Bool
  isVCType : Bool
  isSLCType : Bool
  nTypes : Nat
  idNil : Bool
  issuanceZero : Bool
  jsonldWithoutProof : Bool
  hasStatus : Bool
  /-- UnmarshalCredentialSubject(&[]StatusList2021CredentialSubject): none = error -/
  subjects : Option (List Subject)
  /-- cred.ExpirationDate: none = nil pointer, some z = IsZero() -/
  expiration : Option Bool
  deriving Repr

/-- the credentialSubject part of validate -/
def validateSubjects (c : Cfg) (subs : List Subject) : Res Subject :=
  if c.singleSubjectGuard && subs.length != 1 then .err "single" else
  match subs with
  | [] => .panic "validate:target[0]"
  | s :: _ =>
    if s.typ != "StatusList2021" then .err "stype" else
    if s.purpose == "" then .err "purpose" else
    if s.encodedList == "" then .err "list" else .ok s

def validate (c : Cfg) (cr : Cred) : Res Subject :=
  if !cr.hasVCContext then .err "ctx1" else
  if !cr.hasSLContext then .err "ctx2" else
  if !cr.isVCType then .err "type1" else
  if !cr.isSLCType then .err "type2" else
  if cr.nTypes > 2 then .err "types" else
  if cr.idNil then .err "id" else
  if cr.issuanceZero then .err "issuance" else
  if cr.jsonldWithoutProof then .err "proof" else
  if cr.hasStatus then .err "status" else
  match cr.subjects with
  | none => .err "subject-unmarshal"
  | some subs => validateSubjects c subs

structure Record where
  subjectID : String
  purpose : String
  bits : List Nat
  hasExpires : Bool
  deriving Repr, DecidableEq

/-- `if cred.ExpirationDate != nil && !cred.ExpirationDate.IsZero() { expiresPtr = … }` -/
def expiry (c : Cfg) (expiration : Option Bool) (r : Record) : Res Record :=
  match expiration with
  | none => if c.expirationNilGuard then .ok r else .panic "update:cred.ExpirationDate.IsZero()(nil)"
  | some zero => .ok { r with hasExpires := !zero }

/-- `update(url)`: `downloaded` = what download returned (none = error); `expand` = base64+gzip (none = error);
    `sigOk` = VerifySignature.  The SQL write failure is only logged. -/
def update (c : Cfg) (url : String) (downloaded : Option Cred) (expand : String → Option (List Nat)) (sigOk : Bool) : Res Record :=
  match downloaded with
  | none => .err "download"
  | some cr =>
    match validate c cr with
    | .panic s => .panic s
    | .err e => .err ("validate:" ++ e)
    | .ok subj =>
      match expand subj.encodedList with
      | none => .err "expand"
      | some bits =>
        if !sigOk then .err "signature" else
        if url != subj.id then .err "wrong credential" else expiry c cr.expiration ⟨url, subj.purpose, bits, false⟩

/-- one credentialStatus entry of the credential being verified, as Verify sees it -/
structure Entry where
  typ : String
  /-- json.Unmarshal(status.Raw(), &slEntry) succeeded -/
  rawOk : Bool
  purpose : String
  /-- strconv.Atoi(statusListIndex): none = error -/
  index : Option Int
  /-- statusList(statusListCredential): none = error -/
  list : Option Record
  deriving Repr

/-- the loop of Verify: `.ok true` = revoked -/
def verifyEntries : List Entry → Res Bool
  | [] => .ok false
  | e :: rest =>
    if e.typ != "StatusList2021Entry" then verifyEntries rest else
    if !e.rawOk then .err "entry-unmarshal" else
    if e.purpose != "revocation" then verifyEntries rest else
    match e.list with
    | none => .err "status list"
    | some r =>
      if r.purpose != e.purpose then .err "purpose mismatch" else
      match e.index with
      | none => .err "atoi"
      | some idx =>
        match Bitstring.bit r.bits idx with
        | .panic s => .panic s
        | .err x => .err x
        | .ok true => .ok true
        | .ok false => verifyEntries rest

def sites : List (String × String) :=
  [ ("index:validate:target[0]", "validate:target[0]"),
    ("field:update:cred.ExpirationDate.IsZero()", "update:cred.ExpirationDate.IsZero()(nil)") ]

end Nuts.C19.StatusList
