/-
  C19 — model of crypto/jwx.go JWTKidAlg, ParseJWT, ParseJWS: the order of the checks between the token bytes and the library's
  signature verification (every bearer token, DPoP proof, JWT presentation and JWS the node receives goes through one of them).
  Data supplied by the harness: the jwx library's parse result and number of signatures, the key function's verdict for the kid,
  jwx.IsAlgorithmSupported, jwx.AlgorithmFitsKey, the library's verification result.
-/
import NutsModel.Base
namespace Nuts.C19.Jwx
open Nuts

structure Cfg where
  /-- JWTKidAlg tests `len(j.Signatures()) != 1` before `j.Signatures()[0]` -/
  kidAlgSigGuard : Bool
  /-- ParseJWS tests `len(signatures) != 1` before `signatures[0]` -/
  jwsSigGuard : Bool
  deriving Repr, DecidableEq

def Cfg.fixed : Cfg := ⟨true, true⟩

structure In where
  parseOk : Bool
  nSigs : Nat
  /-- f(kid) returned a key -/
  keyOk : Bool
  algSupported : Bool
  algFitsKey : Bool
  /-- jwt.ParseString(…WithKey, WithVerify) / jws.Verify succeeded -/
  verifyOk : Bool
  deriving Repr, DecidableEq

def sigCheck (guard : Bool) (site : String) (n : Nat) : Res Unit :=
  if guard then (if n != 1 then .err "signatures" else .ok ())
  else if n == 0 then .panic site else .ok ()

def jwtKidAlg (c : Cfg) (i : In) : Res Unit :=
  if !i.parseOk then .err "jws" else sigCheck c.kidAlgSigGuard "JWTKidAlg:j.Signatures()[0]" i.nSigs

def parseJWT (c : Cfg) (i : In) : Res Unit :=
  match jwtKidAlg c i with
  | .err e => .err e
  | .panic s => .panic s
  | .ok _ =>
    if !i.keyOk then .err "key" else
    if !i.algSupported then .err "alg" else
    if !i.algFitsKey then .err "alg-key" else
    if !i.verifyOk then .err "verify" else .ok ()

def parseJWS (c : Cfg) (i : In) : Res Unit :=
  if !i.parseOk then .err "jws" else
  match sigCheck c.jwsSigGuard "ParseJWS:signatures[0]" i.nSigs with
  | .err e => .err e
  | .panic s => .panic s
  | .ok _ =>
    if !i.algSupported then .err "alg" else
    if !i.keyOk then .err "key" else
    if !i.algFitsKey then .err "alg-key" else
    if !i.verifyOk then .err "verify" else .ok ()

def sites : List (String × String) :=
  [ ("index:JWTKidAlg:j.Signatures()[0]", "JWTKidAlg:j.Signatures()[0]"), ("index:ParseJWS:signatures[0]", "ParseJWS:signatures[0]") ]

end Nuts.C19.Jwx
