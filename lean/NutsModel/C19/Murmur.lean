/-
  C19 — MurmurHash3 as github.com/twmb/murmur3 computes it for the three input shapes iblt.go uses:
  SeedSum32(seed, 4 bytes), SeedSum32(seed, 8 bytes), SeedSum64(seed, 32 bytes) (= first half of x64_128).
  Concrete instance of `Iblt.Hash` for the driver and for the concrete witness of the short cycles of the
  32-bit chain.  Tied to the Go library by the correspondence harness (op "murmur").  Core Lean only.
-/
import NutsModel.C19.Iblt
namespace Nuts.C19.Murmur
open Nuts.C19.Iblt

def c1_32 : BitVec 32 := 0xcc9e2d51
def c2_32 : BitVec 32 := 0x1b873593

def fmix32 (h : BitVec 32) : BitVec 32 :=
  let h := h ^^^ (h >>> 16)
  let h := h * 0x85ebca6b
  let h := h ^^^ (h >>> 13)
  let h := h * 0xc2b2ae35
  h ^^^ (h >>> 16)

def round32 (h k : BitVec 32) : BitVec 32 :=
  let k := k * c1_32
  let k := k.rotateLeft 15
  let k := k * c2_32
  let h := h ^^^ k
  let h := h.rotateLeft 13
  h * 5 + 0xe6546b64

/-- SeedSum32(seed, LE32(x)) -/
def sum32of4 (seed : BitVec 32) (x : BitVec 32) : BitVec 32 :=
  fmix32 (round32 seed x ^^^ 4)

/-- SeedSum32(seed, LE64(x)) -/
def sum32of8 (seed : BitVec 32) (x : BitVec 64) : BitVec 32 :=
  let lo : BitVec 32 := x.truncate 32
  let hi : BitVec 32 := (x >>> 32).truncate 32
  fmix32 (round32 (round32 seed lo) hi ^^^ 8)

def c1_64 : BitVec 64 := 0x87c37b91114253d5
def c2_64 : BitVec 64 := 0x4cf5ad432745937f

def fmix64 (k : BitVec 64) : BitVec 64 :=
  let k := k ^^^ (k >>> 33)
  let k := k * 0xff51afd7ed558ccd
  let k := k ^^^ (k >>> 33)
  let k := k * 0xc4ceb9fe1a85ec53
  k ^^^ (k >>> 33)

def block128 (h : BitVec 64 × BitVec 64) (k1 k2 : BitVec 64) : BitVec 64 × BitVec 64 :=
  let (h1, h2) := h
  let k1 := k1 * c1_64
  let k1 := k1.rotateLeft 31
  let k1 := k1 * c2_64
  let h1 := h1 ^^^ k1
  let h1 := h1.rotateLeft 27
  let h1 := h1 + h2
  let h1 := h1 * 5 + 0x52dce729
  let k2 := k2 * c2_64
  let k2 := k2.rotateLeft 33
  let k2 := k2 * c1_64
  let h2 := h2 ^^^ k2
  let h2 := h2.rotateLeft 31
  let h2 := h2 + h1
  let h2 := h2 * 5 + 0x38495ab5
  (h1, h2)

/-- SeedSum64(seed, key) for a 32-byte key; the key is the little-endian number of its bytes -/
def sum64of32 (seed : BitVec 64) (key : Key) : BitVec 64 :=
  let w (i : Nat) : BitVec 64 := (key >>> (64 * i)).truncate 64
  let h := block128 (seed, seed) (w 0) (w 1)
  let (h1, h2) := block128 h (w 2) (w 3)
  let h1 := h1 ^^^ 32
  let h2 := h2 ^^^ 32
  let h1 := h1 + h2
  let h2 := h2 + h1
  let h1 := fmix64 h1
  let h2 := fmix64 h2
  h1 + h2

/-- ibltHc = 0, ibltHk = 1 -/
def hash : Hash :=
  { hashKey := sum64of32 0, first := sum32of8 1, next := sum32of4 1 }

end Nuts.C19.Murmur
