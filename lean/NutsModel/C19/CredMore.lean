/-
  C19 — the REMAINING vcr/credential/util.go helpers that run on credentials / presentations of a wallet, a peer or an API client
  before anything is verified: PresentationIssuanceDate, PresentationExpirationDate, AutoCorrectSelfAttestedCredential,
  FilterOnDIDMethod.  (ResolveSubjectDID, PresenterIsCredentialSubject, PresentationSigner, ParseLDProof: Cred.lean.)
  Data supplied by the harness: the JWT's nbf/iat/exp as the jwx accessors report them (`none` = the zero time), the first LD
  proof's created/expires, go-did's UnmarshalCredentialSubject result, did.ParseDID's result per issuer / subject id.
  Times are opaque strings: the helpers only copy them and test IsZero().
-/
import NutsModel.C19.Cred
namespace Nuts.C19.CredMore
open Nuts Nuts.C19.Cred

structure Cfg where
  /-- PresentationExpirationDate tests `ldProof.Expires == nil` before `*ldProof.Expires` -/
  expiresNilChecked : Bool
  /-- AutoCorrectSelfAttestedCredential replaces a nil map (`credentialSubject[0] == nil`) before it writes the id into it -/
  nilMapGuard : Bool
  /-- AutoCorrectSelfAttestedCredential indexes `credentialSubject[0]` only under `len(credentialSubject) == 1` -/
  subjLenExact : Bool
  /-- FilterOnDIDMethod returns its input when no DID methods are given -/
  emptyMethodsPass : Bool
  deriving Repr, DecidableEq

def Cfg.fixed : Cfg := ⟨true, true, true, true⟩

/-! ### PresentationIssuanceDate / PresentationExpirationDate -/

structure Dates where
  /-- jwt.NotBefore(), jwt.IssuedAt(), jwt.Expiration(): none = zero time (claim absent) -/
  nbf : Option String
  iat : Option String
  exp : Option String
  /-- proofs[0].Created: none = zero time -/
  created : Option String
  /-- proofs[0].Expires: none = nil pointer; some none = pointer to the zero time -/
  expires : Option (Option String)
  deriving Repr, DecidableEq

/-- util.go PresentationIssuanceDate: `ok none` = nil -/
def issuanceDate (cc : Cred.Cfg) (vp : VP) (d : Dates) : Res (Option String) :=
  match vp.format with
  | .jwt => match d.nbf with
    | some t => .ok (some t)
    | none => .ok d.iat
  | .ldp =>
    match parseLDProof cc vp with
    | .err _ => .ok none
    | .panic s => .panic s
    | .ok _ => .ok d.created
  | .other => .ok none

/-- util.go PresentationExpirationDate -/
def expirationDate (c : Cfg) (cc : Cred.Cfg) (vp : VP) (d : Dates) : Res (Option String) :=
  match vp.format with
  | .jwt => .ok d.exp
  | .ldp =>
    match parseLDProof cc vp with
    | .err _ => .ok none
    | .panic s => .panic s
    | .ok _ =>
      match d.expires with
      | none => if c.expiresNilChecked then .ok none else .panic "PresentationExpirationDate:*ldProof.Expires"
      | some t => .ok t
  | .other => .ok none

/-! ### AutoCorrectSelfAttestedCredential -/

structure ACIn where
  /-- len(credential.Proof) -/
  nProof : Nat
  idNil : Bool
  issuerEmpty : Bool
  issuanceZero : Bool
  /-- `credentialSubject` after `_ = credential.UnmarshalCredentialSubject(&credentialSubject)` (the error is discarded: a scalar subject
      leaves a nil map in the slice): none = nil map, some b = a map, b = it has an "id" member -/
  subj : List (Option Bool)
  /-- len(credential.CredentialSubject) -/
  nCS : Nat
  deriving Repr, DecidableEq

/-- which members the function filled in -/
structure ACOut where
  setId : Bool
  setIssuer : Bool
  setDate : Bool
  setSubjectId : Bool
  deriving Repr, DecidableEq

def ACOut.untouched : ACOut := ⟨false, false, false, false⟩

/-- the `credentialSubject[0]` block: `s` = credentialSubject[0] -/
def acSubject (c : Cfg) (i : ACIn) (o : ACOut) (s : Option Bool) : Res ACOut :=
  let hasId : Res Bool := match s with
    | some b => .ok b
    | none => if c.nilMapGuard then .ok false else .panic "AutoCorrectSelfAttestedCredential:credentialSubject[0][id]=nil-map"
  match hasId with
  | .panic p => .panic p
  | .err e => .err e
  | .ok true => .ok o
  | .ok false =>
    if i.nCS == 0 then .panic "AutoCorrectSelfAttestedCredential:credential.CredentialSubject[0]"
    else .ok { o with setSubjectId := true }

/-- util.go AutoCorrectSelfAttestedCredential -/
def autoCorrect (c : Cfg) (i : ACIn) : Res ACOut :=
  if i.nProof > 0 then .ok ACOut.untouched else
  let o : ACOut := ⟨i.idNil, i.issuerEmpty, i.issuanceZero, false⟩
  if c.subjLenExact then
    match i.subj with
    | [s] => acSubject c i o s
    | _ => .ok o
  else
    match i.subj with
    | [] => .panic "AutoCorrectSelfAttestedCredential:credentialSubject[0]"
    | s :: _ => acSubject c i o s

/-! ### FilterOnDIDMethod -/

structure FSubj where
  /-- b.ID == "" -/
  idEmpty : Bool
  /-- did.ParseDID(b.ID): none = error, some m = the method -/
  method : Option String
  deriving Repr, DecidableEq

structure FCred where
  /-- did.ParseDID(credential.Issuer.String()): none = error -/
  issuer : Option String
  /-- credential.UnmarshalCredentialSubject(&bl) succeeded -/
  subjOk : Bool
  subjects : List FSubj
  deriving Repr, DecidableEq

/-- the inner loop `for _, b := range bl`: false = `continue outer` -/
def subjectsPass (ms : List String) : List FSubj → Bool
  | [] => true
  | b :: rest =>
    if !b.idEmpty then
      match b.method with
      | some m => if !ms.contains m then false else subjectsPass ms rest
      | none => subjectsPass ms rest
    else subjectsPass ms rest

/-- one iteration of the outer loop: is the credential appended to `result` -/
def keep (ms : List String) (cr : FCred) : Bool :=
  match cr.issuer with
  | some m => if !ms.contains m then false else (if !cr.subjOk then false else subjectsPass ms cr.subjects)
  | none => if !cr.subjOk then false else subjectsPass ms cr.subjects

/-- the outer loop; the result is the list of positions of the credentials that are kept -/
def filterFrom (ms : List String) : Nat → List FCred → List Nat
  | _, [] => []
  | i, cr :: rest => if keep ms cr then i :: filterFrom ms (i + 1) rest else filterFrom ms (i + 1) rest

/-- util.go FilterOnDIDMethod -/
def filterOnDIDMethod (c : Cfg) (ms : List String) (creds : List FCred) : List Nat :=
  if c.emptyMethodsPass && ms.isEmpty then List.range creds.length else filterFrom ms 0 creds

def sites : List (String × String) :=
  [ ("deref:PresentationExpirationDate:*ldProof.Expires", "PresentationExpirationDate:*ldProof.Expires"),
    ("indexw:AutoCorrectSelfAttestedCredential:nil-map", "AutoCorrectSelfAttestedCredential:credentialSubject[0][id]=nil-map"),
    ("indexw:AutoCorrectSelfAttestedCredential:CredentialSubject[0]", "AutoCorrectSelfAttestedCredential:credential.CredentialSubject[0]"),
    ("index:AutoCorrectSelfAttestedCredential:credentialSubject[0]", "AutoCorrectSelfAttestedCredential:credentialSubject[0]") ]

end Nuts.C19.CredMore
