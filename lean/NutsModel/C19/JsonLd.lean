/-
  C19 — the panic guard around the third-party JSON-LD processor (json-gold), jsonld/ldutils.go LDUtil.Canonicalize,
  jsonld/reader.go Reader.ReadBytes, jsonld/jsonld.go AllFieldsDefined.  json-gold panics on some parseable documents (a scalar
  where the context defines a @graph container, a number where it expects a string); the documents come from peers and API
  clients and Canonicalize runs BEFORE a signature is checked.  What the processor does with a document is DATA (observed by the
  harness on the processor itself); the model is the Go defer/recover mechanics: recover() stops a panic only when it is called
  in the frame of the deferred function itself.
-/
import NutsModel.Base
namespace Nuts.C19.JsonLd
open Nuts

/-- what a function's deferred calls do with a panic of its body -/
inductive Guard where
  /-- a deferred function calls recover() in its own frame -/
  | direct
  /-- recover() is called one frame deeper (deferred closure → helper → recover()): returns nil, the panic goes on -/
  | nested
  | absent
  deriving Repr, DecidableEq

/-- one `defer` statement as the extractor prints it (see extract/c19.go c19JsonldRecover): (kind, names) -/
def guardOfForm (recoverers : List String) (form : String × List String) : Guard :=
  if form.1 == "closure:self" then .direct
  else if form.1 == "ident" then (if form.2.any recoverers.contains then .direct else .absent)
  else if form.1 == "closure:calls" then (if form.2.any recoverers.contains then .nested else .absent)
  else .absent

/-- a function is guarded when ONE of its defers recovers directly -/
def guardOf (recoverers : List String) (forms : List (String × List String)) : Guard :=
  let gs := forms.map (guardOfForm recoverers)
  if gs.contains .direct then .direct else if gs.contains .nested then .nested else .absent

/-- what json-gold does with the document -/
inductive Proc where
  | ok | err | panic
  deriving Repr, DecidableEq

structure In where
  /-- the document (re-)parses as a JSON object (json.Unmarshal into map[string]interface{} / ld.DocumentFromReader) -/
  jsonOk : Bool
  proc : Proc
  deriving Repr, DecidableEq

/-- the body of Canonicalize / ReadBytes / AllFieldsDefined, then Go's panic propagation through the function's defers.
    `ok` = a result is returned; every error is an `err`; `site` names the function. -/
def guarded (g : Guard) (site : String) (i : In) : Res Unit :=
  if !i.jsonOk then .err "json" else
  match i.proc with
  | .ok => .ok ()
  | .err => .err "processor"
  | .panic =>
    match g with
    | .direct => .err "invalid-document"
    | _ => .panic site

structure Cfg where
  canonicalize : Guard
  readBytes : Guard
  allFieldsDefined : Guard
  /-- no OTHER function of package jsonld runs the processor -/
  noOtherCaller : Bool
  deriving Repr, DecidableEq

def Cfg.fixed : Cfg := ⟨.direct, .direct, .direct, true⟩

def canonicalize (c : Cfg) (i : In) : Res Unit := guarded c.canonicalize "Canonicalize>ld" i
def readBytes (c : Cfg) (i : In) : Res Unit := guarded c.readBytes "ReadBytes>ld" i
def allFieldsDefined (c : Cfg) (i : In) : Res Unit := guarded c.allFieldsDefined "AllFieldsDefined>ld" i

def sites : List (String × String) :=
  [ ("defer:Canonicalize", "Canonicalize>ld"), ("defer:ReadBytes", "ReadBytes>ld"), ("defer:AllFieldsDefined", "AllFieldsDefined>ld") ]

end Nuts.C19.JsonLd
