/-
  C06 — how the node MAKES a transaction: network/dag/transaction.go `NewTransaction` (payload type, empty prevs, de-duplication),
  network/dag/signing.go `transactionSigner.Sign` (pre-checks, the protected header it builds, then `ParseTransaction` of what was
  signed).  The JWS signature itself is outside (crypto); the header is what `Sign` puts into `headerMap`, presented as jwx
  presents it after parsing.  Core Lean only.
-/
import NutsModel.C06.Admit

namespace Nuts.C06.Create

/-- `currentVersion` -/
def currentVersion : Int := 2

/-- `type transaction struct` as `NewTransaction` fills it (unsigned) -/
structure Unsigned where
  payload : Nat
  payloadType : String
  prevs : List Nat             -- `nil` when empty (`if len(deduplicated) > 0`)
  pal : Option (List String)   -- `nil` / base64 of the encrypted PAL entries
  clock : Nat
  version : Int
  deriving DecidableEq, Repr

/-- `NewTransaction` -/
def newTransaction (payload : Nat) (payloadType : String) (prevs : List Nat) (pal : Option (List String)) (lamportClock : Nat) : Res Unsigned :=
  if !containsSlash payloadType then .err "invalid-payload-type"     -- `!ValidatePayloadType(payloadType)`
  else if prevs.any (fun p => p = 0) then .err "invalid-prevs"        -- `prev.Empty()`
  else .ok { payload := payload, payloadType := payloadType, version := currentVersion, pal := pal, clock := lamportClock,
             prevs := dedup prevs [] }

/-- `jws.CriticalKey: []string{signingTimeHeader, versionHeader, previousHeader, lamportClockHeader}` -/
def critHeaders : List String := ["sigt", "ver", "prevs", "lc"]

/-- the two sanity checks at the top of `Sign` (`zero` = `signingTime.IsZero()`, `signed` = the input is a Transaction with a signing time) -/
def signPrecheck (zero signed : Bool) : Res Unit :=
  if zero then .err "signing-time-zero" else if signed then .err "already-signed" else .ok ()

def hexChar (d : Nat) : Char := if d < 10 then Char.ofNat (48 + d) else Char.ofNat (87 + d)

/-- the `k` low-order hex digits of `n`, most significant first -/
def hexDigits : Nat → Nat → List Char
  | 0, _ => []
  | k + 1, n => hexDigits k (n / 16) ++ [hexChar (n % 16)]

/-- `hash.SHA256Hash.String()` -/
def hex64 (n : Nat) : String := String.ofList (hexDigits 64 n)

/-- who signs: the public key is embedded (`jwk`), or the key id is named (`kid`) -/
inductive KeyRef where
  | jwk
  | kid (id : String)
  deriving DecidableEq, Repr

/-- the header `Sign` builds (`headerMap`) and jwx hands back after parsing: `cty`, `crit`, `sigt` (Unix seconds), `prevs` (hex),
    `ver`, `lc`, `pal` only when non-nil, `jwk` or `kid`; the JWS payload is the hex payload hash; `alg` is chosen by the signer -/
def signHdr (u : Unsigned) (sigt : Int) (alg : String) (key : KeyRef) (ref : Nat) (framingStrict : Bool) : Hdr :=
  { nSigs := 1, alg := alg, cty := u.payloadType,
    hasJwk := (match key with | .jwk => true | .kid _ => false),
    jwkPrivate := false,
    kid := (match key with | .jwk => none | .kid id => some id),
    priv := [("sigt", .num sigt 0), ("prevs", .arr (u.prevs.map fun p => El.str (hex64 p))), ("ver", .num u.version 0), ("lc", .num u.clock 0)] ++
            (match u.pal with | none => [] | some l => [("pal", .arr (l.map El.str))]),
    payload := hex64 u.payload, ref := ref, framingStrict := framingStrict }

end Nuts.C06.Create
