/-
  C06 — admission of transactions into the DAG.
  Mirrors network/dag/parser.go (ParseTransaction and its step pipeline), verifier.go, keys.go,
  state.go:Add (two phases), dag.go:add/addSingle, payloadstore.go, notifier.go:Save/Notify (first delivery),
  network.go:CreateTransaction/calculateLamportClock.
  Core Lean only. Hashes, signatures, base64, DID resolution are parameters (`Env`) — never axioms.
-/
import NutsModel.Base

namespace Nuts.C06

/-! ## decoded JSON values (what `encoding/json` hands to the parser) -/

/-- element of a JSON array, one level deep: the parser only distinguishes strings from everything else
    (`prevAsInterf.(string)`; `fmt.Sprintf("%s", curr)` of a non-string is never valid base64). -/
inductive El where
  | str (s : String)
  | null
  | other
  deriving DecidableEq, Repr

/-- a decoded header member. `num m e` is the float64 value `m · 2^e` Go decoded (exact). -/
inductive J where
  | null
  | bool (b : Bool)
  | num (m : Int) (e : Int)
  | str (s : String)
  | arr (l : List El)
  | obj
  deriving DecidableEq, Repr

/-! ## Go float64 → integer conversions (Go spec: out of range is implementation-defined; this is amd64) -/

/-- truncation toward zero of `m · 2^e` -/
def truncZ (m e : Int) : Int :=
  if e ≥ 0 then m * (2 : Int) ^ e.toNat else Int.tdiv m ((2 : Int) ^ (-e).toNat)

def isIntegral (m e : Int) : Bool :=
  if e ≥ 0 then true else m % ((2 : Int) ^ (-e).toNat) == 0

/-- `int64(f)` on amd64 (CVTTSD2SQ): out-of-range gives the "integer indefinite" value −2^63 -/
def toInt64 (m e : Int) : Int :=
  let t := truncZ m e
  if -(2 : Int) ^ 63 ≤ t ∧ t < (2 : Int) ^ 63 then t else -(2 : Int) ^ 63

/-- `uint32(f)` on amd64: convert to int64, keep the low 32 bits -/
def toUint32 (m e : Int) : Nat := ((toInt64 m e) % ((2 : Int) ^ 32)).toNat

/-! ## hex refs (`hash.ParseHex`) -/

def hexDigit? (c : Char) : Option Nat :=
  if '0' ≤ c ∧ c ≤ '9' then some (c.toNat - '0'.toNat)
  else if 'a' ≤ c ∧ c ≤ 'f' then some (c.toNat - 'a'.toNat + 10)
  else if 'A' ≤ c ∧ c ≤ 'F' then some (c.toNat - 'A'.toNat + 10)
  else none

def hexVal? : List Char → Nat → Option Nat
  | [], acc => some acc
  | c :: cs, acc => match hexDigit? c with
    | some d => hexVal? cs (acc * 16 + d)
    | none => none

/-- `hash.ParseHex`: "" is the empty hash (no error!), otherwise exactly 64 hex digits of either case -/
def parseHex (s : String) : Option Nat :=
  if s.isEmpty then some 0
  else if s.length ≠ 64 then none
  else hexVal? s.toList 0

/-! ## what jwx presents after `jws.Parse` succeeded -/

structure Hdr where
  nSigs : Nat
  alg : String            -- `headers.Algorithm()`, "" when absent
  cty : String            -- `headers.ContentType()`, "" when absent
  hasJwk : Bool
  jwkPrivate : Bool := false   -- the embedded JWK carries private / symmetric key material (supplied)
  kid : Option String     -- `headers.Get("kid")`
  priv : List (String × J)   -- private members in document order (duplicates kept)
  payload : String        -- `message.Payload()` as text
  ref : Nat               -- SHA-256 of the input bytes (supplied)
  framingStrict : Bool := true   -- the bytes are the JSON serialization or exactly three canonical unpadded base64url segments (supplied)
  deriving Repr

/-- jwx stores private members in a map: the last occurrence wins -/
def getLast (l : List (String × J)) (k : String) : Option J :=
  match l with
  | [] => none
  | (k', v) :: t => match getLast t k with
    | some w => some w
    | none => if k' = k then some v else none

def Hdr.get (h : Hdr) (k : String) : Option J := getLast h.priv k

/-- parsed transaction (`type transaction struct`) -/
structure Tx where
  ref : Nat
  alg : String
  payloadHash : Nat
  cty : String
  jwk : Bool
  kid : String
  sigt : Int
  ver : Int
  prevs : List Nat
  pal : List String
  clock : Nat
  deriving DecidableEq, Repr

/-- configuration read from the source (regenerated facts) -/
structure Cfg where
  allowedAlgos : List String
  allowedVersion : List Int
  lcStrict : Bool     -- parseLamportClock rejects non-integral / out-of-range values
  jwkPublicOnly : Bool := true   -- parseSignatureParams refuses an embedded private or symmetric key
  strictFraming : Bool := true   -- ParseTransaction refuses what jws.Parse tolerates beyond RFC 7515 framing
  sigtH : String := "sigt"
  verH : String := "ver"
  prevsH : String := "prevs"
  palH : String := "pal"
  lcH : String := "lc"

def containsSlash (s : String) : Bool := s.toList.contains '/'

/-! ### the parse steps, in the Go order -/

def parseSigningAlgorithm (cfg : Cfg) (h : Hdr) : Res Unit :=
  if cfg.allowedAlgos.contains h.alg then .ok () else .err "alg"

def parsePayload (h : Hdr) : Res Nat :=
  match parseHex h.payload with
  | some p => .ok p
  | none => .err "payload"

def parseContentType (h : Hdr) : Res String :=
  if containsSlash h.cty then .ok h.cty else .err "cty"

/-- returns the key id ("" when absent). `key.(jwk.Key)` / `kid.(string)` cannot fail: jwx typed these members -/
def parseSignatureParams (cfg : Cfg) (h : Hdr) : Res String :=
  let kid := h.kid.getD ""
  if cfg.jwkPublicOnly && h.hasJwk && h.jwkPrivate then .err "jwk-private"
  else if (h.hasJwk && kid != "") || (!h.hasJwk && kid == "") then .err "kid-jwk" else .ok kid

def parseSigningTime (cfg : Cfg) (h : Hdr) : Res Int :=
  match h.get cfg.sigtH with
  | none => .err ("missing:" ++ cfg.sigtH)
  | some (.num m e) => .ok (toInt64 m e)
  | some _ => .err ("invalid:" ++ cfg.sigtH)

def parseVersion (cfg : Cfg) (h : Hdr) : Res Int :=
  match h.get cfg.verH with
  | none => .err ("missing:" ++ cfg.verH)
  | some (.num m e) =>
    let v := toInt64 m e
    if cfg.allowedVersion.contains v then .ok v else .err "version"
  | some _ => .err ("invalid:" ++ cfg.verH)

def parsePrevEls (hn : String) : List El → Res (List Nat)
  | [] => .ok []
  | .other :: _ => .err ("invalid:" ++ hn)
  | .null :: _ => .err ("invalid:" ++ hn)
  | .str s :: t =>
    match parseHex s with
    | none => .err ("invalid:" ++ hn)
    | some r => match parsePrevEls hn t with
      | .ok l => .ok (r :: l)
      | .err e => .err e
      | .panic p => .panic p

def parsePrevious (cfg : Cfg) (h : Hdr) : Res (List Nat) :=
  match h.get cfg.prevsH with
  | none => .err ("missing:" ++ cfg.prevsH)
  | some (.arr l) => parsePrevEls cfg.prevsH l
  | some _ => .err ("invalid:" ++ cfg.prevsH)

def parsePalEls (b64 : String → Bool) (hn : String) : List El → Res (List String)
  | [] => .ok []
  | .other :: _ => .err ("invalid:" ++ hn)
  | .null :: _ => .err ("invalid:" ++ hn)
  | .str s :: t =>
    if b64 s then
      match parsePalEls b64 hn t with
      | .ok l => .ok (s :: l)
      | .err e => .err e
      | .panic p => .panic p
    else .err ("invalid:" ++ hn)

def parsePAL (cfg : Cfg) (b64 : String → Bool) (h : Hdr) : Res (List String) :=
  match h.get cfg.palH with
  | none => .ok []
  | some (.arr l) => parsePalEls b64 cfg.palH l
  | some _ => .err ("invalid:" ++ cfg.palH)

def parseLamportClock (cfg : Cfg) (h : Hdr) : Res Nat :=
  match h.get cfg.lcH with
  | none => .err ("missing:" ++ cfg.lcH)
  | some (.num m e) =>
    if cfg.lcStrict then
      if isIntegral m e && decide (0 ≤ truncZ m e) && decide (truncZ m e < (2 : Int) ^ 32) then .ok (truncZ m e).toNat
      else .err ("invalid:" ++ cfg.lcH)
    else .ok (toUint32 m e)
  | some _ => .err ("invalid:" ++ cfg.lcH)

/-- `ParseTransaction` after `jws.Parse` succeeded -/
def parse (cfg : Cfg) (b64 : String → Bool) (h : Hdr) : Res Tx :=
  if cfg.strictFraming && !h.framingStrict then .err "parse"
  else if h.nSigs = 0 then .err "no-signature"
  else if h.nSigs > 1 then .err "multiple-signatures"
  else do
    parseSigningAlgorithm cfg h
    let payload ← parsePayload h
    let cty ← parseContentType h
    let kid ← parseSignatureParams cfg h
    let sigt ← parseSigningTime cfg h
    let ver ← parseVersion cfg h
    let prevs ← parsePrevious cfg h
    let pal ← parsePAL cfg b64 h
    let lc ← parseLamportClock cfg h
    pure { ref := h.ref, alg := h.alg, payloadHash := payload, cty := cty, jwk := h.hasJwk, kid := kid,
           sigt := sigt, ver := ver, prevs := prevs, pal := pal, clock := lc }

/-! ## the jwx typed-member contract (written down; exercised by the parser differential) -/

def jwxStringMembers : List String := ["cty", "kid", "typ", "jku", "x5t", "x5t#S256", "x5u"]

structure Raw where
  alg : String := ""
  cty : String := ""
  hasJwk : Bool := false
  kid : Option String := none
  priv : List (String × J) := []

/-- one member of the protected header, as `stdHeaders.UnmarshalJSON` treats it (`encoding/json` decodes `null`
    into a string as ""). `jwkOK` = verdict of `jwk.ParseKey` on the member (supplied). -/
def jwxMember (jwkOK : Bool) (r : Raw) (k : String) (v : J) : Res Raw :=
  if k = "alg" then
    match v with
    | .str s => .ok { r with alg := s }      -- any string: the algorithm name is not checked by jws.Parse
    | .null => .ok { r with alg := "" }
    | _ => .err "parse"
  else if k = "cty" then
    match v with
    | .str s => .ok { r with cty := s }
    | .null => .ok { r with cty := "" }
    | _ => .err "parse"
  else if k = "kid" then
    match v with
    | .str s => .ok { r with kid := some s }
    | .null => .ok { r with kid := some "" }
    | _ => .err "parse"
  else if k = "jwk" then
    if jwkOK then .ok { r with hasJwk := true } else .err "parse"
  else if k = "crit" then
    match v with
    | .null => .ok r
    | .arr l => if l.all (fun e => e != .other) then .ok r else .err "parse"
    | _ => .err "parse"
  else if jwxStringMembers.contains k then
    match v with
    | .str _ => .ok r
    | .null => .ok r
    | _ => .err "parse"
  else .ok { r with priv := r.priv ++ [(k, v)] }

def jwxMembers (jwkOK : Bool) : Raw → List (String × J) → Res Raw
  | r, [] => .ok r
  | r, (k, v) :: t =>
    match jwxMember jwkOK r k v with
    | .ok r' => jwxMembers jwkOK r' t
    | .err e => .err e
    | .panic p => .panic p

/-- names jwx decodes into typed fields; every other member is a private parameter -/
def isPrivName (k : String) : Bool :=
  !(k = "alg" || k = "cty" || k = "kid" || k = "jwk" || k = "crit" || jwxStringMembers.contains k)

/-- the header jwx presents for a protected header with the given members (document order, duplicates kept) -/
def hdrOfMembers (nSigs : Nat) (members : List (String × J)) (jwkOK jwkPrivate : Bool) (payload : String) (ref : Nat)
    (framingStrict : Bool := true) : Res Hdr :=
  match jwxMembers jwkOK {} members with
  | .ok r => .ok { nSigs := nSigs, alg := r.alg, cty := r.cty, hasJwk := r.hasJwk, jwkPrivate := jwkPrivate, kid := r.kid,
                   priv := r.priv, payload := payload, ref := ref, framingStrict := framingStrict }
  | .err e => .err e
  | .panic p => .panic p

/-! ## key resolution (keys.go) and verification (verifier.go) -/

inductive DocRes where
  | notFound              -- resolver.ErrNotFound (exactly)
  | otherErr              -- any other error (deactivated, wrapped not-found, …)
  | doc (vms : List (String × Nat))   -- verification method id ↦ key
  deriving Repr

/-! ### `jwx.AlgorithmFitsKey` (crypto/jwx/algorithm.go): the guard in front of `jws.Verify` -/

/-- what the type switch of `AlgorithmFitsKey` distinguishes in the key it is handed -/
inductive KeyShape where
  | ec (curve : String)              -- *ecdsa.PublicKey, ecdsa.PublicKey, *ecdsa.PrivateKey, jwk.ECDSAPublicKey, jwk.ECDSAPrivateKey
  | ed (len : Nat)                   -- ed25519.PublicKey, non-nil *ed25519.PublicKey: length of the key
  | edNil                            -- nil *ed25519.PublicKey
  | okp (crv : String) (xlen : Nat)  -- jwk.OKPPublicKey
  | other                            -- every other Go type, nil included (the `default` clause)
  deriving DecidableEq, Repr

/-- the curve switch: curve name ↦ the one algorithm that fits it (RFC 7518 §3.4); regenerated, see `fact_alg_fits_key` -/
def ecAlgOfCurve : List (String × String) := [("P-256", "ES256"), ("P-384", "ES384"), ("P-521", "ES512")]

def algorithmFitsCurve (alg curve : String) : Bool :=
  match ecAlgOfCurve.find? (fun p => p.1 = curve) with
  | some p => alg = p.2
  | none => true                     -- `default: return true`

def ed25519PublicKeySize : Nat := 32

def algorithmFitsKey (alg : String) : KeyShape → Bool
  | .ed n => alg = "EdDSA" && n = ed25519PublicKeySize
  | .edNil => false
  | .okp crv n => if crv = "Ed25519" then alg = "EdDSA" && n = ed25519PublicKeySize else true
  | .ec c => algorithmFitsCurve alg c
  | .other => true

/-- everything outside the model, supplied as data / parameters -/
structure Env where
  sha : Nat → Nat                         -- SHA-256 of a payload (payloads are identified by a number)
  sigJwk : Tx → Bool                      -- `jws.Verify` against the embedded key (ANY verdict: jwx only checks the algorithm FAMILY)
  sigKey : Tx → Nat → Bool                -- `jws.Verify` against key `k`
  jwkShape : Tx → KeyShape := fun _ => .other   -- Go type / curve of `transaction.SigningKey().Raw()`
  keyShape : Nat → KeyShape := fun _ => .other  -- Go type / curve of resolved key `k`
  kidDid : String → Option String         -- `did.ParseDIDURL` + `GetDIDFromURL` (none = invalid kid)
  resolve : String → Nat → DocRes         -- DID document as of source transaction `ref`

/-- `resolvePublicKey` for one source transaction -/
def resolveAt (env : Env) (kid : String) (src : Nat) : Res (Option Nat) :=
  match env.kidDid kid with
  | none => .err "kid-invalid"
  | some d =>
    match env.resolve d src with
    | .notFound => .ok none
    | .otherErr => .err "resolve"
    | .doc vms =>
      match vms.find? (fun p => p.1 = kid) with
      | none => .err "key-not-found"
      | some p => .ok (some p.2)

/-- `SourceTXKeyResolver.ResolvePublicKey`: first source transaction that yields a document decides -/
def resolveKey (env : Env) (kid : String) : List Nat → Res Nat
  | [] => .err "did-not-found"
  | h :: t =>
    match resolveAt env kid h with
    | .ok (some k) => .ok k
    | .ok none => resolveKey env kid t
    | .err e => .err e
    | .panic p => .panic p

/-- `NewTransactionSignatureVerifier`: `signingKey` := the embedded key, else the resolved key; then `AlgorithmFitsKey` ON THAT
    KEY; then `jws.Verify` with it -/
def verifySig (env : Env) (tx : Tx) : Res Unit :=
  if tx.jwk then
    if !algorithmFitsKey tx.alg (env.jwkShape tx) then .err "signature"
    else if env.sigJwk tx then .ok () else .err "signature"
  else
    match resolveKey env tx.kid tx.prevs with
    | .ok k =>
      if !algorithmFitsKey tx.alg (env.keyShape k) then .err "signature"
      else if env.sigKey tx k then .ok () else .err "signature"
    | .err e => .err e
    | .panic p => .panic p

/-- the verifier with the guard moved to the top, applied to `transaction.SigningKey()` (nil for a kid-referenced key: the
    `default` clause). NOT the code: kept to show (Props: `fit_guard_must_see_the_resolved_key`) that the position matters. -/
def verifySigGuardFirst (env : Env) (tx : Tx) : Res Unit :=
  if !algorithmFitsKey tx.alg (if tx.jwk then env.jwkShape tx else .other) then .err "signature"
  else if tx.jwk then
    if env.sigJwk tx then .ok () else .err "signature"
  else
    match resolveKey env tx.kid tx.prevs with
    | .ok k => if env.sigKey tx k then .ok () else .err "signature"
    | .err e => .err e
    | .panic p => .panic p

/-! ## state -/

inductive EvType where
  | tx | payload
  deriving DecidableEq, Repr

inductive Outcome where
  | finished    -- receiver returns (true, nil)
  | fatal       -- receiver returns EventFatal: job stays on the shelf, marked failed
  deriving DecidableEq, Repr

/-- a registered notifier -/
structure Sub where
  name : String
  persistent : Bool
  wantTx : Bool
  wantPayload : Bool
  palOnly : Bool
  outcome : Outcome
  deriving DecidableEq, Repr

structure Job where
  sub : String
  ref : Nat
  typ : EvType
  failed : Bool
  deriving DecidableEq, Repr

structure Ev where
  sub : String
  typ : EvType
  ref : Nat
  deriving DecidableEq, Repr

structure St where
  txs : List Tx := []                 -- documents shelf (+ clocks shelf: derived), newest first
  payloads : List (Nat × Nat) := []   -- payloads shelf: hash ↦ payload
  count : Nat := 0                    -- metadata tx_num
  lcHigh : Nat := 0                   -- metadata lc_high
  lcAtomic : Nat := 0                 -- state.lamportClockHigh (volatile copy, `updateState`)
  head : Nat := 0                     -- metadata head_ref (0 = empty hash)
  xor : Nat := 0                      -- root of the XOR tree
  jobs : List Job := []               -- job shelves of persistent notifiers
  ledger : List Ev := []              -- receiver calls made so far, oldest first
  deriving DecidableEq, Repr

def findTx (l : List Tx) (r : Nat) : Option Tx := l.find? (fun t => t.ref = r)
def refsOf (l : List Tx) : List Nat := l.map (·.ref)

def St.find (s : St) (r : Nat) : Option Tx := findTx s.txs r
def St.present (s : St) (r : Nat) : Bool := (s.find r).isSome

/-- `NewPrevTransactionsVerifier`: loop over prevs (over the documents shelf `l`) -/
def highest (l : List Tx) : List Nat → Int → Res Int
  | [], h => .ok h
  | p :: ps, h =>
    match findTx l p with
    | none => .err "prev-missing"
    | some t => highest l ps (if (t.clock : Int) ≥ h then (t.clock : Int) else h)

def verifyPrevs (l : List Tx) (tx : Tx) : Res Unit :=
  match highest l tx.prevs (-1) with
  | .ok h => if (tx.clock : Int) ≠ h + 1 then .err "clock" else .ok ()
  | .err e => .err e
  | .panic p => .panic p

/-- `state.verifyTX`: prevs verifier, then signature verifier (order in network.go) -/
def verify (env : Env) (s : St) (tx : Tx) : Res Unit :=
  match verifyPrevs s.txs tx with
  | .ok _ => verifySig env tx
  | .err e => .err e
  | .panic p => .panic p

/-! ### notifiers (notifier.go: Save in the write tx, Notify after commit; first delivery only) -/

def Sub.accepts (sub : Sub) (typ : EvType) (tx : Tx) : Bool :=
  (match typ with | .tx => sub.wantTx | .payload => sub.wantPayload) && (!sub.palOnly || !tx.pal.isEmpty)

def hasJob (jobs : List Job) (sub : String) (ref : Nat) : Bool := jobs.any (fun j => j.sub = sub ∧ j.ref = ref)

/-- `notifier.Save` -/
def saveOne (typ : EvType) (tx : Tx) (jobs : List Job) (sub : Sub) : List Job :=
  if !sub.persistent then jobs
  else if !sub.accepts typ tx then jobs
  else if hasJob jobs sub.name tx.ref then jobs     -- "only schedule new events": the key is the ref alone
  else jobs ++ [{ sub := sub.name, ref := tx.ref, typ := typ, failed := false }]

def saveEvent (subs : List Sub) (typ : EvType) (tx : Tx) (jobs : List Job) : List Job :=
  subs.foldl (saveOne typ tx) jobs

/-- `notifier.Notify` → `notifyNow` (first call; retries are timers and not modelled) -/
def notifyOne (typ : EvType) (tx : Tx) (jl : List Job × List Ev) (sub : Sub) : List Job × List Ev :=
  if !sub.accepts typ tx then jl
  else if sub.persistent then
    match jl.1.find? (fun j => j.sub = sub.name ∧ j.ref = tx.ref) with
    | none => jl                       -- "no longer exists so done"
    | some j =>
      let led := jl.2 ++ [{ sub := sub.name, typ := j.typ, ref := tx.ref }]   -- receiver gets the STORED event
      match sub.outcome with
      | .finished => (jl.1.filter (fun j' => !(j'.sub = sub.name ∧ j'.ref = tx.ref)), led)
      | .fatal => (jl.1.map (fun j' => if j'.sub = sub.name ∧ j'.ref = tx.ref then { j' with failed := true } else j'), led)
  else (jl.1, jl.2 ++ [{ sub := sub.name, typ := typ, ref := tx.ref }])

def notify (subs : List Sub) (typ : EvType) (tx : Tx) (jl : List Job × List Ev) : List Job × List Ev :=
  subs.foldl (notifyOne typ tx) jl

/-! ### state.Add -/

inductive P1 where
  | present
  | rejected (e : String)
  | panicked (e : String)
  | verified
  deriving DecidableEq, Repr

/-- phase 1: the read transaction -/
def phase1 (env : Env) (s : St) (tx : Tx) : P1 :=
  if s.present tx.ref then .present
  else match verify env s tx with
    | .ok _ => .verified
    | .err e => .rejected e
    | .panic p => .panicked p

def hasRoot (l : List Tx) : Bool := l.any (fun t => t.clock = 0)

/-- `dag.add` for one transaction (addSingle + metadata), on the working copy of the write tx -/
def graphAdd (w : St) (tx : Tx) : Res St :=
  if tx.prevs.isEmpty && hasRoot w.txs then .err "root-exists"
  else
    let newHead := tx.clock > w.lcHigh || tx.clock = 0
    .ok { w with txs := tx :: w.txs,
                 lcHigh := if newHead then tx.clock else w.lcHigh,
                 head := if newHead then tx.ref else w.head,
                 count := w.count + 1 }

/-- `payloadStore.writePayload` (a Put: replaces) -/
def putPayload (pls : List (Nat × Nat)) (h : Nat) : Option Nat → List (Nat × Nat)
  | none => pls
  | some p => (h, p) :: pls.filter (fun q => q.1 ≠ h)

/-- first part of the closure passed to `db.Write` (after the presence re-check): payload hash check,
    `writePayload`, `saveEvent(payloadEvent)` -/
def writePayloadStep (env : Env) (subs : List Sub) (s : St) (tx : Tx) (payload : Option Nat) : Res St :=
  match payload with
  | none => .ok s
  | some p =>
    if env.sha p ≠ tx.payloadHash then .err "payload-hash"
    else .ok { s with payloads := putPayload s.payloads tx.payloadHash (some p),
                      jobs := saveEvent subs .payload tx s.jobs }

/-- last part: `saveEvent(txEvent)`, `updateState` (XOR/IBLT trees, atomic clock copy) -/
def finishWrite (subs : List Sub) (w : St) (tx : Tx) : St :=
  { w with jobs := saveEvent subs .tx tx w.jobs, xor := w.xor ^^^ tx.ref,
           lcAtomic := if w.lcAtomic ≥ tx.clock then w.lcAtomic else tx.clock }

/-- the closure passed to `db.Write`, after the presence re-check; `.err` = rollback of the working copy -/
def writeBody (env : Env) (subs : List Sub) (s : St) (tx : Tx) (payload : Option Nat) : Res St :=
  match writePayloadStep env subs s tx payload with
  | .ok w =>
    match graphAdd w tx with
    | .ok w2 => .ok (finishWrite subs w2 tx)
    | .err e => .err e
    | .panic p => .panic p
  | .err e => .err e
  | .panic p => .panic p

/-- AfterCommit hooks -/
def afterCommit (subs : List Sub) (w : St) (tx : Tx) (payload : Option Nat) : St :=
  let jl := notify subs .tx tx (w.jobs, w.ledger)
  let jl := if payload.isSome then notify subs .payload tx jl else jl
  { w with jobs := jl.1, ledger := jl.2 }

/-- phase 2: the write transaction under the write lock -/
def phase2 (env : Env) (subs : List Sub) (s : St) (tx : Tx) (payload : Option Nat) : St × Res Unit :=
  if s.present tx.ref then (s, .ok ())
  else match writeBody env subs s tx payload with
    | .ok w => (afterCommit subs w tx payload, .ok ())
    | .err e => (s, .err e)          -- rollback; loadState reloads the volatile copies from the unchanged disk
    | .panic p => (s, .panic p)

/-- `state.Add` run without interference -/
def add (env : Env) (subs : List Sub) (s : St) (tx : Tx) (payload : Option Nat) : St × Res Unit :=
  match phase1 env s tx with
  | .present => (s, .ok ())
  | .rejected e => (s, .err e)
  | .panicked p => (s, .panic p)
  | .verified => phase2 env subs s tx payload

/-- phase 2 when the caller's context is cancelled while the write transaction is open (e.g. inside a subscriber's Save):
    the closure runs to its end, stoabs sees `ctx.Err()` before the commit and rolls back; the OnRollback hook reloads the
    volatile copies (trees, atomic clock) from the unchanged disk with a fresh context. An error of the closure itself wins. -/
def phase2Cancelled (env : Env) (subs : List Sub) (s : St) (tx : Tx) (payload : Option Nat) : St × Res Unit :=
  if s.present tx.ref then (s, .ok ())         -- returns before anything is saved: nothing cancels, empty commit
  else match writeBody env subs s tx payload with
    | .ok _ => (s, .err "cancelled")
    | .err e => (s, .err e)
    | .panic p => (s, .panic p)

def addCancelled (env : Env) (subs : List Sub) (s : St) (tx : Tx) (payload : Option Nat) : St × Res Unit :=
  match phase1 env s tx with
  | .present => (s, .ok ())
  | .rejected e => (s, .err e)
  | .panicked p => (s, .panic p)
  | .verified => phase2Cancelled env subs s tx payload

/-- bytes offered to the node: parse, then Add (what every caller of `state.Add` does first) -/
def offer (cfg : Cfg) (b64 : String → Bool) (env : Env) (subs : List Sub) (s : St) (h : Hdr) (payload : Option Nat) :
    St × Res Unit :=
  match parse cfg b64 h with
  | .ok tx => add env subs s tx payload
  | .err e => (s, .err e)
  | .panic p => (s, .panic p)

/-! ### the other entry points that feed `Add` / the payload store (transport/v2) -/

structure Item where
  tx : Tx
  payload : Option Nat
  deriving DecidableEq, Repr

/-- `handleTransactionList` once every transaction of the message parsed (one parse error refuses the whole message):
    in list order; a public transaction must come with its payload; the list stops at the first error (a missing prev
    ends it quietly, the peer is sent our state); what was added before stays. -/
def handleList (env : Env) (subs : List Sub) : St → List Item → St × String
  | s, [] => (s, "ok")
  | s, it :: rest =>
    if it.tx.pal.isEmpty && it.payload.isNone then (s, "err:no-payload")
    else match add env subs s it.tx it.payload with
      | (s', .ok _) => handleList env subs s' rest
      | (s', .err e) => if e = "prev-missing" then (s', "ok:missing-prevs") else (s', "err:" ++ e)
      | (s', .panic p) => (s', "panic:" ++ p)

/-- `handleTransactionPayload` + `state.WritePayload`: a payload arriving after its (private) transaction -/
def latePayload (env : Env) (subs : List Sub) (s : St) (ref : Nat) (p : Nat) : St × String :=
  match s.find ref with
  | none => (s, "err:unknown-tx")
  | some tx =>
    if env.sha p ≠ tx.payloadHash then (s, "err:payload-mismatch")
    else
      let jl := notify subs .payload tx (saveEvent subs .payload tx s.jobs, s.ledger)
      ({ s with payloads := putPayload s.payloads tx.payloadHash (some p), jobs := jl.1, ledger := jl.2 }, "ok")

/-! ### concurrency: threads executing Add, interleaved at read-tx / write-tx granularity -/

inductive PC where
  | start
  | verified
  | done (r : Res Unit)
  deriving DecidableEq, Repr

structure Call where
  tx : Tx
  payload : Option Nat
  deriving DecidableEq, Repr

structure World where
  st : St
  pcs : List PC

/-- thread `i` performs its next atomic step (one bbolt transaction); finished / unknown threads do nothing -/
def stepThread (env : Env) (subs : List Sub) (calls : List Call) (w : World) (i : Nat) : World :=
  match calls[i]?, w.pcs[i]? with
  | some c, some .start =>
    match phase1 env w.st c.tx with
    | .present => { w with pcs := w.pcs.set i (.done (.ok ())) }
    | .rejected e => { w with pcs := w.pcs.set i (.done (.err e)) }
    | .panicked p => { w with pcs := w.pcs.set i (.done (.panic p)) }
    | .verified => { w with pcs := w.pcs.set i .verified }
  | some c, some .verified =>
    let r := phase2 env subs w.st c.tx c.payload
    { st := r.1, pcs := w.pcs.set i (.done r.2) }
  | _, _ => w

def run (env : Env) (subs : List Sub) (calls : List Call) (sched : List Nat) (w : World) : World :=
  sched.foldl (stepThread env subs calls) w

/-- sequential execution of the calls named by `order`: each call runs `Add` alone; results are collected -/
def seqStep (env : Env) (subs : List Sub) (calls : List Call) (acc : St × List (Nat × Res Unit)) (i : Nat) :
    St × List (Nat × Res Unit) :=
  match calls[i]? with
  | none => acc
  | some c =>
    let r := add env subs acc.1 c.tx c.payload
    (r.1, acc.2 ++ [(i, r.2)])

def seqRun (env : Env) (subs : List Sub) (calls : List Call) (order : List Nat) (s : St) : St × List (Nat × Res Unit) :=
  order.foldl (seqStep env subs calls) (s, [])

/-! ### CreateTransaction (network.go) -/

/-- `calculateLamportClock` -/
def calcClock (s : St) : List Nat → Nat → Res Nat
  | [], c => .ok c
  | p :: ps, c =>
    match s.find p with
    | none => .err "not-found"
    | some t => calcClock s ps (if t.clock > c then t.clock else c)

def dedup : List Nat → List Nat → List Nat
  | [], acc => acc
  | p :: ps, acc => if acc.contains p then dedup ps acc else dedup ps (acc ++ [p])

/-- clock for the collected prevs, and `NewTransaction`'s de-duplication -/
def createFrom (s : St) (prevs : List Nat) : Res (List Nat × Nat) :=
  if prevs.isEmpty then .ok ([], 0)
  else match calcClock s prevs 0 with
    | .ok c => .ok (dedup prevs [], c + 1)
    | .err e => .err e
    | .panic p => .panic p

/-- `CreateTransaction` first asserts that every additional prev is present together with its payload -/
def additionalOK (s : St) (additional : List Nat) : Bool :=
  additional.all fun r => match s.find r with
    | some t => s.payloads.any (fun q => q.1 = t.payloadHash)
    | none => false

/-- prevs and clock chosen by `CreateTransaction` (head first, then the additional prevs) -/
def createPrevsClock (s : St) (additional : List Nat) : Res (List Nat × Nat) :=
  if s.head = 0 ∧ additional ≠ [] then .err "prevs-on-root"
  else createFrom s ((if s.head ≠ 0 then [s.head] else []) ++ additional)

end Nuts.C06
