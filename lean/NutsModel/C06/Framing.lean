/-
  C06 — the framing check of `ParseTransaction` on the BYTES (network/dag/parser.go `isJWSSerialization`), and Go's
  `base64.RawURLEncoding` decode / encode as that function uses them (non-strict decoder: skips '\r' and '\n', ignores the
  unused trailing bits of the last sextet; no padding character).  Bytes are `Nat`s (< 256 for real input).
  Core Lean only.
-/
import NutsModel.C06.Admit

namespace Nuts.C06.Framing

/-! ## base64url, as `encoding/base64` implements `RawURLEncoding` -/

/-- `encodeURL[n]` : sextet → character code ("A–Z a–z 0–9 - _") -/
def enc6 (n : Nat) : Nat :=
  if n < 26 then 65 + n else if n < 52 then 97 + (n - 26) else if n < 62 then 48 + (n - 52) else if n = 62 then 45 else 95

/-- `decodeMap[c]` : character code → sextet, `none` = 0xff (not in the alphabet) -/
def dec6 (c : Nat) : Option Nat :=
  if 65 ≤ c ∧ c ≤ 90 then some (c - 65)
  else if 97 ≤ c ∧ c ≤ 122 then some (c - 97 + 26)
  else if 48 ≤ c ∧ c ≤ 57 then some (c - 48 + 52)
  else if c = 45 then some 62
  else if c = 95 then some 63
  else none

def isAlpha (c : Nat) : Bool := (dec6 c).isSome

/-- `decodeQuantum`: "if in == '\n' || in == '\r' { j--; continue }` — line breaks are skipped wherever they stand -/
def isNL (c : Nat) : Bool := c = 10 || c = 13

def stripNL (s : List Nat) : List Nat := s.filter (fun c => !isNL c)

/-- the quanta of `Decode` after the line breaks are gone: four characters give three bytes; a final quantum of three / two
    characters gives two / one byte (trailing bits dropped: `enc.strict` is false); one left-over character or any character
    outside the alphabet (also '=': `padChar` is `NoPadding`) is `CorruptInputError` -/
def decQ : List Nat → Option (List Nat)
  | a :: b :: c :: d :: rest =>
    match dec6 a, dec6 b, dec6 c, dec6 d, decQ rest with
    | some va, some vb, some vc, some vd, some t =>
      let v := ((va * 64 + vb) * 64 + vc) * 64 + vd
      some (v / 65536 :: v / 256 % 256 :: v % 256 :: t)
    | _, _, _, _, _ => none
  | [a, b, c] =>
    match dec6 a, dec6 b, dec6 c with
    | some va, some vb, some vc =>
      let v := ((va * 64 + vb) * 64 + vc) * 64
      some [v / 65536, v / 256 % 256]
    | _, _, _ => none
  | [a, b] =>
    match dec6 a, dec6 b with
    | some va, some vb => some [((va * 64 + vb) * 4096) / 65536]
    | _, _ => none
  | [_] => none
  | [] => some []

/-- `base64.RawURLEncoding.DecodeString` -/
def b64Decode (s : List Nat) : Option (List Nat) := decQ (stripNL s)

/-- `base64.RawURLEncoding.EncodeToString` -/
def b64Encode : List Nat → List Nat
  | a :: b :: c :: rest =>
    enc6 (a / 4) :: enc6 (a % 4 * 16 + b / 16) :: enc6 (b % 16 * 4 + c / 64) :: enc6 (c % 64) :: b64Encode rest
  | [a, b] => [enc6 (a / 4), enc6 (a % 4 * 16 + b / 16), enc6 (b % 16 * 4)]
  | [a] => [enc6 (a / 4), enc6 (a % 4 * 16)]
  | [] => []

/-- the loop body of `isJWSSerialization`: `err != nil || EncodeToString(decoded) != string(segment)` refuses -/
def canonical (seg : List Nat) : Bool :=
  match b64Decode seg with
  | none => false
  | some d => b64Encode d == seg

/-! ## `bytes.Split`, `bytes.TrimLeftFunc(unicode.IsSpace)` -/

/-- `bytes.Split(input, []byte{sep})`: always at least one segment -/
def splitOn (sep : Nat) : List Nat → List (List Nat)
  | [] => [[]]
  | c :: t =>
    if c = sep then [] :: splitOn sep t
    else match splitOn sep t with
      | h :: r => (c :: h) :: r
      | [] => [[c]]

def joinWith (sep : Nat) : List (List Nat) → List Nat
  | [] => []
  | [s] => s
  | s :: t => s ++ sep :: joinWith sep t

/-- number of leading bytes that are ONE white-space rune for `unicode.IsSpace` (UTF-8 decoded as `TrimLeftFunc` does), 0 if the
    input does not start with one.  '\t' '\n' '\v' '\f' '\r' ' ' U+0085 U+00A0 U+1680 U+2000–U+200A U+2028 U+2029 U+202F U+205F U+3000 -/
def spaceRune : List Nat → Nat
  | 0xC2 :: d :: _ => if d = 0x85 || d = 0xA0 then 2 else 0
  | 0xE1 :: 0x9A :: 0x80 :: _ => 3
  | 0xE2 :: 0x80 :: d :: _ => if (0x80 ≤ d && d ≤ 0x8A) || d = 0xA8 || d = 0xA9 || d = 0xAF then 3 else 0
  | 0xE2 :: 0x81 :: 0x9F :: _ => 3
  | 0xE3 :: 0x80 :: 0x80 :: _ => 3
  | c :: _ => if (9 ≤ c && c ≤ 13) || c = 32 then 1 else 0
  | [] => 0

/-- `bytes.TrimLeftFunc(input, unicode.IsSpace)` (fuel = the length: every round removes at least one byte) -/
def trimLeftFuel : Nat → List Nat → List Nat
  | 0, l => l
  | n + 1, l => match spaceRune l with
    | 0 => l
    | k => trimLeftFuel n (l.drop k)

def trimLeftSpace (l : List Nat) : List Nat := trimLeftFuel l.length l

/-- first branch of `isJWSSerialization`: the JSON serialization (an object) -/
def jsonStart (input : List Nat) : Bool :=
  match trimLeftSpace input with
  | c :: _ => c = 123
  | [] => false

/-- `isJWSSerialization(input)` -/
def isJWSSerialization (input : List Nat) : Bool :=
  if jsonStart input then true
  else
    let segments := splitOn 46 input
    if segments.length ≠ 3 then false
    else segments.all canonical

/-- what the signature covers and carries in a compact serialization: the decoded header, payload and signature bytes -/
def decodedSegments (input : List Nat) : List (Option (List Nat)) := (splitOn 46 input).map b64Decode

/-! ## `ParseTransaction` on bytes: `setData` (ref = SHA-256 of the input, a parameter) and the framing verdict computed here -/

/-- the header `jws.Parse` presents for `input`, with the two fields `ParseTransaction` derives from the bytes themselves -/
def hdrOfBytes (sha : List Nat → Nat) (input : List Nat) (h : Hdr) : Hdr :=
  { h with ref := sha input, framingStrict := isJWSSerialization input }

def parseBytes (cfg : Cfg) (b64 : String → Bool) (sha : List Nat → Nat) (input : List Nat) (h : Hdr) : Res Tx :=
  parse cfg b64 (hdrOfBytes sha input h)

end Nuts.C06.Framing
