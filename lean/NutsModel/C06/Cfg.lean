/-
  C06 — the model instantiated with what /repo's source says today (regenerated facts).
-/
import NutsModel.C06.Admit
import NutsModel.Facts.C06

namespace Nuts.C06

/-- `parseLamportClock` rejects negative, too large and non-integral numbers iff these three guards are in its conditions -/
def lcGuardsStrict (conds : List String) : Bool :=
  conds.contains "lcAsFloat64 < 0" && conds.contains "lcAsFloat64 > math.MaxUint32" &&
  conds.contains "lcAsFloat64 != math.Trunc(lcAsFloat64)"

/-- `parseSignatureParams` refuses private (EC, RSA, OKP) and symmetric embedded keys iff its type switch names them -/
def jwkGuardsPublicOnly (cases : List String) : Bool :=
  cases.contains "jwk.ECDSAPrivateKey" && cases.contains "jwk.RSAPrivateKey" && cases.contains "jwk.OKPPrivateKey" &&
  cases.contains "jwk.SymmetricKey"

/-- `ParseTransaction` checks the framing itself (after jws.Parse): three segments, each the canonical unpadded base64url
    encoding of what it decodes to — or the JSON serialization -/
def framingGuardsStrict (parseConds framingConds : List String) : Bool :=
  parseConds.contains "!isJWSSerialization(input)" &&
  framingConds.contains "len(segments) != 3" && framingConds.contains "err != nil" &&
  framingConds.contains "base64.RawURLEncoding.EncodeToString(decoded) != string(segment)"

def srcCfg : Cfg :=
  { allowedAlgos := Facts.C06.allowedAlgos
    allowedVersion := Facts.C06.allowedVersion
    lcStrict := lcGuardsStrict Facts.C06.parseLamportClockConds
    jwkPublicOnly := jwkGuardsPublicOnly Facts.C06.jwkRefusedKeyTypes
    strictFraming := framingGuardsStrict Facts.C06.parseConds Facts.C06.framingConds
    sigtH := Facts.C06.sigtHeader
    verH := Facts.C06.verHeader
    prevsH := Facts.C06.prevsHeader
    palH := Facts.C06.palHeader
    lcH := Facts.C06.lcHeader }

end Nuts.C06
