/-
  C06 — the SECOND door to the payload store and the payload events: network/transport/v2/handlers.go
  `handleTransactionPayload` (empty ref, empty data, unknown transaction, payload hash) and network/dag/state.go
  `WritePayload` with the `payloadEvents` shelf (`isPayloadEventSaved` / `markPayloadEventSaved`): per TRANSACTION it records
  that the payload event was saved (and emitted); `state.Add` sets the marker when the payload comes together with the
  transaction, `WritePayload` refuses to save / emit a second time.  `StP` = the state of Admit.lean + that shelf.
  Also `state.Verify` (whole-DAG re-verification: `findBetweenLC(0, MaxLamportClock)` then `verifyTX` on each, first error wins).
  Core Lean only.
-/
import NutsModel.C06.Admit

namespace Nuts.C06.Late

/-- state + the `payloadEvents` shelf (keys: refs of the transactions whose payload event has been saved) -/
structure StP where
  st : St := {}
  pev : List Nat := []
  deriving DecidableEq, Repr

/-- `isPayloadEventSaved`: `Get(NewHashKey(ref))` succeeded -/
def isPayloadEventSaved (pev : List Nat) (ref : Nat) : Bool := pev.contains ref

/-- `markPayloadEventSaved`: a `Put` under the ref (a second Put of the same key replaces) -/
def markPayloadEventSaved (pev : List Nat) (ref : Nat) : List Nat := if pev.contains ref then pev else ref :: pev

/-- the closure `state.Add` passes to `db.Write` (after the presence re-check), with the marker it sets inside the
    `payload != nil` block; any later error rolls the marker back with everything else -/
def writeBodyP (env : Env) (subs : List Sub) (sp : StP) (tx : Tx) (payload : Option Nat) : Res StP :=
  match writeBody env subs sp.st tx payload with
  | .ok w => .ok { st := w, pev := if payload.isSome then markPayloadEventSaved sp.pev tx.ref else sp.pev }
  | .err e => .err e
  | .panic p => .panic p

def phase2P (env : Env) (subs : List Sub) (sp : StP) (tx : Tx) (payload : Option Nat) : StP × Res Unit :=
  if sp.st.present tx.ref then (sp, .ok ())
  else match writeBodyP env subs sp tx payload with
    | .ok w => ({ w with st := afterCommit subs w.st tx payload }, .ok ())
    | .err e => (sp, .err e)
    | .panic p => (sp, .panic p)

/-- `state.Add` on the state with the `payloadEvents` shelf -/
def addP (env : Env) (subs : List Sub) (sp : StP) (tx : Tx) (payload : Option Nat) : StP × Res Unit :=
  match phase1 env sp.st tx with
  | .present => (sp, .ok ())
  | .rejected e => (sp, .err e)
  | .panicked p => (sp, .panic p)
  | .verified => phase2P env subs sp tx payload

/-- `state.WritePayload(transaction, payloadHash, data)`: nothing when the payload event of THIS transaction was saved before;
    else `saveEvent`, marker, `writePayload` in one write transaction and `notify` after the commit -/
def writePayload (subs : List Sub) (sp : StP) (tx : Tx) (payloadHash : Nat) (p : Nat) : StP :=
  if isPayloadEventSaved sp.pev tx.ref then sp
  else
    let jobs := saveEvent subs .payload tx sp.st.jobs
    let jl := notify subs .payload tx (jobs, sp.st.ledger)
    { st := { sp.st with payloads := putPayload sp.st.payloads payloadHash (some p), jobs := jl.1, ledger := jl.2 },
      pev := markPayloadEventSaved sp.pev tx.ref }

/-- `handleTransactionPayload`: `ref.Empty()`, `len(msg.Data) == 0` (`none`), `GetTransaction`, payload hash, `WritePayload` -/
def handlePayload (env : Env) (subs : List Sub) (sp : StP) (ref : Nat) (data : Option Nat) : StP × String :=
  if ref = 0 then (sp, "err:no-ref")
  else match data with
    | none => (sp, "err:no-data")
    | some p =>
      match sp.st.find ref with
      | none => (sp, "err:unknown-tx")
      | some tx =>
        if env.sha p ≠ tx.payloadHash then (sp, "err:payload-mismatch")
        else (writePayload subs sp tx (env.sha p) p, "ok")

/-- an operation on the node: bytes offered with an optional payload, or a late payload message -/
inductive Op where
  | offer (h : Hdr) (payload : Option Nat)
  | late (ref : Nat) (data : Option Nat)

def stepOp (cfg : Cfg) (b64 : String → Bool) (env : Env) (subs : List Sub) (sp : StP) : Op → StP
  | .offer h payload =>
    match parse cfg b64 h with
    | .ok tx => (addP env subs sp tx payload).1
    | _ => sp
  | .late ref data => (handlePayload env subs sp ref data).1

def runOps (cfg : Cfg) (b64 : String → Bool) (env : Env) (subs : List Sub) (sp : StP) (ops : List Op) : StP :=
  ops.foldl (stepOp cfg b64 env subs) sp

/-! ### `state.Verify` -/

/-- the loop of `state.Verify` over the transactions the range scan returned (first error wins) -/
def verifyEach (env : Env) (s : St) : List Tx → Res Unit
  | [] => .ok ()
  | t :: rest =>
    match verify env s t with
    | .ok _ => verifyEach env s rest
    | .err e => .err e
    | .panic p => .panic p

/-! ### the transaction counter (`nuts_dag_transactions_total`) -/

/-- the last AfterCommit hook of `state.Add`: `if txAdded { s.transactionCount.Inc() }`. `txAdded` is set right after the
    presence re-check of the write closure; only a COMMIT runs the hooks (a rollback runs `loadState` instead) -/
def addCounter (env : Env) (subs : List Sub) (s : St) (tx : Tx) (payload : Option Nat) (n : Nat) : Nat :=
  match phase1 env s tx with
  | .verified =>
    if s.present tx.ref then n        -- the closure returns nil before `txAdded = true`: empty commit, the hook sees false
    else match writeBody env subs s tx payload with
      | .ok _ => n + 1
      | .err _ => n                   -- rollback: no AfterCommit hook runs
      | .panic _ => n
  | _ => n                            -- present / refused in the read transaction: `db.Write` is never reached

end Nuts.C06.Late
