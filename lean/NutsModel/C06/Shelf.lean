/-
  C06 — the BYTES the DAG keeps in its store (network/dag/dag.go): the clocks shelf (`Uint32Key(clock)` ↦ concatenated 32-byte
  refs: `indexClockValue`, `parseHashList`, `appendHashList`, `getRoots`), the metadata shelf (`tx_num`, `lc_high`, `head_ref`:
  big-endian counters written by `dag.add`), the documents shelf keys, and the range scan behind `FindBetweenLC`
  (`visitBetweenLC` over go-stoabs `Range(from, to, cb, stopAtNil = true)`: the scan stops at the first missing clock).
  A shelf is an association list key ↦ value bytes; the key of the clocks shelf is the uint32 itself (its bytes: `be 4 k`).
  Core Lean only.
-/
import NutsModel.C06.Admit

namespace Nuts.C06.Shelf

/-! ## big-endian numbers (`binary.BigEndian.PutUint32/PutUint64`, `hash.SHA256Hash` of a 256-bit number) -/

/-- the `n` low-order bytes of `v`, most significant first -/
def be : Nat → Nat → List Nat
  | 0, _ => []
  | n + 1, v => be n (v / 256) ++ [v % 256]

/-- `binary.BigEndian.Uint32/Uint64` (any length) -/
def ofBe (l : List Nat) : Nat := l.foldl (fun a b => a * 256 + b) 0

/-- `hash.SHA256HashSize` -/
def hashSize : Nat := 32

/-- the 32 bytes of a ref -/
def hashBytes (r : Nat) : List Nat := be hashSize r

/-! ## shelves -/

abbrev Shelf (κ : Type) := List (κ × List Nat)

def get {κ : Type} [DecidableEq κ] (sh : Shelf κ) (k : κ) : Option (List Nat) := (sh.find? (fun e => e.1 = k)).map (·.2)

/-- `Put`: replaces -/
def put {κ : Type} [DecidableEq κ] (sh : Shelf κ) (k : κ) (v : List Nat) : Shelf κ := (k, v) :: sh.filter (fun e => e.1 ≠ k)

/-! ## hash lists -/

/-- `parseHashList`: `num := (len - len % 32) / 32` slices `input[i*32 : i*32+32]`; trailing bytes are dropped -/
def parseHashList (input : List Nat) : List (List Nat) :=
  if input.length = 0 then []
  else (List.range ((input.length - input.length % hashSize) / hashSize)).map fun i => (input.drop (i * hashSize)).take hashSize

/-- `parseHashList(...) != nil` : Go returns nil only for empty input (a short non-empty input gives an empty NON-nil slice) -/
def parseHashListNonNil (input : List Nat) : Bool := input.length ≠ 0

def appendHashList (list h : List Nat) : List Nat := list ++ h

/-- the refs filed under a clock value (`lc.Get` of a missing key hands `nil` to `parseHashList`) -/
def refsAt (clocks : Shelf Nat) (c : Nat) : List (List Nat) := parseHashList ((get clocks c).getD [])

/-- `indexClockValue`: a ref is filed under its clock once -/
def indexClockValue (clocks : Shelf Nat) (clock : Nat) (ref : List Nat) : Shelf Nat :=
  let currentRefs := (get clocks clock).getD []
  if (parseHashList currentRefs).contains ref then clocks
  else put clocks clock (appendHashList currentRefs ref)

/-- `getRoots(lc) != nil` (a failing `Get` gives nil) -/
def rootsNonNil (clocks : Shelf Nat) : Bool :=
  match get clocks 0 with
  | none => false
  | some v => parseHashListNonNil v

/-! ## `dag.add` for one transaction on the three shelves -/

structure Store where
  clocks : Shelf Nat := []          -- "clocks"
  docs : List (List Nat) := []      -- keys of "documents" (the values are the transaction bytes)
  md : Shelf String := []           -- "metadata"
  deriving DecidableEq, Repr

def numberOfTransactionsKey := "tx_num"
def highestClockValue := "lc_high"
def headRefKey := "head_ref"

/-- `getHighestClockValue` / `getNumberOfTransactions`: a missing key reads as 0 -/
def getCounter (md : Shelf String) (k : String) : Nat :=
  match get md k with
  | none => 0
  | some v => ofBe v

/-- `addSingle` -/
def addSingle (st : Store) (ref : List Nat) (clock : Nat) (noPrevs : Bool) : Res Store :=
  if st.docs.contains ref then .ok st
  else if noPrevs && rootsNonNil st.clocks then .err "root-exists"
  else .ok { st with clocks := indexClockValue st.clocks clock ref, docs := ref :: st.docs }

/-- `dag.add(tx, transaction)` with one transaction; `emptyHash` = 32 zero bytes -/
def dagAdd (st : Store) (ref : List Nat) (clock : Nat) (noPrevs : Bool) : Res Store :=
  let highestLC := getCounter st.md highestClockValue
  match addSingle st ref clock noPrevs with
  | .err e => .err e
  | .panic p => .panic p
  | .ok st1 =>
    let newHead := clock > highestLC || clock = 0
    let highestLC := if newHead then clock else highestLC
    let headRef := if newHead then ref else be hashSize 0
    let md := put st1.md highestClockValue (be 4 highestLC)
    let md := if headRef ≠ be hashSize 0 then put md headRefKey headRef else md
    let txCount := getCounter md numberOfTransactionsKey + 1
    .ok { st1 with md := put md numberOfTransactionsKey (be 8 txCount) }

/-! ## what the store holds for a list of admitted transactions (newest first, as `St.txs`) -/

def buildClocks : List Tx → Shelf Nat
  | [] => []
  | t :: r => indexClockValue (buildClocks r) t.clock (hashBytes t.ref)

/-- the store after the transactions were added oldest-first through `dagAdd` (an error leaves the store as it was: rollback) -/
def buildStore : List Tx → Store
  | [] => {}
  | t :: r =>
    match dagAdd (buildStore r) (hashBytes t.ref) t.clock t.prevs.isEmpty with
    | .ok s => s
    | _ => buildStore r

/-! ## the range scan of `visitBetweenLC` -/

/-- the smallest element -/
def minKey : List Nat → Option Nat
  | [] => none
  | k :: r => match minKey r with
    | none => some k
    | some m => some (if k ≤ m then k else m)

/-- `cursor.Seek(from)`: the smallest key ≥ `from` (bbolt orders keys bytewise; `be 4` is monotone) -/
def seek (clocks : Shelf Nat) (frm : Nat) : Option Nat := minKey ((clocks.map (·.1)).filter (fun k => frm ≤ k))

/-- the loop of `bboltShelf.Range` after the first key: the next key must be the successor (`stopAtNil`) and below `to` -/
def walk (clocks : Shelf Nat) : Nat → Nat → Nat → List (Nat × List Nat)
  | 0, _, _ => []
  | fuel + 1, k, to =>
    if k < to then
      match get clocks k with
      | none => []
      | some v => (k, v) :: walk clocks fuel (k + 1) to
    else []

def range (clocks : Shelf Nat) (frm to : Nat) : List (Nat × List Nat) :=
  match seek clocks frm with
  | none => []
  | some k0 => walk clocks (to - k0) k0 to

/-- `parsed[i].Compare(parsed[j]) <= 0` on equal-length byte strings -/
def bytesLE : List Nat → List Nat → Bool
  | [], _ => true
  | _ :: _, [] => false
  | a :: as, b :: bs => if a < b then true else if b < a then false else bytesLE as bs

def insertSorted (x : List Nat) : List (List Nat) → List (List Nat)
  | [] => [x]
  | y :: ys => if bytesLE x y then x :: y :: ys else y :: insertSorted x ys

/-- `sort.Slice(parsed, …)`: "lower byte value refs go first" -/
def sortRefs (l : List (List Nat)) : List (List Nat) := l.foldr insertSorted []

/-- the refs `visitBetweenLC` visits, in order (each is then loaded with `getTransaction`) -/
def visitBetweenLC (clocks : Shelf Nat) (startInclusive endExclusive : Nat) : List (List Nat) :=
  (range clocks startInclusive endExclusive).flatMap fun e => sortRefs (parseHashList e.2)

end Nuts.C06.Shelf
