/-
  C13 — the REQUEST CONTEXT and the subject LOOKUP (deepening round 3, 2026-09-28).

  (1) `transactionHelper(ctx, …)` hands the request context to exactly one place: `manager.Commit(ctx, change)`. Neither
      of its two SQL transactions (`r.DB.Transaction`) looks at it. The context can end at any moment (client gone,
      deadline): here "from the `cancelAt`-th Commit call on". did:nuts' Commit is a parameter of the operation model
      already (it may fail for any reason: `Fault.failNuts`); what did:web's Commit does with a dead context is the
      parameter `webFails` — as coded (`func (m Manager) Commit(_ context.Context, _ orm.DIDChangeLog) error { return nil }`)
      it is `fun _ => false`, see `ContextNow`. The poor-man's two-phase commit is sound only while at most ONE method
      manager has a Commit that can fail: `commitLoopCtx` mirrors the loop with a did:web Commit that may.
  (2) `SqlDIDManager.FindBySubject`: `tx.Find(&dids, "subject = ?", subject)`. The comparison operator is a parameter
      `sameSubject` (as coded: equality); every operation finds "its" DIDs through it.
-/
import NutsModel.C13.Subject

namespace Nuts.C13

/-- is the request context dead when the `i`-th Commit call (0-based) is made? -/
def ctxDead (cancelAt : Option Nat) (i : Nat) : Bool :=
  match cancelAt with
  | none => false
  | some k => k ≤ i

/-- the commit loop of `transactionHelper` with the request context made explicit: the did:web Commit gets the context
    and fails when `webFails (context is dead)` -/
def commitLoopCtx (webFails : Bool → Bool) (cancelAt : Option Nat) (f : Fault) (chs : List Change) :
    List Method → Nat → (Nat → List Content) → (Nat → List Content) × Phase
  | [], i, pub => (pub, .completed i)
  | m :: ms, i, pub =>
    match chs.find? (fun ch => ch.method = m) with
    | none => commitLoopCtx webFails cancelAt f chs ms i pub
    | some ch =>
      if f = .stop i then (pub, .stopped)
      else match m with
        | .web =>
          if webFails (ctxDead cancelAt i) then (pub, .failed "web")
          else commitLoopCtx webFails cancelAt f chs ms (i + 1) pub
        | .nuts =>
          if f = .failNuts then (pub, .failed "injected")
          else match commitNuts pub ch with
            | .ok pub' => commitLoopCtx webFails cancelAt f chs ms (i + 1) pub'
            | .err e => (pub, .failed e)
            | .panic s => (pub, .failed ("panic:" ++ s))

/-- `stepOpCore` with the context: first transaction (no context), commit loop (context), clean-up (no context) -/
def stepOpCtxCore (webFails : Bool → Bool) (cancelAt : Option Nat) (cfg : Cfg) (w : World) (o : Op) (order : List Method)
    (f : Fault) : World × String :=
  match tx1 cfg w o with
  | .err e => (w, "err:" ++ e)
  | .panic s => (w, "panic:" ++ s)
  | .ok (w1, chs) =>
    match commitLoopCtx webFails cancelAt f chs order 0 w1.pub with
    | (pub, .stopped) => ({ w1 with pub := pub }, "stopped")
    | (pub, .failed e) => (tx2 cfg { w1 with pub := pub } chs true, "err:" ++ e)
    | (pub, .completed i) =>
      match f with
      | .stop k => if i ≤ k then ({ w1 with pub := pub }, "stopped") else (tx2 cfg { w1 with pub := pub } chs false, "ok")
      | _ => (tx2 cfg { w1 with pub := pub } chs false, "ok")

/-- one operation issued with a request context that ends at the `cancelAt`-th Commit call -/
def stepOpCtx (webFails : Bool → Bool) (cancelAt : Option Nat) (cfg : Cfg) (w : World) (o : Op) (order : List Method)
    (f : Fault) : World × String :=
  match tx1 cfg w o with
  | .ok (_, chs) =>
    match f.inTx1 chs.length with
    | some r => (w, r)
    | none => stepOpCtxCore webFails cancelAt cfg w o order f
  | _ => stepOpCtxCore webFails cancelAt cfg w o order f

/-! ### subject lookup -/

/-- `FindBySubject` with the comparison of the query as a parameter (`"subject = ?"`: equality) -/
def findBySubject (sameSubject : String → String → Bool) (w : World) (s : String) : List DidRow :=
  w.dids.filter (fun r => sameSubject r.subject s)

/-- SQL `LIKE` restricted to what subject names can contain (`^[a-zA-Z0-9._-]+$`: no `%`): `_` in the PATTERN matches
    any one character, ASCII letters match regardless of case (SQLite's default). NOT what the code uses: the
    counter-model of `lookup_by_like_merges_subjects`. -/
def likeChar (p c : Char) : Bool := p == '_' || p.toLower == c.toLower

def likeMatch : List Char → List Char → Bool
  | [], [] => true
  | p :: ps, c :: cs => likeChar p c && likeMatch ps cs
  | _, _ => false

def sqlLike (stored pattern : String) : Bool := likeMatch pattern.toList stored.toList

end Nuts.C13
