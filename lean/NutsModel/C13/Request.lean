/-
  C13 — the REQUEST layer of vdr/didsubject/manager.go, on top of the operation model (`Subject.lean`).

  What the callers of `SqlManager` hand in is not an `Op` but a request: `Create(ctx, CreationOptions)` with a LIST of
  options, `AddVerificationMethod(ctx, subject, keyUsage)` with key-usage flags. This file mirrors the code that turns
  such a request into (a) a refusal before anything is written, (b) a refusal INSIDE the first SQL transaction after some
  methods have already generated keys (the transaction is rolled back as a whole), or (c) one operation of `Subject.lean`:

    manager.go  Create            option loop (`switch opt := option.(type)`), `subjectPattern`, the existence check on
                                  the PROVISIONAL name, the generation loop with the key-agreement × did:web refusal,
                                  the final name (v1 naming)
    manager.go  AddVerificationMethod   closure: key-agreement × did:web refusal per DID, after `Latest` of that DID
    manager.go  sortDIDsByMethod / sortDIDDocumentsByMethod   the order in which `ListDIDs`, `List`, `Create` answer

  The character class of `subjectPattern`, the option cases and the refusal guards are REGENERATED from the source
  (`Facts.C13`), the definitions here take them as arguments.
-/
import NutsModel.C13.Subject

namespace Nuts.C13

/-! ### `subjectPattern = ^[…]+$` -/

/-- a character class: inclusive code-point ranges -/
abbrev CharClass := List (Nat × Nat)

def CharClass.has (cls : CharClass) (c : Char) : Bool := cls.any (fun r => r.1 ≤ c.toNat && c.toNat ≤ r.2)

/-- `regexp.MustCompile("^[cls]+$").MatchString(s)` (no flags: `$` is the end of the text, a trailing newline does not match) -/
def matchesPlus (cls : CharClass) (s : String) : Bool := !s.toList.isEmpty && s.toList.all cls.has

/-! ### `Create`: the option loop -/

inductive CreateOpt where
  | subject (s : String)
  | encryptionKey
  | nutsLegacy
  /-- any other option type (`SkipAssertionKeyCreationOption`, …): the `default:` arm -/
  | unknown
  deriving DecidableEq, Repr, Inhabited

structure CreateParams where
  /-- the provisional subject name: a fresh uuid, or the last `SubjectCreationOption` -/
  subject : String
  /-- `keyFlags.Is(orm.KeyAgreementUsage)` -/
  keyAgreement : Bool := false
  legacy : Bool := false
  deriving DecidableEq, Repr

/-- one iteration of `for _, option := range options.All() { switch … }` -/
def applyOpt (cls : CharClass) (p : CreateParams) : CreateOpt → Res CreateParams
  | .subject s => if matchesPlus cls s then .ok { p with subject := s } else .err "validation"
  | .encryptionKey => .ok { p with keyAgreement := true }
  | .nutsLegacy => .ok { p with legacy := true }
  | .unknown => .err "validation"

def applyOpts (cls : CharClass) : List CreateOpt → CreateParams → Res CreateParams
  | [], p => .ok p
  | o :: os, p =>
    match applyOpt cls p o with
    | .ok p' => applyOpts cls os p'
    | r => r

/-- the generation loop inside the first transaction: `for method, manager := range r.MethodManagers` —
    `if keyFlags.Is(orm.KeyAgreementUsage) && method == "web" { return nil, ErrKeyAgreementNotSupported }`, else
    `manager.NewDocument` (generates a key inside the SQL transaction). Returns the number of documents generated. -/
def genLoop (refuseWeb : Bool) (ka : Bool) : List Method → Nat → Res Nat
  | [], n => .ok n
  | m :: ms, n => if refuseWeb && ka && m == .web then .err "keyagreement" else genLoop refuseWeb ka ms (n + 1)

/-- `SqlManager.Create`. `uuid` = the generated default name, `nutsDid` = the did:nuts DID the generation loop comes up
    with, `genOrder` / `order` = the iteration orders of the generation loop and of the Commit loop. -/
def createRequest (cls : CharClass) (refuseWeb : Bool) (cfg : Cfg) (w : World) (opts : List CreateOpt)
    (uuid nutsDid : String) (genOrder order : List Method) (f : Fault) : World × String :=
  match applyOpts cls opts { subject := uuid } with
  | .err e => (w, "err:" ++ e)
  | .panic s => (w, "panic:" ++ s)
  | .ok p =>
    -- first transaction: the existence check looks at the PROVISIONAL name
    if subjectExists w p.subject then (w, "err:exists")
    else
      match genLoop refuseWeb p.keyAgreement genOrder 0 with
      | .err e => (w, "err:" ++ e)          -- the SQL transaction is rolled back, the generated keys with it
      | .panic s => (w, "panic:" ++ s)
      | .ok _ => stepOp cfg w (.create (finalSubject p.legacy genOrder p.subject nutsDid)) order f

/-! ### `AddVerificationMethod`: the per-DID closure -/

/-- `applyToDIDDocuments`' loop over `FindBySubject` up to the first error: `Latest` (record not found), then the closure's
    `if keyUsage.Is(orm.KeyAgreementUsage) && id.Method == "web" { return nil, ErrKeyAgreementNotSupported }` -/
def addKeyCheck (refuseWeb : Bool) (ka : Bool) : List DidRow → Res Unit
  | [] => .ok ()
  | r :: rs =>
    if r.vers.isEmpty then .err "notfound"
    else if refuseWeb && ka && r.method == .web then .err "keyagreement"
    else addKeyCheck refuseWeb ka rs

/-- `SqlManager.AddVerificationMethod(ctx, subject, keyUsage)` -/
def addKeyRequest (refuseWeb : Bool) (cfg : Cfg) (w : World) (s : String) (ka : Bool) (order : List Method) (f : Fault) :
    World × String :=
  let mine := w.dids.filter (fun r => r.subject = s)
  if mine.isEmpty then (w, "err:nosubject")
  else
    match addKeyCheck refuseWeb ka mine with
    | .err e => (w, "err:" ++ e)            -- the SQL transaction is rolled back: also the DIDs visited before
    | .panic p => (w, "panic:" ++ p)
    | .ok _ => stepOp cfg w (.addKey s) order f

/-! ### `transactionHelper`: the clean-up transaction itself fails -/

/-- One operation whose SECOND transaction (delete the change records, or — after a failed Commit — delete the versions)
    fails with a database error: `transactionHelper` returns that error ("give priority to the DB error (critical)"), the
    transaction is rolled back, so versions AND change records stay as the first transaction wrote them; what the Commit
    calls published stays published. `nutsFails`: the did:nuts Commit had failed as well. Without changes (`next == nil`
    for every DID) the clean-up executes no statement and cannot fail. -/
def stepOpCleanupFails (cfg : Cfg) (w : World) (o : Op) (order : List Method) (nutsFails : Bool) : World × String :=
  match tx1 cfg w o with
  | .err e => (w, "err:" ++ e)
  | .panic s => (w, "panic:" ++ s)
  | .ok (w1, chs) =>
    if chs.isEmpty then stepOp cfg w o order .none
    else ({ w1 with pub := (commitLoop (if nutsFails then .failNuts else .none) chs order 0 w1.pub).1 }, "err:db")

/-! ### `FindServices` -/

/-- the services `FindServices` takes from ONE DID: those of its `Latest` document whose type is the requested one.
    `if serviceType != nil && s.Type == *serviceType { append }`: WITHOUT a type nothing is appended (as coded). The
    "seen" map is keyed by the service ID, which starts with the DID: it never hits across DIDs, and within a document
    the join table has every service once (`loadContent`). A service = its label (type `T-<label>`). -/
def servicesOfRow (typ : Option String) (r : DidRow) : List (Nat × String) :=
  match r.vers with
  | v :: _ => ((loadContent v.c).svcs.filter (fun l => typ == some l)).map (fun l => (r.id, l))
  | [] => []

/-- `SqlManager.FindServices(ctx, subject, serviceType)`: (owner DID, service) pairs, in `FindBySubject` order -/
def findServices (w : World) (s : String) (typ : Option String) : Res (List (Nat × String)) :=
  let rows := listDIDs w s
  if rows.isEmpty then .err "nosubject"
  else if rows.any (fun r => r.vers.isEmpty) then .err "notfound"
  else .ok (rows.flatMap (servicesOfRow typ))

/-! ### `sortDIDsByMethod`: the order of `ListDIDs` / `List` / the documents `Create` returns -/

/-- a `did.DID` as the comparator sees it -/
structure DidId where
  method : String
  str : String
  deriving DecidableEq, Repr, Inhabited

/-- `iOrder := -1; for k, v := range methodOrder { if v == m { iOrder = k } }` (the LAST match wins) -/
def methodRankFrom : List String → Nat → String → Int → Int
  | [], _, _, acc => acc
  | v :: vs, k, m, acc => methodRankFrom vs (k + 1) m (if v == m then (k : Int) else acc)

def methodRank (absent : Int) (order : List String) (m : String) : Int := methodRankFrom order 0 m absent

/-- the `less` closure of `sort.Slice` in `sortDIDsByMethod`; `absent` = the value for a method that is not listed (-1) -/
def lessDID (absent : Int) (order : List String) (a b : DidId) : Bool :=
  if a = b then decide (a.str < b.str)
  else
    let i := methodRank absent order a.method
    let j := methodRank absent order b.method
    if i = absent ∧ j = absent then decide (a.method < b.method)
    else decide (i < j)

/-- `sort.Slice` is not stable and its algorithm is unspecified: the model sorts by insertion; for the inputs that occur
    (one DID per method) every sorted permutation is THE SAME list (`sort_by_method_unique`). -/
def sortDIDsByMethod (absent : Int) (order : List String) (l : List DidId) : List DidId := sortBy (lessDID absent order) l

/-- `sortDIDDocumentsByMethod`: sort the IDs, then put at position `i` the FIRST document whose ID is the `i`-th sorted ID
    (a document = its ID and the rest, here a marker) -/
def sortDocsByMethod (absent : Int) (order : List String) (docs : List (DidId × Nat)) : List (DidId × Nat) :=
  (sortDIDsByMethod absent order (docs.map (·.1))).filterMap (fun id => docs.find? (fun d => d.1 = id))

/-- the DIDs of a subject in the order `ListDIDs` answers -/
def didIdOf (r : DidRow) : DidId := { method := r.method.name, str := "did:" ++ r.method.name ++ ":" ++ toString r.id }

end Nuts.C13
