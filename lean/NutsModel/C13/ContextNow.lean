/-
  C13 — the request-context / subject-look-up parameters instantiated with what /repo's source says today.
-/
import NutsModel.C13.Context
import NutsModel.Facts.C13

namespace Nuts.C13.Now
open Nuts.C13

/-- did:web's `Commit` as written: both parameters are blank identifiers and the body is `return nil` — it cannot look at
    the request context and cannot fail. (Anything else: it is assumed to fail on a dead context, the worst case.) -/
def webFails (dead : Bool) : Bool :=
  !(Nuts.Facts.C13.webCommitReturnsNil && Nuts.Facts.C13.webCommitParamNames == ["_", "_"]) && dead

/-- the comparison of `FindBySubject`'s query as written (`subject = ?`); `LIKE` gets SQL's semantics -/
def sameSubject (stored asked : String) : Bool :=
  if Nuts.Facts.C13.findBySubjectOperator == "=" then stored == asked else sqlLike stored asked

end Nuts.C13.Now
