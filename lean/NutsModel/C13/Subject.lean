/-
  C13 — subject operations change all DIDs of a subject together or not at all.

  Executable model of
    vdr/didsubject/manager.go   Create / CreateService / UpdateService / DeleteService / AddVerificationMethod /
                                Deactivate / transactionHelper / applyToDIDDocuments / deleteUncommittedChange /
                                Rollback / ListDIDs / FindServices
    vdr/didsubject/did_document.go  CreateOrUpdate (version = latest + 1), Latest
    vdr/didsubject/did.go           FindBySubject
    vdr/didweb/manager.go           Commit (no-op), IsCommitted (always true)
    vdr/didnuts/manager.go          Commit (onCreate / onUpdate / onDeactivate), IsCommitted (hash of latest published)
    storage/orm, sql_migrations/003_did.sql   did ⟵ did_document_version ⟵ did_change_log  (on delete cascade)

  Representation (core Lean only).
  * SQL: one `DidRow` per row of `did`, carrying its `did_document_version` rows newest first (the foreign key
    `did_document_version.did → did.id on delete cascade` is structural). `did_change_log` has the version id as its
    PRIMARY KEY and `on delete cascade`: a change record is a 1 : 0..1 attribute of a version row — field `pending`.
    Version ids are primary keys; a `Change` carries its DID (preloaded), so "delete where id = ?" looks the id up
    inside that DID (same row under the key constraint).
    `CreateOrUpdate`/`Latest` read "order by version desc limit 1": the head of the stack (the stack is sorted by
    version, theorem `versions_consecutive`). `Latest`'s filter `updated_at <= now+1h` never excludes anything because
    stamps are clock readings and the clock does not go back; it is not modelled.
  * uuids / generated keys / transaction ids are fresh tokens: numbers `≥ next`. Tokens of different tables never
    meet, so one counter serves all. (`base + did.id` for per-DID tokens keeps tx1 a `map`.)
  * A document = its verification-method ids and its service fragments (`NewIDForService` = hash of the service:
    an injective label). SHA-256 over the rendered document (IsCommitted) = equality of contents.
  * did:nuts external state: `pub d` = the documents published for DID `d`, newest first (what the didstore resolves).
  * Go map iteration (`range r.MethodManagers`, `range groupedChanges`) = explicit order arguments.
  * The clock: `now` is a number of seconds advanced by `tick`; one first transaction stamps its versions with one
    reading, `restamp` makes them differ afterwards (second boundaries inside the transaction).
  * A fault is either "the did:nuts Commit fails" or "the process stops before the k-th Commit call"
    (k = number of calls made ⇒ stop before the clean-up transaction). did:web's Commit cannot fail (it returns nil).
-/
import NutsModel.Base

namespace Nuts.C13

inductive Method where
  | nuts | web
  deriving DecidableEq, Repr, Inhabited

def Method.idx : Method → Nat
  | .nuts => 0
  | .web => 1

def Method.name : Method → String
  | .nuts => "nuts"
  | .web => "web"

structure Content where
  vms : List Nat
  svcs : List String
  deriving DecidableEq, Repr, Inhabited

/-- a deactivated document: no keys, no services (`CreateOrUpdate(did, nil, nil)`, `didnuts.CreateDocument()`) -/
def Content.empty : Content := { vms := [], svcs := [] }

/-- `resolver.IsDeactivated`: no controller and no capabilityInvocation key (every generated key has that usage) -/
def Content.deactivated (c : Content) : Bool := c.vms.isEmpty

inductive ChType where
  | created | updated | deactivated
  deriving DecidableEq, Repr, Inhabited

/-- a `did_change_log` row (minus its key, the version id) -/
structure Pending where
  typ : ChType
  tx : Nat
  deriving DecidableEq, Repr, Inhabited

structure Ver where
  row : Nat
  n : Nat
  ts : Nat
  c : Content
  pending : Option Pending
  deriving DecidableEq, Repr, Inhabited

structure DidRow where
  id : Nat
  method : Method
  subject : String
  vers : List Ver
  deriving DecidableEq, Repr, Inhabited

/-- `orm.DIDChangeLog` with its preloaded version and DID -/
structure Change where
  did : Nat
  method : Method
  row : Nat
  typ : ChType
  tx : Nat
  ts : Nat
  c : Content
  deriving DecidableEq, Repr, Inhabited

structure Cfg where
  /-- keys of `r.MethodManagers` -/
  methods : List Method
  /-- `Rollback`: entries older than this many seconds -/
  threshold : Nat
  /-- didnuts `IsCommitted`: resolver.ErrNotFound ⇒ (false, nil) -/
  notFoundIsUncommitted : Bool
  /-- `deleteUncommittedChange`: a `created` change also deletes the DID row -/
  rollbackDeletesCreatedDID : Bool
  /-- `Rollback` loads ALL changes of every transaction it found an old change for -/
  sweepWholeTx : Bool
  /-- `IsCommitted` compares SHA-256 of the rendered JSON. For a version whose content equals the published one (a no-op
      update) the rendering can still differ: `Latest` preloads keys and services without ORDER BY. Whether the rendering
      of version `row` of DID `did` is the published one is data supplied by the harness (default: yes); every theorem
      holds for all values. -/
  rawSame : Nat → Nat → Bool := fun _ _ => true

structure World where
  dids : List DidRow := []
  keys : List Nat := []
  pub : Nat → List Content := fun _ => []
  next : Nat := 0
  now : Nat := 0

inductive Op where
  | create (subject : String)
  | addSvc (subject : String) (s : String)
  | updSvc (subject : String) (old new : String)
  | delSvc (subject : String) (s : String)
  | addKey (subject : String)
  | deactivate (subject : String)
  deriving DecidableEq, Repr, Inhabited

def Op.subject : Op → String
  | .create s | .addSvc s _ | .updSvc s _ _ | .delSvc s _ | .addKey s | .deactivate s => s

/-- does the per-DID step call `Latest` (record-not-found is an error)? `Deactivate` does not. -/
def Op.needsLatest : Op → Bool
  | .deactivate _ | .create _ => false
  | _ => true

def Op.chType : Op → ChType
  | .create _ => .created
  | .deactivate _ => .deactivated
  | _ => .updated

/-! ### tx1 -/

/-- `CreateOrUpdate`: `Version: latest.Version + 1`, `latest.Version = -1` when there is none -/
def nextVersion : List Ver → Nat
  | [] => 0
  | v :: _ => v.n + 1

/-- the closure passed to `applyToDIDDocuments` (or `Deactivate`'s body) on one DID; `none` = "no changes are made".
    `cur` = `Latest` (absent only for `Deactivate` on a DID without documents). `fresh` = the generated key id. -/
def rowOp (o : Op) (fresh : Nat) (cur : Option Content) : Option Content :=
  match o, cur with
  | .deactivate _, _ => some Content.empty
  | .addSvc _ s, some c => if c.svcs.contains s then none else some { c with svcs := c.svcs ++ [s] }
  | .updSvc _ old new, some c => some { c with svcs := c.svcs.filter (· != old) ++ [new] }
  | .delSvc _ s, some c => some { c with svcs := c.svcs.filter (· != s) }
  | .addKey _, some c => some { c with vms := c.vms ++ [fresh] }
  | _, _ => none

/-- `Latest` preloads the services through the join table, whose key is (version, service id): a service that the
    rendered document (`Raw`) lists twice comes back once -/
def loadContent (c : Content) : Content := { c with svcs := c.svcs.eraseDups }

/-- the new content for one DID row, if the operation changes it -/
def newContent (o : Op) (base : Nat) (r : DidRow) : Option Content :=
  if r.subject = o.subject then rowOp o (base + r.id) (r.vers.head?.map (fun v => loadContent v.c)) else none

/-- `CreateOrUpdate` + the change-log row saved in the same transaction -/
def pushRow (o : Op) (base now : Nat) (r : DidRow) : DidRow :=
  match newContent o base r with
  | some c =>
    { r with vers := { row := base + r.id, n := nextVersion r.vers, ts := now, c := c,
                       pending := some { typ := o.chType, tx := base } } :: r.vers }
  | none => r

def changeOf (o : Op) (base now : Nat) (r : DidRow) : Option Change :=
  (newContent o base r).map fun c =>
    { did := r.id, method := r.method, row := base + r.id, typ := o.chType, tx := base, ts := now, c := c }

def freshKeys (o : Op) (chs : List Change) (base : Nat) : List Nat :=
  match o with
  | .addKey _ => chs.map (fun ch => base + ch.did)
  | _ => []

/-- first transaction of `applyToDIDDocuments` / `Deactivate`. An error rolls the SQL transaction back. -/
def tx1Update (w : World) (o : Op) : Res (World × List Change) :=
  let mine := w.dids.filter (fun r => r.subject = o.subject)
  if mine.isEmpty then .err "nosubject"
  else if o.needsLatest && mine.any (fun r => r.vers.isEmpty) then .err "notfound"
  else
    let chs := w.dids.filterMap (changeOf o w.next w.now)
    .ok ({ w with dids := w.dids.map (pushRow o w.next w.now),
                  keys := w.keys ++ freshKeys o chs w.next, next := 2 * w.next + 2 }, chs)

def newDid (base now : Nat) (s : String) (m : Method) : DidRow :=
  { id := base + m.idx, method := m, subject := s,
    vers := [{ row := base + m.idx, n := nextVersion [], ts := now, c := { vms := [base + m.idx], svcs := [] },
               pending := some { typ := .created, tx := base } }] }

def createdChange (base now : Nat) (m : Method) : Change :=
  { did := base + m.idx, method := m, row := base + m.idx, typ := .created, tx := base, ts := now,
    c := { vms := [base + m.idx], svcs := [] } }

/-! #### the subject name with v1 naming (`NutsLegacyNamingOption`)

`Create`'s first loop (`range r.MethodManagers`, random order) generates a document per method and — with the option —
replaces the subject name by the did:nuts DID when it visits did:nuts. The DID rows are stored by a SECOND loop, after the
first has finished, with `orm.DID{ID: …, Subject: subject}`: every row gets the FINAL name. -/

/-- the name after the first loop: the provisional one, or (v1 naming, did:nuts enabled) the did:nuts DID -/
def finalSubject (legacy : Bool) (order : List Method) (provisional nutsDid : String) : String :=
  if legacy && order.contains .nuts then nutsDid else provisional

/-- as coded: the stored row of every method carries the final name -/
def storedSubject (legacy : Bool) (order : List Method) (provisional nutsDid : String) (_m : Method) : String :=
  finalSubject legacy order provisional nutsDid

/-- the variant that links a DID to the name known WHEN ITS METHOD IS VISITED (not what the code does) -/
def subjectAtVisit (legacy : Bool) (provisional nutsDid : String) : List Method → Method → String
  | [], _ => provisional
  | x :: rest, m =>
    let now := if legacy && x == .nuts then nutsDid else provisional
    if x == m then now else subjectAtVisit legacy now nutsDid rest m

/-- `NewDIDManager(tx).FindBySubject(subject)` finds something -/
def subjectExists (w : World) (s : String) : Bool := w.dids.any (fun r => r.subject = s)

/-- the writing part of `Create`'s first transaction: a DID, a first version and a change record per enabled method -/
def createWrite (cfg : Cfg) (w : World) (s : String) : World × List Change :=
  ({ w with dids := w.dids ++ cfg.methods.map (newDid w.next w.now s),
            keys := w.keys ++ cfg.methods.map (fun m => w.next + m.idx), next := 2 * w.next + 2 },
   cfg.methods.map (createdChange w.next w.now))

/-- first transaction of `Create` (subject given with `SubjectCreationOption`, or a fresh uuid): the existence check and
    the write are ONE SQL transaction, i.e. one atomic step (regenerated fact `createChecksSubjectInsideTransaction`) -/
def tx1Create (cfg : Cfg) (w : World) (s : String) : Res (World × List Change) :=
  if subjectExists w s then .err "exists" else .ok (createWrite cfg w s)

def tx1 (cfg : Cfg) (w : World) (o : Op) : Res (World × List Change) :=
  match o with
  | .create s => tx1Create cfg w s
  | _ => tx1Update w o

/-! ### Commit per method -/

def pubLatest (pub : Nat → List Content) (d : Nat) : Option Content := (pub d).head?

def publish (pub : Nat → List Content) (d : Nat) (c : Content) : Nat → List Content :=
  fun x => if x = d then c :: pub d else pub x

/-- `ManagedDocumentValidator` (the part that can fire here): "invalid service: ID must be unique" -/
def hasDup : List String → Bool
  | [] => false
  | x :: xs => xs.contains x || hasDup xs

/-- didnuts `Commit`: onCreate publishes; onUpdate resolves the current document, does nothing when it is
    deactivated ("should not occur … won't update"), else validates and publishes; onDeactivate = `Update` with the empty document,
    which fails on a deactivated document -/
def commitNuts (pub : Nat → List Content) (ch : Change) : Res (Nat → List Content) :=
  match ch.typ with
  | .created => .ok (publish pub ch.did ch.c)
  | .updated =>
    match pubLatest pub ch.did with
    | none => .err "notfound"
    | some cur =>
      if cur.deactivated then .ok pub
      else if hasDup ch.c.svcs then .err "invalidservice"
      else .ok (publish pub ch.did ch.c)
  | .deactivated =>
    match pubLatest pub ch.did with
    | none => .err "notfound"
    | some cur => if cur.deactivated then .err "deactivated" else .ok (publish pub ch.did Content.empty)

inductive Fault where
  | none
  /-- the did:nuts `Commit` returns an error (network down, …) -/
  | failNuts
  /-- the process stops right before the k-th `Commit` call; k ≥ number of calls: before the clean-up transaction -/
  | stop (k : Nat)
  /-- the k-th `did_change_log` write of the first transaction fails (DB error): the SQL transaction is rolled back -/
  | logFail (k : Nat)
  /-- the process stops at the k-th `did_change_log` write of the first transaction: the SQL transaction never commits -/
  | logStop (k : Nat)
  deriving DecidableEq, Repr, Inhabited

/-- a fault inside the first transaction, which writes `n` change records: the caller-visible result if it fires -/
def Fault.inTx1 (f : Fault) (n : Nat) : Option String :=
  match f with
  | .logFail k => if k < n then some "err:injected" else Option.none
  | .logStop k => if k < n then some "stopped" else Option.none
  | _ => Option.none

inductive Phase where
  | completed (calls : Nat)
  | failed (e : String)
  | stopped
  deriving DecidableEq, Repr

/-- `for method, manager := range r.MethodManagers { if change, ok := changes[method]; ok { Commit … break on error } }` -/
def commitLoop (f : Fault) (chs : List Change) : List Method → Nat → (Nat → List Content) → (Nat → List Content) × Phase
  | [], i, pub => (pub, .completed i)
  | m :: ms, i, pub =>
    match chs.find? (fun ch => ch.method = m) with
    | none => commitLoop f chs ms i pub
    | some ch =>
      if f = .stop i then (pub, .stopped)
      else match m with
        | .web => commitLoop f chs ms (i + 1) pub
        | .nuts =>
          if f = .failNuts then (pub, .failed "injected")
          else match commitNuts pub ch with
            | .ok pub' => commitLoop f chs ms (i + 1) pub'
            | .err e => (pub, .failed e)
            | .panic s => (pub, .failed ("panic:" ++ s))

/-! ### tx2 and the sweep -/

/-- `tx.Where("id = ?", change.DIDDocumentVersionID).Delete(&orm.DidDocument{})` for every change of the list -/
def dropVersions (chs : List Change) (r : DidRow) : DidRow :=
  { r with vers := r.vers.filter (fun v => !chs.any (fun ch => ch.did = r.id ∧ ch.row = v.row)) }

/-- `tx.Where("id = ?", change.DIDDocumentVersion.DID.ID).Delete(&orm.DID{})` for the `created` changes -/
def createdIn (chs : List Change) (r : DidRow) : Bool := chs.any (fun ch => ch.typ = .created ∧ ch.did = r.id)

/-- `deleteUncommittedChange` for every change of the list -/
def deleteChanges (cfg : Cfg) (chs : List Change) (w : World) : World :=
  let dids := w.dids.map (dropVersions chs)
  { w with dids := if cfg.rollbackDeletesCreatedDID then dids.filter (fun r => !createdIn chs r) else dids }

def clearTx (tx : Nat) (v : Ver) : Ver :=
  match v.pending with
  | some p => if p.tx = tx then { v with pending := none } else v
  | none => v

/-- `tx.Where("transaction_id = ?", tx).Delete(&orm.DIDChangeLog{})` -/
def deleteLogTx (tx : Nat) (w : World) : World :=
  { w with dids := w.dids.map (fun r => { r with vers := r.vers.map (clearTx tx) }) }

def tx2 (cfg : Cfg) (w : World) (chs : List Change) (failed : Bool) : World :=
  if failed then deleteChanges cfg chs w
  else match chs with
    | [] => w
    | ch :: _ => deleteLogTx ch.tx w

/-- one operation whose first transaction committed (or failed by itself): resulting world and the caller-visible result -/
def stepOpCore (cfg : Cfg) (w : World) (o : Op) (order : List Method) (f : Fault) : World × String :=
  match tx1 cfg w o with
  | .err e => (w, "err:" ++ e)
  | .panic s => (w, "panic:" ++ s)
  | .ok (w1, chs) =>
    match commitLoop f chs order 0 w1.pub with
    | (pub, .stopped) => ({ w1 with pub := pub }, "stopped")
    | (pub, .failed e) => (tx2 cfg { w1 with pub := pub } chs true, "err:" ++ e)
    | (pub, .completed i) =>
      match f with
      | .stop k => if i ≤ k then ({ w1 with pub := pub }, "stopped") else (tx2 cfg { w1 with pub := pub } chs false, "ok")
      | _ => (tx2 cfg { w1 with pub := pub } chs false, "ok")

/-- one operation with a fault. The versions AND their change records are written by ONE SQL transaction
    (`transactionHelper`: `tx.Save(&e)` inside the `r.DB.Transaction` closure — regenerated fact): a failure or a stop
    while the change records are being written leaves nothing behind. -/
def stepOp (cfg : Cfg) (w : World) (o : Op) (order : List Method) (f : Fault) : World × String :=
  match tx1 cfg w o with
  | .ok (_, chs) =>
    match f.inTx1 chs.length with
    | some r => (w, r)
    | none => stepOpCore cfg w o order f
  | _ => stepOpCore cfg w o order f

/-- `IsCommitted` -/
def isCommitted (cfg : Cfg) (pub : Nat → List Content) (ch : Change) : Res Bool :=
  match ch.method with
  | .web => .ok true
  | .nuts =>
    match pubLatest pub ch.did with
    | none => if cfg.notFoundIsUncommitted then .ok false else .err "notfound"
    | some cur => .ok (cur == ch.c && cfg.rawSame ch.did ch.row)

/-- the `committed` loop of `Rollback` over one transaction's changes (stops at the first uncommitted one) -/
def committedLoop (cfg : Cfg) (pub : Nat → List Content) : List Change → Res Bool
  | [] => .ok true
  | ch :: chs =>
    match isCommitted cfg pub ch with
    | .ok true => committedLoop cfg pub chs
    | r => r

/-- `did_change_log inner join did_document_version`, DID preloaded -/
def pendingOf (r : DidRow) : List Change :=
  r.vers.filterMap fun v =>
    v.pending.map fun p => { did := r.id, method := r.method, row := v.row, typ := p.typ, tx := p.tx, ts := v.ts, c := v.c }

def allChanges (w : World) : List Change := w.dids.flatMap pendingOf

/-- `… on updated_at < now - threshold` -/
def oldChanges (cfg : Cfg) (w : World) : List Change :=
  (allChanges w).filter (fun ch => ch.ts + cfg.threshold < w.now)

/-- the changes the sweep groups by transaction: the old ones, or (whole-transaction mode) every change of a transaction
    that has an old one -/
def sweepChanges (cfg : Cfg) (w : World) : List Change :=
  if cfg.sweepWholeTx then (allChanges w).filter (fun ch => (oldChanges cfg w).any (fun o => o.tx = ch.tx))
  else oldChanges cfg w

def sweepApply (cfg : Cfg) (w : World) (group : List Change) (tx : Nat) (committed : Bool) : World :=
  deleteLogTx tx (if committed then w else deleteChanges cfg group w)

def sweepTxs (cfg : Cfg) (old : List Change) : List Nat → World → Res World
  | [], w => .ok w
  | tx :: txs, w =>
    let group := old.filter (fun ch => ch.tx = tx)
    match committedLoop cfg w.pub group with
    | .ok b => sweepTxs cfg old txs (sweepApply cfg w group tx b)
    | .err e => .err e
    | .panic s => .panic s

/-- `Rollback`; `txOrder` = iteration order of `groupedChanges`. An error rolls the sweep's SQL transaction back. -/
def sweep (cfg : Cfg) (txOrder : List Nat → List Nat) (w : World) : World × String :=
  let old := sweepChanges cfg w
  match sweepTxs cfg old (txOrder (old.map (·.tx)).eraseDups) w with
  | .ok w' => (w', "ok")
  | .err e => (w, "err:" ++ e)
  | .panic s => (w, "panic:" ++ s)

def tick (d : Nat) (w : World) : World := { w with now := w.now + d }

/-- every `CreateOrUpdate` reads the clock itself (`UpdatedAt: time.Now().Unix()`): the versions one transaction writes
    need not carry the same stamp. `restamp f` replaces the stamps (a schedule event; the harness uses it to make the
    pending versions of one method older) -/
def restamp (f : DidRow → Ver → Nat) (w : World) : World :=
  { w with dids := w.dids.map (fun r => { r with vers := r.vers.map (fun v => { v with ts := f r v }) }) }

/-! ### observations -/

/-- `Resolver.Resolve` (content part) -/
def resolve (w : World) (d : Nat) : Res Content :=
  match w.dids.find? (fun r => r.id = d) with
  | none => .err "notfound"
  | some r =>
    match r.vers with
    | [] => .err "notfound"
    | v :: _ => if v.c.deactivated then .err "deactivated" else .ok v.c

/-- `ListDIDs` (rows of the subject; the caller sorts by method preference) -/
def listDIDs (w : World) (s : String) : List DidRow := w.dids.filter (fun r => r.subject = s)

/-- number of rows of `did_change_log` -/
def logCount (w : World) : Nat := (w.dids.map (fun r => (r.vers.filter (fun v => v.pending.isSome)).length)).sum

end Nuts.C13
