/-
  C13 — the request layer instantiated with what /repo's source says today (regenerated facts). Used by the driver and by
  the `fact_*` obligations in Props/C13.lean.
-/
import NutsModel.C13.Request
import NutsModel.Facts.C13

namespace Nuts.C13.Now
open Nuts.C13

/-- the character class of `subjectPattern` as written in manager.go -/
def cls : CharClass := Nuts.Facts.C13.subjectPatternClass

/-- `Create`'s generation loop refuses key agreement on did:web before `NewDocument` -/
def createRefusesWeb : Bool :=
  Nuts.Facts.C13.createKeyAgreementGuards ==
    ["range:r.MethodManagers: keyFlags.Is(orm.KeyAgreementUsage) && method == \"web\" => nil,ErrKeyAgreementNotSupported"]
  && Nuts.Facts.C13.encryptionKeyUsage == "KeyAgreementUsage"

/-- `AddVerificationMethod`'s closure refuses key agreement on a did:web DID -/
def addKeyRefusesWeb : Bool :=
  Nuts.Facts.C13.addKeyKeyAgreementGuards ==
    ["closure: keyUsage.Is(orm.KeyAgreementUsage) && id.Method == \"web\" => nil,ErrKeyAgreementNotSupported"]

/-- the rank `sortDIDsByMethod` gives a method that is not in the preferred order -/
def absent : Int := Nuts.Facts.C13.sortAbsentRank

end Nuts.C13.Now
