/-
  C08 — abstract specification: what the digests, the listing, the counters and the head must be, as plain folds over
  the set of stored transactions (no tree, no pages on disk, no in-memory copies).  Core Lean only.
-/
import NutsModel.C08.State

namespace Nuts.C08

variable {R G : Type}

/-- digest of all references: insert them one by one into the empty `Data` -/
def specAll (o : Ops R G) (l : List (R × Nat)) : G :=
  l.foldl (fun g rc => o.ins g rc.1) o.zero

/-- digest "up to clock `c`": the references whose clock lies on a page `≤` the page of `c` -/
def specUpTo (o : Ops R G) (ls : Nat) (l : List (R × Nat)) (c : Nat) : G :=
  specAll o (l.filter (fun rc => decide (rc.2 / ls ≤ c / ls)))

/-- highest clock of a set of transactions (0 for the empty set, like the absent `lc_high` key) -/
def maxClock (S : List Tx) : Nat := S.foldl (fun m t => max m t.clock) 0

/-- the clock a digest for request `c` is valid for: the end of `c`'s page, capped by the highest clock -/
def specClock (ls : Nat) (S : List Tx) (c : Nat) : Nat := min (maxClock S) ((c / ls + 1) * ls - 1)

def txLt (x y : Tx) : Bool := x.clock < y.clock || (x.clock == y.clock && x.ref.toNat < y.ref.toNat)

/-- the clock-ordered listing: transactions with clock in `[a, b)` ordered by (clock, ref bytes) -/
def specListing (S : List Tx) (a b : Nat) : List Ref :=
  (sortBy txLt (S.filter (fun t => decide (a ≤ t.clock ∧ t.clock < b)))).map (·.ref)

end Nuts.C08
