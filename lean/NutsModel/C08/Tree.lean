/-
  C08 — model of network/dag/tree/tree.go (generic over the `Data` held in the nodes).  Core Lean only.

  Modelling decisions (DESIGN.md §5 C08):
  * Go `*node` is `Node`: `nil` (nil pointer), `leaf` (a node whose `left == nil`; such a node never gets a right
    child in tree.go: `getNextNode` returns early for leaves) and `branch`.
  * Go `Data` (interface with in-place mutation + Clone) is a value of an arbitrary type `G` with the operations
    `Ops` (zero = `New()`, add/sub = `Add`/`Subtract`, ins/del = `Insert`/`Delete`, empty = `Empty()`); what the
    proofs need of them is the separate structure `Lawful` (commutative group, insert = add a singleton).
    One proof therefore covers XOR and IBLT.
  * `uint32` clocks are `Nat`. The Go `treeSize *= 2` wraps to 0 at 2^32 (see `reRoot32`/`reRoot_overflow_witness`);
    every statement tying the model to the code assumes clocks `< 2^31`.
  * loops that are not structurally recursive (`for clock >= treeSize`, the descent that creates branches, `Load`'s
    pairing loop, `newBranch`) take fuel; the callers pass fuel that is provably enough (`TInv` gives
    `height < treeSize`), so the fuel-exhausted alternatives are never evaluated on reachable trees.
  * `dirtyLeaves` (map key → *node) is the list of keys; `Updates()` reads the data of those leaves from the tree.
  * marshalling of leaf data to bytes is the identity (contract: MarshalBinary/UnmarshalBinary round-trip; exercised
    by the harness through restart).
-/
import NutsModel.Base

namespace Nuts.C08

/-- the operations of Go's `tree.Data` on values of type `G`, keyed by references of type `R` -/
structure Ops (R G : Type) where
  zero : G
  add : G → G → G
  sub : G → G → G
  ins : G → R → G
  del : G → R → G
  empty : G → Bool

/-- what the proofs use: a commutative group with subtraction, `Insert` adds a singleton -/
structure Lawful {R G : Type} (o : Ops R G) : Prop where
  add_comm : ∀ a b, o.add a b = o.add b a
  add_assoc : ∀ a b c, o.add (o.add a b) c = o.add a (o.add b c)
  add_zero : ∀ a, o.add a o.zero = a
  add_sub : ∀ a b, o.sub (o.add a b) b = a
  ins_eq : ∀ g r, o.ins g r = o.add g (o.ins o.zero r)

inductive Node (G : Type) where
  | nil
  | leaf (split limit : Nat) (data : G)
  | branch (split limit : Nat) (data : G) (left right : Node G)
  deriving Repr, DecidableEq, Inhabited

structure Tree (G : Type) where
  treeSize : Nat
  leafSize : Nat
  root : Node G
  dirty : List Nat := []
  orphaned : List Nat := []
  deriving Repr, DecidableEq

variable {R G : Type}

namespace Node

def isNil : Node G → Bool | nil => true | _ => false

/-- `n.data`; Go dereferences the pointer, so `nil` is never asked on a reachable tree (every use is behind a
    `!= nil` test or on the root, see `TInv`). -/
def data (o : Ops R G) : Node G → G
  | nil => o.zero
  | leaf _ _ d => d
  | branch _ _ d _ _ => d

def limit : Node G → Nat
  | nil => 0
  | leaf _ l _ => l
  | branch _ l _ _ _ => l

def split : Node G → Nat
  | nil => 0
  | leaf s _ _ => s
  | branch s _ _ _ _ => s

/-- the leaves below a node, left to right, as (key = splitLC, data) -/
def leaves : Node G → List (Nat × G)
  | nil => []
  | leaf s _ d => [(s, d)]
  | branch _ _ _ l r => l.leaves ++ r.leaves

/-- `rightmostLeafClock` -/
def rightmost : Node G → Nat
  | nil => 0
  | leaf _ l _ => l - 1
  | branch _ l _ left right =>
    match right with
    | nil => (match left with
              | nil => l - 1
              | _ => left.rightmost)
    | _ => right.rightmost

/-- the loop of `ZeroTo` started at `current = n` with accumulated `data = acc` -/
def zeroTo (o : Ops R G) (clock : Nat) : Node G → G → G × Nat
  | nil, acc => (acc, 0)
  | leaf _ l _, acc => (acc, l - 1)
  | branch s l d left right, acc =>
    if clock < s then
      let acc' := match right with
        | nil => acc
        | _ => o.sub acc (right.data o)
      match left with
      | nil => (acc', (branch s l d left right).rightmost)
      | _ => left.zeroTo o clock acc'
    else
      match right with
      | nil => (acc, (branch s l d left right).rightmost)
      | _ => right.zeroTo o clock acc

/-- `node.rebuild` -/
def rebuild (o : Ops R G) : Node G → Node G
  | nil => nil
  | leaf s l d => leaf s l d
  | branch s l _ left right =>
    let left' := left.rebuild o
    match right with
    | nil => branch s l (left'.data o) left' nil
    | _ =>
      let right' := right.rebuild o
      branch s l (o.add (left'.data o) (right'.data o)) left' right'

end Node

/-- `newBranch(start, stop)`: a string of left nodes down to the first leaf of the range; second component: the keys
    added to `dirtyLeaves`. Fuel: `stop - start` is enough (`newBranch_eq`). -/
def newBranchF (o : Ops R G) (ls : Nat) : Nat → Nat → Nat → Node G × List Nat
  | 0, start, stop => (.leaf ((stop + start) / 2) stop o.zero, [(stop + start) / 2])
  | fuel + 1, start, stop =>
    let split := (stop + start) / 2
    if stop - start > ls then
      let r := newBranchF o ls fuel start split
      (.branch split stop o.zero r.1 .nil, r.2)
    else (.leaf split stop o.zero, [split])

def newBranch (o : Ops R G) (ls start stop : Nat) : Node G × List Nat :=
  newBranchF o ls (stop - start) start stop

/-- the loop of `updateOrCreatePath` started at `next = n`: apply `f` to the data of every node on the path to the
    leaf holding `clock`, creating missing right branches (`getNextNode`). Second component: keys made dirty. -/
def updateF (o : Ops R G) (ls : Nat) (f : G → G) (clock : Nat) : Nat → Node G → Node G × List Nat
  | 0, n => (n, [])
  | _ + 1, .nil => (.nil, [])
  | _ + 1, .leaf s l d => (.leaf s l (f d), [s])
  | fuel + 1, .branch s l d left right =>
    if clock < s then
      let r := updateF o ls f clock fuel left
      (.branch s l (f d) r.1 right, r.2)
    else
      match right with
      | .nil =>
        let nb := newBranch o ls s l
        let r := updateF o ls f clock fuel nb.1
        (.branch s l (f d) left r.1, nb.2 ++ r.2)
      | _ =>
        let r := updateF o ls f clock fuel right
        (.branch s l (f d) left r.1, r.2)

namespace Tree

/-- `New(prototype, leafSize)` / `resetDefaults` -/
def new (o : Ops R G) (leafSize : Nat) : Tree G :=
  { treeSize := leafSize, leafSize := leafSize, root := .leaf (leafSize / 2) leafSize o.zero,
    dirty := [leafSize / 2], orphaned := [] }

/-- `reRoot` -/
def reRoot (o : Ops R G) (t : Tree G) : Tree G :=
  { t with root := .branch t.treeSize (2 * t.treeSize) (t.root.data o) t.root .nil, treeSize := 2 * t.treeSize }

/-- `for clock >= t.treeSize { t.reRoot() }` -/
def growF (o : Ops R G) (clock : Nat) : Nat → Tree G → Tree G
  | 0, t => t
  | fuel + 1, t => if clock ≥ t.treeSize then growF o clock fuel (reRoot o t) else t

def grow (o : Ops R G) (t : Tree G) (clock : Nat) : Tree G := growF o clock (clock + 1) t

/-- `updateOrCreatePath` -/
def updatePath (o : Ops R G) (t : Tree G) (clock : Nat) (f : G → G) : Tree G :=
  let t1 := grow o t clock
  let r := updateF o t1.leafSize f clock t1.treeSize t1.root
  { t1 with root := r.1, dirty := t1.dirty ++ r.2 }

def insert (o : Ops R G) (t : Tree G) (ref : R) (clock : Nat) : Tree G :=
  updatePath o t clock (fun d => o.ins d ref)

def delete (o : Ops R G) (t : Tree G) (ref : R) (clock : Nat) : Tree G :=
  updatePath o t clock (fun d => o.del d ref)

/-- `Root()` -/
def rootData (o : Ops R G) (t : Tree G) : G := t.root.data o

/-- `ZeroTo(clock)` -/
def zeroTo (o : Ops R G) (t : Tree G) (clock : Nat) : G × Nat :=
  t.root.zeroTo o clock (t.root.data o)

/-- `Updates()` restricted to what the DAG uses: (key, data) of the dirty leaves; `orphaned` is always empty here
    because `DropLeaves` is not modelled (it has no caller outside the tree package's tests). -/
def updates (t : Tree G) : List (Nat × G) :=
  t.root.leaves.filter (fun kv => t.dirty.contains kv.1)

def resetUpdates (t : Tree G) : Tree G := { t with dirty := [], orphaned := [] }

end Tree

/-- one level of `Load`'s pairing loop (`halfNode` already doubled) -/
def pairUp (o : Ops R G) (half : Nat) : List (Node G) → List (Node G)
  | [] => []
  | [x] => [.branch x.limit (x.limit + half) (x.data o) x .nil]
  | x :: y :: rest => .branch x.limit (x.limit + half) (o.add (x.data o) (y.data o)) x y :: pairUp o half rest

/-- `for len(nodes) > 1 { halfNode *= 2; … }` -/
def buildF (o : Ops R G) : Nat → Nat → List (Node G) → List (Node G)
  | 0, _, ns => ns
  | fuel + 1, half, ns => if ns.length > 1 then buildF o fuel (half * 2) (pairUp o (half * 2) ns) else ns

namespace Tree

/-- `Load(leaves)`; `kvs` is the content of the map sorted by key (the Go code sorts the keys itself).
    No leaves: the tree is reset to its empty state (the original code returned without touching the tree, which left
    a rolled-back first transaction in the in-memory trees — repaired in /repo, see known_findings.json). -/
def load (o : Ops R G) (loadEmptyResets : Bool) (t : Tree G) (kvs : List (Nat × G)) : Tree G :=
  match kvs with
  | [] => if loadEmptyResets then Tree.new o t.leafSize else t
  | (k0, _) :: _ =>
    match buildF o kvs.length k0 (kvs.map fun kv => Node.leaf kv.1 (kv.1 + k0) kv.2) with
    | [r] => { root := r, leafSize := 2 * k0, treeSize := r.limit, dirty := [], orphaned := [] }
    | _ => t

/-- the descent of `Replace` from `next = n`: creates missing right branches on the way; `some` = the leaf was
    reached and replaced, `none` in the third component = a leaf with `clock >= limitLC` was reached (caller reRoots). -/
def replaceF (o : Ops R G) (ls : Nat) (clock : Nat) (d : G) : Nat → Node G → Node G × List Nat × Bool
  | 0, n => (n, [], false)
  | _ + 1, .nil => (.nil, [], false)
  | _ + 1, .leaf s l old => if clock ≥ l then (.leaf s l old, [], false) else (.leaf s l d, [s], true)
  | fuel + 1, .branch s l bd left right =>
    if clock < s then
      let r := replaceF o ls clock d fuel left
      (.branch s l bd r.1 right, r.2.1, r.2.2)
    else
      match right with
      | .nil =>
        let nb := newBranch o ls s l
        let r := replaceF o ls clock d fuel nb.1
        (.branch s l bd left r.1, nb.2 ++ r.2.1, r.2.2)
      | _ =>
        let r := replaceF o ls clock d fuel right
        (.branch s l bd left r.1, r.2.1, r.2.2)

/-- `Replace(clock, data)`: descend; on a too-small tree reRoot and start again; then `rebuild` -/
def replaceLoop (o : Ops R G) (clock : Nat) (d : G) : Nat → Tree G → Tree G
  | 0, t => t
  | fuel + 1, t =>
    let r := replaceF o t.leafSize clock d (t.treeSize + 1) t.root
    let t1 := { t with root := r.1, dirty := t.dirty ++ r.2.1 }
    if r.2.2 then { t1 with root := t1.root.rebuild o }
    else replaceLoop o clock d fuel (reRoot o t1)

def replace (o : Ops R G) (t : Tree G) (clock : Nat) (d : G) : Tree G :=
  replaceLoop o clock d (clock + 2) t

end Tree

/-- the Go arithmetic of `reRoot` on `uint32`: `treeSize *= 2` -/
def reRoot32 (treeSize : BitVec 32) : BitVec 32 := treeSize * 2

end Nuts.C08
