/-
  C08 — `tree.DropLeaves` / `dropLeavesR` (tree.go) and the orphan handling of `treeStore.writeWithoutLock`.
  Core Lean only.  DropLeaves has no caller in the node; it is part of the anchored tree API.
-/
import NutsModel.C08.State

namespace Nuts.C08
variable {R G : Type}

/-- `dropLeavesR(n, update)`: result node, dirty keys, orphaned keys. `n.left.isLeaf()` is a value-receiver call:
    on a node without a left child (a leaf) it dereferences nil. -/
def Node.dropLeaves : Node G → Res (Node G × List Nat × List Nat)
  | .nil => .ok (.nil, [], [])
  | .leaf _ _ _ => .panic "nil dereference: n.left.isLeaf()"
  | .branch s l d left right =>
    match left with
    | .nil => .panic "nil dereference: n.left.isLeaf()"
    | .leaf ls _ _ =>
      .ok (.leaf s l d, [s], ls :: (match right with | .nil => [] | r => [r.split]))
    | .branch _ _ _ _ _ =>
      match left.dropLeaves with
      | .ok (l', d1, o1) =>
        (match right.dropLeaves with
         | .ok (r', d2, o2) => .ok (.branch s l d l' r', d1 ++ d2, o1 ++ o2)
         | .err e => .err e
         | .panic p => .panic p)
      | .err e => .err e
      | .panic p => .panic p

/-- `DropLeaves()`: nothing happens on a tree whose root is a leaf; otherwise every lowest branch becomes a leaf, the
    dirty set is REPLACED by the new leaves, the old leaves are added to the orphans and the leaf size doubles -/
def Tree.dropLeaves (t : Tree G) : Res (Tree G) :=
  match t.root with
  | .nil => .ok t
  | .leaf _ _ _ => .ok t
  | .branch _ _ _ .nil _ => .ok t
  | root =>
    match root.dropLeaves with
    | .ok (r, dirty, orph) =>
      .ok { t with root := r, dirty := dirty, orphaned := t.orphaned ++ orph, leafSize := t.leafSize * 2 }
    | .err e => .err e
    | .panic p => .panic p

/-- `treeStore.writeWithoutLock` including its orphan loop: delete the orphaned leaves, then put the dirty ones -/
def persistFull (t : Tree G) (shelf : List (Nat × G)) : Tree G × List (Nat × G) :=
  let kept := shelf.filter (fun kv => !t.orphaned.contains kv.1)
  (t.resetUpdates, t.updates.foldl (fun s kv => putSorted kv.1 kv.2 s) kept)

end Nuts.C08
