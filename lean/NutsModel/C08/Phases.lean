/-
  C08 — `state.Add` as the TWO store transactions it really is (state.go: Add), and concurrent callers.  Core Lean only.

  * read transaction (`s.db.Read`): `present = s.graph.isPresent(...)`; when not present the verifiers run
    (`verifyTX`); an error ends the call, `present` ends the call with nil.
  * `s.addMutex.Lock()` + write transaction (`s.db.Write`, `WithWriteLock`): the presence check AGAIN ("a concurrent
    call could've added the TX"), `txAdded = true`, payload, `graph.add`, events, `updateState`.
  * hooks: `OnRollback` reloads the trees; the third `AfterCommit` hook is `if txAdded { transactionCount.Inc() }`.

  Between the two transactions of one call any number of other calls (and repair steps) run: the write function works
  on the state as it is THEN, with a verification verdict that was computed on an OLDER state.
-/
import NutsModel.C08.Metric

namespace Nuts.C08

variable {n : Nat}

/-- how the read transaction of `Add` ends -/
inductive ReadOut where
  /-- `present` — the call returns nil -/
  | present
  /-- a verifier refused — the call returns that error -/
  | refused (r : Res Unit)
  /-- the call goes on to the add mutex and the write transaction -/
  | proceed
  deriving Repr, DecidableEq

/-- the read transaction of `Add` -/
def addRead (s : State n) (tx : Tx) : ReadOut :=
  if s.disk.isPresent tx.ref then .present
  else match s.disk.verifyPrevs tx with
    | .ok () => .proceed
    | r => .refused r

/-- the write function of `Add` from `txAdded = true` on (the transaction was found absent inside the write
    transaction), with its commit / rollback -/
def writeBody (cfg : Cfg) (s : State n) (tx : Tx) (opt : AddOpts) : State n × Res Unit :=
    if opt.payload == some false then (rollback cfg s, .err "payload-hash-mismatch")
    else
    let np1 := if opt.payload.isSome then 1 else 0
    let np := np1 + np1
    if putFailsIn opt.putFails 0 np1 then (rollback cfg s, .err "put-failed")
    else if opt.payload.isSome && opt.savePayloadEventFails then (rollback cfg s, .err "save-failed")
    else if putFailsIn opt.putFails np1 np then (rollback cfg s, .err "put-failed")
    else match s.disk.graphAdd tx with
      | .err e => (rollback cfg s, .err e)
      | .panic e => (rollback cfg s, .panic e)
      | .ok d =>
        let ng := np + 4 + (if tx.clock > s.disk.lcHigh || tx.clock == 0 then 1 else 0)
        if putFailsIn opt.putFails np ng then (rollback cfg s, .err "put-failed") else
        if opt.saveTxEventFails then (rollback cfg s, .err "save-failed") else
        if putFailsIn opt.putFails ng (ng + 1) then (rollback cfg (partialUpdate s tx 1), .err "put-failed") else
        if putFailsIn opt.putFails (ng + 1) (ng + 2) then (rollback cfg (partialUpdate s tx 2), .err "put-failed") else
        let s' := updateState s d tx
        if opt.commitFails then (rollback cfg { s' with disk := s.disk }, .err "commit-failed")
        else (s', .ok ())

/-- the write transaction of `Add` on the state as it is when the write lock is obtained. Third component: `txAdded`. -/
def addWrite (cfg : Cfg) (s : State n) (tx : Tx) (opt : AddOpts) : State n × Res Unit × Bool :=
  if s.disk.isPresent tx.ref then
    -- `return nil` from the write function: an empty write transaction commits (or fails to)
    (if opt.commitFails then (rollback cfg s, .err "commit-failed", false) else (s, .ok (), false))
  else
    let r := writeBody cfg s tx opt
    (r.1, r.2, true)

/-- the third `AfterCommit` hook: runs only when the write transaction committed, counts only when `txAdded` -/
def metricHook (metric : Nat) (txAdded : Bool) (res : Res Unit) : Nat :=
  if res = .ok () ∧ txAdded = true then metric + 1 else metric

/-- a state object with its collector and the `Add` calls that are between their read and their write transaction -/
structure Conc (n : Nat) where
  m : MState n
  pending : List Tx := []

namespace Conc

/-- a caller enters `Add` and runs its read transaction; `some r` = the call ended with `r` -/
def enter (c : Conc n) (tx : Tx) : Conc n × Option (Res Unit) :=
  match addRead c.m.s tx with
  | .present => (c, some (.ok ()))
  | .refused r => (c, some r)
  | .proceed => ({ c with pending := c.pending ++ [tx] }, none)

/-- the `i`-th waiting caller obtains the add mutex and runs its write transaction (with its hooks) -/
def finish (cfg : Cfg) (c : Conc n) (i : Nat) (opt : AddOpts) : Conc n × Option (Res Unit) :=
  match c.pending[i]? with
  | none => (c, none)
  | some tx =>
    let w := addWrite cfg c.m.s tx opt
    ({ m := { s := w.1, metric := metricHook c.m.metric w.2.2 w.2.1 }, pending := c.pending.eraseIdx i }, some w.2.1)

/-- a repair step of the consistency loop between the callers' transactions -/
def repair (cfg : Cfg) (c : Conc n) (lcSeen : Nat) : Conc n :=
  { c with m := { c.m with s := checkPageWith cfg lcSeen c.m.s } }

def signal (c : Conc n) : Conc n := { c with m := { c.m with s := signalIncorrect c.m.s } }

/-- the process stops (all waiting callers die with it) and the file is opened and started again -/
def crash (cfg : Cfg) (c : Conc n) : Conc n := { m := (c.m.reopen cfg).start, pending := [] }

end Conc

/-- one step of a schedule -/
inductive CStep where
  | enter (tx : Tx)
  | finish (i : Nat) (opt : AddOpts)
  | repair (lcSeen : Nat)
  | signal
  | crash

def Conc.step (cfg : Cfg) (c : Conc n) : CStep → Conc n
  | .enter tx => (c.enter tx).1
  | .finish i opt => (c.finish cfg i opt).1
  | .repair lc => c.repair cfg lc
  | .signal => c.signal
  | .crash => c.crash cfg

def Conc.run (cfg : Cfg) (c : Conc n) (l : List CStep) : Conc n := l.foldl (Conc.step cfg) c

end Nuts.C08
