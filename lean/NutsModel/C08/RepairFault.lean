/-
  C08 — `xorTreeRepair.checkPage` whose write transaction does NOT commit (consistency.go: the error of `db.Write` is only
  logged; the transaction has no OnRollback handler).  Core Lean only.

  Inside the write function the mismatch was found, `tree.Replace` changed the in-memory leaf and `writeWithoutLock`
  called `ResetUpdates()` BEFORE its Puts ("failure after this point results in rollback anyway"): whichever Put fails,
  or the commit itself, the store keeps its old content while the in-memory tree keeps the recomputed leaf with an empty
  dirty set. The page counter moves on as usual (it is updated after `db.Write` returned, error or not).
-/
import NutsModel.C08.State

namespace Nuts.C08

variable {n : Nat}

def checkPageFailWith (cfg : Cfg) (lcSeen : Nat) (s : State n) : State n :=
  if s.mem.circuit < 2 then s else
  let p := s.mem.repairPage
  let lcStart := p * cfg.pageSize
  let lcEnd := lcStart + cfg.pageSize
  let next := if lcEnd > lcSeen then 0 else p + 1
  match s.disk.findBetweenLC lcStart lcEnd with
  | .ok txs =>
    let c := calcXor cfg.pageSize txs
    if xorOps.empty (xorOps.sub (pageXor cfg.pageSize s.mem.xorTree p) c) then
      -- nothing to write; the empty transaction fails to commit: nothing happens
      { s with mem := { s.mem with repairPage := next } }
    else
      -- Replace + ResetUpdates stay in memory, no Put survives
      { disk := s.disk, mem := { s.mem with xorTree := (s.mem.xorTree.replace xorOps lcStart c).resetUpdates, repairPage := next } }
  | _ => { s with mem := { s.mem with repairPage := next } }

def checkPageFail (cfg : Cfg) (s : State n) : State n := checkPageFailWith cfg s.mem.lcHigh s

end Nuts.C08
