/-
  C08 — model of network/dag: dag.go (add/addSingle/indexClockValue/findBetweenLC/metadata), treestore.go
  (write/writeWithoutLock/read), state.go (Add/updateState/loadState/XOR/IBLT/Head), verifier.go
  (NewPrevTransactionsVerifier) and consistency.go (checkPage).  Core Lean only.

  * bbolt: a write transaction applies all its puts or none (contract). `add` computes the new disk image and the
    new in-memory state; a failing transaction keeps the old disk image and runs the `OnRollback` hook
    (`loadState` on the *existing* tree objects).
  * shelves are association lists sorted by key (bbolt iterates in key order; `Load` sorts anyway).
  * a transaction carries its ref, clock, prevs and the murmur3 values of its ref (data from the harness).
    Signature verification is C06's; the payload check (`SHA256(payload) == tx.PayloadHash()`) is a Bool in the op.
  * `Cfg` holds the regenerated facts: `PageSize`, and whether `tree.Load` resets the tree when there are no leaves.
-/
import NutsModel.C08.Data

namespace Nuts.C08

structure Cfg where
  pageSize : Nat
  loadEmptyResets : Bool
  deriving Repr, DecidableEq

structure Tx where
  ref : Ref
  clock : Nat
  prevs : List Ref
  hk : BitVec 64 := 0
  idx : List Nat := []
  deriving Repr, DecidableEq, Inhabited

def Tx.ikey (t : Tx) : IKey := ⟨t.ref, t.hk, t.idx⟩

/-- put into an association list sorted by key (replace when present) -/
def putSorted {α : Type} (k : Nat) (v : α) : List (Nat × α) → List (Nat × α)
  | [] => [(k, v)]
  | (k', v') :: rest =>
    if k < k' then (k, v) :: (k', v') :: rest
    else if k = k' then (k, v) :: rest
    else (k', v') :: putSorted k v rest

def getSorted {α : Type} (k : Nat) : List (Nat × α) → Option α
  | [] => none
  | (k', v') :: rest => if k = k' then some v' else getSorted k rest

structure Disk (n : Nat) where
  /-- transactions shelf ("documents") -/
  txs : List Tx := []
  /-- clock shelf: clock ↦ refs in the order they were appended -/
  clocks : List (Nat × List Ref) := []
  /-- metadata shelf: tx_num, lc_high, head_ref (absent keys read as 0 / EmptyHash) -/
  count : Nat := 0
  lcHigh : Nat := 0
  head : Option Ref := none
  /-- xorBucket / ibltBucket shelves: leaf key (splitLC) ↦ marshalled leaf -/
  xorLeaves : List (Nat × BitVec 256) := []
  ibltLeaves : List (Nat × Iblt n) := []

structure Mem (n : Nat) where
  xorTree : Tree (BitVec 256)
  ibltTree : Tree (Iblt n)
  /-- `lamportClockHigh` -/
  lcHigh : Nat := 0
  /-- xorTreeRepair.currentPage / circuitState -/
  repairPage : Nat := 0
  circuit : Nat := 0

structure State (n : Nat) where
  disk : Disk n := {}
  mem : Mem n

variable {n : Nat}

/-- `NewState`: empty trees of leaf size `PageSize` -/
def Mem.fresh (cfg : Cfg) : Mem n :=
  { xorTree := Tree.new xorOps cfg.pageSize, ibltTree := Tree.new (ibltOps n) cfg.pageSize }

def State.init (cfg : Cfg) : State n := { mem := Mem.fresh cfg }

namespace Disk

def isPresent (d : Disk n) (r : Ref) : Bool := d.txs.any (·.ref == r)

def getTx (d : Disk n) (r : Ref) : Option Tx := d.txs.find? (·.ref == r)

/-- `NewPrevTransactionsVerifier`; `hi1` is `highestLamportClock + 1` (the Go variable starts at -1) -/
def verifyPrevsLoop (d : Disk n) : List Ref → Nat → Res Nat
  | [], hi1 => .ok hi1
  | p :: rest, hi1 =>
    match d.getTx p with
    | none => .err "missing-prev"
    | some pt => verifyPrevsLoop d rest (if pt.clock + 1 ≥ hi1 then pt.clock + 1 else hi1)

def verifyPrevs (d : Disk n) (tx : Tx) : Res Unit :=
  match verifyPrevsLoop d tx.prevs 0 with
  | .ok hi1 => if tx.clock ≠ hi1 then .err "bad-clock" else .ok ()
  | .err e => .err e
  | .panic s => .panic s

/-- `Range(from, to, …, stopAtNil = true)` over the clock shelf: keys in `[a, b)`, stopping at the first gap -/
def rangeClocks (a b : Nat) : List (Nat × List Ref) → Option Nat → List (List Ref)
  | [], _ => []
  | (k, refs) :: rest, prev =>
    if k < a then rangeClocks a b rest prev
    else if k ≥ b then []
    else match prev with
      | some p => if p + 1 ≠ k then [] else refs :: rangeClocks a b rest (some k)
      | none => refs :: rangeClocks a b rest (some k)

def refLt (x y : Ref) : Bool := x.toNat < y.toNat

/-- `findBetweenLC`: per clock the refs in ascending byte order, each looked up in the transactions shelf -/
def findBetweenLC (d : Disk n) (a b : Nat) : Res (List Tx) :=
  let refs := ((rangeClocks a b d.clocks none).map (sortBy refLt)).flatten
  refs.foldr (fun r acc =>
    match acc with
    | .ok l => (match d.getTx r with
                | some t => .ok (t :: l)
                | none => .err "tx-not-found")
    | e => e) (.ok [])

/-- `indexClockValue` -/
def indexClock (d : Disk n) (tx : Tx) : Disk n :=
  let cur := (getSorted tx.clock d.clocks).getD []
  if cur.contains tx.ref then d else { d with clocks := putSorted tx.clock (cur ++ [tx.ref]) d.clocks }

/-- `dag.add(tx, transaction)` for one transaction (`addSingle` + metadata) -/
def graphAdd (d : Disk n) (tx : Tx) : Res (Disk n) :=
  let highestLC := d.lcHigh
  -- addSingle
  let r : Res (Disk n) :=
    if d.isPresent tx.ref then .ok d
    else if tx.prevs.isEmpty && !((getSorted 0 d.clocks).getD []).isEmpty then .err "root-exists"
    else
      let d1 := d.indexClock tx
      .ok { d1 with txs := d1.txs ++ [tx] }
  match r with
  | .ok d2 =>
    let newHead := tx.clock > highestLC || tx.clock == 0
    .ok { d2 with
      lcHigh := if newHead then tx.clock else highestLC,
      head := if newHead then some tx.ref else d2.head,
      count := d2.count + 1 }
  | e => e

end Disk

/-- `treeStore.writeWithoutLock`: put the dirty leaves, forget the updates -/
def persist {G : Type} (t : Tree G) (shelf : List (Nat × G)) : Tree G × List (Nat × G) :=
  (t.resetUpdates, t.updates.foldl (fun s kv => putSorted kv.1 kv.2 s) shelf)

/-- `updateState` inside the write transaction -/
def updateState (s : State n) (d : Disk n) (tx : Tx) : State n :=
  let lc := if s.mem.lcHigh ≥ tx.clock then s.mem.lcHigh else tx.clock
  let pi := persist (s.mem.ibltTree.insert (ibltOps n) tx.ikey tx.clock) d.ibltLeaves
  let px := persist (s.mem.xorTree.insert xorOps tx.ref tx.clock) d.xorLeaves
  { disk := { d with ibltLeaves := pi.2, xorLeaves := px.2 },
    mem := { s.mem with lcHigh := lc, ibltTree := pi.1, xorTree := px.1 } }

/-- `loadState` on the given tree objects -/
def loadState (cfg : Cfg) (d : Disk n) (m : Mem n) : Mem n :=
  { m with lcHigh := d.lcHigh,
           xorTree := Tree.load xorOps cfg.loadEmptyResets m.xorTree d.xorLeaves,
           ibltTree := Tree.load (ibltOps n) cfg.loadEmptyResets m.ibltTree d.ibltLeaves }

/-- process stop + `NewState` + `Configure` on the same file -/
def restart (cfg : Cfg) (s : State n) : State n :=
  { disk := s.disk, mem := loadState cfg s.disk (Mem.fresh cfg) }

/-- the `OnRollback` hook -/
def rollback (cfg : Cfg) (s : State n) : State n :=
  { s with mem := loadState cfg s.disk s.mem }

/-- how an `Add` call is driven: the payload (`none` = nil, `some ok` = given, `ok` = its hash matches) and whether
    the write transaction is made to fail at commit -/
structure AddOpts where
  payload : Option Bool := none
  commitFails : Bool := false
  /-- a notifier's `Save` fails: of the payload event (before `graph.add`, only when a payload is given) or of the
      transaction event (after `graph.add`, before `updateState`) -/
  savePayloadEventFails : Bool := false
  saveTxEventFails : Bool := false
  /-- a store fault: the k-th `Put` (1-based) of the write transaction fails. The puts, in order: payload and, after
      the payload event was saved, the "payload event saved" mark (both only when a payload is given); clock index,
      transaction, lc_high, head_ref (only when the head changes), tx_num; IBLT leaf; XOR leaf. -/
  putFails : Option Nat := none

/-- `updateState` interrupted by a failing `Put`: `stage = 1` — the IBLT leaf put failed (atomic clock raised, IBLT tree
    holds the transaction, XOR tree untouched); `stage = 2` — the XOR leaf put failed (both trees hold it). Nothing of
    the transaction's disk image survives (the caller rolls back). -/
def partialUpdate (s : State n) (tx : Tx) (stage : Nat) : State n :=
  let lc := if s.mem.lcHigh ≥ tx.clock then s.mem.lcHigh else tx.clock
  let it := (s.mem.ibltTree.insert (ibltOps n) tx.ikey tx.clock).resetUpdates
  let xt := if stage ≥ 2 then (s.mem.xorTree.insert xorOps tx.ref tx.clock).resetUpdates else s.mem.xorTree
  { s with mem := { s.mem with lcHigh := lc, ibltTree := it, xorTree := xt } }

/-- does the k-th put fail, given that the puts `lo+1 … hi` are about to be made? -/
def putFailsIn (opt : Option Nat) (lo hi : Nat) : Bool :=
  match opt with
  | some k => lo < k && k ≤ hi
  | none => false

/-- `state.Add`. Returns the new state and the call's outcome. -/
def add (cfg : Cfg) (s : State n) (tx : Tx) (opt : AddOpts) : State n × Res Unit :=
  -- read transaction: presence, verifiers
  if s.disk.isPresent tx.ref then (s, .ok ())
  else match s.disk.verifyPrevs tx with
  | .err e => (s, .err e)
  | .panic e => (s, .panic e)
  | .ok () =>
    -- write transaction (holds the write lock): presence again, payload, graph.add, updateState
    if s.disk.isPresent tx.ref then
      (if opt.commitFails then (rollback cfg s, .err "commit-failed") else (s, .ok ()))
    else if opt.payload == some false then (rollback cfg s, .err "payload-hash-mismatch")
    else
    let np1 := if opt.payload.isSome then 1 else 0
    let np := np1 + np1
    if putFailsIn opt.putFails 0 np1 then (rollback cfg s, .err "put-failed")
    else if opt.payload.isSome && opt.savePayloadEventFails then (rollback cfg s, .err "save-failed")
    else if putFailsIn opt.putFails np1 np then (rollback cfg s, .err "put-failed")
    else match s.disk.graphAdd tx with
      | .err e => (rollback cfg s, .err e)
      | .panic e => (rollback cfg s, .panic e)
      | .ok d =>
        let ng := np + 4 + (if tx.clock > s.disk.lcHigh || tx.clock == 0 then 1 else 0)
        if putFailsIn opt.putFails np ng then (rollback cfg s, .err "put-failed") else
        if opt.saveTxEventFails then (rollback cfg s, .err "save-failed") else
        if putFailsIn opt.putFails ng (ng + 1) then (rollback cfg (partialUpdate s tx 1), .err "put-failed") else
        if putFailsIn opt.putFails (ng + 1) (ng + 2) then (rollback cfg (partialUpdate s tx 2), .err "put-failed") else
        let s' := updateState s d tx
        if opt.commitFails then (rollback cfg { s' with disk := s.disk }, .err "commit-failed")
        else (s', .ok ())

/-- `state.XOR(reqClock)` -/
def xorAt (s : State n) (req : Nat) : BitVec 256 × Nat :=
  let cur := s.mem.lcHigh
  if req < cur then
    let r := s.mem.xorTree.zeroTo xorOps req
    (r.1, if r.2 < cur then r.2 else cur)
  else (s.mem.xorTree.rootData xorOps, cur)

/-- `state.IBLT(reqClock)` -/
def ibltAt (s : State n) (req : Nat) : Iblt n × Nat :=
  let cur := s.mem.lcHigh
  if req < cur then
    let r := s.mem.ibltTree.zeroTo (ibltOps n) req
    (r.1, if r.2 < cur then r.2 else cur)
  else (s.mem.ibltTree.rootData (ibltOps n), cur)

/-- `state.Diagnostics()`: dag_xor (root of the XOR tree), dag_lc_high (atomic copy), transaction_count (tx_num) -/
def diagnostics (s : State n) : BitVec 256 × Nat × Nat :=
  (s.mem.xorTree.rootData xorOps, s.mem.lcHigh, s.disk.count)

def listing (s : State n) (a b : Nat) : Res (List Ref) :=
  match s.disk.findBetweenLC a b with
  | .ok l => .ok (l.map (·.ref))
  | .err e => .err e
  | .panic e => .panic e

/-- the XOR of page `p` as `checkPage` reads it from the current tree: `getZeroTo(lcEnd - 1)` minus, when
    `lcStart != 0`, `getZeroTo(lcStart - 1)` -/
def pageXor (ls : Nat) (t : Tree (BitVec 256)) (p : Nat) : BitVec 256 :=
  if p * ls ≠ 0 then xorOps.sub (t.zeroTo xorOps (p * ls + ls - 1)).1 (t.zeroTo xorOps (p * ls - 1)).1
  else (t.zeroTo xorOps (p * ls + ls - 1)).1

/-- the XOR of the transactions `findBetweenLC` returned: inserted into a scratch tree, then `Root()` -/
def calcXor (ls : Nat) (txs : List Tx) : BitVec 256 :=
  (txs.foldl (fun t tx => t.insert xorOps tx.ref tx.clock) (Tree.new xorOps ls)).rootData xorOps

/-- `xorTreeRepair.checkPage` (circuit red = two `IncorrectStateDetected` signals). `lcSeen` is the value of
    `lamportClockHigh` the function read BEFORE it acquired the write lock (it only steers the page walk); everything
    else — scan of the page (`findBetweenLC`), recomputation, comparison, `Replace`, persist — happens inside ONE write
    transaction, i.e. atomically with respect to every `Add`. -/
def checkPageWith (cfg : Cfg) (lcSeen : Nat) (s : State n) : State n :=
  if s.mem.circuit < 2 then s else
  let p := s.mem.repairPage
  let lcStart := p * cfg.pageSize
  let lcEnd := lcStart + cfg.pageSize
  let next := if lcEnd > lcSeen then 0 else p + 1
  match s.disk.findBetweenLC lcStart lcEnd with
  | .ok txs =>
    let c := calcXor cfg.pageSize txs
    if xorOps.empty (xorOps.sub (pageXor cfg.pageSize s.mem.xorTree p) c) then
      { s with mem := { s.mem with repairPage := next } }
    else
      let pr := persist (s.mem.xorTree.replace xorOps lcStart c) s.disk.xorLeaves
      { disk := { s.disk with xorLeaves := pr.2 }, mem := { s.mem with xorTree := pr.1, repairPage := next } }
  | _ => { s with mem := { s.mem with repairPage := next } }

/-- `checkPage` with no `Add` between its read of the atomic clock and its write transaction -/
def checkPage (cfg : Cfg) (s : State n) : State n := checkPageWith cfg s.mem.lcHigh s

/-- a stored XOR leaf overwritten on disk (takes effect in memory at the next load) -/
def corruptDisk (s : State n) (key : Nat) (v : BitVec 256) : State n :=
  { s with disk := { s.disk with xorLeaves := putSorted key v s.disk.xorLeaves } }

/-- an in-memory XOR leaf overwritten (`tree.Replace`, which also marks it dirty) -/
def corruptMem (s : State n) (clock : Nat) (v : BitVec 256) : State n :=
  { s with mem := { s.mem with xorTree := s.mem.xorTree.replace xorOps clock v } }

def signalIncorrect (s : State n) : State n := { s with mem := { s.mem with circuit := s.mem.circuit + 1 } }
def signalCorrect (s : State n) : State n := { s with mem := { s.mem with circuit := 0 } }

end Nuts.C08
