/-
  C08 — the BYTE layer under the abstract state model: what the shelves really hold.  Core Lean only.

  * treestore.go `clockToKey` / `keyToClock` (little-endian leaf keys), go-stoabs `Uint32Key` + dag.go `bytesToClock`
    / `bytesToCount` (big-endian clock-shelf keys and metadata values),
  * dag.go `parseHashList` / `appendHashList` / the value handling of `indexClockValue`,
  * tree/xor.go and tree/iblt.go `MarshalBinary` / `UnmarshalBinary` (bucket wire layout: count LE32 @0, hashSum LE64 @4,
    keySum @12; length checks), `Iblt.validate` (bucket-count check of Add),
  * tree.go `Load` on the raw `map[uint32][]byte` (unmarshal every leaf first, the tree is assigned last: an error
    leaves the tree untouched), `treeStore.writeWithoutLock` on raw bytes.

  A `Ref`/digest (`BitVec 256`) is the big-endian number of its 32 bytes (the drivers parse hex the same way).
-/
import NutsModel.C08.State

namespace Nuts.C08.Codec

abbrev Bytes := List UInt8

/-- `binary.LittleEndian.PutUintN` for `k` bytes -/
def leBytes : Nat → Nat → Bytes
  | 0, _ => []
  | k + 1, v => UInt8.ofNat (v % 256) :: leBytes k (v / 256)

def leVal : Bytes → Nat
  | [] => 0
  | b :: r => b.toNat + 256 * leVal r

/-- `binary.BigEndian.PutUintN` -/
def beBytes (k v : Nat) : Bytes := (leBytes k v).reverse
def beVal (b : Bytes) : Nat := leVal b.reverse

/-- `binary.LittleEndian.UintN(b)`: bounds check on `b[N-1]`, reads the first N bytes -/
def uintLE (n : Nat) (b : Bytes) : Res Nat :=
  if b.length < n then .panic "index out of range" else .ok (leVal (b.take n))

/-- `binary.BigEndian.UintN(b)` -/
def uintBE (n : Nat) (b : Bytes) : Res Nat :=
  if b.length < n then .panic "index out of range" else .ok (beVal (b.take n))

/-- treestore.go `clockToKey` -/
def clockToKey (clock : Nat) : Bytes := leBytes 4 clock
/-- treestore.go `keyToClock` -/
def keyToClock (key : Bytes) : Res Nat := uintLE 4 key
/-- go-stoabs `Uint32Key(c).Bytes()` — key of the clock shelf; also `setHighestClockValue`'s value -/
def uint32Key (clock : Nat) : Bytes := beBytes 4 clock
/-- dag.go `bytesToClock` -/
def bytesToClock (b : Bytes) : Res Nat := uintBE 4 b
/-- `setNumberOfTransactions`'s value -/
def countBytes (n : Nat) : Bytes := beBytes 8 n
/-- dag.go `bytesToCount` -/
def bytesToCount (b : Bytes) : Res Nat := uintBE 8 b

/-- lexicographic order of keys (bbolt's `bytes.Compare`) -/
def lexLt : Bytes → Bytes → Bool
  | [], [] => false
  | [], _ :: _ => true
  | _ :: _, [] => false
  | a :: as, b :: bs => a.toNat < b.toNat || (a.toNat == b.toNat && lexLt as bs)

def hashSize : Nat := 32

def refOfBytes (b : Bytes) : Ref := BitVec.ofNat 256 (beVal b)
def bytesOfRef (r : Ref) : Bytes := beBytes hashSize r.toNat

/-- the loop of `parseHashList` for `num` hashes -/
def parseHashListF : Nat → Bytes → List Ref
  | 0, _ => []
  | n + 1, b => refOfBytes (b.take hashSize) :: parseHashListF n (b.drop hashSize)

/-- dag.go `parseHashList`: a trailing partial hash is dropped -/
def parseHashList (input : Bytes) : List Ref :=
  if input.length = 0 then []
  else parseHashListF ((input.length - input.length % hashSize) / hashSize) input

/-- dag.go `appendHashList` -/
def appendHashList (list : Bytes) (h : Ref) : Bytes := list ++ bytesOfRef h

def encodeHashList (refs : List Ref) : Bytes := refs.foldl appendHashList []

/-- the value handling of `indexClockValue`: `cur` = what `lc.Get(clockKey)` returned (`none` = ErrKeyNotFound, the Go
    code continues with a nil slice); result `none` = no Put (the ref is already listed) -/
def indexClockBytes (cur : Option Bytes) (ref : Ref) : Option Bytes :=
  let currentRefs : Bytes := match cur with | some b => b | none => []
  if (parseHashList currentRefs).contains ref then none else some (appendHashList currentRefs ref)

/-- the clock shelf as raw key/value pairs -/
def encodeClocks (clocks : List (Nat × List Ref)) : List (Bytes × Bytes) :=
  clocks.map fun kv => (uint32Key kv.1, encodeHashList kv.2)

/-! ### tree/xor.go -/

def xorMarshal (x : BitVec 256) : Bytes := beBytes hashSize x.toNat

def xorUnmarshal (data : Bytes) : Res (BitVec 256) :=
  if data.length ≠ hashSize then .err "invalid data length" else .ok (BitVec.ofNat 256 (beVal data))

/-! ### tree/iblt.go -/

def bucketBytes : Nat := 44
def countOff : Nat := 0
def hashSumOff : Nat := 4
def keySumOff : Nat := 12

/-- `bucket.MarshalBinary` -/
def bucketMarshal (b : Bucket) : Bytes :=
  leBytes 4 b.count.toNat ++ leBytes 8 b.hashSum.toNat ++ beBytes hashSize b.keySum.toNat

/-- `bucket.UnmarshalBinary` -/
def bucketUnmarshal (d : Bytes) : Res Bucket :=
  if d.length ≠ bucketBytes then .err "invalid data length"
  else .ok ⟨BitVec.ofNat 32 (leVal ((d.drop countOff).take 4)), BitVec.ofNat 64 (leVal ((d.drop hashSumOff).take 8)),
            BitVec.ofNat 256 (beVal (d.drop keySumOff))⟩

/-- `NewIblt(numBuckets)`: fewer than `k` buckets are padded to `k` (`Iblt.New()` = `NewIblt(numBuckets())`) -/
def newIbltBuckets (k numBuckets : Nat) : Nat := if numBuckets < k then k else numBuckets

/-- `Iblt.MarshalBinary` on the bucket list -/
def ibltMarshal : List Bucket → Bytes
  | [] => []
  | b :: rest => bucketMarshal b ++ ibltMarshal rest

/-- the bucket loop of `Iblt.UnmarshalBinary` (`buf.Next(bucketBytes)` per bucket) -/
def ibltUnmarshalF : Nat → Bytes → Res (List Bucket)
  | 0, _ => .ok []
  | n + 1, d =>
    match bucketUnmarshal (d.take bucketBytes) with
    | .ok b => (match ibltUnmarshalF n (d.drop bucketBytes) with
                | .ok l => .ok (b :: l)
                | e => e)
    | .err e => .err ("unmarshalling failed - " ++ e)
    | .panic s => .panic s

/-- `Iblt.UnmarshalBinary`: the bucket count comes from the data, not from the receiver -/
def ibltUnmarshal (data : Bytes) : Res (List Bucket) :=
  let numBuckets := data.length / bucketBytes
  if data.length ≠ numBuckets * bucketBytes then .err "invalid data length" else ibltUnmarshalF numBuckets data

/-- `Iblt.Add` incl. `validate` (hc/hk/k are constants of the package: only the bucket count can differ) -/
def ibltAddDyn (a b : List Bucket) : Res (List Bucket) :=
  if a.length ≠ b.length then .err "number of buckets do not match" else .ok (List.zipWith Bucket.add a b)

def toIblt (n : Nat) (l : List Bucket) : Option (Iblt n) :=
  if h : l.length = n then some ⟨l.toArray, by simp [h]⟩ else none

def ibltMarshalV {n : Nat} (g : Iblt n) : Bytes := ibltMarshal g.toList

/-! ### tree.go Load / treestore.go on raw bytes -/

/-- the first loop of `Load`: unmarshal every leaf in key order, stop at the first error -/
def unmarshalLeaves {G : Type} (un : Bytes → Res G) : List (Nat × Bytes) → Res (List (Nat × G))
  | [] => .ok []
  | (k, v) :: rest =>
    match un v with
    | .ok g => (match unmarshalLeaves un rest with
                | .ok l => .ok ((k, g) :: l)
                | e => e)
    | .err e => .err e
    | .panic s => .panic s

/-- `tree.Load(leaves)` of an XOR tree; `kvs` sorted by key. The tree is assigned only after every leaf was
    unmarshalled: an error returns the receiver unchanged. -/
def loadXorBytes (loadEmptyResets : Bool) (t : Tree (BitVec 256)) (kvs : List (Nat × Bytes)) :
    Tree (BitVec 256) × Res Unit :=
  match unmarshalLeaves xorUnmarshal kvs with
  | .ok l => (Tree.load xorOps loadEmptyResets t l, .ok ())
  | .err e => (t, .err e)
  | .panic s => (t, .panic s)

def allToIblt (n : Nat) : List (Nat × List Bucket) → Option (List (Nat × Iblt n))
  | [] => some []
  | (k, l) :: rest =>
    match toIblt n l, allToIblt n rest with
    | some g, some r => some ((k, g) :: r)
    | _, _ => none

def uniformLen : List (Nat × List Bucket) → Bool
  | [] => true
  | (_, l) :: rest => rest.all (fun kv => kv.2.length == l.length)

/-- `tree.Load(leaves)` of an IBLT tree whose prototype has `n` buckets. Unmarshal errors come first; leaves of
    different bucket counts make the pairing loop's `Add` fail (`validate`); leaves that all have one bucket count
    different from `n` load "successfully" in Go into a tree of foreign IBLTs — reported as its own outcome here
    (never produced by the node itself: the shelf is only written by `writeWithoutLock`). -/
def loadIbltBytes (n : Nat) (loadEmptyResets : Bool) (t : Tree (Iblt n)) (kvs : List (Nat × Bytes)) :
    Tree (Iblt n) × Res Unit :=
  match unmarshalLeaves ibltUnmarshal kvs with
  | .ok l =>
    (match allToIblt n l with
     | some l' => (Tree.load (ibltOps n) loadEmptyResets t l', .ok ())
     | none => if uniformLen l then (t, .err "foreign bucket count") else (t, .err "number of buckets do not match"))
  | .err e => (t, .err e)
  | .panic s => (t, .panic s)

/-- the shelf written by `treeStore.writeWithoutLock`: key = `clockToKey(splitLC)`, value = `MarshalBinary` -/
def encodeXorShelf (shelf : List (Nat × BitVec 256)) : List (Bytes × Bytes) :=
  shelf.map fun kv => (clockToKey kv.1, xorMarshal kv.2)

def encodeIbltShelf {n : Nat} (shelf : List (Nat × Iblt n)) : List (Bytes × Bytes) :=
  shelf.map fun kv => (clockToKey kv.1, ibltMarshalV kv.2)

/-- `treeStore.read`'s iteration callback: `rawData[keyToClock(k)] = v` (sorted insertion = Load's key sort) -/
def readShelf : List (Bytes × Bytes) → Res (List (Nat × Bytes))
  | [] => .ok []
  | (k, v) :: rest =>
    match keyToClock k with
    | .ok c => (match readShelf rest with
                | .ok l => .ok (putSorted c v l)
                | e => e)
    | .err e => .err e
    | .panic s => .panic s

/-- state.go `loadState` as it runs on the real shelves: `lamportClockHigh.Store`, then `xorTree.read`, then
    `ibltTree.read` (raw iteration + `Load`); the first error stops it (logged, not returned) -/
def loadStateBytes {n : Nat} (cfg : Cfg) (rawX rawI : List (Bytes × Bytes)) (lcHigh : Nat) (m : Mem n) : Mem n × Res Unit :=
  let m0 : Mem n := { m with lcHigh := lcHigh }
  match readShelf rawX with
  | .ok kx =>
    (match loadXorBytes cfg.loadEmptyResets m0.xorTree kx with
     | (tx, .ok _) =>
       let m1 : Mem n := { m0 with xorTree := tx }
       (match readShelf rawI with
        | .ok ki =>
          (match loadIbltBytes n cfg.loadEmptyResets m1.ibltTree ki with
           | (ti, .ok _) => ({ m1 with ibltTree := ti }, .ok ())
           | (_, .err e) => (m1, .err e)
           | (_, .panic s) => (m1, .panic s))
        | .err e => (m1, .err e)
        | .panic s => (m1, .panic s))
     | (_, .err e) => (m0, .err e)
     | (_, .panic s) => (m0, .panic s))
  | .err e => (m0, .err e)
  | .panic s => (m0, .panic s)

/-! ### dag.go metadata getters on what the reader returned -/

/-- what `reader.Get(key)` gave: `ErrKeyNotFound`, another storage error, or the value -/
inductive GetRes where
  | notFound
  | failed
  | value (b : Bytes)
  deriving Repr, DecidableEq

/-- dag.go `getHighestClockValue`: an absent key AND any other storage error read as 0 -/
def getHighestClockValue : GetRes → Res Nat
  | .notFound => .ok 0
  | .failed => .ok 0
  | .value b => bytesToClock b

/-- dag.go `getNumberOfTransactions` -/
def getNumberOfTransactions : GetRes → Res Nat
  | .notFound => .ok 0
  | .failed => .ok 0
  | .value b => bytesToCount b

/-- `hash.FromSlice`: `copy` into a zeroed 32-byte array (shorter input is zero-padded, longer input is cut) -/
def fromSlice (b : Bytes) : Ref :=
  refOfBytes ((b.take hashSize) ++ List.replicate (hashSize - b.length) 0)

/-- dag.go `getHead`: absent = `EmptyHash`, a storage error is returned -/
def getHead : GetRes → Res Ref
  | .notFound => .ok 0
  | .failed => .err "storage"
  | .value b => .ok (fromSlice b)

/-- what `dag.add` puts into the metadata shelf: lc_high, tx_num, and head_ref when a head was chosen -/
def headBytes (h : Option Ref) : GetRes := match h with | some r => .value (bytesOfRef r) | none => .notFound

end Nuts.C08.Codec
