/-
  C08 — the two `tree.Data` implementations: network/dag/tree/xor.go and iblt.go (bucket arithmetic).  Core Lean only.

  * `Xor` is a SHA-256 value: `BitVec 256`; Insert = Delete = Add = Subtract = xor.
  * `Iblt n` is `n` buckets `(count : int32, hashSum : uint64, keySum : hash)`. murmur3 is not modelled: the key hash
    `hk` (`hashKey`) and the bucket indices `idx` (`bucketIndices`) of a reference travel with the reference
    (`IKey`), supplied by the harness from the real code. Add/Subtract are bucket-wise; Insert/Delete touch the
    buckets in `idx`.
-/
import NutsModel.C08.Tree

namespace Nuts.C08

abbrev Ref := BitVec 256

/-- xor.go -/
def xorOps : Ops Ref (BitVec 256) where
  zero := 0
  add a b := a ^^^ b
  sub a b := a ^^^ b
  ins g r := g ^^^ r
  del g r := g ^^^ r
  empty g := g == 0

structure Bucket where
  count : BitVec 32
  hashSum : BitVec 64
  keySum : BitVec 256
  deriving DecidableEq, Repr, Inhabited

namespace Bucket
def zero : Bucket := ⟨0, 0, 0⟩
/-- `bucket.add` -/
def add (b o : Bucket) : Bucket := ⟨b.count + o.count, b.hashSum ^^^ o.hashSum, b.keySum ^^^ o.keySum⟩
/-- `bucket.subtract` -/
def sub (b o : Bucket) : Bucket := ⟨b.count - o.count, b.hashSum ^^^ o.hashSum, b.keySum ^^^ o.keySum⟩
/-- `bucket.insert(key, hash)` -/
def ins (b : Bucket) (key : Ref) (hk : BitVec 64) : Bucket := ⟨b.count + 1, b.hashSum ^^^ hk, b.keySum ^^^ key⟩
/-- `bucket.delete(key, hash)` -/
def del (b : Bucket) (key : Ref) (hk : BitVec 64) : Bucket := ⟨b.count - 1, b.hashSum ^^^ hk, b.keySum ^^^ key⟩
end Bucket

/-- a reference together with what murmur3 says about it -/
structure IKey where
  ref : Ref
  hk : BitVec 64
  idx : List Nat
  deriving DecidableEq, Repr, Inhabited

abbrev Iblt (n : Nat) := Vector Bucket n

/-- apply `f` to bucket `h`. The Go code indexes `i.buckets[h]` with `h = next % numBuckets`, always in range; an
    out-of-range index supplied by a harness is ignored here and shows up as a correspondence difference. -/
def Iblt.modify {n : Nat} (g : Iblt n) (h : Nat) (f : Bucket → Bucket) : Iblt n :=
  if hh : h < n then g.set h (f g[h]) else g

def ibltOps (n : Nat) : Ops IKey (Iblt n) where
  zero := Vector.replicate n Bucket.zero
  add a b := Vector.zipWith Bucket.add a b
  sub a b := Vector.zipWith Bucket.sub a b
  ins g k := k.idx.foldl (fun g h => Iblt.modify g h (fun b => b.ins k.ref k.hk)) g
  del g k := k.idx.foldl (fun g h => Iblt.modify g h (fun b => b.del k.ref k.hk)) g
  empty g := g.all (· == Bucket.zero)

end Nuts.C08
