/-
  C08 — the Prometheus counter `nuts_dag_transactions_total` ("Number of transactions stored in the DAG", state.go:
  transactionCountCollector, Start, the third AfterCommit hook of Add).  Core Lean only.
-/
import NutsModel.C08.State

namespace Nuts.C08

/-- `Start()`: `transactionCount.Add(float64(getNumberOfTransactions(tx)))` -/
def metricAfterStart (metric count : Nat) : Nat := metric + count

/-- the third `AfterCommit` hook of `Add`: `if txAdded { transactionCount.Inc() }`. `txAdded` is set inside the write
    function once the transaction is found absent; the hook only runs when the write transaction committed. -/
def metricAfterAdd (metric : Nat) (presentBefore : Bool) (res : Res Unit) : Nat :=
  if res = .ok () ∧ presentBefore = false then metric + 1 else metric

/-- a state object together with its collector -/
structure MState (n : Nat) where
  s : State n
  metric : Nat := 0

namespace MState
variable {n : Nat}

/-- `NewState` + `Configure` on the same file: a fresh collector -/
def reopen (cfg : Cfg) (m : MState n) : MState n := { s := restart cfg m.s, metric := 0 }

def start (m : MState n) : MState n := { m with metric := metricAfterStart m.metric m.s.disk.count }

def add (cfg : Cfg) (m : MState n) (tx : Tx) (opt : AddOpts) : MState n × Res Unit :=
  let presentBefore := m.s.disk.isPresent tx.ref
  let r := Nuts.C08.add cfg m.s tx opt
  ({ s := r.1, metric := metricAfterAdd m.metric presentBefore r.2 }, r.2)

end MState
end Nuts.C08
