/-
  C05, request-level layer (deepening round 2026-09-28): what the iam endpoints DO with a request before and after
  they reach the session store — the part the thread model of OneTime.lean abstracts into `pre / want / post`.
  Mirrors, statement by statement (normalised source text regenerated as `Facts.C05.src_*`, pinned in Props.C05Forms):

  * api.go `HandleTokenRequest`: the grant-type switch (table `Facts.C05.tokenGrantSwitch`, CONSUMED here), the
    required parameters of the vp_token grant;
  * openid4vp.go `handleAccessTokenRequest`: code present? → deferred Delete → code_verifier? → client_id? →
    GetAndDelete → client_id equal? → PKCE → DPoP header → 200;  pkce_util.go `validatePKCEParams`; dpop.go `dpopFromRequest`;
  * openid4vp.go `handleAuthorizeResponseSubmission` up to the nonce check, `validatePresentationNonce`
    (collect the nonces of ALL presentations, burn them all on any disagreement, else GetAndDelete + state check),
    `extractChallenge`, s2s_vptoken.go `extractNonce`;
  * s2s_vptoken.go `validateS2SPresentationNonce` and the loop of `handleS2SAccessTokenRequest` over all presentations.

  The session store is the `Store` of OneTime.lean; the calls are today's `GetAndDelete` / `PutIfAbsent` executed with
  nobody else running (they hold the database mutex: `fact_gad_atomic_today`, `fact_mark_atomic_today`).
  OAuth error codes and descriptions are read from the regenerated `errs_<fn>` lists by position.
  Parameters, not code: the SHA-256 of PKCE (`Pkce.accepts`), JWT / JSON-LD parsing (`Pres` is the parsed form),
  signature checks and PEX matching of the s2s handler (honest in the harness).  Core Lean only.
-/
import NutsModel.C05.OneTime
import NutsModel.Facts.C05

namespace Nuts.C05

/-- answer of an endpoint -/
inductive Ans where
  | ok
  | err (code : String) (why : String)   -- value of the oauth.ErrorCode constant, description literal of the branch
  | panic (site : String)
  deriving DecidableEq, Repr, Inhabited

def Ans.name : Ans → String
  | .ok => "200" | .err c w => c ++ "|" ++ w | .panic s => "panic:" ++ s

/-- the i-th OAuth error a function builds, in source order (regenerated list), its code constant resolved to its value -/
def errAt (errs : List (String × String)) (i : Nat) : Ans :=
  match errs[i]? with
  | some (c, d) => (match alGet Facts.C05.oauthErrorCodes c with | some v => .err v d | none => .err ("unresolved:" ++ c) d)
  | none => .err "unlisted" ""

/-- clock and back-end of a sequential execution -/
structure Sq where
  incl : Bool
  now : Nat
  ttl : Kind → Nat

/-- `SessionStore.GetAndDelete` with nobody else running (Lock; Get; miss → error, nothing deleted; hit → Delete) -/
def gadSeq (c : Sq) (st : Store) (k : Key) : Option String × Store :=
  match stGet c.incl st c.now k with
  | some v => (some v, stErase st k)
  | none => (none, st)

/-- `SessionStore.PutIfAbsent` with nobody else running (Lock; Get; hit → false; miss → Put, true) -/
def pifSeq (c : Sq) (st : Store) (k : Key) (v : String) : Bool × Store :=
  match stGet c.incl st c.now k with
  | some _ => (false, st)
  | none => (true, stPut st k ⟨v, c.now + c.ttl k.ns⟩)

/-! ### token endpoint -/

inductive DpopHdr where
  | absent | bad | good
  deriving DecidableEq, Repr, Inhabited

structure TokenForm where
  grantType : String
  code : Option String := none
  codeVerifier : Option String := none
  clientId : Option String := none
  /-- `assertion`: what `extractNonce` finds in each presentation of the envelope, in order ("" = nothing) -/
  assertion : Option (List String) := none
  submission : Bool := false
  scope : Bool := false
  dpop : DpopHdr := .absent
  deriving DecidableEq, Repr, Inhabited

/-- PKCE of the stored session: challenge method, and which verifiers hash to the stored challenge (SHA-256: parameter) -/
structure Pkce where
  method : String
  accepts : String → Bool

/-- pkce_util.go validatePKCEParams: `switch ChallengeMethod { case "S256": hash(verifier) == challenge; default: false }` -/
def validatePKCE (p : Pkce) (verifier : String) : Bool :=
  if Facts.C05.pkceMethods.contains p.method then p.accepts verifier else false

def codeKey (code : String) : Key := ⟨.burn .code, code⟩

/-- dpop.go dpopFromRequest: the header is optional; present and unparsable → invalid_dpop_proof -/
def dpopCheck (d : DpopHdr) : Option Ans :=
  match d with
  | .bad => some (errAt Facts.C05.errs_dpopFromRequest 0)
  | _ => none

/-- openid4vp.go handleAccessTokenRequest -/
def handleCode (c : Sq) (pk : Pkce) (st : Store) (f : TokenForm) : Ans × Store :=
  let E := errAt Facts.C05.errs_handleAccessTokenRequest
  match f.code with
  | none => (E 0, st)
  | some code =>
    let k := codeKey code
    -- from here on the deferred `oauthCodeStore().Delete(code)` runs on every return
    match f.codeVerifier with
    | none => (E 1, stErase st k)
    | some ver =>
      match f.clientId with
      | none => (E 2, stErase st k)
      | some cid =>
        match gadSeq c st k with
        | (none, st1) => (E 3, stErase st1 k)
        | (some sessClient, st1) =>
          if sessClient ≠ cid then (E 4, stErase st1 k)
          else if !validatePKCE pk ver then (E 5, stErase st1 k)
          else match dpopCheck f.dpop with
            | some e => (e, stErase st1 k)
            | none => (.ok, stErase st1 k)

def s2sKey (n : String) : Key := ⟨.mark .s2s, n⟩

/-- the loop `for presentation: validateS2SPresentationNonce` of handleS2SAccessTokenRequest: the first presentation
    without nonce or with a used nonce ends the request; the nonces registered before it stay registered -/
def s2sLoop (c : Sq) (st : Store) : List String → Ans × Store
  | [] => (.ok, st)
  | n :: rest =>
    if n = "" then (errAt Facts.C05.errs_validateS2SPresentationNonce 0, st) else
    match pifSeq c st (s2sKey n) (markVal .s2s) with
    | (false, st1) => (errAt Facts.C05.errs_validateS2SPresentationNonce 1, st1)
    | (true, st1) => s2sLoop c st1 rest

/-- handleS2SAccessTokenRequest from the nonce loop on (what precedes it — envelope, validity, signer, audience, PEX —
    passes in the harness and touches no store) -/
def handleS2S (c : Sq) (st : Store) (f : TokenForm) (nonces : List String) : Ans × Store :=
  match s2sLoop c st nonces with
  | (.ok, st1) => (match dpopCheck f.dpop with | some e => (e, st1) | none => (.ok, st1))
  | r => r

/-- the handler (or error) the grant-type switch of HandleTokenRequest selects; Go compares strings exactly -/
def grantAction (g : String) : String :=
  match alGet Facts.C05.tokenGrantSwitch g with
  | some a => a
  | none => (match alGet Facts.C05.tokenGrantSwitch "*" with | some a => a | none => "no-default")

/-- api.go HandleTokenRequest (the subject of the path exists) -/
def handleToken (c : Sq) (pk : Pkce) (st : Store) (f : TokenForm) : Ans × Store :=
  let E := errAt Facts.C05.errs_HandleTokenRequest
  let a := grantAction f.grantType
  if a = "handleAccessTokenRequest" then handleCode c pk st f
  else if a = "handleS2SAccessTokenRequest" then
    (match f.assertion with
     | some nonces => if !f.submission || !f.scope || f.clientId.isNone then (E 1, st) else handleS2S c st f nonces
     | none => (E 1, st))
  -- a case of its own that only refuses (pre-authorized code: "not implemented yet"), else the default case
  else if (alGet Facts.C05.tokenGrantSwitch f.grantType).isSome && f.grantType != "*" then (E 0, st)
  else (E 2, st)

/-! ### OpenID4VP authorization response -/

inductive PFmt where
  | jwt | ld | other
  deriving DecidableEq, Repr, Inhabited

/-- a parsed presentation, as far as the nonce extraction looks at it -/
structure Pres where
  fmt : PFmt
  /-- JWT: the `nonce` claim if it is a string, else "" -/
  jwtNonce : String := ""
  /-- JSON-LD: credential.ParseLDProof fails -/
  ldErr : Bool := false
  /-- JSON-LD: proof.challenge ("" = nil or empty) -/
  challenge : String := ""
  /-- JSON-LD: proof.nonce ("" = nil or empty) -/
  nonce : String := ""
  deriving DecidableEq, Repr, Inhabited

/-- openid4vp.go extractChallenge: (nonce, error?) -/
def extractChallenge (p : Pres) : String × Bool :=
  match p.fmt with
  | .jwt => (p.jwtNonce, false)
  | .ld => if p.ldErr then ("", true) else (p.challenge, false)
  | .other => ("", false)

/-- s2s_vptoken.go extractNonce: (nonce, error?) -/
def extractNonce (p : Pres) : String × Bool :=
  match p.fmt with
  | .jwt => (p.jwtNonce, false)
  | .ld => if p.ldErr then ("", true) else (p.nonce, false)
  | .other => ("", false)

/-- the nonce validatePresentationNonce works with for one presentation: the challenge, else the nonce -/
def presNonce (p : Pres) : String :=
  if (extractChallenge p).1 = "" then (extractNonce p).1 else (extractChallenge p).1

def presErrs (p : Pres) : Nat :=
  (if (extractChallenge p).2 then 1 else 0) + (if (extractChallenge p).1 = "" && (extractNonce p).2 then 1 else 0)

structure NAcc where
  allPresent : Bool
  nonces : List String
  errs : Nat
  deriving DecidableEq, Repr, Inhabited

/-- one round of the loop over the presentations -/
def nonceStep (a : NAcc) (p : Pres) : NAcc :=
  let n := presNonce p
  { allPresent := a.allPresent && n != "",
    nonces := if n != "" && !a.nonces.contains n then a.nonces ++ [n] else a.nonces,
    errs := a.errs + presErrs p }

def collect (ps : List Pres) : NAcc := ps.foldl nonceStep ⟨true, [], 0⟩

def vpKey (n : String) : Key := ⟨.burn .vpNonce, n⟩

def burnAll (st : Store) (ns : List String) : Store := ns.foldl (fun s n => stErase s (vpKey n)) st

/-- `len(errs)` after the loop: extraction errors, "not all presentations have the same nonce", "presentation is missing nonce" -/
def nonceErrs (a : NAcc) : Nat :=
  a.errs + (if a.nonces.length > 1 then 1 else 0) + (if !a.allPresent then 1 else 0)

/-- openid4vp.go validatePresentationNonce -/
def validateNonce (c : Sq) (st : Store) (ps : List Pres) (state : String) : Ans × Store :=
  let E := errAt Facts.C05.errs_validatePresentationNonce
  let a := collect ps
  if nonceErrs a > 0 then (E 0, burnAll st a.nonces)
  else
    match a.nonces with
    | [] => (.panic "validatePresentationNonce:nonces[0]", st)     -- only for an empty presentation list (the caller refuses it)
    | n :: _ =>
      match gadSeq c st (vpKey n) with
      | (none, st1) => (E 1, st1)
      | (some s, st1) => if state ≠ s then (E 2, st1) else (.ok, st1)

structure VpResponse where
  state : Option String
  /-- `vp_token`: none = parameter absent; some [] = unparsable or without presentation -/
  vpToken : Option (List Pres)
  /-- the client-state store has a session for `state` that belongs to the tenant of the path -/
  stateKnown : Bool := true
  tenantOk : Bool := true
  deriving DecidableEq, Repr, Inhabited

/-- openid4vp.go handleAuthorizeResponseSubmission up to and including the nonce check (`.ok` = the check passed) -/
def handleResponse (c : Sq) (st : Store) (r : VpResponse) : Ans × Store :=
  let E := errAt Facts.C05.errs_handleAuthorizeResponseSubmission
  match r.state with
  | none => (E 0, st)
  | some state =>
    match r.vpToken with
    | none => (E 1, st)
    | some [] => (E 2, st)
    | some (p :: ps) =>
      if !r.stateKnown then (E 3, st)
      else if !r.tenantOk then (E 4, st)
      else validateNonce c st (p :: ps) state

/-! ### request objects (api.go RequestJWTByGet / RequestJWTByPost), landing page (user.go handleUserLanding),
    DPoP proof validation (dpop.go ValidateDPoPProof) -/

structure ReqObjFetch where
  id : String
  /-- subject of the path; the stored object names the subject it was made for (`ro.Client` = its base URL) -/
  subject : String
  /-- which endpoint is used -/
  post : Bool
  deriving DecidableEq, Repr, Inhabited

def reqObjKey (id : String) : Key := ⟨.burn .reqObj, id⟩

/-- the stored request object, as far as the handlers look at it: `client|request_uri_method` -/
def roClient (v : String) : String := (v.splitOn "|").headD ""
def roMethod (v : String) : String := ((v.splitOn "|").drop 1).headD ""

/-- RequestJWTByGet / RequestJWTByPost up to the signer: GetAndDelete first, then the two comparisons -/
def handleReqObj (c : Sq) (st : Store) (r : ReqObjFetch) : Ans × Store :=
  let E := errAt (if r.post then Facts.C05.errs_RequestJWTByPost else Facts.C05.errs_RequestJWTByGet)
  match gadSeq c st (reqObjKey r.id) with
  | (none, st1) => (E 0, st1)
  | (some v, st1) =>
    if roClient v ≠ r.subject then (E 1, st1)
    else if roMethod v ≠ (if r.post then "post" else "get") then (E 2, st1)
    else (.ok, st1)

def redirectKey (t : String) : Key := ⟨.burn .redirect, t⟩

/-- handleUserLanding up to the user session: empty token → 403 without looking; GetAndDelete; miss → 403 -/
def handleLanding (c : Sq) (st : Store) (token : String) : Ans × Store :=
  if token = "" then (.err "403" "missing token", st)
  else match gadSeq c st (redirectKey token) with
    | (none, st1) => (.err "403" "token not found in store", st1)
    | (some _, st1) => (.ok, st1)

structure DpopReq where
  /-- dpop.Parse succeeds -/
  parses : Bool := true
  /-- thumbprint, method and URL of the request match the proof -/
  matchOk : Bool := true
  athPresent : Bool := true
  /-- the ath claim is the hash of the access token of the request -/
  athOk : Bool := true
  jti : String
  deriving DecidableEq, Repr, Inhabited

def jtiKey (j : String) : Key := ⟨.mark .jti, j⟩

/-- ValidateDPoPProof: the jti is registered only after every other check passed (`.err "invalid" reason` = `Valid: false`) -/
def handleDpop (c : Sq) (st : Store) (r : DpopReq) : Ans × Store :=
  if !r.parses then (.err "invalid" "failed to parse DPoP header", st)
  else if !r.matchOk then (.err "invalid" "mismatch", st)
  else if !r.athPresent then (.err "invalid" "missing ath claim", st)
  else if !r.athOk then (.err "invalid" "ath/token claim mismatch", st)
  else match pifSeq c st (jtiKey r.jti) (markVal .jti) with
    | (false, st1) => (.err "invalid" "jti already used", st1)
    | (true, st1) => (.ok, st1)

/-! ### a request of any endpoint, and sequences of them with time passing in between -/

inductive Form where
  | token (f : TokenForm)
  | response (r : VpResponse)
  | reqObj (r : ReqObjFetch)
  | landing (token : String)
  | dpop (r : DpopReq)
  deriving DecidableEq, Repr, Inhabited

def handleForm (c : Sq) (pk : Pkce) (st : Store) : Form → Ans × Store
  | .token f => handleToken c pk st f
  | .response r => handleResponse c st r
  | .reqObj r => handleReqObj c st r
  | .landing t => handleLanding c st t
  | .dpop r => handleDpop c st r

/-- requests served one after the other; `dt` seconds pass before each -/
def runForms (incl : Bool) (ttl : Kind → Nat) (pk : Pkce) : Nat → Store → List (Nat × Form) → List Ans × Store × Nat
  | now, st, [] => ([], st, now)
  | now, st, (dt, f) :: rest =>
    let r := handleForm ⟨incl, now + dt, ttl⟩ pk st f
    let x := runForms incl ttl pk (now + dt) r.2 rest
    (r.1 :: x.1, x.2.1, x.2.2)

/-! ### the thread of the abstract layer a token request with a code stands for -/

/-- `pre`: the parameter checks before the store is consulted; `want`: the client_id the request names; `post`: PKCE and
    DPoP header checks after the value check -/
def TokenForm.toBurn (pk : Pkce) (f : TokenForm) : Option BurnReq :=
  match f.code with
  | none => none
  | some code =>
    some { kind := .code, id := code, want := f.clientId.getD "",
           pre := f.codeVerifier.isSome && f.clientId.isSome,
           post := (match f.codeVerifier with | some v => validatePKCE pk v | none => false) && f.dpop != .bad }

/-- the answer class of the abstract layer for an answer of the token endpoint's code handler -/
def codeOutcome (a : Ans) : Option Outcome :=
  let E := errAt Facts.C05.errs_handleAccessTokenRequest
  if a = .ok then some .ok
  else if a = E 1 || a = E 2 then some .missingParam
  else if a = E 3 then some .notFound
  else if a = E 4 then some .mismatch
  else if a = E 5 || a = errAt Facts.C05.errs_dpopFromRequest 0 then some .postCheck
  else none

end Nuts.C05
