/-
  C05, OpenID4VCI request level (deepening round 2, 2026-09-28): vcr/issuer/openid.go `HandleAccessTokenRequest` and the
  functions of vcr/issuer/openid_store.go it and the issuing side (`createOffer`) call, mirrored statement by statement
  (normalised source regenerated as `Facts.C05.src_vci_*`, pinned in Props.C05Vci):

    * `Store`            : empty flow id → error; flow id already stored → error; Put under openid4vci/flow
    * `StoreReference`   : empty reference → error; flow missing → error; reference already stored → error; Put
    * `FindAndDeleteReference` : GetAndDelete on the reference store (miss → nil, nil), then Get on the flow store
                           (its error is RETURNED: a reference whose flow is gone is consumed and answers "not found")
    * `HandleAccessTokenRequest` : FindAndDeleteReference(preauthcode) → nil flow → invalid_grant → issuer comparison →
                           StoreReference(accesstoken, fresh) → StoreReference(c_nonce, fresh)

  The pre-authorized-code store is the `Store` of OneTime.lean under namespace `.burn .preAuth` (value = flow id); the
  flow store and the two reference stores issued INTO are string-keyed maps of the same entry type.  All four use the one
  TTL `TokenTTL` (`Facts.C05.vciGetStoreArgs`).  The two fresh nonces (`crypto.GenerateNonce`) are arguments: the theorems
  hold for ALL values, including colliding and empty ones.  Error texts are read from the regenerated lists by position.
  Core Lean only.
-/
import NutsModel.C05.Forms
import NutsModel.Facts.C05

namespace Nuts.C05

abbrev SMap := List (String × Entry)

def smFind : SMap → String → Option Entry
  | [], _ => none
  | (k', e) :: m, k => if k' = k then some e else smFind m k

/-- `SessionStore.Get` / `Exists` on a string-keyed store -/
def smGet (incl : Bool) (m : SMap) (now : Nat) (k : String) : Option String :=
  match smFind m k with
  | some e => if alive incl now e.exp then some e.val else none
  | none => none

/-- `Put`: the newest entry shadows older ones -/
def smPut (m : SMap) (k : String) (e : Entry) : SMap := (k, e) :: m

structure VciSt where
  /-- openid4vci/preauthcode : pre-authorized code ↦ flow id -/
  codes : Store
  /-- openid4vci/flow : flow id ↦ issuer of the flow -/
  flows : SMap
  /-- openid4vci/accesstoken : access token ↦ flow id -/
  access : SMap
  /-- openid4vci/c_nonce : c_nonce ↦ flow id -/
  cnonce : SMap
  deriving Repr, Inhabited

def preAuthKey (code : String) : Key := ⟨.burn .preAuth, code⟩

def vciTTL (c : Sq) : Nat := c.ttl (.burn .preAuth)

/-- the i-th `errors.New` message of a store function (regenerated list) -/
def storeErrAt (msgs : List String) (i : Nat) : Ans :=
  match msgs[i]? with
  | some m => .err "error" m
  | none => .err "unlisted" ""

/-- the i-th `openid4vci.Error` literal of the handler, its code constant resolved -/
def vciErrAt (i : Nat) : Ans :=
  match Facts.C05.errs_vciHandleAccessTokenRequest[i]? with
  | some (c, d) => (match alGet Facts.C05.vciErrorCodes c with | some v => .err v d | none => .err ("unresolved:" ++ c) d)
  | none => .err "unlisted" ""

/-- `storage.ErrNotFound` handed through by FindAndDeleteReference -/
def errNotFound : Ans := .err "error" "not found"

/-- openid_store.go Store -/
def vStore (c : Sq) (s : VciSt) (flowID issuer : String) : Ans × VciSt :=
  let E := storeErrAt Facts.C05.vciStoreErrs_Store
  if flowID = "" then (E 0, s)
  else if (smGet c.incl s.flows c.now flowID).isSome then (E 1, s)
  else (.ok, { s with flows := smPut s.flows flowID ⟨issuer, c.now + vciTTL c⟩ })

/-- openid_store.go StoreReference into one of the string-keyed reference stores -/
def storeRefS (c : Sq) (flows refs : SMap) (flowID reference : String) : Ans × SMap :=
  let E := storeErrAt Facts.C05.vciStoreErrs_StoreReference
  if reference = "" then (E 0, refs)
  else if (smGet c.incl flows c.now flowID).isNone then (E 1, refs)
  else if (smGet c.incl refs c.now reference).isSome then (E 2, refs)
  else (.ok, smPut refs reference ⟨flowID, c.now + vciTTL c⟩)

/-- openid_store.go StoreReference(…, preAuthCodeRefType, code): the issuing side of the one-time secret -/
def vStoreCode (c : Sq) (s : VciSt) (flowID code : String) : Ans × VciSt :=
  let E := storeErrAt Facts.C05.vciStoreErrs_StoreReference
  if code = "" then (E 0, s)
  else if (smGet c.incl s.flows c.now flowID).isNone then (E 1, s)
  else if (stGet c.incl s.codes c.now (preAuthKey code)).isSome then (E 2, s)
  else (.ok, { s with codes := stPut s.codes (preAuthKey code) ⟨flowID, c.now + vciTTL c⟩ })

structure VRes where
  ans : Ans
  /-- the flow the access token was issued for ("" unless honoured) -/
  flow : String := ""
  st : VciSt

/-- openid.go HandleAccessTokenRequest at the issuer `issuer`; `tok`, `cn`: what crypto.GenerateNonce returns -/
def handlePreAuth (c : Sq) (s : VciSt) (issuer code tok cn : String) : VRes :=
  -- FindAndDeleteReference: refStore.GetAndDelete
  match gadSeq c s.codes (preAuthKey code) with
  | (none, codes1) => { ans := vciErrAt 0, st := { s with codes := codes1 } }            -- (nil, nil) → flow == nil
  | (some flowID, codes1) =>
    let s1 := { s with codes := codes1 }
    -- flowStore.Get(flowID): its error is returned as is
    match smGet c.incl s.flows c.now flowID with
    | none => { ans := errNotFound, st := s1 }
    | some flowIssuer =>
      if flowIssuer ≠ issuer then { ans := vciErrAt 1, st := s1 }
      else
        match storeRefS c s1.flows s1.access flowID tok with
        | (.ok, access1) =>
          (match storeRefS c s1.flows s1.cnonce flowID cn with
           | (.ok, cnonce1) => { ans := .ok, flow := flowID, st := { s1 with access := access1, cnonce := cnonce1 } }
           | (e, _) => { ans := e, st := { s1 with access := access1 } })
        | (e, _) => { ans := e, st := s1 }

/-- a call at the OpenID4VCI issuer: the issuing side and the token endpoint -/
inductive VForm where
  | flow (id issuer : String)               -- Store
  | ref (flowID code : String)              -- StoreReference(…, "preauthcode", code)
  | token (issuer code tok cn : String)     -- HandleAccessTokenRequest
  deriving DecidableEq, Repr, Inhabited

def handleVForm (c : Sq) (s : VciSt) : VForm → VRes
  | .flow id issuer => let r := vStore c s id issuer; { ans := r.1, st := r.2 }
  | .ref f code => let r := vStoreCode c s f code; { ans := r.1, st := r.2 }
  | .token issuer code tok cn => handlePreAuth c s issuer code tok cn

/-- calls served one after the other; `dt` seconds pass before each -/
def runVForms (incl : Bool) (ttl : Kind → Nat) : Nat → VciSt → List (Nat × VForm) → List VRes × VciSt × Nat
  | now, s, [] => ([], s, now)
  | now, s, (dt, f) :: rest =>
    let r := handleVForm ⟨incl, now + dt, ttl⟩ s f
    let x := runVForms incl ttl (now + dt) r.st rest
    (r :: x.1, x.2.1, x.2.2)

end Nuts.C05
