/-
  C05, deepening round 3 (2026-09-28): every request of the request-level layer (Forms.lean) as the THREADS of the schedule
  model (OneTime.lean) it stands for, and the underlying store calls (`get` / `set` / `del` on one-time-store keys) these
  threads make when they run alone — the sequence the correspondence compares with the calls the REAL endpoint makes on
  the real session database (recorded by the gate under go-cache / miniredis).

  * token request, authorization_code grant  → one `code` thread (`TokenForm.toBurn`: pre / want / post are the handler's checks)
  * token request, vp_token-bearer grant     → one `s2s` mark thread per presentation the nonce loop reaches (early exit)
  * authorization response                   → `responseThreads`: one consuming `vpNonce` thread, or one Delete-only thread
                                               per collected nonce ("burn them all")
  * request-object fetch                     → one `reqObj` thread (`reqObjReq`)
  * landing page                             → one `redirect` thread (none for an empty token)
  * DPoP validation                          → one `jti` mark thread, only when every other check passed
  Core Lean only.
-/
import NutsModel.C05.Forms
import NutsModel.C05.Today
import NutsModel.C05.Vci

namespace Nuts.C05

/-- the threads of the schedule model one authorization response (that reached the nonce check) stands for: any
    disagreement / missing nonce / extraction error → one Delete-only thread per collected nonce ("burn them all");
    otherwise ONE consuming thread for the common nonce, expecting the state of the response -/
def responseThreads (ps : List Pres) (state : String) : List BurnReq :=
  let a := collect ps
  if nonceErrs a > 0 then a.nonces.map (fun n => { kind := .vpNonce, id := n, want := state, pre := false })
  else match a.nonces with
    | [] => []
    | n :: _ => [{ kind := .vpNonce, id := n, want := state }]

/-- the thread a request-object fetch stands for.  The handler's two comparisons look at two FIELDS of the consumed value
    (`ro.Client`, `ro.RequestURIMethod`), the thread's `verdict` compares the whole value: the thread is stated per stored
    value `v`, the handler's own predicate on it is the thread's `post` -/
def reqObjReq (r : ReqObjFetch) (v : String) : BurnReq :=
  { kind := .reqObj, id := r.id, want := v,
    post := decide (roClient v = r.subject) && decide (roMethod v = (if r.post then "post" else "get")) }

/-- the mark threads of the s2s nonce loop: it stops at the first presentation without nonce (no store call) or with a
    used nonce (that thread still runs: its Get hits) -/
def s2sMarks (c : Sq) : Store → List String → List MarkReq
  | _, [] => []
  | st, n :: rest =>
    if n = "" then [] else
    match pifSeq c st (s2sKey n) (markVal .s2s) with
    | (false, _) => [{ kind := .s2s, id := n }]
    | (true, st1) => { kind := .s2s, id := n } :: s2sMarks c st1 rest

/-- the threads a request of any endpoint stands for, given the store it meets -/
def formThreads (c : Sq) (pk : Pkce) (st : Store) : Form → List Req
  | .token f =>
    let a := grantAction f.grantType
    if a = "handleAccessTokenRequest" then (match f.toBurn pk with | some r => [.burn r] | none => [])
    else if a = "handleS2SAccessTokenRequest" then
      (match f.assertion with
       | some nonces => if !f.submission || !f.scope || f.clientId.isNone then [] else (s2sMarks c st nonces).map Req.mark
       | none => [])
    else []
  | .response r =>
    (match r.state, r.vpToken with
     | some state, some (p :: ps) => if !r.stateKnown || !r.tenantOk then [] else (responseThreads (p :: ps) state).map Req.burn
     | _, _ => [])
  | .reqObj r => [.burn (reqObjReq r ((stGet c.incl st c.now (reqObjKey r.id)).getD ""))]
  | .landing t => if t = "" then [] else [.burn { kind := .redirect, id := t }]
  | .dpop r => if r.parses && r.matchOk && r.athPresent && r.athOk then [.mark { kind := .jti, id := r.jti }] else []

/-- five steps of thread 0 (enough for every thread program) -/
def soloSteps : List Ev := [.step 0, .step 0, .step 0, .step 0, .step 0]

/-- the underlying store calls (`op:kind/id`) the given requests make when they run one after the other, each alone, and the
    store they leave -/
def soloCalls (cfg : Cfg) (now : Nat) : Store → List Req → List String × Store
  | st, [] => ([], st)
  | st, r :: rest =>
    let w : World := { store := st, now := now, lock := none, ths := [r.thread] }
    let ops := (soloOps cfg 8 w).map (fun o => o ++ ":" ++ r.thread.key.ns.name ++ "/" ++ r.thread.key.id)
    let x := soloCalls cfg now (run cfg soloSteps w).store rest
    (ops ++ x.1, x.2)

/-- requests served one after the other (as `runForms`): per request the underlying calls of its threads; the store is
    advanced by the request-level handler itself -/
def runFormCalls (cfg : Cfg) (pk : Pkce) : Nat → Store → List (Nat × Form) → List (List String)
  | _, _, [] => []
  | now, st, (dt, f) :: rest =>
    let c : Sq := ⟨cfg.expInclusive, now + dt, cfg.ttl⟩
    (soloCalls cfg (now + dt) st (formThreads c pk st f)).1 :: runFormCalls cfg pk (now + dt) (handleForm c pk st f).2 rest

/-! ### OpenID4VCI token endpoint -/

/-- the thread a token request with a pre-authorized code stands for: it consumes the code (`refStore.GetAndDelete`); what
    the handler does with the consumed flow id afterwards (flow lookup, issuer comparison, storing the two tokens) is the
    thread's `post` -/
def preAuthReq (c : Sq) (s : VciSt) (issuer code tok cn : String) : BurnReq :=
  { kind := .preAuth, id := code, want := (stGet c.incl s.codes c.now (preAuthKey code)).getD "",
    post := decide ((handlePreAuth c s issuer code tok cn).ans = .ok) }

/-- issuer calls served one after the other (as `runVForms`): per token request the underlying calls of its thread on the
    pre-authorized-code store -/
def runVFormCalls (cfg : Cfg) : Nat → VciSt → List (Nat × VForm) → List (List String)
  | _, _, [] => []
  | now, s, (dt, f) :: rest =>
    let c : Sq := ⟨cfg.expInclusive, now + dt, cfg.ttl⟩
    (match f with
     | .token issuer code tok cn => (soloCalls cfg (now + dt) s.codes [.burn (preAuthReq c s issuer code tok cn)]).1
     | _ => []) :: runVFormCalls cfg (now + dt) (handleVForm c s f).st rest

end Nuts.C05
