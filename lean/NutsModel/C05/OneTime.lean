/-
  C05 — one-time secrets on the session store (storage/session.go, session_inmemory.go and the consumers in
  auth/api/iam: openid4vp.go handleAccessTokenRequest / validatePresentationNonce, api.go RequestJWTByGet/Post,
  user.go handleUserLanding, s2s_vptoken.go validateS2SPresentationNonce, dpop.go ValidateDPoPProof).
  Core Lean only.

  Modelling decisions (DESIGN.md §5 C05, §3 "Concurrency"):
  * the session database is a map  Key ⇀ (value, expiry)  whose `Get/Set/Delete` are each atomic
    (contract of go-cache / Redis / memcached; exercised by the harness, not proved).  A key is (namespace, id);
    every consumer kind has its own namespace (store prefix — regenerated fact), so `Kind` doubles as namespace.
  * a request is a thread: a program counter that says before which underlying store call the goroutine is
    parked.  One scheduled step = perform that call, then run locally to the next call (or block on the session
    lock, or finish).  A schedule is a list of events: `step tid` or `tick seconds`.
  * two families of consumers.  *Burn* consumers (authorization code, request object, OpenID4VP nonce, user
    redirect token, OpenID4VCI pre-authorized code) fetch a value stored at issuance through `SessionStore.GetAndDelete`.  *Mark* consumers
    (s2s presentation nonce, DPoP jti) look the secret up and store it as used.
  * how `SessionStoreImpl.GetAndDelete` is built is a parameter `GadShape` filled from a regenerated fact:
    `twoCalls` (Get, then Delete), `locked` (the same two calls under a database-wide mutex), `singleCall`.
    Whether the trailing Delete reports a missing key (memcached does, go-cache and Redis do not) and whether
    GetAndDelete passes that error on are parameters `strictDelete`, `gadRawDelete`.
  * how the mark consumers use the store is `MarkShape`: `getThenPut` (Get, then Put — separate calls),
    `locked` (the same two calls under the database-wide mutex), `putIfAbsent` (one atomic call).
-/
import NutsModel.Base

namespace Nuts.C05

inductive BurnKind where
  | code      -- oauth/code          handleAccessTokenRequest
  | reqObj    -- oauth/requestobject RequestJWTByGet / RequestJWTByPost
  | vpNonce   -- oauth/nonce         validatePresentationNonce
  | redirect  -- user/redirect       handleUserLanding
  | preAuth   -- openid4vci/preauthcode   vcr/issuer HandleAccessTokenRequest (OpenID4VCI pre-authorized code)
  deriving DecidableEq, Repr, Inhabited

inductive MarkKind where
  | s2s       -- s2s/nonce           validateS2SPresentationNonce
  | jti       -- nonceonce           ValidateDPoPProof
  deriving DecidableEq, Repr, Inhabited

/-- consumer kinds = store namespaces -/
inductive Kind where
  | burn (b : BurnKind)
  | mark (m : MarkKind)
  deriving DecidableEq, Repr, Inhabited

def Kind.all : List Kind :=
  [.burn .code, .burn .reqObj, .burn .vpNonce, .burn .redirect, .burn .preAuth, .mark .s2s, .mark .jti]

def Kind.name : Kind → String
  | .burn .code => "code" | .burn .reqObj => "reqobj" | .burn .vpNonce => "vpnonce" | .burn .redirect => "redirect"
  | .burn .preAuth => "preauth" | .mark .s2s => "s2s" | .mark .jti => "jti"

structure Key where
  ns : Kind
  id : String
  deriving DecidableEq, Repr, Inhabited

structure Entry where
  val : String
  exp : Nat
  deriving DecidableEq, Repr, Inhabited

abbrev Store := List (Key × Entry)

def stFind : Store → Key → Option Entry
  | [], _ => none
  | (k', e) :: s, k => if k' = k then some e else stFind s k

def stErase : Store → Key → Store
  | [], _ => []
  | (k', e) :: s, k => if k' = k then stErase s k else (k', e) :: stErase s k

def stPut (s : Store) (k : Key) (e : Entry) : Store := (k, e) :: stErase s k

/-- is an entry that expires at `exp` still visible at `now`?  go-cache: expired iff now > expiration (`incl`);
    Redis: gone once now ≥ expiry. -/
def alive (incl : Bool) (now exp : Nat) : Bool := now < exp || (incl && now = exp)

def stGet (incl : Bool) (s : Store) (now : Nat) (k : Key) : Option String :=
  match stFind s k with
  | some e => if alive incl now e.exp then some e.val else none
  | none => none

inductive Outcome where
  | ok
  | missingParam   -- code: code_verifier / client_id absent;  vpNonce: presentations disagree on the nonce (burn all)
  | notFound       -- GetAndDelete returned an error
  | mismatch       -- stored value is not the one this request may use (client_id / state)
  | postCheck      -- a later local check failed (PKCE verifier, request_uri_method)
  | used           -- nonce / jti seen before
  | storeErr       -- the session store failed (mark consumers report it; burn consumers report `notFound`)
  deriving DecidableEq, Repr, Inhabited

def Outcome.name : Outcome → String
  | .ok => "ok" | .missingParam => "missing-param" | .notFound => "not-found" | .mismatch => "mismatch"
  | .postCheck => "post-check" | .used => "used" | .storeErr => "store-error"

/-- the outcomes in which GetAndDelete handed the stored value to the request -/
def Outcome.took : Outcome → Bool
  | .ok => true | .mismatch => true | .postCheck => true | _ => false

inductive GadShape where
  | twoCalls | locked | singleCall
  deriving DecidableEq, Repr, Inhabited

inductive MarkShape where
  | getThenPut | locked | putIfAbsent
  deriving DecidableEq, Repr, Inhabited

structure Cfg where
  gad : GadShape
  /-- GetAndDelete returns the error of the underlying Delete unfiltered (`s.underlying.Delete`, not `s.Delete`) -/
  gadRawDelete : Bool
  /-- back-end: deleting a missing key is an error (memcached: true; go-cache, Redis: false) -/
  strictDelete : Bool
  /-- back-end: an entry is still visible at its expiry instant (go-cache: true; Redis: false) -/
  expInclusive : Bool
  mark : MarkKind → MarkShape
  ttl : Kind → Nat
  /-- the handler of this kind calls a collaborator between accepting the secret and returning (observed at handler
      level only: the replicated storage-level consumers have none) -/
  ext : BurnKind → Bool := fun _ => false

/-- a request presenting the burn-on-use secret `id` -/
structure BurnReq where
  kind : BurnKind
  id : String
  /-- value this request expects to find (client_id for code / request object, state for the OpenID4VP nonce,
      issuer of the flow for the pre-authorized code) -/
  want : String := ""
  /-- the checks made before the store is consulted pass (code: code_verifier and client_id present;
      vpNonce: all presentations carry the same nonce) -/
  pre : Bool := true
  /-- the local checks made after the value check pass (PKCE; request_uri_method) -/
  post : Bool := true
  /-- injected store faults: the underlying Get / every underlying Delete of this request returns an error -/
  failGet : Bool := false
  failDel : Bool := false
  deriving DecidableEq, Repr, Inhabited

structure MarkReq where
  kind : MarkKind
  id : String
  /-- injected store faults: the underlying Get / Set of this request returns an error -/
  failGet : Bool := false
  failSet : Bool := false
  deriving DecidableEq, Repr, Inhabited

inductive BurnPc where
  | start                  -- not yet running
  | wantLock               -- blocked on the session database mutex
  | atCall                 -- parked before the first underlying call of GetAndDelete (Get, or the single atomic call)
  | atDel (v : String)     -- GetAndDelete: Get returned v, parked before the underlying Delete
  | atExt (o : Outcome)    -- the secret has been consumed and the request accepted, the handler is still in flight: parked
                           -- before the call of a collaborator that follows (request object: the signer; code: storing the
                           -- access token).  No effect on the one-time stores.
  | atBurn (o : Outcome)   -- result decided, parked before the unconditional Delete (code: deferred; vpNonce: burn all)
  | done (o : Outcome)
  deriving DecidableEq, Repr, Inhabited

inductive MarkPc where
  | start
  | wantLock
  | atCall                 -- parked before the underlying Get (or the single atomic put-if-absent call)
  | atPut (fresh : Bool)   -- Get missed (fresh = true; a hit never leads here), parked before the underlying Set
  | done (o : Outcome)
  deriving DecidableEq, Repr, Inhabited

inductive Thread where
  | burn (r : BurnReq) (pc : BurnPc) (fin : Nat)
  | mark (r : MarkReq) (pc : MarkPc) (fin : Nat)
  deriving DecidableEq, Repr, Inhabited

def BurnReq.key (r : BurnReq) : Key := ⟨.burn r.kind, r.id⟩
def MarkReq.key (r : MarkReq) : Key := ⟨.mark r.kind, r.id⟩

def Thread.key : Thread → Key
  | .burn r _ _ => r.key
  | .mark r _ _ => r.key

/-- time at which the thread reached its current state -/
def Thread.fin : Thread → Nat
  | .burn _ _ f => f
  | .mark _ _ f => f

def Thread.outcome : Thread → Option Outcome
  | .burn _ (.done o) _ => some o
  | .mark _ (.done o) _ => some o
  | _ => none

def markVal : MarkKind → String
  | .jti => "{}" | .s2s => "true"

def unlock (useLock : Bool) (lock : Option Nat) : Option Nat := if useLock then none else lock

/-- what the handler does with the result of GetAndDelete (`v = none`: it returned an error) -/
def verdict (r : BurnReq) (v : Option String) : Outcome :=
  match v with
  | none => .notFound
  | some x =>
    match r.kind with
    | .redirect => .ok
    | _ => if x ≠ r.want then .mismatch else if r.post then .ok else .postCheck

/-- where a request goes once its result `o` is final: `code` still has its deferred Delete to run -/
def finishBurn (r : BurnReq) (o : Outcome) : BurnPc :=
  match r.kind with
  | .code => .atBurn o
  | _ => .done o

/-- after GetAndDelete returned: an accepted request may still call a collaborator before it returns -/
def afterGad (cfg : Cfg) (r : BurnReq) (v : Option String) : BurnPc :=
  if verdict r v = .ok && cfg.ext r.kind then .atExt .ok else finishBurn r (verdict r v)

def Cfg.gadLocks (cfg : Cfg) : Bool := cfg.gad = .locked
def Cfg.markLocks (cfg : Cfg) (m : MarkKind) : Bool := cfg.mark m = .locked

/-- one scheduled step of a burn consumer -/
def stepBurn (cfg : Cfg) (st : Store) (now : Nat) (lock : Option Nat) (i : Nat) (r : BurnReq) (pc : BurnPc) :
    BurnPc × Store × Option Nat :=
  let k := r.key
  match pc with
  | .start =>
    if !r.pre then (.atBurn .missingParam, st, lock)
    else if cfg.gadLocks then
      (match lock with
       | none => (.atCall, st, some i)
       | some _ => (.wantLock, st, lock))
    else (.atCall, st, lock)
  | .wantLock =>
    (match lock with
     | none => (.atCall, st, some i)
     | some _ => (.wantLock, st, lock))
  | .atCall =>
    -- a failing store call makes GetAndDelete return that error: nothing is handed out, nothing is deleted
    if r.failGet then (afterGad cfg r none, st, unlock cfg.gadLocks lock) else
    (match cfg.gad with
     | .singleCall => (afterGad cfg r (stGet cfg.expInclusive st now k), stErase st k, lock)
     | _ =>
       match stGet cfg.expInclusive st now k with
       | some v => (.atDel v, st, lock)
       | none => (afterGad cfg r none, st, unlock cfg.gadLocks lock))
  | .atDel v =>
    if r.failDel then (afterGad cfg r none, st, unlock cfg.gadLocks lock) else
    let missing := (stGet cfg.expInclusive st now k).isNone
    let err := cfg.gadRawDelete && cfg.strictDelete && missing
    (afterGad cfg r (if err then none else some v), stErase st k, unlock cfg.gadLocks lock)
  | .atExt o => (finishBurn r o, st, lock)
  | .atBurn o => (.done o, if r.failDel then st else stErase st k, lock)
  | .done o => (.done o, st, lock)

/-- one scheduled step of a mark consumer -/
def stepMark (cfg : Cfg) (st : Store) (now : Nat) (lock : Option Nat) (i : Nat) (r : MarkReq) (pc : MarkPc) :
    MarkPc × Store × Option Nat :=
  let k := r.key
  let e : Entry := ⟨markVal r.kind, now + cfg.ttl (.mark r.kind)⟩
  match pc with
  | .start =>
    if cfg.markLocks r.kind then
      (match lock with
       | none => (.atCall, st, some i)
       | some _ => (.wantLock, st, lock))
    else (.atCall, st, lock)
  | .wantLock =>
    (match lock with
     | none => (.atCall, st, some i)
     | some _ => (.wantLock, st, lock))
  | .atCall =>
    if r.failGet then (.done .storeErr, st, unlock (cfg.markLocks r.kind) lock) else
    (match cfg.mark r.kind with
     | .putIfAbsent =>
       if r.failSet then (.done .storeErr, st, lock) else
       (match stGet cfg.expInclusive st now k with
        | some _ => (.done .used, st, lock)
        | none => (.done .ok, stPut st k e, lock))
     | _ =>
       match stGet cfg.expInclusive st now k with
       | some _ => (.done .used, st, unlock (cfg.markLocks r.kind) lock)
       | none => (.atPut true, st, lock))
  | .atPut fresh =>
    if r.failSet then (.done .storeErr, st, unlock (cfg.markLocks r.kind) lock) else
    (.done (if fresh then .ok else .used), stPut st k e, unlock (cfg.markLocks r.kind) lock)
  | .done o => (.done o, st, lock)

def stepThread (cfg : Cfg) (st : Store) (now : Nat) (lock : Option Nat) (i : Nat) (t : Thread) :
    Thread × Store × Option Nat :=
  match t with
  | .burn r pc f =>
    let x := stepBurn cfg st now lock i r pc
    (.burn r x.1 (if x.1 = pc then f else now), x.2.1, x.2.2)
  | .mark r pc f =>
    let x := stepMark cfg st now lock i r pc
    (.mark r x.1 (if x.1 = pc then f else now), x.2.1, x.2.2)

structure World where
  store : Store
  now : Nat
  lock : Option Nat
  ths : List Thread
  deriving Repr, Inhabited

inductive Ev where
  | step (i : Nat)
  | tick (dt : Nat)
  deriving DecidableEq, Repr, Inhabited

def stepW (cfg : Cfg) (w : World) (i : Nat) : World :=
  match w.ths[i]? with
  | none => w
  | some t =>
    let r := stepThread cfg w.store w.now w.lock i t
    { w with ths := w.ths.set i r.1, store := r.2.1, lock := r.2.2 }

def applyEv (cfg : Cfg) (w : World) : Ev → World
  | .step i => stepW cfg w i
  | .tick dt => { w with now := w.now + dt }

def run (cfg : Cfg) (s : List Ev) (w : World) : World := s.foldl (applyEv cfg) w

inductive Req where
  | burn (r : BurnReq)
  | mark (r : MarkReq)
  deriving DecidableEq, Repr, Inhabited

def Req.thread : Req → Thread
  | .burn r => .burn r .start 0
  | .mark r => .mark r .start 0

def init (st : Store) (reqs : List Req) : World :=
  { store := st, now := 0, lock := none, ths := reqs.map Req.thread }

/-- the request was honoured -/
def Thread.won (t : Thread) : Bool := t.outcome = some .ok

/-- GetAndDelete handed the stored value to this request -/
def Thread.took : Thread → Bool
  | .burn _ (.atExt o) _ => o.took
  | .burn _ (.atBurn o) _ => o.took
  | .burn _ (.done o) _ => o.took
  | _ => false

/-- the requests that were honoured for secret `k` -/
def winners (w : World) (k : Key) : List Thread := w.ths.filter (fun t => t.key = k && t.won)

def successes (w : World) (k : Key) : Nat := (winners w k).length

/-- a step of thread `i` changes something: it is not finished and not waiting for a held lock -/
def enabled (w : World) (i : Nat) : Bool :=
  match w.ths[i]? with
  | none => false
  | some (.burn _ (.done _) _) => false
  | some (.mark _ (.done _) _) => false
  | some (.burn _ .wantLock _) => w.lock.isNone
  | some (.mark _ .wantLock _) => w.lock.isNone
  | some _ => true

end Nuts.C05
