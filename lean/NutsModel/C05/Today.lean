/-
  C05 — the model instantiated with what /repo's source says today (regenerated facts).
  A fact the model cannot interpret makes this file fail to elaborate (never a silent default).
-/
import NutsModel.C05.OneTime
import NutsModel.Facts.C05

namespace Nuts.C05

/-- the session-store accessor in auth/api/iam that holds the secrets of each consumer kind -/
def Kind.storeFn : Kind → String
  | .burn .code => "oauthCodeStore" | .burn .reqObj => "authzRequestObjectStore" | .burn .vpNonce => "oauthNonceStore"
  | .burn .redirect => "userRedirectStore" | .burn .preAuth => "refStore"
  | .mark .s2s => "s2sNonceStore" | .mark .jti => "useNonceOnceStore"

structure ApiCall where
  method : String
  deferred : Bool := false
  deriving DecidableEq, Repr

/-- as the fact extractor prints a call: `accessor.Method`, `:defer` appended inside a defer statement -/
def ApiCall.render (store : String) (c : ApiCall) : String :=
  store ++ "." ++ c.method ++ (if c.deferred then ":defer" else "")

/-- the session-store calls of each consumer, in source order -/
def Kind.api : Kind → List ApiCall
  | .burn .code => [⟨"Delete", true⟩, ⟨"GetAndDelete", false⟩]
  | .burn .vpNonce => [⟨"Delete", false⟩, ⟨"GetAndDelete", false⟩]
  | .burn .reqObj | .burn .redirect | .burn .preAuth => [⟨"GetAndDelete", false⟩]
  | .mark _ => [⟨"PutIfAbsent", false⟩]

def Kind.apiCalls (k : Kind) : List String := k.api.map (ApiCall.render k.storeFn)

/-- how a mark-as-used consumer uses its store, read off its call list -/
def markShapeOf (store : String) (calls : List String) : Option MarkShape :=
  if calls = [store ++ ".Get", store ++ ".Put"] then some .getThenPut
  else if calls = [store ++ ".PutIfAbsent"] then some Facts.C05.pifShape
  else none

def todayMarkS2S : MarkShape := (markShapeOf "s2sNonceStore" Facts.C05.callsS2S).get (by decide)
def todayMarkJti : MarkShape := (markShapeOf "useNonceOnceStore" Facts.C05.callsJti).get (by decide)

def todayTTL : Kind → Nat
  | .burn .code => Facts.C05.ttl_oauthCodeStore | .burn .reqObj => Facts.C05.ttl_authzRequestObjectStore
  | .burn .vpNonce => Facts.C05.ttl_oauthNonceStore | .burn .redirect => Facts.C05.ttl_userRedirectStore
  | .burn .preAuth => Facts.C05.vciTokenTTL
  | .mark .s2s => Facts.C05.ttl_s2sNonceStore | .mark .jti => Facts.C05.ttl_useNonceOnceStore

def todayPrefix : Kind → List String
  | .burn .code => Facts.C05.prefix_oauthCodeStore | .burn .reqObj => Facts.C05.prefix_authzRequestObjectStore
  | .burn .vpNonce => Facts.C05.prefix_oauthNonceStore | .burn .redirect => Facts.C05.prefix_userRedirectStore
  | .burn .preAuth => Facts.C05.vciRefPrefix.map (fun p => if p = "<refType>" then Facts.C05.vciPreAuthRefType else p)
  | .mark .s2s => Facts.C05.prefix_s2sNonceStore | .mark .jti => Facts.C05.prefix_useNonceOnceStore

/-- today's code on a given back-end (`strict`: Delete of a missing key is an error; `incl`: visible at the expiry instant) -/
def today (strict incl : Bool) : Cfg :=
  { gad := Facts.C05.gadShape, gadRawDelete := Facts.C05.gadRawDelete, strictDelete := strict, expInclusive := incl,
    mark := fun k => match k with | .jti => todayMarkJti | .s2s => todayMarkS2S,
    ttl := todayTTL }

/-- several nodes sharing one Redis, one request per node: a mutex that lives in each node's process serialises
    nothing between them, so the locked shapes degrade to their unlocked two-call forms -/
def todayRedisMultiNode : Cfg :=
  let c := today false false
  { c with gad := (match c.gad with | .locked => .twoCalls | g => g),
           mark := fun m => (match c.mark m with | .locked => .getThenPut | x => x) }

/-- the in-memory back-end (go-cache) -/
def todayMem : Cfg := today false true
/-- the Redis back-end -/
def todayRedis : Cfg := today false false
/-- the memcached back-end -/
def todayMemcached : Cfg := today true false

/-- the underlying store calls one session-store API call consists of -/
def expandCall (cfg : Cfg) (k : Kind) (c : ApiCall) : List String :=
  if c.method = "GetAndDelete" then (match cfg.gad with | .singleCall => ["getdel"] | _ => ["get", "del"])
  else if c.method = "PutIfAbsent" then
    (match k with
     | .mark mk => (match cfg.mark mk with | .putIfAbsent => ["putabsent"] | _ => ["get", "set"])
     | _ => ["?"])
  else if c.method = "Get" then ["get"] else if c.method = "Put" then ["set"]
  else if c.method = "Delete" then ["del"] else ["?"]

/-- which underlying call a parked thread is about to make -/
def Thread.nextOp (cfg : Cfg) : Thread → Option String
  | .burn _ .atCall _ => some (if cfg.gad = .singleCall then "getdel" else "get")
  | .burn _ (.atDel _) _ => some "del"
  | .burn _ (.atBurn _) _ => some "del"
  | .mark r .atCall _ => some (if cfg.mark r.kind = .putIfAbsent then "putabsent" else "get")
  | .mark _ (.atPut _) _ => some "set"
  | _ => none

/-- the underlying calls a request makes when it runs alone (thread 0) to completion -/
def soloOps (cfg : Cfg) : Nat → World → List String
  | 0, _ => []
  | fuel + 1, w =>
    match w.ths[0]? with
    | none => []
    | some t =>
      if enabled w 0 then (match t.nextOp cfg with | some o => [o] | none => []) ++ soloOps cfg fuel (stepW cfg w 0)
      else []

/-! ### witness schedules for the unlocked two-call shapes (used by Props and replayed on the real code) -/

/-- `GetAndDelete` = Get, then Delete, no lock, on a back-end whose Delete is silent about missing keys;
    mark consumers = Get, then Put, no lock -/
def cfgTwoCalls : Cfg :=
  { gad := .twoCalls, gadRawDelete := true, strictDelete := false, expInclusive := true,
    mark := fun _ => .getThenPut, ttl := fun _ => 60 }

def witnessCodeReq : Req := .burn { kind := .code, id := "s1", want := "clientA" }
def witnessStore : Store := [(⟨.burn .code, "s1"⟩, ⟨"clientA", 60⟩)]
/-- launch both, get₁ get₂ del₁ del₂, then the deferred deletes -/
def witnessSched : List Ev := [.step 0, .step 1, .step 0, .step 1, .step 0, .step 1, .step 0, .step 1]
/-- launch both, get₁ get₂ put₁ put₂ -/
def witnessMarkSched : List Ev := [.step 0, .step 1, .step 0, .step 1, .step 0, .step 1]
def witnessMarkReqs (m : MarkKind) : List Req := [.mark { kind := m, id := "n1" }, .mark { kind := m, id := "n1" }]

end Nuts.C05
