/-
  C05 — the model instantiated with what /repo's source says today (regenerated facts).
  A fact the model cannot interpret makes this file fail to elaborate (never a silent default).
-/
import NutsModel.C05.OneTime
import NutsModel.Facts.C05

namespace Nuts.C05

/-- the session-store accessor in auth/api/iam that holds the secrets of each consumer kind -/
def Kind.storeFn : Kind → String
  | .burn .code => "oauthCodeStore" | .burn .reqObj => "authzRequestObjectStore" | .burn .vpNonce => "oauthNonceStore"
  | .burn .redirect => "userRedirectStore" | .mark .s2s => "s2sNonceStore" | .mark .jti => "useNonceOnceStore"

/-- the session-store calls of each consumer, in source order (`:defer` = inside a defer statement) -/
def Kind.apiCalls (k : Kind) : List String :=
  match k with
  | .burn .code => [k.storeFn ++ ".Delete:defer", k.storeFn ++ ".GetAndDelete"]
  | .burn .vpNonce => [k.storeFn ++ ".Delete", k.storeFn ++ ".GetAndDelete"]
  | .burn .reqObj | .burn .redirect => [k.storeFn ++ ".GetAndDelete"]
  | .mark _ => [k.storeFn ++ ".PutIfAbsent"]

/-- how a mark-as-used consumer uses its store, read off its call list -/
def markShapeOf (store : String) (calls : List String) : Option MarkShape :=
  if calls = [store ++ ".Get", store ++ ".Put"] then some .getThenPut
  else if calls = [store ++ ".PutIfAbsent"] then some Facts.C05.pifShape
  else none

def todayMarkS2S : MarkShape := (markShapeOf "s2sNonceStore" Facts.C05.callsS2S).get (by decide)
def todayMarkJti : MarkShape := (markShapeOf "useNonceOnceStore" Facts.C05.callsJti).get (by decide)

def todayTTL : Kind → Nat
  | .burn .code => Facts.C05.ttl_oauthCodeStore | .burn .reqObj => Facts.C05.ttl_authzRequestObjectStore
  | .burn .vpNonce => Facts.C05.ttl_oauthNonceStore | .burn .redirect => Facts.C05.ttl_userRedirectStore
  | .mark .s2s => Facts.C05.ttl_s2sNonceStore | .mark .jti => Facts.C05.ttl_useNonceOnceStore

def todayPrefix : Kind → List String
  | .burn .code => Facts.C05.prefix_oauthCodeStore | .burn .reqObj => Facts.C05.prefix_authzRequestObjectStore
  | .burn .vpNonce => Facts.C05.prefix_oauthNonceStore | .burn .redirect => Facts.C05.prefix_userRedirectStore
  | .mark .s2s => Facts.C05.prefix_s2sNonceStore | .mark .jti => Facts.C05.prefix_useNonceOnceStore

/-- today's code on a given back-end (`strict`: Delete of a missing key is an error; `incl`: visible at the expiry instant) -/
def today (strict incl : Bool) : Cfg :=
  { gad := Facts.C05.gadShape, gadRawDelete := Facts.C05.gadRawDelete, strictDelete := strict, expInclusive := incl,
    mark := fun k => match k with | .jti => todayMarkJti | .s2s => todayMarkS2S,
    ttl := todayTTL }

/-- the in-memory back-end (go-cache) -/
def todayMem : Cfg := today false true
/-- the Redis back-end -/
def todayRedis : Cfg := today false false
/-- the memcached back-end -/
def todayMemcached : Cfg := today true false

end Nuts.C05
