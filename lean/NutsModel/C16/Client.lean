/-
  C16 (deepening round 3) — the CLIENT side of a node that mirrors several lists in its ONE `sqlStore`
  (client.go `clientUpdater.update` / `updateService`; store.go `add` prunes EVERY list, `wipeIfSeedChanged`,
  `exists`, `getTimestamp` filter on `service_id`). Core Lean only.
-/
import NutsModel.C16.Node

namespace Nuts.C16

/-- what `httpClient.Get(service.Endpoint, after)` gives the client: the call failed (transport, the remote node does not
    serve / know the list), or a response `(presentations, seed, timestamp)` -/
inductive Answer where
  | fail
  | resp (vps : List VP) (seed ts : Nat)
  deriving Repr

/-- the loop of `updateService` for the list `d.id` on a node with several lists: the guards and the `exists` check read
    this list only; `sqlStore.add` first prunes every list (`prune()` has no `service_id` condition) -/
def Node.clientLoop (d : Def) (now seed ts : Nat) : Node → Nat → List VP → Node × Nat × Res Unit
  | n, ctr, [] => (n, ctr, .ok ())
  | n, ctr, vp :: rest =>
    if vp.jwt = false then (n, ctr, .err "format") else
    match vp.id with
    | none => (n, ctr, .err "no-id")
    | some id =>
      match vp.signer with
      | none => (n, ctr, .err "signer")
      | some (subj, _) =>
        if (n.stores d.id).hasKey subj id then Node.clientLoop d now seed ts n ctr rest else
        let n1 := n.pruneAll now
        match (n1.stores d.id).add now vp seed ts (ctr + 1) with
        | (c', .ok row) =>
          let c'' := match verify d c' now .client vp with
            | .ok () => c'.setValidated row.pk
            | _ => c'
          Node.clientLoop d now seed ts (n1.setStore d.id c'') (ctr + 1) rest
        | (c', .err e) => (n1.setStore d.id c', ctr + 1, .err e)
        | (c', .panic p) => (n1.setStore d.id c', ctr + 1, .panic p)

/-- `clientUpdater.updateService(service)`: `getTimestamp(service.ID)`, `Get`, `wipeIfSeedChanged(service.ID, seed)`, the loop -/
def Node.updateService (cfg : Cfg) (n : Node) (now ctr : Nat) (d : Def) (ans : Nat → Answer) : Node × Nat × Res Unit :=
  match ans (n.stores d.id).lastTs with
  | .fail => (n, ctr, .err "get")
  | .resp vps seed ts =>
    let cw := (n.stores d.id).wipeOnSeedChange seed
    let n1 := n.setStore d.id cw.1
    if cfg.restartOnWipe && cw.2 then (n1, ctr, .ok ()) else Node.clientLoop d now seed ts n1 ctr vps

/-- the visit of `clientUpdater.update` for the service under key `sid` of `allDefinitions` -/
def Node.visitService (cfg : Cfg) (now : Nat) (ans : String → Nat → Answer) (st : Node × Nat) (sid : String) : (Node × Nat) × Bool :=
  match st.1.defs.all.get sid with
  | none => (st, false)
  | some svc =>
    let r := st.1.updateService cfg now st.2 svc.d (ans sid)
    ((r.1, r.2.1), r.2.2.isOk)

/-- `clientUpdater.update`: one round over all configured services in the order Go iterates the map; returns the node
    and the services whose update failed (`errors.Join`) -/
def Node.updateAllServices (cfg : Cfg) (n : Node) (now ctr : Nat) (order : List String) (ans : String → Nat → Answer) :
    (Node × Nat) × List String :=
  updateAll (Node.visitService cfg now ans) (n, ctr) order

end Nuts.C16
