/-
  C16 — model of discovery/{module.go, store.go, client.go}: the Discovery Server list and the client replica.
  Core Lean only.

  Modelling decisions (DESIGN.md §5 C16):
  * one service. A presentation is the record `VP` of what the code reads from it (format, id, audience,
    expiration, signer DID + method from the `kid`, type, credentials' expiry, `retract_jti`) plus three verdicts
    supplied from outside: the result of `PresentationDefinition.Match` on its credentials (`pex`; C12 owns PEX)
    and the result of `Verifier.VerifyVP` on the server (`verifyS`) and on the client node (`verifyC`).
  * `sqlStore` = `Store {seed, lastTs, rows, nextPk}`; the empty seed "" is `0`; `uuid.NewString()` is a
    counter (`fresh`, never repeats — contract of uuid). Rows carry the DB columns the code uses.
  * time is `Nat` seconds (`World.t`); `time.Until(exp) > max*1s` on whole-second `exp` is `exp > now + max`.
  * `sqlStore.get` is two reads (service record, rows): `pollA` / `pollB` are separate events so that
    registrations may interleave; which read comes first is the regenerated fact `Cfg.serviceFirst`.
  * the Go map iteration in `clientUpdater.updateService` is the explicit argument `perm` of `pollB`.
  * SQL errors are not modelled (no DB faults): DESIGN §7 #18 is outside the property's quantifier.
-/
import NutsModel.Base

namespace Nuts.C16

structure Cred where
  exp : Option Nat
  /-- the credential has an `id` (`credential.ID != nil`): `CredentialStore.Store` keys the record by it -/
  hasId : Bool := true
  deriving DecidableEq, Repr, Inhabited

/-- verdict of `PresentationDefinition.Match` on the presentation's credentials: it failed, or `n` of the PRESENTED
    credentials are among the ones it used (a credential may fulfil several input descriptors; `validateRegistration`
    requires every presented credential to be used: `n = creds.length`) -/
inductive Pex where
  | err
  | matched (n : Nat)
  deriving DecidableEq, Repr, Inhabited

structure VP where
  jwt : Bool := true
  id : Option String := none
  aud : List String := []
  exp : Option Nat := none
  signer : Option (String × String) := none
  retraction : Bool := false
  creds : List Cred := []
  pex : Pex := .err
  retractJti : Option String := none
  verifyS : Bool := false
  verifyC : Bool := false
  deriving DecidableEq, Repr, Inhabited

structure Def where
  id : String
  maxValidity : Nat
  didMethods : List String
  deriving Repr, Inhabited

structure Row where
  pk : Nat
  ts : Nat
  subject : String
  id : String
  exp : Nat
  vp : VP
  deriving DecidableEq, Repr, Inhabited

/-- the `validated` column is kept as the set of primary keys whose flag is set (primary keys are never reused) -/
structure Store where
  seed : Nat := 0
  lastTs : Nat := 0
  rows : List Row := []
  nextPk : Nat := 0
  validated : List Nat := []
  /-- whether this node's `Verifier.VerifyVP` can answer right now (DID resolution / verifier outage = `false`):
      the verdict of a call is the presentation's verdict AND this flag -/
  verifierUp : Bool := true
  deriving Repr, Inhabited

def Store.isValidated (s : Store) (r : Row) : Bool := s.validated.contains r.pk

/-- which node evaluates `verifyRegistration` (selects the `VerifyVP` verdict) -/
inductive Side where
  | server | client
  deriving DecidableEq, Repr

def VP.verdict (vp : VP) : Side → Bool
  | .server => vp.verifyS
  | .client => vp.verifyC

/-! ### store.go -/

/-- `sqlStore.exists` -/
def Store.hasKey (s : Store) (subject id : String) : Bool :=
  s.rows.any (fun r => r.subject == subject && r.id == id)

/-- `sqlStore.prune` / `removeExpired`: `presentation_expiration < now` -/
def Store.prune (s : Store) (now : Nat) : Store :=
  { s with rows := s.rows.filter (fun r => !(decide (r.exp < now))) }

/-- `sqlStore.add`. `ts = 0`: server mode (`incrementTimestamp`), else client mode (`setTimestamp`).
    The prune is committed before the transaction starts; a nil `presentation.ID` / `JWT()` dereference in
    `storePresentation` panics inside the transaction (rolled back). -/
def Store.add (s : Store) (now : Nat) (vp : VP) (seed ts fresh : Nat) : Store × Res Row :=
  match vp.signer with
  | none => (s, .err "signer")
  | some (subj, _) =>
    let s1 := s.prune now
    match vp.id with
    | none => (s1, .panic "storePresentation:presentation.ID")
    | some id =>
      if vp.jwt = false then (s1, .panic "storePresentation:presentation.JWT()") else
      -- storePresentation refuses a credential without id (it used to dereference the nil id: fix in /repo)
      if vp.creds.any (fun c => !c.hasId) then (s1, .err "cred-no-id") else
      -- a missing `exp` claim is the zero time.Time whose Unix() is negative: below every clock value, like 0
      let exp := match vp.exp with | some e => e | none => 0
      let seed' := if ts = 0 then (if s1.seed = 0 then (if seed = 0 then fresh else seed) else s1.seed) else seed
      let ts' := if ts = 0 then s1.lastTs + 1 else ts
      let row : Row := { pk := s1.nextPk, ts := ts', subject := subj, id := id, exp := exp, vp := vp }
      ({ s1 with seed := seed', lastTs := ts', rows := s1.rows.filter (fun r => !(r.subject == subj)) ++ [row], nextPk := s1.nextPk + 1 },
       .ok row)

/-- `sqlStore.updateValidated` -/
def Store.setValidated (s : Store) (pk : Nat) : Store :=
  { s with validated := pk :: s.validated }

/-- `sqlStore.wipeOnSeedChange`; the flag says whether the wipe happened -/
def Store.wipeOnSeedChange (s : Store) (seed : Nat) : Store × Bool :=
  if s.seed ≠ seed ∧ s.seed ≠ 0 then ({ s with seed := seed, lastTs := 0, rows := [] }, true) else (s, false)

/-- `sqlStore.search` with an empty query, `allowUnvalidated = false` -/
def Store.search (s : Store) (now : Nat) : List Row :=
  s.rows.filter (fun r => s.isValidated r && !(decide (r.exp ≤ now)))

/-- second read of `sqlStore.get`: `lamport_timestamp > startAfter` -/
def Store.rowsAfter (s : Store) (after : Nat) : List Row :=
  s.rows.filter (fun r => decide (after < r.ts))

/-! ### module.go -/

/-- the order in which `verifyRegistration` (with `validateRetraction` / `validateRegistration`) runs its checks;
    compared with the regenerated `Facts.C16.verifyChecks` -/
def checkOrder : List String :=
  ["format", "no-id", "aud", "no-exp", "too-long", "signer", "did-method", "branch:retraction", "verify"]
def retractionCheckOrder : List String := ["retract-creds", "retract-jti", "signer", "retract-unknown"]
def registrationCheckOrder : List String := ["cred-no-id", "cred-exp", "pex-nomatch", "pex-partial"]

/-- `validateRetraction` -/
def validateRetraction (s : Store) (subj : String) (vp : VP) : Res Unit :=
  if vp.creds.length > 0 then .err "retract-creds" else
  match vp.retractJti with
  | none => .err "retract-jti"
  | some j =>
    if j = "" then .err "retract-jti" else
    if s.hasKey subj j then .ok () else .err "retract-unknown"

/-- `cred.ExpirationDate != nil && expiration.After(*cred.ExpirationDate)` -/
def Cred.expiresBefore (c : Cred) (exp : Nat) : Bool :=
  match c.exp with
  | some ce => decide (ce < exp)
  | none => false

/-- `validateRegistration` -/
def validateRegistration (exp : Nat) (vp : VP) : Res Unit :=
  if vp.creds.any (fun c => !c.hasId) then .err "cred-no-id" else
  if vp.creds.any (fun c => c.expiresBefore exp) then .err "cred-exp" else
  match vp.pex with
  | .err => .err "pex-nomatch"
  | .matched n => if n ≠ vp.creds.length then .err "pex-partial" else .ok ()

/-- `Module.verifyRegistration` -/
def verify (d : Def) (s : Store) (now : Nat) (side : Side) (vp : VP) : Res Unit :=
  if vp.jwt = false then .err "format" else
  match vp.id with
  | none => .err "no-id"
  | some _ =>
    if !(vp.aud.contains d.id) then .err "aud" else
    match vp.exp with
    | none => .err "no-exp"
    | some exp =>
      if now + d.maxValidity < exp then .err "too-long" else
      match vp.signer with
      | none => .err "signer"
      | some (subj, method) =>
        if d.didMethods.length > 0 ∧ !(d.didMethods.contains method) then .err "did-method" else
        match (if vp.retraction then validateRetraction s subj vp else validateRegistration exp vp) with
        | .err e => .err e
        | .panic p => .panic p
        | .ok () => if vp.verdict side && s.verifierUp then .ok () else .err "verify"

/-- `Module.Register` on the node that serves the list -/
def register (d : Def) (s : Store) (now fresh : Nat) (vp : VP) : Store × Res Unit :=
  match verify d s now .server vp with
  | .err e => (s, .err e)
  | .panic p => (s, .panic p)
  | .ok () =>
    match vp.signer, vp.id with
    | some (subj, _), some id =>
      if s.hasKey subj id then (s, .err "exists") else
      match s.add now vp 0 0 fresh with
      | (s', .ok row) => (s'.setValidated row.pk, .ok ())
      | (s', .err e) => (s', .err e)
      | (s', .panic p) => (s', .panic p)
    | none, _ => (s, .err "signer")
    | _, none => (s, .panic "Register:presentation.ID")

/-! ### client.go -/

structure Cfg where
  /-- `sqlStore.get` reads the service record (seed, last timestamp) before the rows -/
  serviceFirst : Bool
  /-- `updateService` drops the response when the seed change wiped the local copy (the next poll starts at 0) -/
  restartOnWipe : Bool
  deriving Repr

/-- the loop of `clientUpdater.updateService` over the response, in the order Go happened to iterate the map -/
def clientLoop (d : Def) (now seed ts : Nat) : Store → Nat → List VP → Store × Nat × Res Unit
  | c, ctr, [] => (c, ctr, .ok ())
  | c, ctr, vp :: rest =>
    -- the sanity checks of a registration, applied to what the REMOTE server handed out (fix bb52a33 in /repo; before it
    -- `presentation.ID.String()` / `storePresentation` dereferenced nil); order = regenerated `Facts.C16.updateLoopGuards`
    if vp.jwt = false then (c, ctr, .err "format") else
    match vp.id with
    | none => (c, ctr, .err "no-id")
    | some id =>
      match vp.signer with
      | none => (c, ctr, .err "signer")
      | some (subj, _) =>
        if c.hasKey subj id then clientLoop d now seed ts c ctr rest else
        match c.add now vp seed ts (ctr + 1) with
        | (c', .ok row) =>
          let c'' := match verify d c' now .client vp with
            | .ok () => c'.setValidated row.pk
            | _ => c'
          clientLoop d now seed ts c'' (ctr + 1) rest
        | (c', .err e) => (c', ctr + 1, .err e)
        | (c', .panic p) => (c', ctr + 1, .panic p)

/-- `updateService` after `Get` returned `(resp, seed, ts)` -/
def clientApply (cfg : Cfg) (d : Def) (c : Store) (now ctr seed ts : Nat) (resp : List VP) : Store × Nat × Res Unit :=
  let (c1, wiped) := c.wipeOnSeedChange seed
  if cfg.restartOnWipe && wiped then (c1, ctr, .ok ()) else
  clientLoop d now seed ts c1 ctr resp

/-- `clientRegistrationManager.validate`: verify every not yet validated row again -/
def clientValidate (d : Def) (c : Store) (now : Nat) : Store :=
  { c with validated :=
      ((c.rows.filter (fun r => !(c.isValidated r) && (verify d c now .client r.vp).isOk)).map (·.pk)) ++ c.validated }

/-! ### the two nodes and the schedule -/

structure Pending where
  after : Nat
  seed : Nat
  ts : Nat
  rows : List Row
  deriving Repr, Inhabited

structure World where
  S : Store := {}
  C : Store := {}
  t : Nat := 0
  ctr : Nat := 0
  pending : Option Pending := none
  /-- responses of OTHER polls of the same client that are still in flight (`updateService` is not serialised: the
      background `update()` and `ActivateServiceForSubject` may overlap); applied later, in any order -/
  delayed : List Pending := []
  deriving Repr, Inhabited

inductive Ev where
  | tick (d : Nat)
  | register (vp : VP)
  | reset
  | pollA
  | pollB (perm : List VP → List VP)
  | validate
  | clientVerifier (up : Bool)   -- the client node's verifier goes down / comes back
  | restartServer                -- the serving node stops and starts again on the SAME database (`Module.Start` → `newSQLStore`)
  | restartClient                -- the client node restarts: polls in progress are gone, the replica stays
  | dpollStart                   -- another poll of the same client: timestamp read, `Get` answered (both reads), response in flight
  | dpollFinish (i : Nat) (perm : List VP → List VP)   -- the i-th in-flight response arrives and is applied

/-- outcome class of the last operation (what the harness compares) -/
abbrev Out := Res Unit

def step (cfg : Cfg) (d : Def) (w : World) : Ev → World × Out
  | .tick n => ({ w with t := w.t + n }, .ok ())
  | .register vp =>
    let (s', r) := register d w.S w.t (w.ctr + 1) vp
    ({ w with S := s', ctr := w.ctr + 1 }, r)
  | .reset => ({ w with S := {} }, .ok ())
  | .pollA =>
    -- `getTimestamp` on the client, then the first read of `sqlStore.get` on the server
    let after := w.C.lastTs
    let p : Pending := if cfg.serviceFirst
      then { after := after, seed := w.S.seed, ts := w.S.lastTs, rows := [] }
      else { after := after, seed := 0, ts := 0, rows := w.S.rowsAfter after }
    ({ w with pending := some p }, .ok ())
  | .pollB perm =>
    match w.pending with
    | none => (w, .err "no-poll")
    | some p =>
      let rows := if cfg.serviceFirst then w.S.rowsAfter p.after else p.rows
      let seed := if cfg.serviceFirst then p.seed else w.S.seed
      let ts := if cfg.serviceFirst then p.ts else w.S.lastTs
      let (c', ctr', r) := clientApply cfg d w.C w.t w.ctr seed ts (perm (rows.map (·.vp)))
      ({ w with C := c', ctr := ctr', pending := none }, r)
  | .validate => ({ w with C := clientValidate d w.C w.t }, .ok ())
  | .clientVerifier up => ({ w with C := { w.C with verifierUp := up } }, .ok ())
  | .restartServer => (w, .ok ())   -- `newSQLStore` only creates MISSING service records (`FirstOrCreate`)
  | .restartClient => ({ w with pending := none, delayed := [] }, .ok ())
  | .dpollStart =>
    let after := w.C.lastTs
    ({ w with delayed := w.delayed ++ [{ after := after, seed := w.S.seed, ts := w.S.lastTs, rows := w.S.rowsAfter after }] }, .ok ())
  | .dpollFinish i perm =>
    match w.delayed[i]? with
    | none => (w, .err "no-poll")
    | some p =>
      let (c', ctr', r) := clientApply cfg d w.C w.t w.ctr p.seed p.ts (perm (p.rows.map (·.vp)))
      ({ w with C := c', ctr := ctr', delayed := w.delayed.eraseIdx i }, r)

def run (cfg : Cfg) (d : Def) : World → List Ev → World
  | w, [] => w
  | w, e :: es => run cfg d (step cfg d w e).1 es

/-- a complete poll with nothing in between -/
def poll (cfg : Cfg) (d : Def) (w : World) (perm : List VP → List VP) : World :=
  (step cfg d (step cfg d w .pollA).1 (.pollB perm)).1

/-- live at `now`: what neither `prune` removes nor `search` hides -/
def Row.live (r : Row) (now : Nat) : Bool := decide (now < r.exp)

def Store.liveKeys (s : Store) (now : Nat) : List (String × String) :=
  (s.rows.filter (·.live now)).map (fun r => (r.subject, r.id))

end Nuts.C16
