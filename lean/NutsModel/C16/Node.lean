/-
  C16 (deepening round) — the NODE around the single list of `Discovery.lean`: what `Module.Configure` makes of the
  definitions directory and the configured server ids (module.go `loadDefinitions`, both functions), how
  `Module.Register` / `Module.Get` / `Module.Search` pick the list a request is about (serve it, forward it, refuse
  it; `cycleDetected`), the ONE `sqlStore` that holds every list of the node keyed by `service_id` (its `add` prunes
  every list), the REST wrapper of api/server/api.go (timestamp default, `ResolveStatusCode`), and
  `clientUpdater.update` (every configured service, errors collected).  Core Lean only.

  Inputs, not modelled: `os.Stat` / `os.ReadDir` / `os.ReadFile` outcomes, `ParseServiceDefinition` on a file's bytes
  (JSON schema + decoding: third-party), `url.Parse(..).Host` of the forwarded host and of the endpoint.
-/
import NutsModel.C16.Discovery

namespace Nuts.C16

/-! ### module.go: `loadDefinitions(directory)` and `Module.loadDefinitions` -/

/-- a service definition as the node holds it: what `verifyRegistration` reads (`Def`) plus where the list is served -/
structure Service where
  d : Def
  endpoint : String := ""
  /-- `url.Parse(endpoint)`: `none` = parse error, `some h` = its `.Host` -/
  endpointHost : Option String := none
  deriving Repr, Inhabited

/-- one entry of `os.ReadDir(directory)` (entries come sorted by file name) -/
structure DirEntry where
  name : String
  isDir : Bool := false
  /-- `os.ReadFile` succeeds -/
  readOk : Bool := true
  /-- `ParseServiceDefinition` on the bytes: `none` = schema violation / decoding error -/
  parsed : Option Service := none
  deriving Repr, Inhabited

abbrev DefMap := List (String × Service)

def DefMap.get (m : DefMap) (k : String) : Option Service := alGet m k

/-- the loop of `loadDefinitions(directory)`; `isDefFile` is the file-name test of the source
    (`strings.HasSuffix(name, ".json")`: the driver instantiates it with the regenerated suffix) -/
def loadDir (isDefFile : String → Bool) : DefMap → List DirEntry → Res DefMap
  | acc, [] => .ok acc
  | acc, e :: es =>
    if e.isDir || !(isDefFile e.name) then loadDir isDefFile acc es else
    if !e.readOk then .err "read-file" else
    match e.parsed with
    | none => .err "parse"
    | some s =>
      match acc.get s.d.id with
      | some _ => .err "duplicate-id"
      | none => loadDir isDefFile (acc ++ [(s.d.id, s)]) es

/-- `os.Stat(directory)` -/
inductive DirStat where
  | present | absent | otherError
  deriving DecidableEq, Repr

structure NodeCfg where
  dir : String
  serverIds : List String
  deriving Repr

structure Defs where
  all : DefMap := []
  server : DefMap := []
  deriving Repr, Inhabited

/-- the loop over `config.Server.IDs` in `Module.loadDefinitions` (a Go map: a repeated id overwrites itself) -/
def serverDefs (all : DefMap) : DefMap → List String → Res DefMap
  | acc, [] => .ok acc
  | acc, id :: ids =>
    match all.get id with
    | none => .err "server-id-unknown"
    | some s => serverDefs all (alPut acc id s) ids

/-- `Module.loadDefinitions`; `readDirOk` = `os.ReadDir` succeeds (the path is a directory that can be listed) -/
def configure (isDefFile : String → Bool) (defaultDir : String) (c : NodeCfg) (stat : DirStat) (readDirOk : Bool) (entries : List DirEntry) : Res Defs :=
  if c.dir = "" then .ok {} else
  match stat with
  | .absent => if c.dir = defaultDir then .ok {} else .err "stat"
  | .otherError => .err "stat"
  | .present =>
    if !readDirOk then .err "read-dir" else
    match loadDir isDefFile [] entries with
    | .err e => .err e
    | .panic p => .panic p
    | .ok all =>
      if c.serverIds.length > 0 then
        match serverDefs all [] c.serverIds with
        | .err e => .err e
        | .panic p => .panic p
        | .ok srv => .ok { all := all, server := srv }
      else .ok { all := all, server := [] }

/-! ### module.go: which list a request is about -/

/-- what the request context carries for `cycleDetected`: the `X-Forwarded-Host` value (absent / not a string = `none`)
    and `url.Parse(value)` (`none` = error, `some h` = `.Host`) -/
structure Fwd where
  header : Option String := none
  headerHost : Option String := none
  deriving Repr, Inhabited

/-- `cycleDetected` -/
def cycleDetected (f : Fwd) (s : Service) : Bool :=
  match f.header with
  | none => false
  | some h =>
    if h = "" then false else
    match f.headerHost with
    | none => false
    | some mine =>
      match s.endpointHost with
      | none => false
      | some target => mine == target

inductive Route where
  | serve (s : Service)
  | forward (s : Service)
  | notFound
  | cycle
  /-- a served id without a definition: `m.allDefinitions[serviceID]` would be the zero definition. `configure` never
      produces this (theorem `configure_server_subset`); nothing is modelled beyond this point -/
  | inconsistent
  deriving Repr

/-- the head of `Module.Register` and of `Module.Get` -/
def route (defs : Defs) (sid : String) (f : Fwd) : Route :=
  match defs.server.get sid with
  | some _ =>
    match defs.all.get sid with
    | some s => .serve s
    | none => .inconsistent
  | none =>
    match defs.all.get sid with
    | none => .notFound
    | some s => if cycleDetected f s then .cycle else .forward s

/-! ### the node's one `sqlStore`: every list, keyed by `service_id` -/

structure Node where
  defs : Defs := {}
  /-- rows and service record per `service_id` (a service without rows / record reads as the empty list) -/
  stores : String → Store := fun _ => {}

def Node.setStore (n : Node) (sid : String) (s : Store) : Node :=
  { n with stores := fun k => if k = sid then s else n.stores k }

/-- `sqlStore.prune`: `DELETE … WHERE presentation_expiration < now`, no `service_id` condition -/
def Node.pruneAll (n : Node) (now : Nat) : Node :=
  { n with stores := fun k => (n.stores k).prune now }

/-- outcome of a node-level call -/
inductive NOut where
  | done (r : Res Unit)          -- handled on this node's own list
  | forwarded (endpoint : String)
  | notFound
  | cycle
  | inconsistent
  deriving Repr, DecidableEq

/-- `Module.Register` -/
def Node.register (n : Node) (now fresh : Nat) (sid : String) (f : Fwd) (vp : VP) : Node × NOut :=
  match route n.defs sid f with
  | .notFound => (n, .notFound)
  | .cycle => (n, .cycle)
  | .inconsistent => (n, .inconsistent)
  | .forward s => (n, .forwarded s.endpoint)
  | .serve svc =>
    let s := n.stores sid
    match verify svc.d s now .server vp with
    | .err e => (n, .done (.err e))
    | .panic p => (n, .done (.panic p))
    | .ok () =>
      match vp.signer, vp.id with
      | some (subj, _), some id =>
        if s.hasKey subj id then (n, .done (.err "exists")) else
        -- `sqlStore.add`: the signer is known here, so `prune()` runs — on every list — and is committed
        let n1 := n.pruneAll now
        match (n1.stores sid).add now vp 0 0 fresh with
        | (s', .ok row) => (n1.setStore sid (s'.setValidated row.pk), .done (.ok ()))
        | (s', .err e) => (n1.setStore sid s', .done (.err e))
        | (s', .panic p) => (n1.setStore sid s', .done (.panic p))
      | none, _ => (n, .done (.err "signer"))
      | _, none => (n, .done (.panic "Register:presentation.ID"))

/-- result of `Module.Get` -/
inductive GetOut where
  | rows (rows : List Row) (seed ts : Nat)
  | forwarded (endpoint : String) (after : Int)
  | notFound
  | cycle
  deriving Repr

/-- `lamport_timestamp > startAfter` with the signed `startAfter` of the API -/
def Store.rowsAfterInt (s : Store) (after : Int) : List Row :=
  s.rows.filter (fun r => decide (after < (r.ts : Int)))

/-- `Module.Get`: a served list is read from the store (no definition needed), anything else forwarded or refused -/
def Node.get (n : Node) (sid : String) (f : Fwd) (after : Int) : GetOut :=
  match n.defs.server.get sid with
  | some _ => .rows ((n.stores sid).rowsAfterInt after) (n.stores sid).seed (n.stores sid).lastTs
  | none =>
    match n.defs.all.get sid with
    | none => .notFound
    | some s => if cycleDetected f s then .cycle else .forwarded s.endpoint after

/-- `Module.Search` (no query): unknown service is refused, else the validated unexpired rows of THAT list -/
def Node.search (n : Node) (sid : String) (now : Nat) : Option (List Row) :=
  match n.defs.all.get sid with
  | none => none
  | some _ => some ((n.stores sid).search now)

/-! ### api/server/api.go -/

/-- `Wrapper.GetPresentations`: the optional `timestamp` query parameter defaults to 0 -/
def apiTimestamp : Option Int → Int
  | some t => t
  | none => 0

def apiGet (n : Node) (sid : String) (f : Fwd) (timestamp : Option Int) : GetOut :=
  n.get sid f (apiTimestamp timestamp)

/-- which sentinel errors `errors.Is` finds in an error -/
structure ErrKind where
  invalid : Bool := false       -- ErrInvalidPresentation
  didMethods : Bool := false    -- ErrDIDMethodsNotSupported
  notFound : Bool := false      -- ErrServiceNotFound
  deriving DecidableEq, Repr

/-- `Wrapper.ResolveStatusCode`: the first matching case of the switch (`table` is regenerated from the source) -/
def resolveStatus (table : List (String × Nat)) (dflt : Nat) (k : ErrKind) : Nat :=
  match table.find? (fun p =>
      (p.1 == "ErrInvalidPresentation" && k.invalid) || (p.1 == "ErrDIDMethodsNotSupported" && k.didMethods) ||
      (p.1 == "ErrServiceNotFound" && k.notFound)) with
  | some p => p.2
  | none => dflt

/-- the sentinels in the error of a refused registration: `joined` (regenerated) says for each check of
    `verifyRegistration` whether its `return` joins `ErrInvalidPresentation`; the checks of `validateRetraction` /
    `validateRegistration` are joined at the branch; "exists" is joined in `Register`; store errors are not -/
def errKind (joined : List (String × Bool)) (existsJoined : Bool) (e : String) : ErrKind :=
  let top := alGet joined e
  let sub := retractionCheckOrder.contains e || registrationCheckOrder.contains e
  -- "signer" is both a top-level check and (never reached: the signer is known by then) one of validateRetraction
  let inv := match top with
    | some j => j
    | none => if sub then (match alGet joined "branch:retraction" with | some j => j | none => false)
              else if e = "exists" then existsJoined else false
  { invalid := inv, didMethods := e == "did-method" }

def NOut.kind (joined : List (String × Bool)) (existsJoined : Bool) : NOut → Option ErrKind
  | .done (.ok ()) => none
  | .done (.err e) => some (errKind joined existsJoined e)
  | .done (.panic _) => some {}
  | .forwarded _ => none
  | .notFound => some { notFound := true }
  | .cycle => some {}
  | .inconsistent => some {}

/-- `Wrapper.RegisterPresentation` + the error handler: 201, or the status `ResolveStatusCode` picks -/
def apiRegisterStatus (table : List (String × Nat)) (dflt : Nat) (joined : List (String × Bool)) (existsJoined : Bool) (o : NOut) : Nat :=
  match o.kind joined existsJoined with
  | none => 201
  | some k => resolveStatus table dflt k

/-! ### store.go: `search` with a query (`applyQuery`) -/

/-- what `CredentialStore.Store` (vcr/credential/store: an input here) indexed of one credential of a presentation -/
structure CredIx where
  id : String := ""
  issuer : String := ""
  type : Option String := none
  subjectId : String := ""
  props : List (String × String) := []
  deriving Repr, Inhabited

inductive QOp where
  | eq (v : List Char)
  | like (pattern : List Char)
  | notNull
  deriving DecidableEq, Repr

def trimSpaces (l : List Char) : List Char :=
  ((l.dropWhile Char.isWhitespace).reverse.dropWhile Char.isWhitespace).reverse

/-- the wildcard translation of `applyQuery`: a lone `*` = IS NOT NULL; a leading / trailing `*` becomes `%` and the
    comparison LIKE; anything else is compared with `=` -/
def parseQueryValue (value : String) : QOp :=
  let cs := value.toList
  if trimSpaces cs = ['*'] then .notNull else
  let (v, lk) := match cs with
    | '*' :: rest => ('%' :: rest, true)
    | _ => (cs, false)
  match v.reverse with
  | '*' :: restRev => .like (('%' :: restRev).reverse)
  | _ => if lk then .like v else .eq v

/-- SQL `LIKE`: `%` any sequence, `_` any one character; `ci` = ASCII case-insensitive (SQLite's LIKE) -/
def likeChars (ci : Bool) : List Char → List Char → Bool
  | [], s => s.isEmpty
  | '%' :: ps, s => (List.range (s.length + 1)).any (fun k => likeChars ci ps (s.drop k))
  | _ :: _, [] => false
  | p :: ps, c :: t =>
    (p == '_' || (if ci then p.toLower == c.toLower else p == c)) && likeChars ci ps t

def opMatch (ci : Bool) : QOp → Option String → Bool
  | .notNull, v => v.isSome
  | .eq x, some v => v.toList == x
  | .like p, some v => likeChars ci p v.toList
  | _, none => false

/-- the value of a credential COLUMN; `cols` is the regenerated `propertyColumns` map of `applyQuery`
    (`none` = the path is not a column but looked up in `credential_prop`) -/
def CredIx.column (cols : List (String × String)) (c : CredIx) (path : String) : Option (Option String) :=
  match alGet cols path with
  | none => none
  | some col =>
    if col = "credential.id" then some (some c.id)
    else if col = "credential.issuer" then some (some c.issuer)
    else if col = "credential.type" then some c.type
    else if col = "credential.subject_id" then some (some c.subjectId)
    else some none

/-- one `jsonPath = value` term against ONE credential -/
def termMatch (cols : List (String × String)) (ci : Bool) (c : CredIx) (path value : String) : Bool :=
  match c.column cols path with
  | some v => opMatch ci (parseQueryValue value) v
  | none => c.props.any (fun p => p.1 == path && opMatch ci (parseQueryValue value) (some p.2))

/-- `sqlStore.search(serviceID, query, false)`: the validated, unexpired rows of the list; with a non-empty query only
    those that have ONE credential fulfilling EVERY term (inner joins on the same `credential` row) -/
def Store.searchQ (s : Store) (now : Nat) (ix : Row → List CredIx) (cols : List (String × String)) (ci : Bool)
    (q : List (String × String)) : List Row :=
  (s.search now).filter (fun r => q.isEmpty || (ix r).any (fun c => q.all (fun t => termMatch cols ci c t.1 t.2)))

/-- `Module.Search(serviceID, query)` -/
def Node.searchQ (n : Node) (sid : String) (now : Nat) (ix : Row → List CredIx) (cols : List (String × String)) (ci : Bool)
    (q : List (String × String)) : Option (List Row) :=
  match n.defs.all.get sid with
  | none => none
  | some _ => some ((n.stores sid).searchQ now ix cols ci q)

/-! ### client.go: `clientUpdater.update` -/

/-- one round over all configured services, in the order Go iterates the map: every service is visited, the
    failures are collected (`errors.Join`), none stops the loop -/
def updateAll {σ} (visit : σ → String → σ × Bool) : σ → List String → σ × List String
  | st, [] => (st, [])
  | st, sid :: rest =>
    let (st1, ok) := visit st sid
    let (st2, failed) := updateAll visit st1 rest
    (st2, if ok then failed else sid :: failed)

/-! ### node histories -/

inductive NEv where
  | tick (d : Nat)
  | register (sid : String) (f : Fwd) (vp : VP)
  | restart            -- `Module.Start` again on the same database: `FirstOrCreate` keeps every record

structure NWorld where
  n : Node := {}
  t : Nat := 0
  ctr : Nat := 0

def nstep (w : NWorld) : NEv → NWorld × NOut
  | .tick d => ({ w with t := w.t + d }, .done (.ok ()))
  | .register sid f vp =>
    let (n', o) := w.n.register w.t (w.ctr + 1) sid f vp
    ({ w with n := n', ctr := w.ctr + 1 }, o)
  | .restart => (w, .done (.ok ()))

def nrun : NWorld → List NEv → NWorld
  | w, [] => w
  | w, e :: es => nrun (nstep w e).1 es

end Nuts.C16
