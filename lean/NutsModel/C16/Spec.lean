/-
  C16 — the vocabulary of the property statements (NutsProofs/Props/C16.lean): what "acceptable", "listed",
  "admissible history", "same live set" mean. Definitions only, core Lean only; nothing is proved here.
-/
import NutsModel.C16.Discovery

namespace Nuts.C16

/-- a row's columns are what `storePresentation` reads off the presentation -/
def RowWF (r : Row) : Prop :=
  (∃ m, r.vp.signer = some (r.subject, m)) ∧ r.vp.id = some r.id ∧ r.vp.exp = some r.exp ∧ r.vp.jwt = true ∧
  r.vp.creds.any (fun c => !c.hasId) = false

/-- What the property demands of a listed presentation, relative to the list `s` and the clock `now` at which it was
    offered: a JWT presentation with an id, addressed to the service, expiring within the maximum validity, signed by a
    DID of an allowed method, verifiable; a registration does not outlive its credentials and its credentials all and
    only fulfil the definition; a retraction carries no credentials and names an entry of the same signer. -/
structure Acceptable (d : Def) (side : Side) (s : Store) (now : Nat) (vp : VP) (subj : String) (e : Nat) : Prop where
  jwt : vp.jwt = true
  hasId : ∃ i, vp.id = some i
  addressed : d.id ∈ vp.aud
  exp : vp.exp = some e
  within : e ≤ now + d.maxValidity
  signer : ∃ m, vp.signer = some (subj, m) ∧ (d.didMethods = [] ∨ m ∈ d.didMethods)
  verifiable : vp.verdict side = true
  available : s.verifierUp = true
  registration : vp.retraction = false →
    vp.creds.any (fun c => !c.hasId) = false ∧
    (∀ c ∈ vp.creds, ∀ ce, c.exp = some ce → e ≤ ce) ∧ vp.pex = .matched vp.creds.length
  retraction : vp.retraction = true →
    vp.creds = [] ∧ ∃ j, vp.retractJti = some j ∧ j ≠ "" ∧ ∃ r ∈ s.rows, r.subject = subj ∧ r.id = j

structure SInv (s : Store) : Prop where
  sorted : s.rows.Pairwise (fun a b => a.ts < b.ts)
  bound : ∀ r ∈ s.rows, 1 ≤ r.ts ∧ r.ts ≤ s.lastTs
  onePer : s.rows.Pairwise (fun a b => a.subject ≠ b.subject)
  seed0 : s.seed = 0 → s.lastTs = 0 ∧ s.rows = []
  seedPos : s.seed ≠ 0 → 1 ≤ s.lastTs ∧ s.rows ≠ []
  wf : ∀ r ∈ s.rows, RowWF r

/-- `r` was accepted at some earlier moment: the registration predicate held of its presentation, against the
    (well-formed) list `s` of that moment -/
def Listed (d : Def) (t : Nat) (r : Row) : Prop :=
  ∃ s now, now ≤ t ∧ SInv s ∧ Acceptable d .server s now r.vp r.subject r.exp

/-- the presentation has what `updateService` / `storePresentation` dereference -/
def VPWF (vp : VP) (subj id : String) (e : Nat) : Prop :=
  (∃ m, vp.signer = some (subj, m)) ∧ vp.id = some id ∧ vp.exp = some e ∧ vp.jwt = true ∧
  vp.creds.any (fun c => !c.hasId) = false

/-- a presentation id names one presentation per signer (jti uniqueness) among the presentations `K` that are ever offered -/
def IdFun (K : VP → Prop) : Prop :=
  ∀ a b, K a → K b → ∀ s ma mb, a.signer = some (s, ma) → b.signer = some (s, mb) → a.id = b.id → a = b

/-- a subject's accepted registration does not expire before the entry it replaces (what a node's own refresh does:
    `exp = now + maxValidity − 1` with a clock that does not run backwards) -/
def ExpMono (d : Def) (w : World) (vp : VP) : Prop :=
  (register d w.S w.t (w.ctr + 1) vp).2 = .ok () →
    ∀ subj m e, vp.signer = some (subj, m) → vp.exp = some e → ∀ r ∈ w.S.rows, r.subject = subj → r.exp ≤ e

/-- the Go map iteration order of a `pollB` event is a permutation of the response -/
def PermOK : Ev → Prop
  | .pollB perm => ∀ l, (perm l).Perm l
  | .dpollStart => False        -- overlapping polls of one client are outside the proved theorems (see Props: witnesses)
  | .dpollFinish _ _ => False
  | _ => True

/-- side conditions on an event in world `w`: offered presentations come from `K` and respect `ExpMono`; the
    iteration order of the response map is a permutation -/
def EvOK (K : VP → Prop) (d : Def) (w : World) : Ev → Prop
  | .register vp => K vp ∧ ExpMono d w vp
  | .pollB perm => ∀ l, (perm l).Perm l
  | .dpollStart => False        -- one poller per client: overlapping polls are not admissible here (Props: witnesses)
  | .dpollFinish _ _ => False
  | _ => True

/-- worlds reachable from two empty nodes by any admissible history -/
inductive Reach (cfg : Cfg) (d : Def) (K : VP → Prop) : World → Prop where
  | init (t : Nat) : Reach cfg d K { t := t }
  | step (w : World) (e : Ev) : Reach cfg d K w → EvOK K d w e → Reach cfg d K (step cfg d w e).1

/-- the live sets agree: same (subject, id) keys among the rows that have not expired at `t` -/
def LiveEq (S C : Store) (t : Nat) : Prop := ∀ k, k ∈ S.liveKeys t ↔ k ∈ C.liveKeys t

/-- the client's own `verifyRegistration` accepted this presentation at some earlier clock value -/
def ClientVerified (d : Def) (t : Nat) (vp : VP) : Prop := ∃ s now, now ≤ t ∧ verify d s now .client vp = .ok ()

end Nuts.C16
