/-
  Base conventions shared by all models (DESIGN.md §3).
  Core Lean only.
-/
namespace Nuts

/-- Go partiality made explicit: a Go function that can return an error or panic. -/
inductive Res (α : Type) where
  | ok (a : α)
  | err (e : String)
  | panic (site : String)
  deriving Repr, DecidableEq, Inhabited

namespace Res
def bind {α β} (r : Res α) (f : α → Res β) : Res β :=
  match r with
  | .ok a => f a
  | .err e => .err e
  | .panic s => .panic s

instance : Monad Res where
  pure := .ok
  bind := bind

def isOk {α} : Res α → Bool | .ok _ => true | _ => false
def isPanic {α} : Res α → Bool | .panic _ => true | _ => false
def cls {α} : Res α → String
  | .ok _ => "ok" | .err e => "err:" ++ e | .panic s => "panic:" ++ s
end Res

/-- insertion into a list sorted by a boolean strict order `lt` (stable: after equal elements). -/
def insertSorted {α} (lt : α → α → Bool) (x : α) : List α → List α
  | [] => [x]
  | y :: ys => if lt x y then x :: y :: ys else y :: insertSorted lt x ys

def sortBy {α} (lt : α → α → Bool) (l : List α) : List α :=
  l.foldr (insertSorted lt) []

/-- association-list helpers (first binding wins on lookup; `put` replaces). -/
def alGet {κ ν} [BEq κ] (m : List (κ × ν)) (k : κ) : Option ν :=
  (m.find? (fun p => p.1 == k)).map (·.2)

def alPut {κ ν} [BEq κ] (m : List (κ × ν)) (k : κ) (v : ν) : List (κ × ν) :=
  (k, v) :: m.filter (fun p => !(p.1 == k))

def alDel {κ ν} [BEq κ] (m : List (κ × ν)) (k : κ) : List (κ × ν) :=
  m.filter (fun p => !(p.1 == k))

end Nuts
