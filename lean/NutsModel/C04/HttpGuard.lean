/-
  C04 — model of the request path from the wire to a handler of nuts-node's HTTP engine.

  Mirrors (in code order):
    net/http   readRequest + net/url.ParseRequestURI        -> `parseTarget`   (contract, written down)
    echo v4    GetPath + Router.Find                         -> `routerPath`, `matchPat`, `findRoute`
    /repo/http/engine.go   matchesPath, applyAuthMiddleware  -> `matchesPath`, `guardEngaged`
    /repo/http/echo.go     MultiEcho.Bind / addFn / getBindFromPath -> `getBindFromPath`, `bindAll`, `routesAt`
    tokenV2 middleware (decision only; see Token.lean)       -> parameter `tok : Decision`

  Strings are byte lists (`List Char`, one `Char` per byte) because `unescape` produces arbitrary bytes.
  Core Lean only.
-/
import NutsModel.Base

namespace Nuts.C04

abbrev Str := List Char

/-! ### net/url -/

def isHex (c : Char) : Bool :=
  ('0' ≤ c && c ≤ '9') || ('a' ≤ c && c ≤ 'f') || ('A' ≤ c && c ≤ 'F')

def unhex (c : Char) : Nat :=
  if '0' ≤ c && c ≤ '9' then c.toNat - '0'.toNat
  else if 'a' ≤ c && c ≤ 'f' then c.toNat - 'a'.toNat + 10
  else if 'A' ≤ c && c ≤ 'F' then c.toNat - 'A'.toNat + 10
  else 0

/-- `url.unescape(s, encodePath)`: `%XX` decoded, a malformed escape is an error, everything else verbatim.
    Written as a scanner (state 0: plain, 1: after `%`, 2: after `%` and the hex digit `a`) so that the recursion
    is on the tail only. -/
def unescapeSt : Nat → Char → Str → Option Str
  | 0, _, [] => some []
  | _ + 1, _, [] => none
  | 0, _, c :: r => if c = '%' then unescapeSt 1 c r else (unescapeSt 0 c r).map (c :: ·)
  | 1, _, c :: r => if isHex c then unescapeSt 2 c r else none
  | _ + 2, a, c :: r =>
    if isHex c then (unescapeSt 0 c r).map (Char.ofNat (unhex a * 16 + unhex c) :: ·) else none

def unescape (s : Str) : Option Str := unescapeSt 0 ' ' s

def isAlnum (c : Char) : Bool :=
  ('a' ≤ c && c ≤ 'z') || ('A' ≤ c && c ≤ 'Z') || ('0' ≤ c && c ≤ '9')

/-- `url.shouldEscape(c, encodePath)` -/
def shouldEscapePath (c : Char) : Bool :=
  if isAlnum c then false
  else if c = '-' || c = '_' || c = '.' || c = '~' then false
  else if c = '$' || c = '&' || c = '+' || c = ',' || c = '/' || c = ':' || c = ';' || c = '=' || c = '@' then false
  else true

def hexUpper (n : Nat) : Char :=
  if n < 10 then Char.ofNat (n + '0'.toNat) else Char.ofNat (n - 10 + 'A'.toNat)

/-- `url.escape(s, encodePath)` -/
def escapePath : Str → Str
  | [] => []
  | c :: r =>
    if shouldEscapePath c then '%' :: hexUpper (c.toNat / 16) :: hexUpper (c.toNat % 16) :: escapePath r
    else c :: escapePath r

def isCTL (c : Char) : Bool := c.toNat < 0x20 || c.toNat = 0x7f

def isAlpha (c : Char) : Bool := ('a' ≤ c && c ≤ 'z') || ('A' ≤ c && c ≤ 'Z')

inductive Scheme where
  | none (rest : Str)          -- no scheme: rest is the whole input
  | some (scheme rest : Str)
  | missing                    -- leading ':' : "missing protocol scheme"
  deriving Repr, DecidableEq

/-- `url.getScheme`; `i0` = still at index 0; `acc` = reversed scheme so far; `whole` = the input -/
def getSchemeAux (whole : Str) : Bool → Str → Str → Scheme
  | _, _, [] => .none whole
  | i0, acc, c :: r =>
    if isAlpha c then getSchemeAux whole false (c :: acc) r
    else if ('0' ≤ c && c ≤ '9') || c = '+' || c = '-' || c = '.' then
      if i0 then .none whole else getSchemeAux whole false (c :: acc) r
    else if c = ':' then
      if i0 then .missing else .some acc.reverse r
    else .none whole

def getScheme (s : Str) : Scheme := getSchemeAux s true [] s

/-- text before the first `?` -/
def beforeQuery : Str → Str
  | [] => []
  | c :: r => if c = '?' then [] else c :: beforeQuery r

/-- split at the first `/` : (before, from-slash-on) -/
def cutAtSlash : Str → Str × Str
  | [] => ([], [])
  | c :: r => if c = '/' then ([], c :: r) else let (a, b) := cutAtSlash r; (c :: a, b)

/-- what the components see of one request -/
structure Req where
  requestURI : Str
  path : Str       -- URL.Path
  rawPath : Str    -- URL.RawPath ("" when the default encoding of Path equals the wire form)
  deriving Repr, DecidableEq

/-- `URL.setPath` -/
def setPath (uri p : Str) : Option Req :=
  match unescape p with
  | none => none
  | some path => some { requestURI := uri, path := path, rawPath := if p = escapePath path then [] else p }

/-- `url.ParseRequestURI(rawurl)` reduced to what the router and the guard read. `authOK` is the verdict of
    `url.parseAuthority` on the authority component (supplied by the harness from the real parser; theorems
    quantify over it). `uri` is `Request.RequestURI` (the target as received). -/
def parseURL (authOK : Str → Bool) (uri rawurl : Str) : Option Req :=
  if rawurl.any isCTL then none
  else if rawurl = [] then none
  else if rawurl = ['*'] then some { requestURI := uri, path := ['*'], rawPath := [] }
  else match getScheme rawurl with
    | .missing => none
    | .none rest0 =>
      let rest := beforeQuery rest0
      match rest with
      | '/' :: _ => setPath uri rest          -- no authority parsing without a scheme (viaRequest)
      | _ => none                              -- "invalid URI for request"
    | .some _ rest0 =>
      let rest := beforeQuery rest0
      match rest with
      | '/' :: '/' :: r2 =>
        let (authority, p) := cutAtSlash r2
        if authOK authority then setPath uri p else none
      | '/' :: _ => setPath uri rest
      | _ => some { requestURI := uri, path := [], rawPath := [] }   -- opaque

/-- `http.readRequest`: request line `method SP target SP HTTP/1.1`. A target with a space makes the protocol
    field malformed (400). CONNECT with a target not starting with `/` is parsed as `http://` + target. -/
def parseTarget (authOK : Str → Bool) (method : String) (target : Str) : Option Req :=
  if target.any (· = ' ') then none
  else
    let justAuthority := method = "CONNECT" && !(target.head? = some '/')
    parseURL authOK target (if justAuthority then "http://".toList ++ target else target)

/-! ### echo router -/

inductive Seg where
  | lit (s : Str)
  | param
  | any
  deriving Repr, DecidableEq

structure Route where
  id : Nat
  method : String
  pat : List Seg
  deriving Repr, DecidableEq

/-- strip a literal prefix -/
def stripPrefix : Str → Str → Option Str
  | [], s => some s
  | _ :: _, [] => none
  | a :: as, b :: bs => if a = b then stripPrefix as bs else none

def atBoundary : Str → Bool
  | [] => true
  | c :: _ => c = '/'

def untilSlash : Str → Str
  | [] => []
  | c :: r => if c = '/' then c :: r else untilSlash r

/-- does the pattern match the (remaining) path. `leaf`: the final `:param` node has no children in the router
    tree and therefore swallows the rest of the path (echo `isLeaf`). The remaining path always starts at a `/`. -/
def matchPat (leaf : Bool) : List Seg → Str → Bool
  | [], p => p = []
  | .lit s :: ps, p =>
    match p with
    | '/' :: rest =>
      match stripPrefix s rest with
      | some r' => atBoundary r' && matchPat leaf ps r'
      | none => false
    | _ => false
  | [.param], p =>
    match p with
    | '/' :: rest => rest ≠ [] && (leaf || !rest.any (· = '/'))
    | _ => false
  | .param :: ps, p =>
    match p with
    | '/' :: rest => matchPat leaf ps (untilSlash rest)
    | _ => false
  | [.any], p =>
    match p with
    | '/' :: _ => true
    | _ => false
  | .any :: _, _ => false

/-- echo `GetPath`: the router dispatches on `RawPath` when it is set, else on `Path` -/
def routerPath (r : Req) : Str := if r.rawPath = [] then r.path else r.rawPath

def segKind : Seg → Nat
  | .lit _ => 0 | .param => 1 | .any => 2

/-- priority of the depth-first search static > param > any: lexicographic on the kinds -/
def kindsLt : List Seg → List Seg → Bool
  | [], [] => false
  | [], _ :: _ => true
  | _ :: _, [] => false
  | a :: as, b :: bs => segKind a < segKind b || (segKind a = segKind b && kindsLt as bs)

def endsWithAny : List Seg → Bool
  | [] => false
  | [s] => s = .any
  | _ :: r => endsWithAny r

/-- the depth-first search over the path-matching candidates in priority order. A node (= pattern) that has the
    request method ends the search with its handler. A node without the method is skipped (echo remembers it for the
    405) — EXCEPT an any-node (`*`): echo does not backtrack out of a matched any-node, the search ends there (405). -/
def walkCands (all : List Route) (m : String) : List Route → Option Route
  | [] => none
  | r :: rest =>
    match all.find? (fun q => q.pat = r.pat && q.method = m) with
    | some q => some q
    | none => if endsWithAny r.pat then none else walkCands all m rest

def patExtends : List Seg → List Seg → Bool   -- `q` strictly extends `p` (same kinds/literals on the common part)
  | [], _ :: _ => true
  | _, [] => false
  | a :: as, b :: bs => a = b && patExtends as bs

/-- final `:param` of `r` is a leaf of the tree built from `rs` -/
def isLeaf (rs : List Route) (r : Route) : Bool := !rs.any (fun q => patExtends r.pat q.pat)

def pathMatches (rs : List Route) (p : Str) (r : Route) : Bool := matchPat (isLeaf rs r) r.pat p

inductive Routed where
  | handler (r : Route)
  | notFound
  | methodNotAllowed   -- 405, or 204 for OPTIONS
  deriving Repr, DecidableEq

def findRoute (rs : List Route) (method : String) (p : Str) : Routed :=
  let cands := sortBy (fun a b => kindsLt a.pat b.pat) (rs.filter (pathMatches rs p))
  match walkCands cands method cands with
  | some r => .handler r
  | none => if cands.isEmpty then .notFound else .methodNotAllowed

/-! ### /repo/http/engine.go -/

def endsWithSlash (s : Str) : Bool := s.getLast? = some '/'

/-- `matchesPath(requestURI, path)` -/
def matchesPath (uri path : Str) : Bool :=
  if path = ['/'] then true
  else
    let u := if endsWithSlash uri then uri else uri ++ ['/']
    let p := if endsWithSlash path then path else path ++ ['/']
    u = p || p.isPrefixOf u

/-- which string of the request the auth skipper hands to `matchesPath` (REGENERATED FACT `authSelector`) -/
inductive Selector where
  | requestURI
  | urlPath
  deriving Repr, DecidableEq

def Selector.get : Selector → Req → Str
  | .requestURI, r => r.requestURI
  | .urlPath, r => r.path

/-- `!skipper(c)` of applyAuthMiddleware -/
def guardEngaged (sel : Selector) (authPath : Str) (r : Req) : Bool := matchesPath (sel.get r) authPath

/-- outcome of tokenV2's `checkConnectionAuthorization` once the skipper did not skip (Token.lean computes it) -/
inductive Decision where
  | granted (user : String)
  | denied
  deriving Repr, DecidableEq

structure Response where
  status : Nat
  ran : Option Nat          -- id of the handler that ran
  user : Option String      -- core.UserContextKey seen by the handler
  deriving Repr, DecidableEq

def runRouted (method : String) (user : Option String) : Routed → Response
  | .handler r => { status := 200, ran := some r.id, user := user }
  | .notFound => { status := 404, ran := none, user := none }
  | .methodNotAllowed => { status := if method = "OPTIONS" then 204 else 405, ran := none, user := none }

/-- one echo instance: router, then (middleware installed with `Use`, so after routing) the auth middleware,
    then the routed handler. `authOn = false` is `auth.type = ""`. -/
def serveEcho (sel : Selector) (authPath : Str) (authOn : Bool) (rs : List Route) (tok : Decision)
    (method : String) (r : Req) : Response :=
  let routed := findRoute rs method (routerPath r)
  if authOn && guardEngaged sel authPath r then
    match tok with
    | .granted u => runRouted method (some u) routed
    | .denied => { status := 401, ran := none, user := none }
  else runRouted method none routed

/-- net/http answers `OPTIONS *` itself (200) and malformed request lines with 400, before any handler -/
def serveConn (authOK : Str → Bool) (sel : Selector) (authPath : Str) (authOn : Bool) (rs : List Route)
    (tok : Decision) (method : String) (target : Str) : Response :=
  match parseTarget authOK method target with
  | none => { status := 400, ran := none, user := none }
  | some r =>
    if method = "OPTIONS" && target = ['*'] then { status := 200, ran := none, user := none }
    else serveEcho sel authPath authOn rs tok method r

/-! ### /repo/http/echo.go : bind table -/

def trimSlashL : Str → Str
  | [] => []
  | c :: r => if c = '/' then trimSlashL r else c :: r

def trimSlash (s : Str) : Str := (trimSlashL (trimSlashL s).reverse).reverse

def toLowerC (c : Char) : Char := if 'A' ≤ c && c ≤ 'Z' then Char.ofNat (c.toNat + 32) else c

/-- `getBindFromPath`: "/" + lower(first segment of strings.Trim(path, "/")) -/
def getBindFromPath (path : Str) : Str :=
  '/' :: ((cutAtSlash (trimSlash path)).1.map toLowerC)

abbrev Addr := String

/-- `MultiEcho.Bind` without the error cases that `Configure` cannot hit twice (a duplicate bind is an error) -/
def bind (binds : List (Str × Addr)) (path : Str) (addr : Addr) : Option (List (Str × Addr)) :=
  let b := getBindFromPath path
  if addr = "" then none
  else if (binds.find? (·.1 = b)).isSome then none
  else some (binds ++ [(b, addr)])

def lookupBind (binds : List (Str × Addr)) (b : Str) : Option Addr := (binds.find? (·.1 = b)).map (·.2)

/-- `Engine.Configure`: RootPath -> public address, then every internal bind -> internal address -/
def configureBinds (internalBinds : List Str) (pub int : Addr) : Option (List (Str × Addr)) :=
  internalBinds.foldl (fun acc p => acc.bind (fun b => bind b p int)) (bind [] ['/'] pub)

structure Registered where
  path : Str        -- the path string given to Router().GET etc.
  route : Route

/-- `addFn`: the echo instance (address) a route is added to -/
def addrOf (binds : List (Str × Addr)) (path : Str) : Option Addr :=
  match lookupBind binds (getBindFromPath path) with
  | some a => if a = "" then lookupBind binds ['/'] else some a
  | none => lookupBind binds ['/']

/-- the routes of the echo instance listening on `addr` -/
def routesAt (binds : List (Str × Addr)) (regs : List Registered) (addr : Addr) : List Route :=
  (regs.filter (fun g => addrOf binds g.path = some addr)).map (·.route)

/-- a pattern string as given to echo: split on `/`; `:x` is a param, `*` the any segment -/
def splitSegs : Str → List Str
  | [] => [[]]
  | c :: r =>
    match splitSegs r with
    | [] => [[]]          -- unreachable (splitSegs never returns [])
    | s :: ss => if c = '/' then [] :: s :: ss else (c :: s) :: ss

def segOf (s : Str) : Seg :=
  match s with
  | ':' :: _ => .param
  | ['*'] => .any
  | _ => .lit s

/-- echo pattern of a registration path (`/a/:b/*`); the leading empty piece before the first `/` is dropped -/
def patOf (path : Str) : List Seg := ((splitSegs path).drop 1).map segOf

end Nuts.C04
