/-
  C04 — which KIND of key (and, for RSA, how strong) an authorized_keys entry carries, computed from the BYTES of the key
  blob (the base64 field of the line, ssh wire format RFC 4253 §6.6 / RFC 5656 §3.1 / RFC 8709 §4), the way
  /repo/http/tokenV2/authorized_keys.go `keyIsSecure` sees it after golang.org/x/crypto/ssh parsed the entry:

      switch rawKey := cryptoPublicKey.(type) {
      case *rsa.PublicKey:   if bitLen := rawKey.N.BitLen(); bitLen >= minimumRSAKeySize { return true, nil } …
      case *ecdsa.PublicKey: return true, nil
      case ed25519.PublicKey: return true, nil
      default: return false, …

  `N` is the second mpint of an "ssh-rsa" blob; `big.Int.BitLen` is the index of the highest set bit of the magnitude
  (leading zero bytes — the mpint sign byte — do not count). `(*rsa.PublicKey).Size()*8` — the tempting alternative —
  rounds up to whole bytes (`sizeBits`). Core Lean only.

  Not modelled: an mpint with the sign bit set (negative modulus; x/crypto/ssh does not refuse it) is classified `.other`;
  the validity checks of the ssh parser itself (exponent range, curve point on curve, trailing bytes) stay harness data
  (`SshVerdict.error`).
-/
import NutsModel.C04.Token

namespace Nuts.C04

abbrev Bytes := List UInt8

/-- value of a big-endian magnitude (`big.Int.SetBytes`) -/
def natOfBytes (bs : Bytes) : Nat := bs.foldl (fun a b => a * 256 + b.toNat) 0

/-- `bits.Len8` -/
def bitsOfByte (b : Nat) : Nat :=
  if b ≥ 128 then 8 else if b ≥ 64 then 7 else if b ≥ 32 then 6 else if b ≥ 16 then 5
  else if b ≥ 8 then 4 else if b ≥ 4 then 3 else if b ≥ 2 then 2 else if b ≥ 1 then 1 else 0

/-- `big.Int.BitLen` of the magnitude with these big-endian bytes: leading zero bytes are dropped (nat.norm), then
    8 bits for every byte below the top one plus the length of the top byte -/
def bitLen : Bytes → Nat
  | [] => 0
  | b :: r => if b = 0 then bitLen r else 8 * r.length + bitsOfByte b.toNat

/-- `(*rsa.PublicKey).Size() * 8` : the modulus length rounded UP to whole bytes -/
def sizeBits (bs : Bytes) : Nat := 8 * ((bitLen bs + 7) / 8)

/-- ssh wire `uint32` -/
def be32 : Bytes → Option (Nat × Bytes)
  | a :: b :: c :: d :: r => some (((a.toNat * 256 + b.toNat) * 256 + c.toNat) * 256 + d.toNat, r)
  | _ => none

/-- ssh wire `string` (also the carrier of an mpint): uint32 length, then that many bytes -/
def sshString (bs : Bytes) : Option (Bytes × Bytes) :=
  match be32 bs with
  | some (n, r) => if n ≤ r.length then some (r.take n, r.drop n) else none
  | none => none

/-- encoder of the same (for statements about ALL blobs of a given shape) -/
def encString (s : Bytes) : Bytes :=
  let n := s.length
  [UInt8.ofNat (n / 16777216 % 256), UInt8.ofNat (n / 65536 % 256), UInt8.ofNat (n / 256 % 256), UInt8.ofNat (n % 256)] ++ s

/-- the bytes of an (ASCII) algorithm name -/
def algoName (s : String) : Bytes := s.toList.map (fun c => UInt8.ofNat c.toNat)

/-- the ssh key types whose parsed key is an *ecdsa.PublicKey (ssh.ParsePublicKey's switch) -/
def ecdsaAlgos : List String := ["ecdsa-sha2-nistp256", "ecdsa-sha2-nistp384", "ecdsa-sha2-nistp521"]

/-- the rule of `keyIsSecure` that measures an RSA modulus -/
inductive RsaMeasure where
  | bitLen      -- `rawKey.N.BitLen()`
  | sizeTimes8  -- `rawKey.Size()*8` (whole bytes)
  deriving Repr, DecidableEq

def measure (m : RsaMeasure) (n : Bytes) : Nat :=
  match m with
  | .bitLen => bitLen n
  | .sizeTimes8 => sizeBits n

/-- the modulus of an "ssh-rsa" blob, from the bytes that follow the algorithm name: mpint e, mpint n -/
def rsaModulusOf (r : Bytes) : Option Bytes :=
  match sshString r with
  | none => none
  | some (_, r2) =>
    match sshString r2 with
    | none => none
    | some (n, _) => some n

/-- the modulus bytes of a blob, when it is an "ssh-rsa" blob -/
def rsaModulus (blob : Bytes) : Option Bytes :=
  match sshString blob with
  | none => none
  | some (algo, r) => if algo = algoName "ssh-rsa" then rsaModulusOf r else none

/-- *rsa.PublicKey with modulus bytes n (an mpint whose sign bit is set is not modelled: `.other`) -/
def rsaKind (m : RsaMeasure) (n : Bytes) : KeyKind :=
  match n with
  | [] => .rsa 0
  | t :: _ => if t.toNat ≥ 128 then .other else .rsa (measure m n)

/-- the kind of key inside a blob as `keyIsSecure`'s type switch sees it -/
def kindOfBlob (m : RsaMeasure) (blob : Bytes) : KeyKind :=
  match sshString blob with
  | none => .other
  | some (algo, r) =>
    if algo = algoName "ssh-rsa" then
      match rsaModulusOf r with
      | none => .other
      | some n => rsaKind m n
    else if algo = algoName "ssh-ed25519" then .ed25519
    else if ecdsaAlgos.any (fun a => algo = algoName a) then .ecdsa
    else .other

/-- the whole rule on the bytes of the blob -/
def blobIsSecure (m : RsaMeasure) (minRSA : Nat) (blob : Bytes) : Bool := keyIsSecure minRSA (kindOfBlob m blob)

/-- one line of the file with the ssh parser's outcome as BYTES: unparsable, or the key blob and the trimmed comment -/
structure BlobLine where
  raw : Str
  parsed : Option (Bytes × String)

def BlobLine.toKeyLine (m : RsaMeasure) (l : BlobLine) : KeyLine :=
  { raw := l.raw, verdict := match l.parsed with | none => .error | some (b, c) => .key (kindOfBlob m b) c }

/-- parseAuthorizedKeys on lines whose keys are given as blobs -/
def authorizedKeysOfBlobs (m : RsaMeasure) (minRSA : Nat) (ls : List BlobLine) : Option (List AuthKey) :=
  authorizedKeysOf minRSA (ls.map (BlobLine.toKeyLine m))

end Nuts.C04
