/-
  C04 (deepening round 2026-09-28) — the stage BEHIND the auth guard: nuts-node's internal rate limiter.

  Mirrors (in code order):
    /repo/http/engine.go      applyRateLimiterMiddleware (wiring decision + the table of protected routes)
                                                                   -> `limiterEnabled`, `LimTable` (REGENERATED `Facts.C04.limiterTable`)
    /repo/http/ratelimiter.go newInternalRateLimiter Skipper        -> `protectedFor`, `limiterSkips`
                              internalRateLimiterStore.Allow        -> `allow` (one token bucket for ALL callers and BOTH listeners)
    echo v4   Router.Find: `c.Path()` of a routed request           -> `echoPath` (handler: the registered path of the matched route;
                                                                       405: `originalPath` of the best matching node; 404: "")
    echo v4   middleware.RateLimiterWithConfig                      -> `limStage` (skip | 429 | next)
    /repo/http/engine.go Configure order  auth -> limiter           -> `serveEchoL` (the limiter is reached only through the guard)

  The bucket is a natural number of tokens; the passing of time (x/time/rate refills one token every
  interval/limit) is an explicit environment event `refill n`, so theorems quantify over all timings.
  Core Lean only.
-/
import NutsModel.C04.HttpGuard

namespace Nuts.C04

/-- `applyRateLimiterMiddleware`: `(Strictmode || InternalRateLimiter) && slices.Contains(DIDMethods, didnuts.MethodName)` -/
def limiterEnabled (nutsMethod : String) (strict flag : Bool) (didMethods : List String) : Bool :=
  (strict || flag) && didMethods.contains nutsMethod

/-- `map[string][]string` literal of protected route paths per HTTP method (Go forbids duplicate literal keys) -/
abbrev LimTable := List (String × List Str)

/-- `protectedPaths[c.Request().Method]` — a missing key is the nil slice -/
def protectedFor (tbl : LimTable) (method : String) : List Str :=
  match tbl.find? (fun e => e.1 = method) with
  | some e => e.2
  | none => []

/-- the `Skipper` of newInternalRateLimiter: `true` = the request is not rate limited.
    `cpath` is echo's `c.Path()`: the REGISTERED path of the route (with `:param` names), compared with `==`. -/
def limiterSkips (tbl : LimTable) (method : String) (cpath : Str) : Bool :=
  !(protectedFor tbl method).any (fun p => p = cpath)

/-- registered path of the route that the router selected -/
def pathOfRoute (regs : List Registered) (r : Route) : Str :=
  match regs.find? (fun g => g.route = r) with
  | some g => g.path
  | none => []

/-- `originalPath` of a router node: the path of the first registration that created the node (same pattern) -/
def pathOfPat (regs : List Registered) (pat : List Seg) : Str :=
  match regs.find? (fun g => g.route.pat = pat) with
  | some g => g.path
  | none => []

/-- the path-matching candidates of `findRoute`, in the router's search order -/
def candidates (rs : List Route) (p : Str) : List Route :=
  sortBy (fun a b => kindsLt a.pat b.pat) (rs.filter (pathMatches rs p))

/-- echo `c.Path()` after `Router.Find`: matched route's path; for a 405 the `originalPath` of the FIRST node that
    matched the whole path (`previousBestMatchNode`); nothing matched: "" -/
def echoPath (regs : List Registered) (method : String) (p : Str) : Str :=
  let rs := regs.map (·.route)
  match findRoute rs method p with
  | .handler r => pathOfRoute regs r
  | .notFound => []
  | .methodNotAllowed =>
    match candidates rs p with
    | c :: _ => pathOfPat regs c.pat
    | [] => []

/-- `rate.Limiter.Allow()` on a bucket of `b` tokens -/
def allow (b : Nat) : Bool × Nat := if b = 0 then (false, 0) else (true, b - 1)

/-- time passing: `n` tokens dripped in, capped at the burst size -/
def refill (burst n b : Nat) : Nat := min burst (b + n)

structure LimCfg where
  on : Bool          -- `limiterEnabled …`
  tbl : LimTable
  deriving Repr

def tooMany : Response := { status := 429, ran := none, user := none }

/-- does the limiter engage for this routed request -/
def limiterEngaged (lim : LimCfg) (regs : List Registered) (method : String) (r : Req) : Bool :=
  lim.on && !limiterSkips lim.tbl method (echoPath regs method (routerPath r))

/-- echo `RateLimiterWithConfig` followed by the routed handler -/
def limStage (lim : LimCfg) (regs : List Registered) (method : String) (r : Req) (user : Option String) (b : Nat) :
    Response × Nat :=
  let routed := findRoute (regs.map (·.route)) method (routerPath r)
  if limiterEngaged lim regs method r then
    if (allow b).1 then (runRouted method user routed, (allow b).2) else (tooMany, (allow b).2)
  else (runRouted method user routed, b)

/-- one echo instance with the middleware chain of `Engine.Configure`: router, auth guard, rate limiter, handler.
    `b` = tokens in the (engine-wide) bucket before the request, the result carries the tokens after it. -/
def serveEchoL (sel : Selector) (authPath : Str) (authOn : Bool) (lim : LimCfg) (regs : List Registered)
    (tok : Decision) (method : String) (r : Req) (b : Nat) : Response × Nat :=
  if authOn && guardEngaged sel authPath r then
    match tok with
    | .granted u => limStage lim regs method r (some u) b
    | .denied => ({ status := 401, ran := none, user := none }, b)
  else limStage lim regs method r none b

/-- the connection level (net/http answers malformed request lines and `OPTIONS *` before any middleware) -/
def serveConnL (authOK : Str → Bool) (sel : Selector) (authPath : Str) (authOn : Bool) (lim : LimCfg)
    (regs : List Registered) (tok : Decision) (method : String) (target : Str) (b : Nat) : Response × Nat :=
  match parseTarget authOK method target with
  | none => ({ status := 400, ran := none, user := none }, b)
  | some r =>
    if method = "OPTIONS" && target = ['*'] then ({ status := 200, ran := none, user := none }, b)
    else serveEchoL sel authPath authOn lim regs tok method r b

/-! ### histories on one engine -/

inductive LimEvent where
  | request (tok : Decision) (method : String) (target : Str)
  | refill (n : Nat)           -- time passes

structure EngineL where
  authOK : Str → Bool
  sel : Selector
  authPath : Str
  authOn : Bool
  lim : LimCfg
  regs : List Registered
  burst : Nat

/-- one event; returns the new bucket and the response (none for a refill) -/
def EngineL.step (e : EngineL) (b : Nat) : LimEvent → Nat × Option Response
  | .request tok m t =>
    let (resp, b') := serveConnL e.authOK e.sel e.authPath e.authOn e.lim e.regs tok m t b
    (b', some resp)
  | .refill n => (refill e.burst n b, none)

/-- a whole history: final bucket and the responses in order -/
def EngineL.run (e : EngineL) : Nat → List LimEvent → Nat × List Response
  | b, [] => (b, [])
  | b, ev :: rest =>
    let (b', resp) := e.step b ev
    let (bf, rs) := e.run b' rest
    (bf, match resp with | some x => x :: rs | none => rs)

/-- number of requests in a history that carry an accepted token -/
def grantedCount : List LimEvent → Nat
  | [] => 0
  | .request (.granted _) _ _ :: rest => grantedCount rest + 1
  | _ :: rest => grantedCount rest

end Nuts.C04
