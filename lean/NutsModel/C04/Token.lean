/-
  C04 / C17 — decision function of /repo/http/tokenV2/middleware.go `checkConnectionAuthorization`
  (after the skipper did not skip), in code order:
    authenticationCredential -> credentialIsSecure -> key loop { jwt.ParseString(WithKeySet) ; jwt.Validate(aud) ;
    bestPracticesCheck ; issuer == key comment } -> accessGranted | unauthorizedError.

  jwx (JWS parsing, signature verification with a key set, claim parsing) and uuid.Parse are NOT modelled: their
  verdicts on the concrete credential are data (`Analysis`), produced by the harness with the real libraries.
  Constants and lists come from the regenerated facts (`Policy`). Core Lean only.
-/
import NutsModel.C04.HttpGuard

namespace Nuts.C04

/-- protected headers of one signature, as read by `credentialIsSecure` -/
structure SigHdr where
  alg : String
  hdrs : List String      -- which of jwk / jku / x5c / x5u are present (non-nil / non-empty)
  deriving Repr, DecidableEq

structure Claims where
  jti : Option Bool             -- present?; verdict of uuid.Parse(tokenJTI(token))
  iat : Option Int              -- present?; unix seconds
  nbf : Option Int
  exp : Option Int
  aud : Option (List String)
  iss : Option String
  sub : Option String
  deriving Repr, DecidableEq

/-- what the real libraries say about the credential string -/
structure Analysis where
  parses : Bool                 -- jws.ParseString(credential) succeeded
  sigs : List SigHdr            -- message.Signatures()
  verifies : List Bool          -- per authorised key (file order): jwt.ParseString(credential, WithKeySet(key set)) succeeded
  claims : Claims               -- claims of the payload (meaningful when some key verified)
  deriving Repr, DecidableEq

inductive SigRule where
  | atLeastOne                  -- `secureSignatureCount > 0`
  | exactlyOne                  -- `len(message.Signatures()) != 1` is rejected
  deriving Repr, DecidableEq

/-- constants and lists of the source (regenerated) -/
structure Policy where
  maxCredLen : Nat
  acceptableAlgs : List String
  forbiddenHdrs : List String
  sigRule : SigRule
  mandatory : List String
  maxLifetimeMin : Int
  expMustBePositive : Bool      -- bestPracticesCheck rejects `exp.Unix() <= 0` (jwt.Validate skips exp = 0)
  deriving Repr, DecidableEq

structure AuthKey where
  comment : String
  deriving Repr, DecidableEq

/-! ### authenticationCredential -/

def isSpace (c : Char) : Bool := c = ' ' || c = '\t' || c = '\n' || c = '\r' || c.toNat = 0x0b || c.toNat = 0x0c

/-- number of bytes of the white-space character (unicode.IsSpace, UTF-8 encoded) at the head of the byte string, 0 if the
    head is not white space: ASCII space/TAB/LF/VT/FF/CR; U+0085, U+00A0 (C2 85 / C2 A0); U+1680 (E1 9A 80);
    U+2000–U+200A, U+2028, U+2029, U+202F (E2 80 80–8A / A8 / A9 / AF); U+205F (E2 81 9F); U+3000 (E3 80 80) -/
def spaceLen : Str → Nat
  | [] => 0
  | c :: r =>
    if isSpace c then 1
    else match c.toNat, r with
      | 0xC2, d :: _ => if d.toNat = 0x85 || d.toNat = 0xA0 then 2 else 0
      | 0xE1, d :: e :: _ => if d.toNat = 0x9A && e.toNat = 0x80 then 3 else 0
      | 0xE2, d :: e :: _ =>
        if d.toNat = 0x80 && ((0x80 ≤ e.toNat && e.toNat ≤ 0x8A) || e.toNat = 0xA8 || e.toNat = 0xA9 || e.toNat = 0xAF) then 3
        else if d.toNat = 0x81 && e.toNat = 0x9F then 3 else 0
      | 0xE3, d :: e :: _ => if d.toNat = 0x80 && e.toNat = 0x80 then 3 else 0
      | _, _ => 0

/-- `strings.Fields`: split around runs of white space. `skip` = bytes of a multi-byte space still to drop. -/
def fieldsAux : Nat → Str → Str → List Str
  | _, cur, [] => if cur = [] then [] else [cur.reverse]
  | skip + 1, cur, _ :: r => fieldsAux skip cur r
  | 0, cur, c :: r =>
    match spaceLen (c :: r) with
    | 0 => fieldsAux 0 (c :: cur) r
    | n + 1 => if cur = [] then fieldsAux n [] r else cur.reverse :: fieldsAux n [] r

def fields (s : Str) : List Str := fieldsAux 0 [] s

/-- the bearer credential of an `Authorization` header value, `[]` when missing/malformed -/
def authenticationCredential (hdr : Str) : Str :=
  match fields hdr with
  | [scheme, cred] => if scheme.map toLowerC = "bearer".toList then cred else []
  | _ => []

/-! ### credentialIsSecure -/

def sigSecure (P : Policy) (s : SigHdr) : Bool :=
  P.acceptableAlgs.contains s.alg && !(P.forbiddenHdrs.any (fun h => s.hdrs.contains h))

def sigCountOK (P : Policy) (n : Nat) : Bool :=
  match P.sigRule with
  | .atLeastOne => n > 0
  | .exactlyOne => n = 1

def credentialIsSecure (P : Policy) (credLen : Nat) (a : Analysis) : Bool :=
  credLen ≤ P.maxCredLen && a.parses && a.sigs.all (sigSecure P) && sigCountOK P a.sigs.length

/-! ### jwt.Validate(token, WithAudience(aud)) : jwx default validators, truncation 1 s, no skew -/

def timeSet (t : Option Int) : Option Int :=     -- `tv.IsZero() || tv.Unix() == 0` => the check is skipped
  match t with
  | some v => if v = 0 then none else some v
  | none => none

def validate (audience : String) (now : Int) (c : Claims) : Bool :=
  (match timeSet c.iat with | some t => !(now < t) | none => true) &&
  (match timeSet c.exp with | some t => now < t | none => true) &&
  (match timeSet c.nbf with | some t => !(now < t) | none => true) &&
  (match c.aud with | some l => l.contains audience | none => false)

/-! ### bestPracticesCheck -/

def claimPresent (c : Claims) (name : String) : Bool :=
  match name with
  | "jti" => c.jti.isSome | "iat" => c.iat.isSome | "exp" => c.exp.isSome | "nbf" => c.nbf.isSome
  | "aud" => c.aud.isSome | "iss" => c.iss.isSome | "sub" => c.sub.isSome
  | _ => false        -- a mandatory field the model does not know: nothing passes (forces a model update)

def bestPractices (P : Policy) (c : Claims) : Bool :=
  P.mandatory.all (claimPresent c) &&
  (c.jti = some true) &&
  (match c.exp, c.nbf, c.iat with
   | some e, some n, some i =>
     !(e > n + P.maxLifetimeMin * 60) && !(e > i + P.maxLifetimeMin * 60) && !(i > n) &&
     (!P.expMustBePositive || e > 0)
   | _, _, _ => false) &&
  (match c.sub with | some s => s ≠ "" | none => false)

/-! ### the key loop and the decision -/

def keyLoop (P : Policy) (audience : String) (now : Int) (c : Claims) : List (AuthKey × Bool) → Decision
  | [] => .denied
  | (k, v) :: rest =>
    if !v then keyLoop P audience now c rest
    else if !validate audience now c then .denied
    else if !bestPractices P c then .denied
    else match c.iss with
      | some iss => if k.comment = iss then .granted iss else .denied
      | none => .denied

def tokenDecision (P : Policy) (audience : String) (keys : List AuthKey) (now : Int) (hdr : Str) (a : Analysis) : Decision :=
  let cred := authenticationCredential hdr
  if cred = [] then .denied
  else if !credentialIsSecure P cred.length a then .denied
  else keyLoop P audience now a.claims (keys.zip a.verifies)

/-! ### authorized_keys.go : which lines of the file become authorised keys -/

inductive KeyKind where
  | rsa (bits : Nat)
  | ecdsa
  | ed25519
  | other            -- any other ssh key type (ssh-dss, sk-…): keyIsSecure says no
  deriving Repr, DecidableEq

def keyIsSecure (minRSA : Nat) : KeyKind → Bool
  | .rsa bits => bits ≥ minRSA
  | .ecdsa => true
  | .ed25519 => true
  | .other => false

/-- what golang.org/x/crypto/ssh.ParseAuthorizedKey says about the pre-processed text of a line (data) -/
inductive SshVerdict where
  | error                                   -- "no key found" / unparsable: parseAuthorizedKeys fails as a whole
  | key (kind : KeyKind) (comment : String) -- key type and strings.TrimSpace of the comment field
  deriving Repr, DecidableEq

/-- one line of the file: its bytes, and the ssh parser's verdict on `preprocess raw` (meaningful when that is non-empty) -/
structure KeyLine where
  raw : Str
  verdict : SshVerdict
  deriving Repr, DecidableEq

/-- `strings.SplitN(line, "#", 2)[0]` : everything before the first `#` -/
def beforeHash : Str → Str
  | [] => []
  | c :: r => if c = '#' then [] else c :: beforeHash r

def isBlankC (c : Char) : Bool := c = ' ' || c = '\t'

def trimBlankL : Str → Str
  | [] => []
  | c :: r => if isBlankC c then trimBlankL r else c :: r

/-- `strings.TrimLeft(…, " \t")` then `strings.TrimRight(…, " \t")` -/
def trimBlank (s : Str) : Str := (trimBlankL (trimBlankL s).reverse).reverse

/-- the text of a line that is handed to the ssh parser: the part before the first `#`, blanks and tabs trimmed -/
def preprocess (raw : Str) : Str := trimBlank (beforeHash raw)

/-- the authorised keys, in file order: lines whose pre-processed text is non-empty, parses, carries a secure key and a
    non-empty user name; `none` = parseAuthorizedKeys returns an error (some pre-processed text does not parse) -/
def authorizedKeysOf (minRSA : Nat) : List KeyLine → Option (List AuthKey)
  | [] => some []
  | l :: rest =>
    if preprocess l.raw = [] then authorizedKeysOf minRSA rest
    else match l.verdict with
      | .error => none
      | .key kind comment =>
        if !keyIsSecure minRSA kind then authorizedKeysOf minRSA rest
        else if comment = "" then authorizedKeysOf minRSA rest
        else (authorizedKeysOf minRSA rest).map ({ comment := comment } :: ·)

/-! ### engine.go applyAuthMiddleware : what each configured auth type leads to -/

inductive AuthSetup where
  | noAuth        -- `case "":` nothing installed
  | tokenV2       -- middleware installed
  | error         -- Configure fails (unknown type / unreadable or unparsable authorized_keys)
  deriving Repr, DecidableEq

def configureAuth (typ : String) (keysFileOK : Bool) : AuthSetup :=
  if typ = "" then .noAuth
  else if typ = "token_v2" then (if keysFileOK then .tokenV2 else .error)
  else .error

/-! ### the middleware over a HISTORY of requests. `middlewareImpl` holds audience, authorised keys and skipper and nothing
      else (regenerated facts: fields, value receivers, no call on anything it holds): its state never changes. -/

structure TokReq where
  now : Int
  hdr : Str
  a : Analysis

structure MwState where
  audience : String
  keys : List AuthKey
  deriving Repr, DecidableEq

/-- one request: the decision and the state afterwards -/
def mwStep (P : Policy) (s : MwState) (r : TokReq) : MwState × Decision :=
  (s, tokenDecision P s.audience s.keys r.now r.hdr r.a)

/-- a history of requests on one instance: the decisions, in order -/
def mwRun (P : Policy) : MwState → List TokReq → List Decision
  | _, [] => []
  | s, r :: rest => let (s', d) := mwStep P s r; d :: mwRun P s' rest

end Nuts.C04
