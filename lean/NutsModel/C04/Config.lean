/-
  C04 (deepening round 2026-09-28) — configuration text -> the auth policy of the internal interface.

  Mirrors (in code order):
    /repo/core/server_config.go  loadConfigMap: file, then environment, then command line     -> `effective` (precedence)
    /repo/core/config.go         loadFromEnv: NAME -> key (`TrimPrefix NUTS_`, lower case, `_` -> `.`), value split on
                                 unescaped `,` (splitWithEscaping) and trimmed; one piece = scalar, more = list  -> `envKey`, `splitEsc`, `envValue`
                                 loadFromFlagSet / posflag.Provider: a flag GIVEN on the command line always wins; a flag not
                                 given contributes its default only where no other source has the key          -> `effective`
    /repo/core/server_config.go  InjectIntoEngine: sub-tree `strings.ToLower(e.Name())` decoded into http.Config by koanf tag
                                 (a list cannot be decoded into a string field: error)                          -> `decodeStr`, `loadHttpConfig`
    /repo/http/cmd/cmd.go        FlagSet: the registered flags and their defaults (REGENERATED `Facts.C04.httpFlags`)
    /repo/http/engine.go         applyAuthMiddleware switch                                                     -> `configureAuth` (Token.lean)

  Keys and values are byte lists. Scope: string-valued leaves; one environment variable per key; no environment variable
  naming an inner node of the tree. Core Lean only.
-/
import NutsModel.C04.Token

namespace Nuts.C04

inductive CfgVal where
  | str (s : Str)
  | list (l : List Str)
  deriving Repr, DecidableEq

/-- `strings.HasPrefix` -/
def hasPrefix (p s : Str) : Bool := p.isPrefixOf s

/-- the key of an environment variable: `strings.Replace(strings.ToLower(strings.TrimPrefix(raw, prefix)), "_", ".", -1)` -/
def envKey (pfx : Str) (raw : Str) : Str :=
  let s := if hasPrefix pfx raw then raw.drop pfx.length else raw
  s.map (fun c => if toLowerC c = '_' then '.' else toLowerC c)

/-- `strings.ReplaceAll(s, "\\,", "\x00")` (left to right, non-overlapping) -/
def escToNul : Str → Str
  | '\\' :: ',' :: r => Char.ofNat 0 :: escToNul r
  | c :: r => c :: escToNul r
  | [] => []

/-- `strings.Split(s, ",")` -/
def splitComma : Str → List Str
  | [] => [[]]
  | c :: r =>
    match splitComma r with
    | [] => [[]]          -- unreachable
    | s :: ss => if c = ',' then [] :: s :: ss else (c :: s) :: ss

def isAsciiSpace (c : Char) : Bool := c = ' ' || c = '\t' || c = '\n' || c = '\r' || c.toNat = 0x0b || c.toNat = 0x0c

def trimL : Str → Str
  | [] => []
  | c :: r => if isAsciiSpace c then trimL r else c :: r

/-- `strings.TrimSpace` on ASCII input -/
def trimSpace (s : Str) : Str := (trimL (trimL s).reverse).reverse

/-- `splitWithEscaping(raw, ",", "\\")` with every piece trimmed -/
def splitEsc (raw : Str) : List Str :=
  (splitComma (escToNul raw)).map (fun t => trimSpace (t.map (fun c => if c.toNat = 0 then ',' else c)))

/-- the value an environment variable contributes: one piece is a scalar, more are a list -/
def envValue (raw : Str) : CfgVal :=
  match splitEsc raw with
  | [v] => .str v
  | vs => .list vs

structure Sources where
  file : List (Str × CfgVal)      -- leaves of the YAML file, keys flattened with "."
  env : List (Str × Str)          -- NAME, value
  flags : List (Str × Str)        -- flags GIVEN on the command line (pflag `Changed`)
  defaults : List (Str × Str)     -- every registered flag with its default

/-- the value the merged configuration map holds for `key`: command line, else environment, else file, else flag default -/
def effective (pfx : Str) (src : Sources) (key : Str) : Option CfgVal :=
  match src.flags.find? (fun f => f.1 = key) with
  | some f => some (.str f.2)
  | none =>
    match src.env.find? (fun e => hasPrefix pfx e.1 && envKey pfx e.1 = key) with
    | some e => some (envValue e.2)
    | none =>
      match src.file.find? (fun f => f.1 = key) with
      | some f => some f.2
      | none => (src.defaults.find? (fun d => d.1 = key)).map (fun d => .str d.2)

/-- mapstructure into a `string` field: a scalar is taken, a list is an error, an absent key leaves the zero value -/
def decodeStr : Option CfgVal → Except Unit Str
  | none => .ok []
  | some (.str s) => .ok s
  | some (.list _) => .error ()

structure HttpCfg where
  authType : Str
  audience : Str
  keysPath : Str
  intAddr : Str
  pubAddr : Str
  log : Str
  deriving Repr, DecidableEq

def httpKey (k : String) : Str := ("http." ++ k).toList

/-- `InjectIntoEngine(httpEngine)`: the string fields of http.Config -/
def loadHttpConfig (pfx : Str) (src : Sources) : Except Unit HttpCfg :=
  match decodeStr (effective pfx src (httpKey "internal.auth.type")),
        decodeStr (effective pfx src (httpKey "internal.auth.audience")),
        decodeStr (effective pfx src (httpKey "internal.auth.authorizedkeyspath")),
        decodeStr (effective pfx src (httpKey "internal.address")),
        decodeStr (effective pfx src (httpKey "public.address")),
        decodeStr (effective pfx src (httpKey "log")) with
  | .ok authType, .ok audience, .ok keysPath, .ok intAddr, .ok pubAddr, .ok log =>
    .ok { authType, audience, keysPath, intAddr, pubAddr, log }
  | _, _, _, _, _, _ => .error ()     -- one value that does not decode fails the whole Unmarshal

/-- `Engine.Configure` on the loaded configuration: the binds come first (an empty address is an error), then the auth switch -/
def configureOutcome (internalBinds : List Str) (c : HttpCfg) (keysFileOK : Bool) : AuthSetup :=
  match configureBinds internalBinds (String.ofList c.pubAddr) (String.ofList c.intAddr) with
  | none => .error
  | some _ => configureAuth (String.ofList c.authType) keysFileOK

/-- configuration text -> what `Engine.Configure` does about authentication (`keysFileOK`: the authorized_keys file at the
    configured path loads) -/
def policyOf (pfx : Str) (src : Sources) (keysFileOK : Bool) : AuthSetup :=
  match loadHttpConfig pfx src with
  | .error _ => .error
  | .ok c => configureAuth (String.ofList c.authType) keysFileOK

end Nuts.C04
