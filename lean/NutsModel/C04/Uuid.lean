/-
  C04 (deepening round 2026-09-28) — the grammar of the token id: `uuid.Parse` of github.com/google/uuid v1.6.0, which
  tokenV2 `bestPracticesCheck` applies to the `jti` claim ("Ensure JTI is a UUID").  Mirrors the Go switch on `len(s)`:

      36      xxxxxxxx-xxxx-xxxx-xxxx-xxxxxxxxxxxx
      36 + 9  urn:uuid: (strings.EqualFold) + the 36 form
      36 + 2  `s = s[1:]` then the 36 form — the library checks NEITHER the first NOR the last byte (braces are assumed)
      32      32 hex digits
      other   error

  Strings are byte lists. Core Lean only.
-/
import NutsModel.C04.HttpGuard

namespace Nuts.C04

def dashAt (s : Str) (i : Nat) : Bool := s[i]? = some '-'

/-- `xtob(s[i], s[i+1])` succeeds: both bytes are hex digits (either case) -/
def hexPairAt (s : Str) (i : Nat) : Bool :=
  match s[i]?, s[i + 1]? with
  | some a, some b => isHex a && isHex b
  | _, _ => false

/-- the offsets of the 16 hex pairs in the dashed form -/
def uuidHexOffsets : List Nat := [0, 2, 4, 6, 9, 11, 14, 16, 19, 21, 24, 26, 28, 30, 32, 34]

/-- the tail of `uuid.Parse`: `s` (at least 36 bytes) has dashes at 8, 13, 18, 23 and hex pairs at the 16 offsets.
    Bytes from offset 36 on are not looked at. -/
def parseDashed (s : Str) : Bool :=
  dashAt s 8 && dashAt s 13 && dashAt s 18 && dashAt s 23 && uuidHexOffsets.all (hexPairAt s)

/-- `strings.EqualFold(a, "urn:uuid:")` — none of these letters has a non-ASCII case fold -/
def isUrnPrefix (a : Str) : Bool := a.map toLowerC = "urn:uuid:".toList

def uuidParse (s : Str) : Bool :=
  if s.length = 36 then parseDashed s
  else if s.length = 36 + 9 then isUrnPrefix (s.take 9) && parseDashed (s.drop 9)
  else if s.length = 36 + 2 then parseDashed (s.drop 1)
  else if s.length = 32 then (List.range 16).all (fun i => hexPairAt s (2 * i))
  else false

/-- `uuid.Validate` of the same library: the same grammar, but the 38-byte form must really be `{` … `}` -/
def uuidValidate (s : Str) : Bool :=
  if s.length = 36 then parseDashed s
  else if s.length = 36 + 9 then isUrnPrefix (s.take 9) && parseDashed (s.drop 9)
  else if s.length = 36 + 2 then s.head? = some '{' && s.getLast? = some '}' && parseDashed (s.drop 1)
  else if s.length = 32 then (List.range 16).all (fun i => hexPairAt s (2 * i))
  else false

/-- which library function `bestPracticesCheck` applies to the jti (REGENERATED FACT `jtiFunction`) -/
inductive JtiFn where
  | parse
  | validate
  deriving Repr, DecidableEq

def jtiOK : JtiFn → Str → Bool
  | .parse, s => uuidParse s
  | .validate, s => uuidValidate s

/-- the canonical 36-byte text: five hex groups 8-4-4-4-12 joined by `-` -/
def isCanonicalUuid (s : Str) : Bool := s.length = 36 && parseDashed s

end Nuts.C04
