/-
  C04 — from the header block of the request (the lines between the request line and the empty line, as written on the
  wire) to the string `authenticationCredential` works on:  context.Request().Header.Get("Authorization")
  (/repo/http/tokenV2/middleware.go).  net/http (contract, exercised over raw TCP): every line is `name ":" value`; the name
  is canonicalised (textproto.CanonicalMIMEHeaderKey: first letter and every letter after a '-' upper case, the others lower
  case), blanks and tabs around the value are dropped; `Header.Get` returns the value of the FIRST line with that name
  ("" when there is none).  A line that starts with a blank or tab continues the line before it (obs-fold: joined with one
  blank); a block that starts with such a line, a line without colon, a name that is empty or has a byte outside the token
  alphabet, a value with a control byte: net/http answers 400 before any handler runs (`headerValue = none`).  Core Lean only.
-/
import NutsModel.C04.Token
import NutsModel.C04.Limiter

namespace Nuts.C04

def toUpperC (c : Char) : Char := if 'a' ≤ c && c ≤ 'z' then Char.ofNat (c.toNat - 32) else c

/-- CanonicalMIMEHeaderKey on a valid header name; `up` = the next letter is written in upper case -/
def canonAux : Bool → Str → Str
  | _, [] => []
  | up, c :: r => (if up then toUpperC c else toLowerC c) :: canonAux (c = '-') r

def canonicalKey (name : Str) : Str := canonAux true name

/-- `name ":" value` split at the first colon; `none` for a line without colon -/
def splitLine : Str → Option (Str × Str)
  | [] => none
  | c :: r => if c = ':' then some ([], r) else (splitLine r).map (fun nv => (c :: nv.1, nv.2))

/-- is this the line of header `key` (canonical form)? -/
def lineIs (key : Str) (l : Str) : Bool :=
  match splitLine l with
  | some (n, _) => canonicalKey n = key
  | none => false

/-- the (blank-trimmed) value of a line -/
def lineValue (l : Str) : Str :=
  match splitLine l with
  | some (_, v) => trimBlank v
  | none => []

/-- `Header.Get(key)` on the header block: the value of the first line named `key`, `[]` when there is none -/
def headerGet (key : Str) : List Str → Str
  | [] => []
  | l :: rest => if lineIs key l then lineValue l else headerGet key rest

def authorizationKey : Str := "Authorization".toList

/-- the middleware's decision on a request with this header block; `analysis` = what the libraries say about a header value -/
def headerDecision (P : Policy) (audience : String) (keys : List AuthKey) (now : Int) (lines : List Str) (analysis : Str → Analysis) : Decision :=
  let v := headerGet authorizationKey lines
  tokenDecision P audience keys now v (analysis v)

/-! ### the whole block as net/http reads it (textproto.ReadMIMEHeader + the server's validity checks) -/

def isTokenC (c : Char) : Bool :=
  ('a' ≤ c && c ≤ 'z') || ('A' ≤ c && c ≤ 'Z') || ('0' ≤ c && c ≤ '9') || "!#$%&'*+-.^_`|~".toList.contains c

/-- httpguts.ValidHeaderFieldName -/
def validName (n : Str) : Bool := n ≠ [] && n.all isTokenC

/-- httpguts.ValidHeaderFieldValue: no control bytes except TAB (bytes ≥ 0x80 pass) -/
def validValueC (c : Char) : Bool := c = '\t' || (c.toNat ≥ 0x20 && c.toNat ≠ 0x7f)

/-- continuation lines joined to the line they continue (readContinuedLineSlice: both sides trimmed, one blank between) -/
def unfoldAux (cur : Str) : List Str → List Str
  | [] => [cur]
  | l :: rest =>
    match l with
    | c :: _ => if isBlankC c then unfoldAux (trimBlank cur ++ ' ' :: trimBlank l) rest else cur :: unfoldAux l rest
    | [] => cur :: unfoldAux l rest

/-- `none`: the block starts with a continuation line ("malformed MIME header initial line") -/
def unfoldLines : List Str → Option (List Str)
  | [] => some []
  | l :: rest =>
    match l with
    | c :: _ => if isBlankC c then none else some (unfoldAux l rest)
    | [] => some (unfoldAux l rest)

def lineOK (l : Str) : Bool :=
  match splitLine l with
  | some (n, v) => validName n && (trimBlank v).all validValueC
  | none => false

/-- what the middleware gets from `Header.Get(key)` for a header block as written; `none` = the request is answered 400 by
    net/http and no handler (no middleware) runs -/
def headerValue (key : Str) (lines : List Str) : Option Str :=
  match unfoldLines lines with
  | none => none
  | some ls => if ls.all lineOK then some (headerGet key ls) else none

/-- one request given by its request line AND its header block, on the chain guard -> limiter -> router -/
def serveConnH (P : Policy) (audience : String) (keys : List AuthKey) (now : Int) (analysis : Str → Analysis)
    (authOK : Str → Bool) (sel : Selector) (authPath : Str) (authOn : Bool) (lim : LimCfg) (regs : List Registered)
    (lines : List Str) (method : String) (target : Str) (b : Nat) : Response × Nat :=
  match headerValue authorizationKey lines with
  | none => ({ status := 400, ran := none, user := none }, b)
  | some v => serveConnL authOK sel authPath authOn lim regs (tokenDecision P audience keys now v (analysis v)) method target b

end Nuts.C04
