/-
  C04 — from the header block of the request (the lines between the request line and the empty line, as written on the
  wire) to the string `authenticationCredential` works on:  context.Request().Header.Get("Authorization")
  (/repo/http/tokenV2/middleware.go).  net/http (contract, exercised over raw TCP): every line is `name ":" value`; the name
  is canonicalised (textproto.CanonicalMIMEHeaderKey: first letter and every letter after a '-' upper case, the others lower
  case), blanks and tabs around the value are dropped; `Header.Get` returns the value of the FIRST line with that name
  ("" when there is none).  Not modelled: continuation lines (obs-fold), names with bytes outside the token alphabet and
  lines without a colon (net/http answers 400 before any handler runs).  Core Lean only.
-/
import NutsModel.C04.Token

namespace Nuts.C04

def toUpperC (c : Char) : Char := if 'a' ≤ c && c ≤ 'z' then Char.ofNat (c.toNat - 32) else c

/-- CanonicalMIMEHeaderKey on a valid header name; `up` = the next letter is written in upper case -/
def canonAux : Bool → Str → Str
  | _, [] => []
  | up, c :: r => (if up then toUpperC c else toLowerC c) :: canonAux (c = '-') r

def canonicalKey (name : Str) : Str := canonAux true name

/-- `name ":" value` split at the first colon; `none` for a line without colon -/
def splitLine : Str → Option (Str × Str)
  | [] => none
  | c :: r => if c = ':' then some ([], r) else (splitLine r).map (fun nv => (c :: nv.1, nv.2))

/-- is this the line of header `key` (canonical form)? -/
def lineIs (key : Str) (l : Str) : Bool :=
  match splitLine l with
  | some (n, _) => canonicalKey n = key
  | none => false

/-- the (blank-trimmed) value of a line -/
def lineValue (l : Str) : Str :=
  match splitLine l with
  | some (_, v) => trimBlank v
  | none => []

/-- `Header.Get(key)` on the header block: the value of the first line named `key`, `[]` when there is none -/
def headerGet (key : Str) : List Str → Str
  | [] => []
  | l :: rest => if lineIs key l then lineValue l else headerGet key rest

def authorizationKey : Str := "Authorization".toList

/-- the middleware's decision on a request with this header block; `analysis` = what the libraries say about a header value -/
def headerDecision (P : Policy) (audience : String) (keys : List AuthKey) (now : Int) (lines : List Str) (analysis : Str → Analysis) : Decision :=
  let v := headerGet authorizationKey lines
  tokenDecision P audience keys now v (analysis v)

end Nuts.C04
