/-
  C17 — one acceptance function per consumer of signed tokens, each mirroring the checks of the Go function in code
  order, over an abstract token. What jwx says about the concrete bytes (does it parse, which signatures with which
  protected headers, does signature i verify with key k and algorithm a over its own signing input) is DATA supplied
  by the harness from the real library; the key sources of the protocols are parameters.

    crypto/jwx.go            JWTKidAlg + ParseJWT        -> `parseJWT`
    crypto/jwx.go            ParseJWS                    -> `parseJWS`   (two regenerated switches: signature-count
                                                                          test, what the signature is verified over)
    crypto/dpop/dpop.go      Parse                       -> `dpopParse`
    network/dag/parser.go    ParseTransaction + verifier.go NewTransactionSignatureVerifier -> `dagTx`
    http/tokenV2/middleware  checkConnectionAuthorization -> `apiToken`   (NutsModel/C04/Token.lean)
    auth/api/iam/jar.go      validate                    -> `jarValidate` (on top of parseJWT)
    vcr/signature/proof/jsonld.go LDProof.Verify         -> `ldProofVerify`
  Core Lean only.
-/
import NutsModel.C04.Token

namespace Nuts.C17
open Nuts.C04 (Policy Analysis Claims AuthKey Decision tokenDecision SigRule)

inductive JwkKind where
  | absent | pub | priv | sym
  deriving Repr, DecidableEq

/-- protected headers of one signature as jwx exposes them -/
structure Sig where
  alg : String
  kid : String            -- ProtectedHeaders().KeyID(), "" when absent
  jwk : JwkKind           -- ProtectedHeaders().JWK(): absent / public / private / symmetric
  hdrs : List String      -- which of jwk, jku, x5c, x5u are present
  typ : String
  deriving Repr, DecidableEq

structure Jws where
  parses : Bool           -- jws.Parse succeeded
  sigs : List Sig         -- message.Signatures()
  splitOK : Bool          -- jws.SplitCompact(token) succeeded (>= 3 dot-separated parts)
  deriving Repr, DecidableEq

abbrev Key := String      -- an opaque key identity

/-- where the key of a successful verification came from -/
inductive KeySrc where
  | resolver (kid : String)       -- the protocol's key source, asked by kid (DID document, client key set …)
  | embedded (idx : Nat)          -- the jwk header of signature idx
  | authorizedKeys (idx : Nat)    -- the idx-th line of the authorized_keys file
  | caller                        -- handed in by the caller (LD proofs: resolved from the proof's verification method)
  deriving Repr, DecidableEq

/-- one successful signature verification: key, its source, algorithm used, index of the signature, and whether
    the bytes verified were that signature's own JWS signing input (protected header `.` payload) -/
structure Verified where
  key : Key
  src : KeySrc
  alg : String
  idx : Nat
  overSigningInput : Bool
  deriving Repr, DecidableEq

inductive Outcome where
  | reject
  | accept (vs : List Verified)
  deriving Repr, DecidableEq

def Outcome.accepted : Outcome → Bool
  | .accept _ => true
  | .reject => false

/-- the environment: the protocol's key source and jwx's verification verdicts on the concrete token -/
structure Env where
  resolve : String → Option Key             -- key source by kid
  embeddedKey : Nat → Option Key            -- key identity of the jwk header of signature i (public half)
  verifies : Key → String → Nat → Bool      -- signature i verifies with (key, alg) over ITS OWN signing input
  verifiesSplit : Key → String → Nat → Bool -- signature i verifies with (key, alg) over SplitCompact parts[0] "." parts[1]
  /-- jwx.AlgorithmFitsKey(alg, key): an ECDSA key only with the algorithm of its curve (jwx itself checks the family only) -/
  fits : Key → String → Bool := fun _ _ => true

/-! ### crypto.ParseJWT (JWTKidAlg: exactly one signature; key by kid callback; IsAlgorithmSupported; jwt.ParseString WithKey) -/

def parseJWT (supported : List String) (E : Env) (j : Jws) : Outcome :=
  if !j.parses then .reject
  else match j.sigs with
    | [s] =>
      match E.resolve s.kid with
      | none => .reject
      | some k =>
        if !supported.contains s.alg then .reject
        else if !E.fits k s.alg then .reject                       -- jwx.AlgorithmFitsKey
        else if E.verifies k s.alg 0 then .accept [{ key := k, src := .resolver s.kid, alg := s.alg, idx := 0, overSigningInput := true }]
        else .reject
    | _ => .reject

/-! ### crypto.ParseJWS -/

inductive CountRule where
  | none          -- no test on the number of signatures
  | exactlyOne    -- `!= 1` is rejected
  deriving Repr, DecidableEq

inductive VerifyMode where
  | splitCompact  -- hand-rolled: verifier.Verify(parts[0] "." parts[1], signature, key)
  | library       -- jws.Verify(token, WithKey(alg, key))
  deriving Repr, DecidableEq

/-- the per-signature loop of ParseJWS -/
def jwsLoop (supported : List String) (mode : VerifyMode) (E : Env) : Nat → List Sig → Option (List Verified)
  | _, [] => some []
  | i, s :: rest =>
    if !supported.contains s.alg then none
    else match E.resolve s.kid with
      | none => none
      | some k =>
        if !E.fits k s.alg then none else                          -- jwx.AlgorithmFitsKey
        let ok := match mode with
          | .splitCompact => E.verifiesSplit k s.alg i
          | .library => E.verifies k s.alg i
        if !ok then none
        else (jwsLoop supported mode E (i + 1) rest).map
          ({ key := k, src := .resolver s.kid, alg := s.alg, idx := i, overSigningInput := mode = .library } :: ·)

def parseJWS (supported : List String) (rule : CountRule) (mode : VerifyMode) (E : Env) (j : Jws) : Outcome :=
  if !j.parses then .reject
  else if mode = .splitCompact && !j.splitOK then .reject
  else if rule = .exactlyOne && j.sigs.length ≠ 1 then .reject
  else match jwsLoop supported mode E 0 j.sigs with
    | some vs => .accept vs
    | none => .reject

/-! ### dpop.Parse -/

def dpopParse (supported : List String) (typ : String) (E : Env) (claimsOK : Bool) (j : Jws) : Outcome :=
  if !j.parses then .reject
  else match j.sigs with
    | [s] =>
      if !supported.contains s.alg then .reject
      else if s.typ ≠ typ then .reject
      else if s.jwk = .absent then .reject
      else if s.jwk = .priv then .reject                  -- jwkIsPrivateKey
      else match E.embeddedKey 0 with
        | none => .reject
        | some k =>
          if !E.fits k s.alg then .reject                 -- jwx.AlgorithmFitsKey(alg, jwk)
          else if !E.verifies k s.alg 0 then .reject      -- jwt.ParseString(s, WithKey(alg, jwk))
          else if !claimsOK then .reject                  -- iat, htu, htm, jti present / bounded
          else .accept [{ key := k, src := .embedded 0, alg := s.alg, idx := 0, overSigningInput := true }]
    | _ => .reject

/-! ### dag.ParseTransaction + NewTransactionSignatureVerifier -/

def dagTx (allowed : List String) (rejectsPrivateJwk : Bool) (strictFraming : Bool) (E : Env) (otherHeadersOK : Bool)
    (framingOK : Bool) (j : Jws) : Outcome :=
  if !j.parses then .reject
  -- isJWSSerialization(input): a JSON object, or exactly three canonical unpadded base64url segments (a verdict on the
  -- concrete bytes, supplied as data)
  else if strictFraming && !framingOK then .reject
  else match j.sigs with
    | [] => .reject                                        -- "JWS does not contain any signature"
    | [s] =>
      if !allowed.contains s.alg then .reject              -- parseSigningAlgorithm
      else if !otherHeadersOK then .reject                 -- payload, cty, sigt, ver, prevs, pal, lc
      else if (s.jwk ≠ .absent && s.kid ≠ "") || (s.jwk = .absent && s.kid = "") then .reject   -- kid xor jwk
      else if rejectsPrivateJwk && s.jwk = .priv then .reject
      else
        let key := if s.jwk ≠ .absent then (E.embeddedKey 0).map (fun k => (k, KeySrc.embedded 0))
                   else (E.resolve s.kid).map (fun k => (k, KeySrc.resolver s.kid))
        match key with
        | none => .reject
        | some (k, src) =>
          if !E.fits k s.alg then .reject                    -- verifier.go: jwx.AlgorithmFitsKey(alg, signingKey)
          else if E.verifies k s.alg 0 then .accept [{ key := k, src := src, alg := s.alg, idx := 0, overSigningInput := true }]
          else .reject
    | _ :: _ :: _ => .reject                               -- "JWS contains multiple signature"

/-! ### internal-API bearer token (tokenV2): the C04 decision function; the verifying key is an authorized_keys line -/

def firstVerifying : Nat → List Bool → Option Nat
  | _, [] => none
  | i, b :: r => if b then some i else firstVerifying (i + 1) r

def apiToken (P : Policy) (audience : String) (keys : List AuthKey) (now : Int) (hdr : Nuts.C04.Str) (a : Analysis) : Outcome :=
  match tokenDecision P audience keys now hdr a with
  | .denied => .reject
  | .granted _ =>
    match firstVerifying 0 a.verifies with
    | some i => .accept [{ key := "authorized-key", src := .authorizedKeys i, alg := (a.sigs.head?.map (·.alg)).getD "", idx := 0,
                           overSigningInput := true }]
    | none => .accept []

/-! ### iam jar.validate: ParseJWT(WithValidate) with the DID key resolver, then the signer key must be published by the client -/

structure JarEnv where
  clientIdMatches : Bool                    -- client_id parameter == client_id claim
  configOK : Bool                           -- OpenID configuration of the client could be fetched
  clientKey : String → Option Key           -- configuration.JWKs.LookupKeyID(signerKid), identified by thumbprint

def jarValidate (supported : List String) (E : Env) (J : JarEnv) (j : Jws) : Outcome :=
  match parseJWT supported E j with
  | .reject => .reject
  | .accept vs =>
    if !J.clientIdMatches then .reject
    else if !J.configOK then .reject
    else match vs with
      | [v] =>
        (match v.src with
         | .resolver kid =>
           (match J.clientKey kid with
            | none => .reject                              -- "client_id does not own signer key"
            | some ck => if ck = v.key then .accept vs else .reject)   -- compareThumbprint
         | _ => .reject)
      | _ => .reject

/-! ### vcr/verifier signature_verifier.go jwtSignature (VC / VP in JWT format): ParseJWT with the DID key resolver (an
      absent kid means "the issuer's key"), then the kid must belong to the issuer. (`did:jwk` kids get `#0` appended
      before resolving: not modelled.) -/

def vcJwtSignature (supported : List String) (E : Env) (issuer : String) (didOf : String → String) (j : Jws) : Outcome :=
  let E' : Env := { E with resolve := fun kid => E.resolve (if kid = "" then issuer else kid) }
  match parseJWT supported E' j with
  | .reject => .reject
  | .accept vs =>
    match j.sigs with
    | [s] => if s.kid ≠ "" && didOf s.kid ≠ issuer then .reject else .accept vs   -- errVerificationMethodNotOfIssuer
    | _ => .reject

/-! ### auth/services/oauth authz_server.go (v1 JWT bearer grant): parseAndValidateJwtBearerToken = ParseJWT with the DID key
      resolver, then validateIssuer: `iss` must parse as a DID and becomes the requester; `checksKid` (regenerated fact):
      the kid must be a DID URL of that very DID. -/

def authzV1 (supported : List String) (checksKid : Bool) (E : Env) (issuer : String) (issuerParses : Bool)
    (didOf : String → String) (j : Jws) : Outcome :=
  match parseJWT supported E j with
  | .reject => .reject
  | .accept vs =>
    if !issuerParses then .reject
    else match j.sigs with
      | [s] => if checksKid && didOf s.kid ≠ issuer then .reject else .accept vs
      | _ => .reject

/-! ### LDProof.Verify: the algorithm comes from the key handed in by the caller; the detached JWS header is not read -/

structure LdEnv where
  keyAlg : Key → Option String              -- crypto.SignatureAlgorithm(key)
  verifiesDetached : Key → String → Bool    -- jws verifier over header ".." digest(proof) ++ digest(document)
  /-- jwx.AlgorithmFitsKey(alg, key) (e.g. an Ed25519 key of the wrong length does not fit) -/
  fits : Key → String → Bool := fun _ _ => true

def ldProofVerify (L : LdEnv) (key : Key) (canonicalizes : Bool) (jwsParts : Nat) (sigDecodes : Bool) : Outcome :=
  if !canonicalizes then .reject
  else match L.keyAlg key with
    | none => .reject
    | some alg =>
      if !L.fits key alg then .reject
      else if jwsParts ≠ 2 then .reject
      else if !sigDecodes then .reject
      else if L.verifiesDetached key alg then
        .accept [{ key := key, src := .caller, alg := alg, idx := 0, overSigningInput := true }]
      else .reject

/-! ### vcr/verifier signature_verifier.go jsonldProof (VC / VP with a JSON-LD proof): the proof's verificationMethod must be a
      key of the issuer, the proof must be valid at the time, the key is resolved by that verificationMethod, then
      LDProof.Verify -/

def vcJsonLdProof (E : Env) (L : LdEnv) (proofIsObject : Bool) (issuer vm : String) (didOf : String → String) (validAt : Bool)
    (canonicalizes : Bool) (jwsParts : Nat) (sigDecodes : Bool) : Outcome :=
  if !proofIsObject then .reject                                  -- UnmarshalProofValue: a `proof` array (proof set) does not unmarshal
  else if vm = "" then .reject                                    -- "missing proof"
  else if didOf vm = "" || didOf vm ≠ issuer then .reject          -- errVerificationMethodNotOfIssuer
  else if !validAt then .reject
  else match E.resolve vm with
    | none => .reject
    | some k => ldProofVerify L k canonicalizes jwsParts sigDecodes

/-! ### crypto/jwx/algorithm.go AlgorithmFitsKey : which algorithm goes with which key (jwx itself only checks the family) -/

/-- what the helper looks at: the ECDSA curve (by NAME), the length of an Ed25519 public key; every other key type is waved through -/
inductive KeyShape where
  | ecdsa (curve : String)
  | ed25519 (len : Nat)
  | other
  deriving Repr, DecidableEq

/-- RFC 7518 3.4: THE algorithm of a NIST curve -/
def algOfCurve : String → Option String
  | "P-256" => some "ES256"
  | "P-384" => some "ES384"
  | "P-521" => some "ES512"
  | _ => none

def algorithmFitsKey (alg : String) : KeyShape → Bool
  | .ecdsa c =>
    match algOfCurve c with
    | some a => alg == a
    | none => true                -- a curve the helper does not know (secp256k1 with the ES256K build tag, P-224): left to jwx
  | .ed25519 n => alg == "EdDSA" && n == 32
  | .other => true

end Nuts.C17
