/-
  C17 — "verified over the exact bytes received … re-encoding the compact form", on the BYTES.

    network/dag/parser.go  isJWSSerialization(input)  -> `isJWSSerialization`
        bytes.TrimLeftFunc(input, unicode.IsSpace) + `trimmed[0] == '{'`          -> `trimLeftSpace`, `jsonLead`
        bytes.Split(input, []byte{'.'}), `len(segments) != 3`                     -> `splitDot`, `segments`
        base64.RawURLEncoding.DecodeString / EncodeToString, re-encode-and-compare -> `decode`, `encode`, `canonical`
    network/dag/parser.go  ParseTransaction, its first two exits                   -> `parseTxFraming`
    crypto/jwx.go          SignatureAlgorithm / ecAlgUsingPublicKey                -> `signatureAlgorithm`

  The base64 decoder mirrors Go's encoding/base64 for an encoding WITHOUT padding in non-strict mode: CR and LF are
  skipped wherever they stand, every other byte outside the alphabet is an error, a lone trailing character is an
  error, unused trailing bits are ignored. (That tolerance is why the Go code re-encodes and compares.)
  Bytes are `Nat`s below 256 (the driver feeds decoded hex). Core Lean only.
-/
namespace Nuts.C17.Framing

abbrev Bytes := List Nat

/-! ### encoding/base64, URL alphabet, no padding -/

def alphabet : String := "ABCDEFGHIJKLMNOPQRSTUVWXYZabcdefghijklmnopqrstuvwxyz0123456789-_"

/-- decodeMap: position of a byte in the alphabet -/
def idx (c : Nat) : Option Nat :=
  if 65 ≤ c ∧ c ≤ 90 then some (c - 65)
  else if 97 ≤ c ∧ c ≤ 122 then some (c - 71)
  else if 48 ≤ c ∧ c ≤ 57 then some (c + 4)
  else if c = 45 then some 62
  else if c = 95 then some 63
  else none

/-- the alphabet character of a sextet (sextets are below 64 for bytes below 256: `encSextets_lt`) -/
def chr (s : Nat) : Nat :=
  if s < 26 then s + 65 else if s < 52 then s + 71 else if s < 62 then s - 4 else if s = 62 then 45 else 95

/-- the sextets of the characters; CR / LF skipped, anything else outside the alphabet fails -/
def sextets : Bytes → Option (List Nat)
  | [] => some []
  | c :: r =>
    if c = 10 ∨ c = 13 then sextets r
    else match idx c with
      | none => none
      | some s => (sextets r).map (s :: ·)

/-- decodeQuantum over the sextets: 4 -> 3 bytes; a tail of 3 -> 2 bytes, of 2 -> 1 byte (trailing bits dropped), of 1 -> error -/
def decSextets : List Nat → Option Bytes
  | a :: b :: c :: d :: rest => (decSextets rest).map (fun t => (a * 4 + b / 16) :: ((b % 16) * 16 + c / 4) :: ((c % 4) * 64 + d) :: t)
  | [a, b, c] => some [a * 4 + b / 16, (b % 16) * 16 + c / 4]
  | [a, b] => some [a * 4 + b / 16]
  | [_] => none
  | [] => some []

def decode (s : Bytes) : Option Bytes := (sextets s).bind decSextets

def encSextets : Bytes → List Nat
  | x :: y :: z :: rest => (x / 4) :: ((x % 4) * 16 + y / 16) :: ((y % 16) * 4 + z / 64) :: (z % 64) :: encSextets rest
  | [x, y] => [x / 4, (x % 4) * 16 + y / 16, (y % 16) * 4]
  | [x] => [x / 4, (x % 4) * 16]
  | [] => []

def encode (b : Bytes) : Bytes := (encSextets b).map chr

/-- `decoded, err := DecodeString(segment); err != nil || EncodeToString(decoded) != segment` negated -/
def canonical (seg : Bytes) : Bool :=
  match decode seg with
  | none => false
  | some d => encode d == seg

/-! ### bytes.TrimLeftFunc(input, unicode.IsSpace): the UTF-8 encodings of the White_Space runes; an invalid sequence
      decodes to U+FFFD which is no space -/

def spaceSeqs : List Bytes :=
  [[9], [10], [11], [12], [13], [32], [0xC2, 0x85], [0xC2, 0xA0], [0xE1, 0x9A, 0x80],
   [0xE2, 0x80, 0x80], [0xE2, 0x80, 0x81], [0xE2, 0x80, 0x82], [0xE2, 0x80, 0x83], [0xE2, 0x80, 0x84], [0xE2, 0x80, 0x85],
   [0xE2, 0x80, 0x86], [0xE2, 0x80, 0x87], [0xE2, 0x80, 0x88], [0xE2, 0x80, 0x89], [0xE2, 0x80, 0x8A],
   [0xE2, 0x80, 0xA8], [0xE2, 0x80, 0xA9], [0xE2, 0x80, 0xAF], [0xE2, 0x81, 0x9F], [0xE3, 0x80, 0x80]]

def stripSpace (b : Bytes) : Option Bytes :=
  spaceSeqs.findSome? (fun p => if p.isPrefixOf b then some (b.drop p.length) else none)

def trimN : Nat → Bytes → Bytes
  | 0, b => b
  | n + 1, b => match stripSpace b with
    | some r => trimN n r
    | none => b

/-- every strip removes at least one byte, so `length` rounds are enough -/
def trimLeftSpace (b : Bytes) : Bytes := trimN b.length b

def jsonLead (b : Bytes) : Bool :=
  match trimLeftSpace b with
  | c :: _ => c == 123
  | [] => false

/-! ### bytes.Split(input, "."): first segment and the remaining ones (an input without dot is ONE segment) -/

def splitDot : Bytes → Bytes × List Bytes
  | [] => ([], [])
  | c :: r =>
    let p := splitDot r
    if c = 46 then ([], p.1 :: p.2) else (c :: p.1, p.2)

def joinDot : Bytes → List Bytes → Bytes
  | h, [] => h
  | h, x :: t => h ++ 46 :: joinDot x t

def segments (b : Bytes) : List Bytes := (splitDot b).1 :: (splitDot b).2

def isJWSSerialization (b : Bytes) : Bool :=
  if jsonLead b then true
  else if (segments b).length ≠ 3 then false
  else (segments b).all canonical

/-! ### ParseTransaction, first two exits in code order: jws.Parse (a verdict), then the framing of the bytes -/

inductive TxFraming where
  | errParse | errFraming | pass
  deriving Repr, DecidableEq

def parseTxFraming (strictFraming : Bool) (jwsParses : Bool) (b : Bytes) : TxFraming :=
  if !jwsParses then .errParse
  else if strictFraming && !isJWSSerialization b then .errFraming
  else .pass

/-! ### crypto.SignatureAlgorithm(key): the algorithm DERIVED from a key (LD proofs verify with it, signing uses it) -/

/-- what the type switches of SignatureAlgorithm look at -/
inductive KeyKind where
  | nil                       -- `key == nil`
  | rsa                       -- rsa.PublicKey / PrivateKey, value or pointer
  | ecdsa (bitSize : Nat)     -- ecdsa.PublicKey / PrivateKey, value or pointer: Params().BitSize
  | ed25519                   -- ed25519.PublicKey / PrivateKey (any length)
  | other                     -- every other Go type (jwk.Key, []byte, string, *ed25519.PublicKey …)
  deriving Repr, DecidableEq

/-- ecAlgUsingPublicKey: the table is a parameter (regenerated from the `switch key.Params().BitSize`) -/
def ecAlgOfBits (table : List (Nat × String)) (bits : Nat) : Option String :=
  (table.find? (·.1 == bits)).map (·.2)

def signatureAlgorithm (table : List (Nat × String)) (rsaAlg edAlg : String) : KeyKind → Option String
  | .nil => none
  | .rsa => some rsaAlg
  | .ecdsa bits => ecAlgOfBits table bits
  | .ed25519 => some edAlg
  | .other => none

end Nuts.C17.Framing
