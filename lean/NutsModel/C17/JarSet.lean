/-
  C17 — auth/api/iam/jar.go validate, the tail that binds the verified signer key to the client: the client's published
  key set as a LIST of entries (jwx `jwk.Set`), `configuration.JWKs.LookupKeyID(signerKid)` (jwx: the FIRST entry whose
  KeyID() equals the argument, exact string comparison), the `!exists` exit, and `compareThumbprint` with its error exits
  (thumbprint of the published entry, jwk.FromRaw + thumbprint of the key the DID resolver returned, bytes.Equal).
  In TokenPolicy.`jarValidate` this was ONE opaque function `clientKey : String → Option Key` handed in by the harness.
  Core Lean only.
-/
import NutsModel.C17.TokenPolicy

namespace Nuts.C17.JarSet
open Nuts.C17

/-- one entry of the client's published key set: its `kid` member and its SHA-256 thumbprint (`none`: Thumbprint errs) -/
structure Entry where
  kid : String
  tp : Option String
  deriving Repr, DecidableEq

/-- jwx `set.LookupKeyID(kid)`: linear scan, first entry with `KeyID() == kid` -/
def lookupKeyID (kid : String) : List Entry → Option Entry
  | [] => none
  | e :: r => if e.kid = kid then some e else lookupKeyID kid r

/-- jar.go compareThumbprint(configurationKey, publicKey) == nil; `signerTp` = jwk.FromRaw(publicKey).Thumbprint (none: error) -/
def compareThumbprint (cfg : Entry) (signerTp : Option String) : Bool :=
  match cfg.tp with
  | none => false                                   -- configurationKey.Thumbprint err
  | some l =>
    match signerTp with
    | none => false                                 -- jwk.FromRaw / signerKey.Thumbprint err
    | some r => l == r                              -- !bytes.Equal → "key thumbprints do not match"

structure SetEnv where
  clientIdMatches : Bool                    -- client_id parameter == client_id claim
  configOK : Bool                           -- OpenID configuration of the client could be fetched
  keys : List Entry                         -- configuration.JWKs, in order
  tpOf : Key → Option String                -- thumbprint of the key the DID resolver returned

/-- which exit jar.validate takes (the OAuth2 error descriptions of the source) -/
inductive Exit where
  | sigInvalid | clientIdClaim | configUnavailable | notOwner | keyMismatch | ok
  deriving Repr, DecidableEq

def Exit.show : Exit → String
  | .sigInvalid => "request signature validation failed"
  | .clientIdClaim => "invalid client_id claim in signed authorization request"
  | .configUnavailable => "failed to retrieve OpenID configuration"
  | .notOwner => "client_id does not own signer key"
  | .keyMismatch => "key mismatch between OpenID configuration and signer key"
  | .ok => "ok"

/-- jar.validate in code order, with the exit taken -/
def validateExit (supported : List String) (E : Env) (J : SetEnv) (j : Jws) : Exit × Outcome :=
  match parseJWT supported E j with
  | .reject => (.sigInvalid, .reject)
  | .accept vs =>
    if !J.clientIdMatches then (.clientIdClaim, .reject)
    else if !J.configOK then (.configUnavailable, .reject)
    else match vs with
      | [v] =>
        (match v.src with
         | .resolver kid =>                                         -- signerKid: the kid the key callback was called with
           (match lookupKeyID kid J.keys with
            | none => (.notOwner, .reject)                           -- `!exists`
            | some e => if compareThumbprint e (J.tpOf v.key) then (.ok, .accept vs) else (.keyMismatch, .reject))
         | _ => (.sigInvalid, .reject))
      | _ => (.sigInvalid, .reject)

def validate (supported : List String) (E : Env) (J : SetEnv) (j : Jws) : Outcome := (validateExit supported E J j).2

/-- the abstraction to TokenPolicy.`JarEnv` when a key's identity IS its thumbprint -/
def SetEnv.abstract (J : SetEnv) : JarEnv :=
  { clientIdMatches := J.clientIdMatches, configOK := J.configOK,
    clientKey := fun kid => (lookupKeyID kid J.keys).bind (·.tp) }

/-- the rule of the seeded mutation C17-w8m2: scan ALL entries with the kid, remember the last mismatch, no "found" case -/
def loopNoFound (kid : String) (signerTp : Option String) : List Entry → Bool → Bool
  | [], mismatch => !mismatch
  | e :: r, mismatch =>
    if e.kid ≠ kid then loopNoFound kid signerTp r mismatch
    else if compareThumbprint e signerTp then true else loopNoFound kid signerTp r true

end Nuts.C17.JarSet
