/-
  C17 — JSON-LD documents: "verified over the exact bytes received". URDNA2015 canonicalisation drops members no context
  defines (they are NOT signed), while encoding/json matches member names under Unicode simple case folding. A document in which
  an object holds two members whose names fold to the same string is therefore refused before the proof is looked at.

    vcr/verifier/signature_verifier.go  foldRune          -> `foldRuneLoop`, `foldRune`   (smallest rune of the SimpleFold orbit)
                                        strings.Map(foldRune, name) -> `foldName`
                                        ambiguousMember   -> `ambVal` / `ambList` / `ambMembers` (Go's map iteration order = the list order)
                                        jsonldProof, the exit before the proof is unmarshalled -> `vcJsonLdDoc`
  unicode.SimpleFold is modelled for ASCII and the two non-ASCII members of ASCII orbits (U+017F LONG S, U+212A KELVIN SIGN);
  every other rune is a parameter. Core Lean only.
-/
import NutsModel.C17.TokenPolicy

namespace Nuts.C17.Fold

/-- unicode.SimpleFold: the next rune of the orbit. K -> k -> U+212A -> K, S -> s -> U+017F -> S, other letters A <-> a -/
def simpleFold (other : Nat → Nat) (r : Nat) : Nat :=
  if r = 75 then 107 else if r = 107 then 0x212A else if r = 0x212A then 75
  else if r = 83 then 115 else if r = 115 then 0x17F else if r = 0x17F then 83
  else if 65 ≤ r ∧ r ≤ 90 then r + 32
  else if 97 ≤ r ∧ r ≤ 122 then r - 32
  else if r < 128 then r
  else other r

/-- `for folded := SimpleFold(r); folded != r; folded = SimpleFold(folded) { if folded < result { result = folded } }` (fuel: orbits
    have at most 4 members) -/
def foldRuneLoop (sf : Nat → Nat) (r : Nat) : Nat → Nat → Nat → Nat
  | 0, _, result => result
  | n + 1, folded, result =>
    if folded = r then result
    else foldRuneLoop sf r n (sf folded) (if folded < result then folded else result)

def foldRune (sf : Nat → Nat) (r : Nat) : Nat := foldRuneLoop sf r 8 (sf r) r

def foldName (sf : Nat → Nat) (s : String) : String :=
  String.ofList (s.toList.map (fun c => Char.ofNat (foldRune sf c.toNat)))

/-- strings.ToLower on the same runes (what a "simplified" guard would use): LONG S is already lower case, KELVIN -> k -/
def toLowerRune (r : Nat) : Nat :=
  if 65 ≤ r ∧ r ≤ 90 then r + 32 else if r = 0x212A then 107 else r

/-! ### the JSON value the guard walks -/

mutual
  inductive JVal where
    | leaf
    | arr (items : JList)
    | obj (members : JMembers)
  inductive JList where
    | nil
    | cons (v : JVal) (rest : JList)
  inductive JMembers where
    | nil
    | cons (name : String) (v : JVal) (rest : JMembers)
end

mutual
  /-- ambiguousMember(value): the name found, `none` for Go's "" -/
  def ambVal (fold : String → String) : JVal → Option String
    | .leaf => none
    | .arr l => ambList fold l
    | .obj m => ambMembers fold [] m
  def ambList (fold : String → String) : JList → Option String
    | .nil => none
    | .cons v r =>
      match ambVal fold v with
      | some n => some n
      | none => ambList fold r
  /-- the loop over one object: `names` so far, in iteration order -/
  def ambMembers (fold : String → String) (seen : List String) : JMembers → Option String
    | .nil => none
    | .cons name v r =>
      if seen.contains (fold name) then some name
      else match ambVal fold v with
        | some n => some n
        | none => ambMembers fold (fold name :: seen) r
end

/-! ### every object of the document, at every depth: its member names -/

def namesOf : JMembers → List String
  | .nil => []
  | .cons n _ r => n :: namesOf r

mutual
  def objsVal : JVal → List (List String)
    | .leaf => []
    | .arr l => objsList l
    | .obj m => namesOf m :: objsMembers m
  def objsList : JList → List (List String)
    | .nil => []
    | .cons v r => objsVal v ++ objsList r
  def objsMembers : JMembers → List (List String)
    | .nil => []
    | .cons _ v r => objsVal v ++ objsMembers r
end

/-- jsonldProof up to and including the guard, then the rest (`vcJsonLdProof`); `docOK`: NewSignedDocument succeeded;
    `structVariant`: a top-level member that is a case variant of a field of the Go type the document was decoded into -/
def vcJsonLdDoc (fold : String → String) (docOK structVariant : Bool) (doc : JVal) (rest : Outcome) : Outcome :=
  if !docOK then .reject
  else if structVariant then .reject
  else match ambVal fold doc with
    | some _ => .reject
    | none => rest

end Nuts.C17.Fold
